package rt

// JSON codec operations of the reflection driver (C06 C07 C08):
//   jsonenc: build a value of a generated type from a structural description, MarshalJSON it,
//            check validity / duplicate keys, canonicalise, decode it back and compare.
//   jsondec: Unmarshal a document into a generated type, dump the value or classify the
//            error, re-encode and canonicalise.

import (
	"bytes"
	"encoding/hex"
	"encoding/json"
	"fmt"
	"io"
	"reflect"
	"regexp"
	"sort"
	"strconv"
	"strings"
	"time"
)

func init() {
	ops["jsonenc"] = jsonEnc
	ops["jsondec"] = jsonDec
	ops["jsonshape"] = jsonShape
}

// Val is the structural value description shared by the harness, this driver and the Lean model.
type Val struct {
	K string               `json:"k"`           // s i f b t null unset arr nilarr obj alt any
	V json.RawMessage      `json:"v,omitempty"` // leaf payload / array elements / alt payload / raw json
	F []Val                `json:"f,omitempty"` // obj: fields in struct order
	X [][2]json.RawMessage `json:"x,omitempty"` // obj: additional properties [key, val]
	I int                  `json:"i,omitempty"` // alt: variant index
	C string               `json:"c,omitempty"` // leaf: canonical JSON text (for the Lean model; ignored here)
	D string               `json:"d,omitempty"` // leaf: canonical dump text (for the Lean model; ignored here)
}

// CanonAny / CanonJSON are exported for the harness (one canonical form on both sides).
func CanonAny(x any) string      { return canonAny(x) }
func CanonJSON(bs []byte) string { return canonJSON(bs) }
func Hx(s string) string         { return hx(s) }

type jsonArgs struct {
	Type string `json:"type"`
	Val  *Val   `json:"val"`
	Doc  string `json:"doc"`
}

func isWrapper(t reflect.Type, name string) bool {
	return t.Kind() == reflect.Struct && strings.HasPrefix(t.Name(), name+"[")
}

// build sets v (addressable) from the description.
func build(v reflect.Value, d *Val) error {
	t := v.Type()
	if isWrapper(t, "Maybe") {
		if d.K == "unset" {
			v.Set(reflect.Zero(t))
			return nil
		}
		v.FieldByName("IsSet").SetBool(true)
		return build(v.FieldByName("Value"), d)
	}
	if isWrapper(t, "Nullable") {
		if d.K == "null" {
			v.Set(reflect.Zero(t))
			return nil
		}
		v.FieldByName("IsSet").SetBool(true)
		return build(v.FieldByName("Value"), d)
	}
	switch d.K {
	case "s":
		var s string
		json.Unmarshal(d.V, &s)
		if v.Kind() != reflect.String {
			return fmt.Errorf("string into %s", t)
		}
		v.SetString(s)
	case "i":
		var s string
		json.Unmarshal(d.V, &s)
		n, _ := strconv.ParseInt(s, 10, 64)
		switch v.Kind() {
		case reflect.Int, reflect.Int8, reflect.Int16, reflect.Int32, reflect.Int64:
			v.SetInt(n)
		case reflect.Float32, reflect.Float64:
			v.SetFloat(float64(n))
		default:
			return fmt.Errorf("int into %s", t)
		}
	case "f":
		var s string
		json.Unmarshal(d.V, &s)
		f, _ := strconv.ParseFloat(s, 64)
		if v.Kind() != reflect.Float32 && v.Kind() != reflect.Float64 {
			return fmt.Errorf("float into %s", t)
		}
		v.SetFloat(f)
	case "b":
		var b bool
		json.Unmarshal(d.V, &b)
		if v.Kind() != reflect.Bool {
			return fmt.Errorf("bool into %s", t)
		}
		v.SetBool(b)
	case "t":
		var s string
		json.Unmarshal(d.V, &s)
		tm, err := time.Parse(time.RFC3339Nano, s)
		if err != nil {
			return err
		}
		if !t.ConvertibleTo(timeType) {
			return fmt.Errorf("time into %s", t)
		}
		v.Set(reflect.ValueOf(tm).Convert(t))
	case "any":
		switch {
		case t == reflect.TypeOf(json.RawMessage(nil)):
			v.SetBytes(append([]byte{}, d.V...))
		case v.Kind() == reflect.Interface:
			var x any
			json.Unmarshal(d.V, &x)
			if x != nil {
				v.Set(reflect.ValueOf(x))
			}
		default:
			return fmt.Errorf("any into %s", t)
		}
	case "nilarr":
		if v.Kind() != reflect.Slice {
			return fmt.Errorf("nil slice into %s", t)
		}
		v.Set(reflect.Zero(t))
	case "arr":
		if v.Kind() != reflect.Slice {
			return fmt.Errorf("array into %s", t)
		}
		var els []Val
		if err := json.Unmarshal(d.V, &els); err != nil {
			return err
		}
		s := reflect.MakeSlice(t, len(els), len(els))
		for i := range els {
			if err := build(s.Index(i), &els[i]); err != nil {
				return err
			}
		}
		v.Set(s)
	case "obj":
		if v.Kind() != reflect.Struct {
			return fmt.Errorf("object into %s", t)
		}
		fi := 0
		for i := 0; i < t.NumField(); i++ {
			if t.Field(i).Name == "AdditionalProperties" && v.Field(i).Kind() == reflect.Map {
				if d.X != nil {
					m := reflect.MakeMap(v.Field(i).Type())
					for _, kv := range d.X {
						var k string
						json.Unmarshal(kv[0], &k)
						var dv Val
						if err := json.Unmarshal(kv[1], &dv); err != nil {
							return err
						}
						ev := reflect.New(v.Field(i).Type().Elem()).Elem()
						if err := build(ev, &dv); err != nil {
							return err
						}
						m.SetMapIndex(reflect.ValueOf(k), ev)
					}
					v.Field(i).Set(m)
				}
				continue
			}
			if fi >= len(d.F) {
				return fmt.Errorf("object description has %d fields, %s has more", len(d.F), t)
			}
			if err := build(v.Field(i), &d.F[fi]); err != nil {
				return fmt.Errorf("%s.%s: %w", t.Name(), t.Field(i).Name, err)
			}
			fi++
		}
		if fi != len(d.F) {
			return fmt.Errorf("object description has %d fields, %s has %d", len(d.F), t, fi)
		}
	case "noalt":
		// a union with no alternative chosen: the zero value
		if v.Kind() != reflect.Struct {
			return fmt.Errorf("no alternative into %s", t)
		}
		v.Set(reflect.Zero(t))
	case "alt":
		if v.Kind() != reflect.Struct || d.I >= t.NumField() {
			return fmt.Errorf("alternative %d into %s", d.I, t)
		}
		var dv Val
		if err := json.Unmarshal(d.V, &dv); err != nil {
			return err
		}
		return build(v.Field(d.I), &dv)
	case "null", "unset":
		return fmt.Errorf("%s into non-wrapper %s", d.K, t)
	default:
		return fmt.Errorf("unknown kind %q", d.K)
	}
	return nil
}

// DumpPos renders a value canonically and positionally (no Go names): the Lean model prints
// the same text from (schema, Val).
func DumpPos(v reflect.Value) string {
	t := v.Type()
	if t == timeType || (t.Kind() == reflect.Struct && t.ConvertibleTo(timeType)) {
		return "t:" + strconv.FormatInt(v.Convert(timeType).Interface().(time.Time).UnixNano(), 10)
	}
	if isWrapper(t, "Maybe") {
		if !v.FieldByName("IsSet").Bool() {
			return "-"
		}
		return DumpPos(v.FieldByName("Value"))
	}
	if isWrapper(t, "Nullable") {
		if !v.FieldByName("IsSet").Bool() {
			return "null"
		}
		return DumpPos(v.FieldByName("Value"))
	}
	switch v.Kind() {
	case reflect.String:
		return "s:" + hx(v.String())
	case reflect.Bool:
		return "b:" + strconv.FormatBool(v.Bool())
	case reflect.Int, reflect.Int8, reflect.Int16, reflect.Int32, reflect.Int64:
		return "i:" + strconv.FormatInt(v.Int(), 10)
	case reflect.Float32, reflect.Float64:
		return "f:" + strconv.FormatFloat(v.Float(), 'g', -1, 64)
	case reflect.Slice:
		if t.Elem().Kind() == reflect.Uint8 {
			return "j:" + canonJSON(v.Bytes())
		}
		var parts []string
		for i := 0; i < v.Len(); i++ {
			parts = append(parts, DumpPos(v.Index(i)))
		}
		return "[" + strings.Join(parts, ",") + "]" // nil and empty slices are the same value here
	case reflect.Map:
		keys := v.MapKeys()
		sort.Slice(keys, func(i, j int) bool { return keys[i].String() < keys[j].String() })
		var parts []string
		for _, k := range keys {
			parts = append(parts, hx(k.String())+"="+DumpPos(v.MapIndex(k)))
		}
		return "map{" + strings.Join(parts, ",") + "}"
	case reflect.Struct:
		var parts []string
		for i := 0; i < v.NumField(); i++ {
			parts = append(parts, DumpPos(v.Field(i)))
		}
		return "{" + strings.Join(parts, ",") + "}"
	case reflect.Interface:
		if v.IsNil() {
			return "j:null"
		}
		bs, _ := json.Marshal(v.Interface())
		return "j:" + canonJSON(bs)
	case reflect.Ptr:
		if v.IsNil() {
			return "nilptr"
		}
		return DumpPos(v.Elem())
	}
	return "?" + t.String()
}

// canonJSON: compact text with sorted object keys and numbers kept as written; "INVALID" if
// the bytes are not one JSON value; duplicate keys are reported by hasDupKeys.
func canonJSON(bs []byte) string {
	dec := json.NewDecoder(bytes.NewReader(bs))
	dec.UseNumber()
	var x any
	if err := dec.Decode(&x); err != nil {
		return "INVALID"
	}
	if _, err := dec.Token(); err != io.EOF {
		return "INVALID"
	}
	return canonAny(x)
}

func canonAny(x any) string {
	switch t := x.(type) {
	case map[string]any:
		keys := make([]string, 0, len(t))
		for k := range t {
			keys = append(keys, k)
		}
		sort.Strings(keys)
		var parts []string
		for _, k := range keys {
			kb, _ := json.Marshal(k)
			parts = append(parts, string(kb)+":"+canonAny(t[k]))
		}
		return "{" + strings.Join(parts, ",") + "}"
	case []any:
		var parts []string
		for _, e := range t {
			parts = append(parts, canonAny(e))
		}
		return "[" + strings.Join(parts, ",") + "]"
	case json.Number:
		return canonNumber(string(t))
	case string:
		b, _ := json.Marshal(t)
		return string(b)
	case bool:
		return strconv.FormatBool(t)
	case nil:
		return "null"
	}
	return "?"
}

var intRe = regexp.MustCompile(`^-?[0-9]+$`)

// canonNumber: integers as written; everything else through float64 shortest form.
func canonNumber(s string) string {
	if intRe.MatchString(s) {
		return s
	}
	f, err := strconv.ParseFloat(s, 64)
	if err != nil {
		return s
	}
	g := strconv.FormatFloat(f, 'g', -1, 64)
	if intRe.MatchString(g) {
		// "1.0", "2e0": integral in value but not an integer literal; decoders into integer types tell
		// the two apart, so the canonical form must too
		return g + ".0"
	}
	return g
}

// hasDupKeys walks the token stream and reports an object with a repeated key.
func hasDupKeys(bs []byte) bool {
	dec := json.NewDecoder(bytes.NewReader(bs))
	dec.UseNumber()
	type frame struct {
		obj  bool
		keys map[string]bool
		key  bool // next token is a key
	}
	var st []frame
	for {
		tok, err := dec.Token()
		if err != nil {
			return false
		}
		if d, ok := tok.(json.Delim); ok {
			switch d {
			case '{':
				st = append(st, frame{obj: true, keys: map[string]bool{}, key: true})
				continue
			case '[':
				st = append(st, frame{})
				continue
			default:
				st = st[:len(st)-1]
			}
		} else if len(st) > 0 && st[len(st)-1].obj && st[len(st)-1].key {
			k := tok.(string)
			if st[len(st)-1].keys[k] {
				return true
			}
			st[len(st)-1].keys[k] = true
			st[len(st)-1].key = false
			continue
		}
		if len(st) > 0 && st[len(st)-1].obj {
			st[len(st)-1].key = true
		}
	}
}

func jsonEnc(p *Pkg, c *Case) string {
	var a jsonArgs
	if err := json.Unmarshal(c.Args, &a); err != nil {
		return "bad-args " + err.Error()
	}
	t, ok := p.Types[a.Type]
	if !ok {
		return "no-such-type"
	}
	v := reflect.New(t)
	if err := build(v.Elem(), a.Val); err != nil {
		return "build-error:" + hx(err.Error())
	}
	dump1 := DumpPos(v.Elem())
	var bs []byte
	var err error
	func() {
		defer func() {
			if r := recover(); r != nil {
				err = fmt.Errorf("PANIC %v", r)
			}
		}()
		bs, err = json.Marshal(v.Interface())
	}()
	if err != nil {
		return "enc=ERR:" + hx(err.Error()) + " dump=" + dump1
	}
	valid := json.Valid(bs)
	canon := "INVALID"
	dup := false
	if valid {
		canon = canonJSON(bs)
		dup = hasDupKeys(bs)
	}
	rtv := "skip"
	if valid {
		v2 := reflect.New(t)
		var derr error
		func() {
			defer func() {
				if r := recover(); r != nil {
					derr = fmt.Errorf("PANIC %v", r)
				}
			}()
			derr = json.Unmarshal(bs, v2.Interface())
		}()
		if derr != nil {
			rtv = "err:" + hx(derr.Error())
		} else if d2 := DumpPos(v2.Elem()); d2 == dump1 {
			rtv = "equal"
		} else {
			rtv = "diff:" + d2
		}
	}
	return fmt.Sprintf("enc=%s valid=%v dup=%v canon=%s rt=%s dump=%s", hex.EncodeToString(bs), valid, dup, hx(canon), rtv, dump1)
}

var keyMissingRe = regexp.MustCompile(`'([^']*)' key is missing`)
var fieldRe = regexp.MustCompile(`'([^']*)' field`)

// classifyDecodeErr maps an Unmarshal error to (kind, innermost named key).
func classifyDecodeErr(err error) string {
	msg := err.Error()
	if strings.Contains(msg, "cannot unmarshal oneOf object") {
		// no alternative accepted the document; the text goes on with why the LAST one did not
		return "err(oneof)"
	}
	if m := keyMissingRe.FindAllStringSubmatch(msg, -1); m != nil {
		return "err(missing," + hx(m[len(m)-1][1]) + ")"
	}
	if strings.Contains(msg, "unknown discriminator") {
		return "err(discriminator)"
	}
	if m := fieldRe.FindAllStringSubmatch(msg, -1); m != nil {
		return "err(type," + hx(m[len(m)-1][1]) + ")"
	}
	if strings.Contains(msg, "additional property") {
		return "err(type,additional)"
	}
	return "err(other:" + hx(msg) + ")"
}

func jsonDec(p *Pkg, c *Case) string {
	var a jsonArgs
	if err := json.Unmarshal(c.Args, &a); err != nil {
		return "bad-args " + err.Error()
	}
	t, ok := p.Types[a.Type]
	if !ok {
		return "no-such-type"
	}
	v := reflect.New(t)
	var derr error
	func() {
		defer func() {
			if r := recover(); r != nil {
				derr = fmt.Errorf("PANIC %v", r)
			}
		}()
		derr = json.Unmarshal([]byte(a.Doc), v.Interface())
	}()
	if derr != nil {
		if strings.HasPrefix(derr.Error(), "PANIC") {
			return "dec=PANIC:" + hx(derr.Error())
		}
		return "dec=" + classifyDecodeErr(derr) + " msg=" + hx(derr.Error())
	}
	dump := DumpPos(v.Elem())
	bs, err := json.Marshal(v.Interface())
	if err != nil {
		return "dec=ok dump=" + dump + " reenc=ERR:" + hx(err.Error())
	}
	return "dec=ok dump=" + dump + " reenc=" + hx(canonJSON(bs))
}

// jsonShape: which fields of a generated object type can be left unset (are Maybe-wrapped), in
// struct order, AdditionalProperties excluded: "O" optional, "R" required.
func jsonShape(p *Pkg, c *Case) string {
	var a jsonArgs
	if err := json.Unmarshal(c.Args, &a); err != nil {
		return "bad-args " + err.Error()
	}
	t, ok := p.Types[a.Type]
	if !ok {
		return "no-such-type"
	}
	if t.Kind() != reflect.Struct {
		return "not-a-struct"
	}
	var toks []string
	for i := 0; i < t.NumField(); i++ {
		f := t.Field(i)
		if f.Name == "AdditionalProperties" || f.Anonymous {
			continue
		}
		tok, ft := "R", f.Type
		if isWrapper(ft, "Maybe") {
			tok = "O"
			if vf, ok := ft.FieldByName("Value"); ok {
				ft = vf.Type
			}
		}
		if isWrapper(ft, "Nullable") {
			tok += "n"
		}
		toks = append(toks, tok)
	}
	return "shape=" + strings.Join(toks, ",")
}
