package rt

// Response / client operations of the reflection driver (C02 C09 C10):
//   respinfo:     for one operation, every exported constructor whose result implements the
//                 operation's response interface, and what writing its value emits.
//   clientcall:   generated client -> generated server round trip with seeded values.
//   clientstatus: what the generated client makes of a given status code.

import (
	"bytes"
	"context"
	"encoding/json"
	"fmt"
	"io"
	"math"
	"net/http"
	"net/http/httptest"
	"net/url"
	"reflect"
	"sort"
	"strconv"
	"strings"
	"time"
)

func init() {
	ops["respinfo"] = respInfo
	ops["clientcall"] = clientCall
	ops["clientstatus"] = clientStatus
}

type opArgs struct {
	Method string `json:"method"`
	Path   string `json:"path"`
	Seed   uint64 `json:"seed"`
	Resp   int    `json:"resp"`
	Status int    `json:"status"`
	// Net: go through a real HTTP server and net/http's client instead of the in-process transport
	Net bool `json:"net"`
}

type rnd struct{ s uint64 }

func (p *rnd) next() uint64 {
	p.s += 0x9E3779B97F4A7C15
	z := p.s
	z = (z ^ (z >> 30)) * 0xBF58476D1CE4E5B9
	z = (z ^ (z >> 27)) * 0x94D049BB133111EB
	return z ^ (z >> 31)
}
func (p *rnd) intn(n int) int { return int(p.next() % uint64(n)) }

// findOp locates the API handler field of the operation with the given method and template.
func findOp(p *Pkg, method, path string) (field string, ft reflect.Type, ok bool) {
	at := reflect.TypeOf(p.NewAPI()).Elem()
	for i := 0; i < at.NumField(); i++ {
		f := at.Field(i)
		if f.Type.Kind() == reflect.Func && strings.HasSuffix(f.Name, "Handler") && f.Name != "NotFoundHandler" && f.Name != "SpecFileHandler" && f.Name != "CORSHandler" {
			if handlerIdent(f.Type) == method+" "+path {
				return f.Name, f.Type, true
			}
		}
	}
	return "", nil, false
}

type fillCtx struct {
	r        *rnd
	mode     string // "path" | "query" | "header" | "body"
	forceSet bool   // every Maybe is set (respinfo: all declared headers must show)
}

var strPoolPath = []string{"a", "abc", "mine", "7", "x y", "é", "a.b", "A-Z_~", "100%", "q?x=1", "a+b", "#frag", "日本"}
var strPoolAny = []string{"", "abc", "a b", "x/y", "é日本", "a&b=c", "50%", "q?x#y", "a+b", " lead", "trail ", "\"quoted\"", "back\\slash", "tab\tsep"}
var strPoolRespHeader = []string{"abc", "a b", "x/y", "é", "a,b", "v=1;q=2", "50%", "\"q\"", ""}
var strPoolHeader = []string{"abc", "a b", "x/y", "é", "a,b", "v=1;q=2", "50%", "\"q\""}

// fill sets v (addressable) to a seeded value respecting the domain restrictions of C09
// (path values non-empty and '/'-free, set arrays non-empty, header values without CR/LF,
// no NaN; times as instants).
func fill(v reflect.Value, c *fillCtx, depth int) {
	t := v.Type()
	if t == timeType || (t.Kind() == reflect.Struct && t.ConvertibleTo(timeType)) {
		base := time.Date(2024, 1, 2, 3, 4, 5, 0, time.UTC)
		tm := base.Add(time.Duration(c.r.intn(1000000)) * time.Millisecond * 1000)
		if c.r.intn(3) == 0 {
			tm = tm.Add(time.Duration(c.r.intn(999999999)))
		}
		if c.r.intn(2) == 0 {
			tm = tm.In(time.FixedZone("", (c.r.intn(27)-12)*3600))
		}
		v.Set(reflect.ValueOf(tm).Convert(t))
		return
	}
	if isWrapper(t, "Maybe") {
		if c.r.intn(3) == 0 && !c.forceSet {
			v.Set(reflect.Zero(t))
			return
		}
		v.FieldByName("IsSet").SetBool(true)
		fill(v.FieldByName("Value"), c, depth)
		return
	}
	if isWrapper(t, "Nullable") {
		if c.r.intn(3) == 0 {
			v.Set(reflect.Zero(t))
			return
		}
		v.FieldByName("IsSet").SetBool(true)
		fill(v.FieldByName("Value"), c, depth)
		return
	}
	switch v.Kind() {
	case reflect.String:
		pool := strPoolAny
		switch c.mode {
		case "path":
			pool = strPoolPath
		case "header":
			pool = strPoolHeader
		case "respheader":
			// a response header may be present and empty ("no cursor" vs. "start over")
			pool = strPoolRespHeader
		}
		v.SetString(pool[c.r.intn(len(pool))])
	case reflect.Bool:
		v.SetBool(c.r.intn(2) == 0)
	case reflect.Int, reflect.Int64:
		v.SetInt([]int64{0, 1, -1, 42, math.MaxInt64, math.MinInt64, 1 << 31}[c.r.intn(7)])
	case reflect.Int32:
		v.SetInt([]int64{0, 7, -7, math.MaxInt32, math.MinInt32}[c.r.intn(5)])
	case reflect.Int8, reflect.Int16:
		v.SetInt(int64(c.r.intn(100)))
	case reflect.Float64:
		v.SetFloat([]float64{0, 1.5, -2.25, 1e21, 1e-7, 123456789.125, math.MaxFloat64, 5e-324, 3}[c.r.intn(9)])
	case reflect.Float32:
		v.SetFloat(float64([]float32{0, 1.5, -2.25, 3, 16777216, 0.1, math.MaxFloat32}[c.r.intn(7)]))
	case reflect.Slice:
		if t.Elem().Kind() == reflect.Uint8 { // json.RawMessage
			v.SetBytes([]byte([]string{`{"a":1}`, `[1,"x"]`, `"s"`, `3`, `true`}[c.r.intn(5)]))
			return
		}
		n := 1 + c.r.intn(3)
		if c.mode == "body" && depth > 0 && c.r.intn(4) == 0 {
			n = 0
		}
		s := reflect.MakeSlice(t, n, n)
		for i := 0; i < n; i++ {
			fill(s.Index(i), c, depth+1)
		}
		v.Set(s)
	case reflect.Map:
		m := reflect.MakeMap(t)
		n := c.r.intn(3)
		for i := 0; i < n; i++ {
			k := []string{"extra", "x1", "we\"ird", "ключ"}[c.r.intn(4)]
			ev := reflect.New(t.Elem()).Elem()
			fill(ev, c, depth+1)
			m.SetMapIndex(reflect.ValueOf(k), ev)
		}
		if n > 0 {
			v.Set(m)
		}
	case reflect.Struct:
		// a oneOf struct (all fields Maybe): exactly one alternative set
		allMaybe := t.NumField() > 0
		for i := 0; i < t.NumField(); i++ {
			if !isWrapper(t.Field(i).Type, "Maybe") {
				allMaybe = false
			}
		}
		if allMaybe && strings.HasPrefix(t.Name(), "Union") || allMaybe && strings.HasPrefix(t.Name(), "Probe") {
			i := c.r.intn(t.NumField())
			f := v.Field(i)
			f.FieldByName("IsSet").SetBool(true)
			fill(f.FieldByName("Value"), c, depth+1)
			// a discriminated union of the response corpus: the variant's `kind` must select it —
			// its own name, or one of the mapping keys k1<T> .. kn<T> of a variant called <T>M<n>
			if val := f.FieldByName("Value"); val.Kind() == reflect.Struct {
				if k := val.FieldByName("Kind"); k.IsValid() && k.Kind() == reflect.String {
					tn := val.Type().Name()
					keys := []string{tn}
					if i := strings.LastIndex(tn, "M"); i > 0 {
						if n, err := strconv.Atoi(tn[i+1:]); err == nil {
							for j := 1; j <= n; j++ {
								keys = append(keys, fmt.Sprintf("k%d%s", j, tn))
							}
						}
					}
					k.SetString(keys[c.r.intn(len(keys))])
				}
			}
			return
		}
		for i := 0; i < t.NumField(); i++ {
			if !t.Field(i).IsExported() {
				continue
			}
			fill(v.Field(i), c, depth+1)
		}
	case reflect.Interface:
		if t == readCloserType || t.String() == "io.Reader" {
			body := []string{"raw bytes", "line1\nline2", "\x00\x01\xff", "not json {"}[c.r.intn(4)]
			v.Set(reflect.ValueOf(rbody{r: bytes.NewReader([]byte(body))}))
			return
		}
		var x any
		json.Unmarshal([]byte([]string{`{"a":1}`, `[1,"x"]`, `"s"`, `3`, `true`}[c.r.intn(5)]), &x)
		v.Set(reflect.ValueOf(x))
	}
}

// dumpWithBodies is DumpPos where io.Reader fields are drained and shown as bytes.
func dumpWithBodies(v reflect.Value) string {
	t := v.Type()
	if v.Kind() == reflect.Struct && t != timeType && !isWrapper(t, "Maybe") && !isWrapper(t, "Nullable") && !t.ConvertibleTo(timeType) {
		var parts []string
		for i := 0; i < v.NumField(); i++ {
			parts = append(parts, dumpWithBodies(v.Field(i)))
		}
		return "{" + strings.Join(parts, ",") + "}"
	}
	if v.Kind() == reflect.Interface && !v.IsNil() {
		if rd, ok := v.Interface().(io.Reader); ok {
			bs, _ := io.ReadAll(rd)
			return "raw:" + hx(string(bs))
		}
	}
	if v.Kind() == reflect.Interface && v.IsNil() && (t == readCloserType || t.String() == "io.Reader") {
		return "raw:"
	}
	return DumpPos(v)
}

// paramsFillFields fills a <Op>Params struct location by location.
func fillParams(v reflect.Value, r *rnd) {
	t := v.Type()
	for i := 0; i < t.NumField(); i++ {
		f := t.Field(i)
		mode := map[string]string{"Query": "query", "Path": "path", "Headers": "header", "Body": "body"}[f.Name]
		if mode == "" {
			continue
		}
		fill(v.Field(i), &fillCtx{r: r, mode: mode}, 0)
	}
}

// rawBodySnapshot replaces io.Reader fields by replayable readers and returns their contents.
func snapshotBodies(v reflect.Value) {
	if v.Kind() == reflect.Struct {
		for i := 0; i < v.NumField(); i++ {
			f := v.Field(i)
			if f.Kind() == reflect.Interface && !f.IsNil() && f.CanSet() {
				if rd, ok := f.Interface().(io.Reader); ok {
					bs, _ := io.ReadAll(rd)
					f.Set(reflect.ValueOf(rbody{r: bytes.NewReader(bs)}))
					continue
				}
			}
			if f.Kind() == reflect.Struct {
				snapshotBodies(f)
			}
		}
	}
}

// rbody is a re-readable body: dumps drain it and rewind it.
// It deliberately offers Read / Seek / Close only (no WriteTo, no ReadFrom), so that io.Copy and
// friends take their generic buffered path, as they do for a network or file body.
type rbody struct {
	r    *bytes.Reader
	cerr error // what Close reports (bodies of the concurrent phase: some fail to close, each with its own text)
}

func (b rbody) Read(p []byte) (int, error)                { return b.r.Read(p) }
func (b rbody) Seek(off int64, whence int) (int64, error) { return b.r.Seek(off, whence) }
func (b rbody) Close() error                              { return b.cerr }

// armCloseErrors makes about half of the raw bodies in v fail on Close, each with a text of its own
// (generated code reports such errors through the package's LogError from every request goroutine).
func armCloseErrors(v reflect.Value, r *rnd) {
	arm := func(f reflect.Value) {
		if f.Kind() == reflect.Interface && !f.IsNil() && f.CanSet() {
			if rb, ok := f.Interface().(rbody); ok && r.intn(2) == 0 {
				rb.cerr = fmt.Errorf("close failed %d", r.intn(100000))
				f.Set(reflect.ValueOf(rb))
			}
		}
	}
	switch v.Kind() {
	case reflect.Interface:
		arm(v)
	case reflect.Struct:
		for i := 0; i < v.NumField(); i++ {
			f := v.Field(i)
			if f.Kind() == reflect.Struct {
				armCloseErrors(f, r)
			} else {
				arm(f)
			}
		}
	}
}

type recordingClient struct {
	api  http.Handler
	last string
	stub *http.Response
	// header field lines of the last in-process response, as the generated client is about to see them
	lastRespHeader http.Header
}

func (c *recordingClient) Do(r *http.Request) (*http.Response, error) {
	var body []byte
	if r.Body != nil {
		body, _ = io.ReadAll(r.Body)
		r.Body = io.NopCloser(bytes.NewReader(body))
	}
	var hk []string
	for k, vs := range r.Header {
		for _, v := range vs {
			hk = append(hk, hx(k)+"="+hx(v))
		}
	}
	sort.Strings(hk)
	c.last = fmt.Sprintf("%s %s ?%s H[%s] B:%s", r.Method, hx(r.URL.EscapedPath()), hx(r.URL.RawQuery), strings.Join(hk, ","), hx(string(body)))
	if c.stub != nil {
		return c.stub, nil
	}
	w := httptest.NewRecorder()
	c.api.ServeHTTP(w, r)
	res := w.Result()
	c.lastRespHeader = res.Header.Clone()
	return res, nil
}

// newClientFor: the API's own LocalClient (so that the base URL is whatever goag wires in),
// with its transport replaced by the recording / stubbing one.
func newClientFor(p *Pkg, apiPtr reflect.Value, hc any) reflect.Value {
	cl := apiPtr.Elem().MethodByName("LocalClient").Call(nil)[0]
	f := cl.Elem().FieldByName("HTTPClient")
	hv := reflect.New(f.Type()).Elem()
	hv.Set(reflect.ValueOf(hc))
	f.Set(hv)
	return cl
}

func respInfo(p *Pkg, c *Case) string {
	var a opArgs
	json.Unmarshal(c.Args, &a)
	field, ft, ok := findOp(p, a.Method, a.Path)
	if !ok {
		return "no-such-op"
	}
	iface := ft.Out(0)
	names := respCtors(p, iface)
	var outs []string
	for idx, n := range names {
		apiPtr := reflect.ValueOf(p.NewAPI())
		r := &rnd{s: a.Seed + uint64(idx)*1000003}
		fn := reflect.ValueOf(p.Funcs[n])
		fnT := fn.Type()
		expectedVals := -1
		// the caller-supplied code of a default response: any status net/http can write that the
		// operation does not document under a number
		passedCode := []int{299, 600, 799, 999, 418}[(int(a.Seed)+idx)%5]
		apiPtr.Elem().FieldByName(field).Set(reflect.MakeFunc(ft, func(args []reflect.Value) []reflect.Value {
			in := make([]reflect.Value, fnT.NumIn())
			for i := range in {
				in[i] = reflect.New(fnT.In(i)).Elem()
				if fnT.In(i).Kind() == reflect.Int && i == 0 {
					in[i].SetInt(int64(passedCode))
				} else {
					fill(in[i], &fillCtx{r: r, mode: "respheader", forceSet: true}, 0)
				}
			}
			res := fn.Call(in)[0]
			expectedVals = headerValueCount(res)
			out := reflect.New(iface).Elem()
			out.Set(res)
			return []reflect.Value{out}
		}))
		w := &countingWriter{h: http.Header{}}
		req := &http.Request{Method: a.Method, URL: mustURL(concretePath(a.Path)), Header: http.Header{}, Body: http.NoBody, Host: "h"}
		req = req.WithContext(context.Background())
		func() {
			defer func() {
				if rec := recover(); rec != nil {
					w.status = -1
				}
			}()
			// call the handler function directly: routing is C03's matter
			hf := apiPtr.Elem().FieldByName(field)
			hf.MethodByName("ServeHTTP").Call([]reflect.Value{reflect.ValueOf(http.ResponseWriter(w)), reflect.ValueOf(req)})
		}()
		var hk []string
		for k := range w.h {
			if k != "Content-Type" {
				hk = append(hk, k)
			}
		}
		sort.Strings(hk)
		body := w.body.Bytes()
		bk := "none"
		if len(body) > 0 {
			if json.Valid(body) {
				bk = "json"
			} else {
				bk = "raw"
			}
		}
		codeArg := fnT.NumIn() > 0 && fnT.In(0).Kind() == reflect.Int
		written := 0
		for _, k := range hk {
			written += len(w.h[k])
		}
		outs = append(outs, fmt.Sprintf("%s:status=%d,code_arg=%v,ct=%s,headers=%s,body=%s,w=%d,hv=%d/%d,code=%d", n, w.status, codeArg, w.h.Get("Content-Type"), strings.Join(hk, "+"), bk, w.nWH, written, expectedVals, passedCode))
	}
	return strings.Join(outs, " ; ")
}

// headerValueCount: how many header field lines a response value carries: one per set scalar
// header, one per element of a set array header (fields of its Headers struct).
func headerValueCount(res reflect.Value) int {
	v := res
	for v.Kind() == reflect.Interface || v.Kind() == reflect.Pointer {
		if v.IsNil() {
			return -1
		}
		v = v.Elem()
	}
	if v.Kind() != reflect.Struct {
		return -1
	}
	hf := v.FieldByName("Headers")
	if !hf.IsValid() || hf.Kind() != reflect.Struct {
		return 0
	}
	n := 0
	for i := 0; i < hf.NumField(); i++ {
		f := hf.Field(i)
		if isWrapper(f.Type(), "Maybe") || isWrapper(f.Type(), "Nullable") {
			if !f.FieldByName("IsSet").Bool() {
				continue
			}
			f = f.FieldByName("Value")
		}
		if f.Kind() == reflect.Slice && f.Type() != reflect.TypeOf([]byte(nil)) {
			n += f.Len()
		} else {
			n++
		}
	}
	return n
}

func clientCall(p *Pkg, c *Case) string {
	var a opArgs
	json.Unmarshal(c.Args, &a)
	if p.NewClient == nil {
		return "no-client"
	}
	field, ft, ok := findOp(p, a.Method, a.Path)
	if !ok {
		return "no-such-op"
	}
	opName := strings.TrimSuffix(field, "Handler")
	apiPtr := reflect.ValueOf(p.NewAPI())
	r := &rnd{s: a.Seed}
	iface := ft.Out(0)
	names := respCtors(p, iface)
	if len(names) == 0 {
		return "no-ctor"
	}
	ctor := names[a.Resp%len(names)]
	var parsed, sentResp string
	var sentV reflect.Value
	apiPtr.Elem().FieldByName(field).Set(reflect.MakeFunc(ft, func(args []reflect.Value) []reflect.Value {
		parsed = callParseBodies(args[1])
		fn := reflect.ValueOf(p.Funcs[ctor])
		fnT := fn.Type()
		in := make([]reflect.Value, fnT.NumIn())
		for i := range in {
			in[i] = reflect.New(fnT.In(i)).Elem()
			if fnT.In(i).Kind() == reflect.Int && i == 0 {
				// a leading int argument is the caller-supplied status code of a default response
				// (or, harmlessly, an integer header value)
				in[i].SetInt(int64(a.Status))
			} else {
				fill(in[i], &fillCtx{r: r, mode: "respheader"}, 0)
				if in[i].Kind() == reflect.Interface || in[i].Kind() == reflect.Struct {
					snapshotBodies(in[i])
				}
			}
		}
		// dump what is about to be sent (bodies are re-readable)
		res := fn.Call(in)[0]
		conc := res
		if conc.Kind() == reflect.Interface {
			conc = conc.Elem()
		}
		if conc.Kind() == reflect.Struct {
			// dump what is about to be sent; raw bodies are rewound afterwards
			sentResp = conc.Type().Name() + dumpRespKeepingBodies(conc)
			sentV = conc
		}
		out := reflect.New(iface).Elem()
		out.Set(res)
		return []reflect.Value{out}
	}))
	rc := &recordingClient{api: apiPtr.Interface().(http.Handler)}
	cl := newClientFor(p, apiPtr, rc)
	var st *statusTransport
	if a.Net {
		// a real server on the loopback interface and net/http's own client: bodies are streams that
		// really close, headers really cross the wire
		srv := httptest.NewServer(apiPtr.Interface().(http.Handler))
		defer srv.Close()
		st = &statusTransport{}
		hc := &http.Client{Transport: st, CheckRedirect: func(*http.Request, []*http.Request) error { return http.ErrUseLastResponse }}
		f := cl.Elem().FieldByName("HTTPClient")
		hv := reflect.New(f.Type()).Elem()
		hv.Set(reflect.ValueOf(hc))
		f.Set(hv)
		bu := cl.Elem().FieldByName("BaseURL")
		bu.SetString(srv.URL + bu.String())
		rc.last = "net"
	}
	m := cl.MethodByName(opName)
	if !m.IsValid() {
		return "no-client-method " + opName
	}
	reqV := reflect.New(m.Type().In(1)).Elem()
	fillParams(reqV, r)
	snapshotBodies(reqV)
	sentParams := "ok" + dumpParamsBodies(reqV)
	var res []reflect.Value
	var perr any
	func() {
		defer func() { perr = recover() }()
		res = m.Call([]reflect.Value{reflect.ValueOf(context.Background()), reqV})
	}()
	if perr != nil {
		return "PANIC:" + hx(fmt.Sprint(perr))
	}
	got := "err:"
	var gotV reflect.Value
	if !res[1].IsNil() {
		got += hx(res[1].Interface().(error).Error())
	} else {
		rv := res[0].Elem()
		got = rv.Type().Name() + dumpWithBodies(rv)
		gotV = rv
	}
	hdrs := ""
	if st == nil && sentV.IsValid() && rc.lastRespHeader != nil {
		hdrs = " hdrs=" + headerFacts(sentV, gotV, rc.lastRespHeader)
	}
	if st != nil && (st.status == 204 || st.status == 304 || (st.status >= 100 && st.status < 200)) {
		return "skip:status-without-body" // net/http does not transmit a body with these statuses
	}
	return fmt.Sprintf("sent=%s parsed=%s wire=%s respsent=%s respgot=%s%s", sentParams, parsed, rc.last, sentResp, got, hdrs)
}

// headerFacts: for every field of the sent response's Headers struct, the declaration as the Go
// type shows it (leaf type, array, required), the field lines the server really wrote under the
// header's key, and the canonical text of the value sent and of the value the client returned.
// This is the input and the observation of the Lean model Goag.RespHdr (writeLines / readLines).
// Entry: field|type|arr|req|lines|sent|got ; type "x" = a leaf the model does not have (float, time).
func headerFacts(sent, got reflect.Value, wire http.Header) string {
	norm := func(s string) string {
		var b strings.Builder
		for _, c := range strings.ToLower(s) {
			if (c >= 'a' && c <= 'z') || (c >= '0' && c <= '9') {
				b.WriteRune(c)
			}
		}
		return b.String()
	}
	hs := sent.FieldByName("Headers")
	if !hs.IsValid() || hs.Kind() != reflect.Struct {
		return "-"
	}
	var gh reflect.Value
	if got.IsValid() && got.Kind() == reflect.Struct && got.Type() == sent.Type() {
		gh = got.FieldByName("Headers")
	}
	leafTag := func(t reflect.Type) string {
		if t.PkgPath() != "" && t.Name() != "" && t.Kind() != reflect.Struct {
			// a named component / custom type: its own parser, not the model's
			return "x"
		}
		switch t.Kind() {
		case reflect.Int:
			return "int0"
		case reflect.Int32:
			return "int32"
		case reflect.Int64:
			return "int64"
		case reflect.Bool:
			return "bool"
		case reflect.String:
			return "str"
		}
		return "x"
	}
	leafText := func(v reflect.Value) string {
		switch v.Kind() {
		case reflect.Int, reflect.Int32, reflect.Int64:
			return strconv.FormatInt(v.Int(), 10)
		case reflect.Bool:
			return strconv.FormatBool(v.Bool())
		case reflect.String:
			return "x" + hx(v.String())
		}
		return "?"
	}
	canon := func(v reflect.Value, opt, arr bool) string {
		if opt {
			if !v.FieldByName("IsSet").Bool() {
				return "u"
			}
			v = v.FieldByName("Value")
		}
		if arr {
			var xs []string
			for i := 0; i < v.Len(); i++ {
				xs = append(xs, leafText(v.Index(i)))
			}
			return "m:" + strings.Join(xs, ",")
		}
		return "o:" + leafText(v)
	}
	var out []string
	for i := 0; i < hs.NumField(); i++ {
		name := hs.Type().Field(i).Name
		ft := hs.Type().Field(i).Type
		opt := isWrapper(ft, "Maybe")
		it := ft
		if opt {
			vf, ok := ft.FieldByName("Value")
			if !ok {
				continue
			}
			it = vf.Type
		}
		arr := it.Kind() == reflect.Slice && it.Name() == ""
		if arr {
			it = it.Elem()
		}
		tag := leafTag(it)
		var keys []string
		for k := range wire {
			if norm(k) == norm(name) {
				keys = append(keys, k)
			}
		}
		lines := "-"
		if len(keys) > 1 {
			tag = "x"
		} else if len(keys) == 1 {
			var ls []string
			for _, l := range wire[keys[0]] {
				ls = append(ls, "x"+hx(l))
			}
			if len(ls) > 0 {
				lines = strings.Join(ls, ",")
			}
		}
		sentC, gotC := "?", "err"
		if tag != "x" {
			sentC = canon(hs.Field(i), opt, arr)
			if gh.IsValid() {
				gotC = canon(gh.Field(i), opt, arr)
			}
		}
		b2 := func(b bool) string {
			if b {
				return "1"
			}
			return "0"
		}
		out = append(out, strings.Join([]string{name, tag, b2(arr), b2(!opt), lines, sentC, gotC}, "|"))
	}
	if len(out) == 0 {
		return "-"
	}
	return strings.Join(out, ";")
}

// statusTransport remembers the status code the server really answered with.
type statusTransport struct{ status int }

func (t *statusTransport) RoundTrip(r *http.Request) (*http.Response, error) {
	resp, err := http.DefaultTransport.RoundTrip(r)
	if resp != nil {
		t.status = resp.StatusCode
	}
	return resp, err
}

// dumpRespKeepingBodies dumps a response struct, re-arming raw bodies afterwards.
func dumpRespKeepingBodies(v reflect.Value) string {
	var parts []string
	for i := 0; i < v.NumField(); i++ {
		f := v.Field(i)
		if f.Kind() == reflect.Interface && !f.IsNil() {
			if rd, ok := f.Interface().(io.Reader); ok {
				bs, _ := io.ReadAll(rd)
				if sk, ok := rd.(io.Seeker); ok {
					sk.Seek(0, io.SeekStart)
				}
				parts = append(parts, "raw:"+hx(string(bs)))
				continue
			}
		}
		if f.Kind() == reflect.Struct && f.Type() != timeType && !isWrapper(f.Type(), "Maybe") && !isWrapper(f.Type(), "Nullable") && !f.Type().ConvertibleTo(timeType) && f.Type().Name() == "" {
			parts = append(parts, dumpRespKeepingBodies(f))
			continue
		}
		parts = append(parts, DumpPos(f))
	}
	return "{" + strings.Join(parts, ",") + "}"
}

func dumpParamsBodies(v reflect.Value) string {
	var sb strings.Builder
	t := v.Type()
	for i := 0; i < t.NumField(); i++ {
		f := t.Field(i)
		fv := v.Field(i)
		switch f.Name {
		case "Query", "Path", "Headers":
			sb.WriteString(" " + f.Name + DumpPos(fv))
		case "Body":
			if fv.Kind() == reflect.Interface {
				if fv.IsNil() {
					sb.WriteString(" Body(raw:)")
				} else if rd, ok := fv.Interface().(io.Reader); ok {
					bs, _ := io.ReadAll(rd)
					if sk, ok := rd.(io.Seeker); ok {
						sk.Seek(0, io.SeekStart)
					}
					sb.WriteString(" Body(raw:" + hx(string(bs)) + ")")
				}
			} else {
				sb.WriteString(" Body(" + DumpPos(fv) + ")")
			}
		}
	}
	return sb.String()
}

func callParseBodies(req reflect.Value) (out string) {
	defer func() {
		if r := recover(); r != nil {
			out = "PANIC:" + hx(fmt.Sprint(r))
		}
	}()
	m := req.MethodByName("Parse")
	res := m.Call(nil)
	if len(res) == 2 && !res[1].IsNil() {
		return DumpErr(res[1].Interface().(error)) + ":" + hx(res[1].Interface().(error).Error())
	}
	return "ok" + dumpParamsBodies(res[0])
}

func mustURL(p string) *url.URL { return &url.URL{Path: p} }

// concretePath replaces {var} segments by a literal value.
func concretePath(tpl string) string {
	segs := strings.Split(tpl, "/")
	for i, s := range segs {
		if strings.HasPrefix(s, "{") {
			segs[i] = "1"
		}
	}
	return strings.Join(segs, "/")
}

func clientStatus(p *Pkg, c *Case) string {
	var a opArgs
	json.Unmarshal(c.Args, &a)
	if p.NewClient == nil {
		return "no-client"
	}
	field, _, ok := findOp(p, a.Method, a.Path)
	if !ok {
		return "no-such-op"
	}
	opName := strings.TrimSuffix(field, "Handler")
	stub := &http.Response{StatusCode: a.Status, Header: http.Header{}, Body: io.NopCloser(strings.NewReader("{}"))}
	rc := &recordingClient{stub: stub}
	cl := newClientFor(p, reflect.ValueOf(p.NewAPI()), rc)
	m := cl.MethodByName(opName)
	reqV := reflect.New(m.Type().In(1)).Elem()
	fillParams(reqV, &rnd{s: a.Seed})
	var res []reflect.Value
	var perr any
	func() {
		defer func() { perr = recover() }()
		res = m.Call([]reflect.Value{reflect.ValueOf(context.Background()), reqV})
	}()
	if perr != nil {
		return "PANIC:" + hx(fmt.Sprint(perr))
	}
	if !res[1].IsNil() {
		msg := res[1].Interface().(error).Error()
		if strings.Contains(msg, "not implemented") {
			return "error:not-implemented"
		}
		return "error:other:" + hx(msg)
	}
	// which status would the returned value write?
	rv := res[0].Elem()
	w := &countingWriter{h: http.Header{}}
	wm := res[0].Elem().MethodByName("Write")
	kind := "?"
	if wm.IsValid() {
		func() {
			defer func() { recover() }()
			if wm.Type().NumIn() == 1 {
				wm.Call([]reflect.Value{reflect.ValueOf(http.ResponseWriter(w))})
				kind = "fixed-or-default"
			} else {
				kind = "component-with-code"
			}
		}()
	}
	codeField := rv.FieldByName("Code")
	if codeField.IsValid() {
		return fmt.Sprintf("default(code=%d)", codeField.Int())
	}
	return fmt.Sprintf("documented(type=%s,writes=%d,%s)", rv.Type().Name(), w.status, kind)
}
