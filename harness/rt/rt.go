// Package rt is the generic reflection driver linked into every batch binary of generated
// packages. A generated package is registered by a small generated registry package; the
// driver installs handlers, middlewares, authenticators and a CORS handler by reflection,
// serves one request per input line and prints one canonical observation line per input.
package rt

import (
	"bufio"
	"bytes"
	"context"
	"encoding/hex"
	"encoding/json"
	"fmt"
	"io"
	"math"
	"net/http"
	"net/url"
	"os"
	"reflect"
	"runtime/debug"
	"sort"
	"strconv"
	"strings"
	"time"
)

type Pkg struct {
	Name            string
	NewAPI          func() any // *API
	SpecFile        string
	SpecFileHandler func() http.Handler
	SchemaPath      func(*http.Request) (string, bool)
	LogError        *func(error)
	Funcs           map[string]any
	Types           map[string]reflect.Type
	NewClient       any // func(baseURL string, httpClient HTTPClient) *Client, or nil
}

var pkgs = map[string]*Pkg{}

func Register(p *Pkg) { pkgs[p.Name] = p }

// Case is one input line.
type Case struct {
	Op      string      `json:"op"`
	Pkg     string      `json:"pkg"`
	ID      string      `json:"id"`
	Method  string      `json:"method"`
	Path    string      `json:"path"`
	Query   string      `json:"query"`
	Headers [][2]string `json:"headers"`
	Body    *string     `json:"body"`
	CL      *int64      `json:"cl"` // Content-Length as the server would report it (-1: unknown / chunked)
	Mws     int         `json:"mws"`
	NF      bool        `json:"nf"`   // install a custom NotFoundHandler
	Spec    bool        `json:"spec"` // install SpecFileHandler
	Cors    bool        `json:"cors"` // install CORSHandler (if the API has the field)
	// Auth: per API field name ("SecurityBearerAuth", "SecurityAPIKeyAuthXKey"): accepted tokens; absent => field left nil
	Auth map[string][]string `json:"auth"`
	// Alias: API field name -> scheme name used in the printed events
	Alias map[string]string `json:"alias"`
	// NoParse: the handler does not call Parse()
	NoParse bool `json:"noparse"`
	// Reuse: serve on the API value of the previous case when package and configuration are the same
	Reuse bool `json:"reuse"`
	// Inherit: the request carries the context the previous request on this API value had when it
	// reached the outermost middleware
	Inherit bool `json:"inherit"`
	// Cancelled: the request's context is already cancelled when it is served (a client that went
	// away): the API still has to answer exactly once
	Cancelled bool `json:"cancelled"`
	// NaN: the handler's response carries NaN in every float it has (a value encoding/json refuses):
	// the API still has to answer exactly once, without panicking
	NaN bool `json:"nan"`
	// Resp: index (mod count) of the response constructor the handler uses
	Resp int `json:"resp"`
	// extra, op-specific payload
	Args json.RawMessage `json:"args"`
}

type ctxTag struct{}

type trace struct {
	ev []string
}

func (t *trace) add(f string, a ...any) { t.ev = append(t.ev, fmt.Sprintf(f, a...)) }

// countingWriter counts WriteHeader calls (explicit or implicit).
type countingWriter struct {
	h      http.Header
	status int
	nWH    int
	body   bytes.Buffer
}

func (w *countingWriter) Header() http.Header { return w.h }
func (w *countingWriter) WriteHeader(code int) {
	w.nWH++
	if w.status == 0 {
		w.status = code
	}
}
func (w *countingWriter) Write(b []byte) (int, error) {
	if w.status == 0 {
		w.WriteHeader(200)
	}
	return w.body.Write(b)
}

func Main() {
	// an unbounded recursion in generated code should die quickly, not after growing the stack to
	// the default 1 GB in each of the shard processes
	debug.SetMaxStack(64 << 20)
	in := bufio.NewReaderSize(os.Stdin, 1<<20)
	out := bufio.NewWriterSize(os.Stdout, 1<<16)
	defer out.Flush()
	for {
		line, err := in.ReadBytes('\n')
		if len(bytes.TrimSpace(line)) > 0 {
			var c Case
			if e := json.Unmarshal(line, &c); e != nil {
				fmt.Fprintf(out, "?\tbad-case %v\n", e)
			} else {
				fmt.Fprintf(out, "%s\t%s\n", c.ID, runCase(&c))
			}
			out.Flush()
		}
		if err != nil {
			return
		}
	}
}

func runCase(c *Case) (obs string) {
	defer func() {
		if r := recover(); r != nil {
			obs = "DRIVER-PANIC:" + fmt.Sprint(r) + " " + strings.ReplaceAll(string(debug.Stack()), "\n", " ; ")
		}
	}()
	p, ok := pkgs[c.Pkg]
	if !ok {
		return "no-such-package"
	}
	switch c.Op {
	case "serve":
		return serve(p, c)
	case "info":
		return info(p)
	default:
		if f, ok := ops[c.Op]; ok {
			return f(p, c)
		}
		return "bad-op"
	}
}

// ops lets other files of this package add operations.
var ops = map[string]func(*Pkg, *Case) string{}

func hx(s string) string { return hex.EncodeToString([]byte(s)) }

func info(p *Pkg) string {
	api := reflect.ValueOf(p.NewAPI()).Elem()
	var fs []string
	for i := 0; i < api.NumField(); i++ {
		fs = append(fs, api.Type().Field(i).Name)
	}
	return strings.Join(fs, ",")
}

// handlerIdent returns "METHOD template" of a generated handler func type via its
// generated Method()/Path() methods.
func handlerIdent(t reflect.Type) string {
	z := reflect.Zero(t)
	m := z.MethodByName("Method")
	pth := z.MethodByName("Path")
	if !m.IsValid() || !pth.IsValid() {
		return "?" + t.Name()
	}
	return m.Call(nil)[0].String() + " " + pth.Call(nil)[0].String()
}

func buildRequest(c *Case) *http.Request {
	hdr := http.Header{}
	for _, kv := range c.Headers {
		// raw map insertion after canonicalisation, as net/http's server does
		k := http.CanonicalHeaderKey(kv[0])
		hdr[k] = append(hdr[k], kv[1])
	}
	var body io.ReadCloser = http.NoBody
	if c.Body != nil {
		body = io.NopCloser(strings.NewReader(*c.Body))
	}
	r := &http.Request{
		Method: c.Method,
		URL:    &url.URL{Path: c.Path, RawQuery: c.Query},
		Proto:  "HTTP/1.1", ProtoMajor: 1, ProtoMinor: 1,
		Header: hdr,
		Body:   body,
		Host:   "example.com",
	}
	if c.CL != nil {
		r.ContentLength = *c.CL
	} else if c.Body != nil {
		r.ContentLength = int64(len(*c.Body))
	}
	return r.WithContext(context.Background())
}

type apiState struct {
	key    string
	apiPtr reflect.Value
	tr     *trace
	// lastCtx: context of the last request as the outermost middleware saw it
	lastCtx context.Context
	// inherited: the context this request was given (nil: a fresh one). A request that is not
	// dispatched to an operation gets nothing attached, so its handler sees this very context and
	// whatever its parent had stored in it: not something this dispatch reported
	inherited context.Context
	// conc: events go to the trace carried by the request's context (one per request), so that
	// the driver itself shares nothing between concurrently served requests
	conc bool
}

type trKey struct{}

func (st *apiState) trFor(r *http.Request) *trace {
	if st.conc && r != nil {
		if t, ok := r.Context().Value(trKey{}).(*trace); ok {
			return t
		}
	}
	return st.tr
}

var lastAPI *apiState

func cfgKey(c *Case) string {
	k := struct {
		Pkg     string
		Mws     int
		NF, Sp  bool
		Cors    bool
		Auth    map[string][]string
		NoParse bool
		Resp    int
	}{c.Pkg, c.Mws, c.NF, c.Spec, c.Cors, c.Auth, c.NoParse, c.Resp}
	bs, _ := json.Marshal(k)
	return string(bs)
}

func buildAPI(p *Pkg, c *Case) *apiState {
	st := &apiState{key: cfgKey(c), tr: &trace{}}
	apiPtr := reflect.ValueOf(p.NewAPI())
	st.apiPtr = apiPtr
	api := apiPtr.Elem()
	at := api.Type()
	for i := 0; i < at.NumField(); i++ {
		f := at.Field(i)
		fv := api.Field(i)
		switch {
		case f.Name == "NotFoundHandler":
			if c.NF {
				fv.Set(reflect.ValueOf(http.Handler(http.HandlerFunc(func(w http.ResponseWriter, r *http.Request) {
					_, ok := p.SchemaPath(r)
					if st.inherited != nil && r.Context() == st.inherited {
						ok = false
					}
					st.trFor(r).add("NF(%v)", ok)
					w.WriteHeader(404)
				}))))
			}
		case f.Name == "SpecFileHandler":
			if c.Spec {
				fv.Set(reflect.ValueOf(p.SpecFileHandler()))
			}
		case f.Name == "CORSHandler":
			if c.Cors {
				fn := reflect.MakeFunc(f.Type, func(args []reflect.Value) []reflect.Value {
					ms := args[0].Interface().([]string)
					hs := args[1].Interface().([]string)
					if !st.conc {
						st.tr.add("CORS(%s;%s)", strings.Join(ms, ","), strings.Join(hs, ","))
					}
					h := http.Handler(http.HandlerFunc(func(w http.ResponseWriter, r *http.Request) {
						_, ok := p.SchemaPath(r)
						if st.inherited != nil && r.Context() == st.inherited {
							ok = false
						}
						if st.conc {
							st.trFor(r).add("CORS(%s;%s)", strings.Join(ms, ","), strings.Join(hs, ","))
						}
						st.trFor(r).add("CORSH(%v)", ok)
						w.WriteHeader(204)
					}))
					return []reflect.Value{reflect.ValueOf(&h).Elem()}
				})
				fv.Set(fn)
			}
		case f.Name == "Middlewares":
			var mws []func(http.Handler) http.Handler
			for k := 0; k < c.Mws; k++ {
				k := k
				mws = append(mws, func(next http.Handler) http.Handler {
					return http.HandlerFunc(func(w http.ResponseWriter, r *http.Request) {
						sp, ok := p.SchemaPath(r)
						st.trFor(r).add("M%d>(%s,%v)", k, sp, ok)
						if k == 0 && !st.conc {
							st.lastCtx = r.Context()
						}
						next.ServeHTTP(w, r)
						st.trFor(r).add("M%d<", k)
					})
				})
			}
			fv.Set(reflect.ValueOf(mws))
		case strings.HasPrefix(f.Name, "Security") && f.Type.Kind() == reflect.Func:
			accept, ok := c.Auth[f.Name]
			if !ok {
				continue // left nil
			}
			name := f.Name
			if a, ok := c.Alias[name]; ok {
				name = a
			}
			fn := reflect.MakeFunc(f.Type, func(args []reflect.Value) []reflect.Value {
				r := args[0].Interface().(*http.Request)
				tok := args[1].String()
				okTok := false
				for _, a := range accept {
					if a == tok {
						okTok = true
					}
				}
				st.trFor(r).add("A:%s(%s)=%v", name, hx(tok), okTok)
				var r2 *http.Request
				if okTok {
					// the authenticator returns ITS OWN request: a clone carrying a context value and a
					// header the incoming request does not have (the handler must see both)
					r2 = r.Clone(context.WithValue(r.Context(), ctxTag{}, name+":"+tok))
					r2.Header.Set("X-Verif-Authd", name+":"+tok)
				}
				return []reflect.Value{reflect.ValueOf(r2), reflect.ValueOf(okTok)}
			})
			fv.Set(fn)
		case f.Type.Kind() == reflect.Func && strings.HasSuffix(f.Name, "Handler"):
			ft := f.Type
			noParse, resp, nan := c.NoParse, c.Resp, c.NaN
			fv.Set(reflect.MakeFunc(ft, func(args []reflect.Value) []reflect.Value {
				req := args[1]
				var hr *http.Request
				if httpm := req.MethodByName("HTTP"); httpm.IsValid() {
					hr, _ = httpm.Call(nil)[0].Interface().(*http.Request)
				}
				tr := st.trFor(hr)
				tr.add("H:%s", handlerIdent(ft))
				if hr != nil {
					if tag, ok := hr.Context().Value(ctxTag{}).(string); ok {
						tr.add("C:%s", hx(tag))
						if got := hr.Header.Get("X-Verif-Authd"); got != tag {
							tr.add("C:!handler-did-not-get-the-request-the-authenticator-returned(%s)", hx(got))
						}
					}
				}
				if !noParse {
					tr.add("P:%s", callParse(req))
				}
				return []reflect.Value{makeResponse(p, ft.Out(0), resp, nan)}
			}))
		}
	}
	return st
}

func serve(p *Pkg, c *Case) string {
	var st *apiState
	if c.Reuse && lastAPI != nil && lastAPI.key == cfgKey(c) {
		st = lastAPI
		st.tr = &trace{}
	} else {
		st = buildAPI(p, c)
	}
	lastAPI = st
	tr := st.tr
	apiPtr := st.apiPtr
	w := &countingWriter{h: http.Header{}}
	func() {
		defer func() {
			if r := recover(); r != nil {
				tr.add("PANIC:%s", hx(fmt.Sprint(r)))
			}
		}()
		req := buildRequest(c)
		st.inherited = nil
		if c.Inherit && st.lastCtx != nil {
			req = req.WithContext(st.lastCtx)
			st.inherited = st.lastCtx
		}
		if c.Cancelled {
			cctx, cancel := context.WithCancel(req.Context())
			cancel()
			req = req.WithContext(cctx)
		}
		apiPtr.Interface().(http.Handler).ServeHTTP(w, req)
	}()
	body := w.body.String()
	bsum := "len=" + strconv.Itoa(len(body))
	if body == p.SpecFile && body != "" {
		bsum = "SPECFILE"
	}
	tr.add("S:%d W:%d CT:%s B:%s", w.status, w.nWH, w.h.Get("Content-Type"), bsum)
	return strings.Join(tr.ev, " | ")
}

// callParse calls Parse() on a generated <Op>Request value and dumps the result.
func callParse(req reflect.Value) (out string) {
	defer func() {
		if r := recover(); r != nil {
			out = "PANIC:" + hx(fmt.Sprint(r))
		}
	}()
	m := req.MethodByName("Parse")
	if !m.IsValid() {
		return "no-parse"
	}
	res := m.Call(nil)
	if len(res) == 2 && !res[1].IsNil() {
		return DumpErr(res[1].Interface().(error))
	}
	return "ok" + DumpParams(res[0])
}

// DumpErr maps a parse error to (kind, location, name).
func DumpErr(err error) string {
	// what a handler does with a parse error is to put its text into the 400 response: the text
	// itself has to be obtainable (the caller recovers and reports a panic of Error())
	_ = err.Error()
	v := reflect.ValueOf(err)
	if v.Kind() == reflect.Struct && v.Type().Name() == "ErrParseParam" {
		in := v.FieldByName("In").String()
		par := v.FieldByName("Parameter").String()
		reason := v.FieldByName("Reason").String()
		kind := "lexical"
		switch {
		case reason == "required":
			kind = "required"
		case strings.HasPrefix(reason, "multiple values"):
			kind = "multiple"
		}
		return fmt.Sprintf("err(%s,%s,%s)", in, hx(par), kind)
	}
	msg := err.Error()
	switch {
	case strings.HasPrefix(msg, "wrong path"):
		return "err(wrong-path)"
	case strings.HasPrefix(msg, "query parameter '") && strings.HasSuffix(msg, "': is required"):
		return fmt.Sprintf("err(query,%s,required)", hx(msg[len("query parameter '"):len(msg)-len("': is required")]))
	case strings.HasPrefix(msg, "header parameter '") && strings.HasSuffix(msg, "': is required"):
		return fmt.Sprintf("err(header,%s,required)", hx(msg[len("header parameter '"):len(msg)-len("': is required")]))
	case strings.HasPrefix(msg, "decode request body"):
		return "err(body)"
	}
	return "err(other:" + hx(msg) + ")"
}

// DumpParams dumps a <Op>Params struct positionally: Query[..] Path[..] Headers[..] Body(..)
func DumpParams(v reflect.Value) string {
	var sb strings.Builder
	t := v.Type()
	for i := 0; i < t.NumField(); i++ {
		f := t.Field(i)
		fv := v.Field(i)
		switch f.Name {
		case "Query", "Path", "Headers":
			sb.WriteString(" " + f.Name + "[")
			for j := 0; j < fv.NumField(); j++ {
				if j > 0 {
					sb.WriteString(",")
				}
				sb.WriteString(DumpVal(fv.Field(j)))
			}
			sb.WriteString("]")
		case "Body":
			if rd, ok := fv.Interface().(io.Reader); ok && fv.Kind() == reflect.Interface {
				bs, _ := io.ReadAll(rd)
				sb.WriteString(" Body(raw:" + hex.EncodeToString(bs) + ")")
			} else {
				sb.WriteString(" Body(" + DumpVal(fv) + ")")
			}
		}
	}
	return sb.String()
}

var timeType = reflect.TypeOf(time.Time{})

// DumpVal renders a value canonically (no addresses, no map order, floats by bits, times as instants).
func DumpVal(v reflect.Value) string {
	if !v.IsValid() {
		return "invalid"
	}
	t := v.Type()
	if t == timeType {
		return "t:" + strconv.FormatInt(v.Interface().(time.Time).UnixNano(), 10)
	}
	if t.Kind() == reflect.Struct && t.ConvertibleTo(timeType) {
		return "t:" + strconv.FormatInt(v.Convert(timeType).Interface().(time.Time).UnixNano(), 10)
	}
	switch v.Kind() {
	case reflect.String:
		return "s:" + hx(v.String())
	case reflect.Bool:
		return "b:" + strconv.FormatBool(v.Bool())
	case reflect.Int, reflect.Int8, reflect.Int16, reflect.Int32, reflect.Int64:
		return "i:" + strconv.FormatInt(v.Int(), 10)
	case reflect.Uint, reflect.Uint8, reflect.Uint16, reflect.Uint32, reflect.Uint64:
		return "u:" + strconv.FormatUint(v.Uint(), 10)
	case reflect.Float32, reflect.Float64:
		return "f:" + strconv.FormatUint(math.Float64bits(v.Float()), 16)
	case reflect.Slice:
		if t.Elem().Kind() == reflect.Uint8 {
			return "raw:" + hex.EncodeToString(v.Bytes())
		}
		if v.IsNil() {
			return "nil[]"
		}
		var parts []string
		for i := 0; i < v.Len(); i++ {
			parts = append(parts, DumpVal(v.Index(i)))
		}
		return "[" + strings.Join(parts, ",") + "]"
	case reflect.Map:
		if v.IsNil() {
			return "nil{}"
		}
		keys := v.MapKeys()
		sort.Slice(keys, func(i, j int) bool { return keys[i].String() < keys[j].String() })
		var parts []string
		for _, k := range keys {
			parts = append(parts, hx(k.String())+"="+DumpVal(v.MapIndex(k)))
		}
		return "map{" + strings.Join(parts, ",") + "}"
	case reflect.Struct:
		if strings.HasPrefix(t.Name(), "Maybe[") {
			if !v.FieldByName("IsSet").Bool() {
				return "-"
			}
			return DumpVal(v.FieldByName("Value"))
		}
		if strings.HasPrefix(t.Name(), "Nullable[") {
			if !v.FieldByName("IsSet").Bool() {
				return "null"
			}
			return DumpVal(v.FieldByName("Value"))
		}
		var parts []string
		for i := 0; i < v.NumField(); i++ {
			parts = append(parts, t.Field(i).Name+":"+DumpVal(v.Field(i)))
		}
		return "{" + strings.Join(parts, ",") + "}"
	case reflect.Ptr:
		if v.IsNil() {
			return "nilptr"
		}
		return "&" + DumpVal(v.Elem())
	case reflect.Interface:
		if v.IsNil() {
			return "nilif"
		}
		bs, err := json.Marshal(v.Interface())
		if err != nil {
			return "if:?"
		}
		return "j:" + hx(string(bs))
	}
	return "?" + t.String()
}

var (
	readCloserType = reflect.TypeOf((*io.ReadCloser)(nil)).Elem()
)

// makeResponse builds a value of the operation's response interface through one of the
// package's exported constructors (chosen by index among those whose result implements it).
// poisonFloats sets every float reachable through structs, Maybe / Nullable wrappers and (one-element)
// slices to NaN.
func poisonFloats(v reflect.Value, depth int) {
	if depth > 8 || !v.CanSet() {
		return
	}
	switch v.Kind() {
	case reflect.Float32, reflect.Float64:
		v.SetFloat(math.NaN())
	case reflect.Struct:
		if v.Type() == timeType || v.Type().ConvertibleTo(timeType) {
			return
		}
		if isWrapper(v.Type(), "Maybe") || isWrapper(v.Type(), "Nullable") {
			if f := v.FieldByName("IsSet"); f.IsValid() && f.CanSet() {
				f.SetBool(true)
			}
		}
		for i := 0; i < v.NumField(); i++ {
			poisonFloats(v.Field(i), depth+1)
		}
	case reflect.Slice:
		if v.Type().Elem().Kind() == reflect.Uint8 {
			return
		}
		s := reflect.MakeSlice(v.Type(), 1, 1)
		poisonFloats(s.Index(0), depth+1)
		v.Set(s)
	}
}

func makeResponse(p *Pkg, iface reflect.Type, idx int, nan bool) reflect.Value {
	names := respCtors(p, iface)
	if len(names) == 0 {
		panic("no response constructor for " + iface.Name())
	}
	name := names[((idx%len(names))+len(names))%len(names)]
	fn := reflect.ValueOf(p.Funcs[name])
	ft := fn.Type()
	args := make([]reflect.Value, ft.NumIn())
	for i := range args {
		at := ft.In(i)
		switch {
		case at.Kind() == reflect.Int:
			args[i] = reflect.ValueOf(299)
		case at == readCloserType:
			var rc io.ReadCloser = io.NopCloser(strings.NewReader("raw"))
			args[i] = reflect.ValueOf(&rc).Elem()
		default:
			args[i] = reflect.Zero(at)
			if nan {
				av := reflect.New(at).Elem()
				poisonFloats(av, 0)
				args[i] = av
			}
		}
	}
	res := fn.Call(args)[0]
	out := reflect.New(iface).Elem()
	out.Set(res)
	return out
}

func respCtors(p *Pkg, iface reflect.Type) []string {
	var names []string
	for n, f := range p.Funcs {
		ft := reflect.TypeOf(f)
		if ft.Kind() != reflect.Func || ft.NumOut() != 1 || !strings.HasPrefix(n, "New") {
			continue
		}
		if ft.Out(0).Implements(iface) {
			names = append(names, n)
		}
	}
	sort.Strings(names)
	return names
}
