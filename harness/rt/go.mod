module verif/rt

go 1.20
