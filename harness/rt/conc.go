package rt

// conc (C20): many requests served concurrently by ONE generated API value (and sent through ONE
// generated client) must each be observed exactly as when served alone. Every request carries
// its own trace in its context; the driver shares nothing else between requests, so that under
// the race detector any report points at the generated code.

import (
	"context"
	"encoding/json"
	"fmt"
	"io"
	"net/http"
	"net/http/httptest"
	"reflect"
	"strings"
	"sync"
)

func init() {
	ops["conc"] = concServe
	ops["concclient"] = concClient
}

type concArgs struct {
	Reqs    []Case   `json:"reqs"`
	Calls   []opArgs `json:"calls"`
	Workers int      `json:"workers"`
	Rounds  int      `json:"rounds"`
}

func serveTraced(st *apiState, p *Pkg, c *Case) string {
	tr := &trace{}
	w := &countingWriter{h: http.Header{}}
	r := buildRequest(c)
	r = r.WithContext(context.WithValue(r.Context(), trKey{}, tr))
	func() {
		defer func() {
			if rec := recover(); rec != nil {
				tr.add("PANIC:%s", hx(fmt.Sprint(rec)))
			}
		}()
		st.apiPtr.Interface().(http.Handler).ServeHTTP(w, r)
	}()
	body := w.body.String()
	bsum := "len=" + fmt.Sprint(len(body)) + ":" + hx(body)
	if body == p.SpecFile && body != "" {
		bsum = "SPECFILE"
	}
	var hk []string
	for k, vs := range w.h {
		hk = append(hk, k+"="+strings.Join(vs, ","))
	}
	sortStrings(hk)
	tr.add("S:%d W:%d H:%s B:%s", w.status, w.nWH, hx(strings.Join(hk, ";")), bsum)
	return strings.Join(tr.ev, " | ")
}

func sortStrings(a []string) {
	for i := 1; i < len(a); i++ {
		for j := i; j > 0 && a[j] < a[j-1]; j-- {
			a[j], a[j-1] = a[j-1], a[j]
		}
	}
}

func concServe(p *Pkg, c *Case) string {
	var a concArgs
	json.Unmarshal(c.Args, &a)
	st := buildAPI(p, c)
	st.conc = true
	n := len(a.Reqs)
	if n == 0 {
		return "conc n=0"
	}
	seq := make([]string, n)
	for i := range a.Reqs {
		seq[i] = serveTraced(st, p, &a.Reqs[i])
	}
	// the concurrent phase runs on a FRESH API value of the same configuration: lazily
	// initialised state must meet its first requests concurrently
	st = buildAPI(p, c)
	st.conc = true
	type diff struct{ id, seq, conc string }
	var mu sync.Mutex
	var diffs []diff
	var wg sync.WaitGroup
	total := 0
	for w := 0; w < a.Workers; w++ {
		wg.Add(1)
		total += a.Rounds * n
		go func(w int) {
			defer wg.Done()
			for r := 0; r < a.Rounds; r++ {
				for k := 0; k < n; k++ {
					i := (k*7 + w*3 + r) % n
					got := serveTraced(st, p, &a.Reqs[i])
					if got != seq[i] {
						mu.Lock()
						diffs = append(diffs, diff{a.Reqs[i].ID, seq[i], got})
						mu.Unlock()
					}
				}
			}
		}(w)
	}
	wg.Wait()
	if len(diffs) > 0 {
		d := diffs[0]
		return fmt.Sprintf("conc n=%d served=%d diffs=%d first=%s alone=%s concurrent=%s", n, total, len(diffs), d.id, hx(d.seq), hx(d.conc))
	}
	return fmt.Sprintf("conc n=%d served=%d diffs=0", n, total)
}

// hasReader: does the value contain a set io.Reader (a stream that one call consumes)?
func hasReader(v reflect.Value) bool {
	switch v.Kind() {
	case reflect.Interface:
		if v.IsNil() {
			return false
		}
		if _, ok := v.Interface().(io.Reader); ok {
			return true
		}
		return hasReader(v.Elem())
	case reflect.Struct:
		for i := 0; i < v.NumField(); i++ {
			if hasReader(v.Field(i)) {
				return true
			}
		}
	case reflect.Pointer:
		if !v.IsNil() {
			return hasReader(v.Elem())
		}
	}
	return false
}

// ---- client side: one API, one Client, concurrent seeded calls

type callSlot struct {
	a        opArgs
	parsed   string
	sentResp string
}

type slotKey struct{}

type passThrough struct{ api http.Handler }

func (c passThrough) Do(r *http.Request) (*http.Response, error) {
	w := httptest.NewRecorder()
	c.api.ServeHTTP(w, r)
	return w.Result(), nil
}

func concClient(p *Pkg, c *Case) string {
	var a concArgs
	json.Unmarshal(c.Args, &a)
	if p.NewClient == nil {
		return "no-client"
	}
	mk := func(own bool) func(ca opArgs, pre *reflect.Value) string {
		apiPtr := reflect.ValueOf(p.NewAPI())
		api := apiPtr.Elem()
		at := api.Type()
		// every operation handler answers from the slot carried by the request context
		for i := 0; i < at.NumField(); i++ {
			f := at.Field(i)
			if f.Type.Kind() != reflect.Func || !strings.HasSuffix(f.Name, "Handler") || f.Name == "NotFoundHandler" || f.Name == "SpecFileHandler" || f.Name == "CORSHandler" {
				continue
			}
			ft := f.Type
			iface := ft.Out(0)
			names := respCtors(p, iface)
			api.Field(i).Set(reflect.MakeFunc(ft, func(args []reflect.Value) []reflect.Value {
				ctx := args[0].Interface().(context.Context)
				sl, _ := ctx.Value(slotKey{}).(*callSlot)
				out := reflect.New(iface).Elem()
				if sl == nil || len(names) == 0 {
					return []reflect.Value{out}
				}
				sl.parsed = callParseBodies(args[1])
				r := &rnd{s: sl.a.Seed ^ 0x5bd1e995}
				fn := reflect.ValueOf(p.Funcs[names[sl.a.Resp%len(names)]])
				fnT := fn.Type()
				in := make([]reflect.Value, fnT.NumIn())
				for k := range in {
					in[k] = reflect.New(fnT.In(k)).Elem()
					if fnT.In(k).Kind() == reflect.Int && k == 0 {
						in[k].SetInt(int64(sl.a.Status))
					} else {
						fill(in[k], &fillCtx{r: r, mode: "respheader"}, 0)
						if in[k].Kind() == reflect.Interface || in[k].Kind() == reflect.Struct {
							snapshotBodies(in[k])
							armCloseErrors(in[k], r)
						}
					}
				}
				res := fn.Call(in)[0]
				cv := res
				if cv.Kind() == reflect.Interface {
					cv = cv.Elem()
				}
				if cv.Kind() == reflect.Struct {
					sl.sentResp = cv.Type().Name() + dumpRespKeepingBodies(cv)
				}
				out.Set(res)
				return []reflect.Value{out}
			}))
		}
		cl := newClientFor(p, apiPtr, passThrough{api: apiPtr.Interface().(http.Handler)})
		if own {
			// the in-process client exactly as goag wires it, its own transport included
			cl = apiPtr.Elem().MethodByName("LocalClient").Call(nil)[0]
		}
		one := func(ca opArgs, pre *reflect.Value) string {
			field, _, ok := findOp(p, ca.Method, ca.Path)
			if !ok {
				return "no-such-op"
			}
			m := cl.MethodByName(strings.TrimSuffix(field, "Handler"))
			if !m.IsValid() {
				return "no-client-method"
			}
			sl := &callSlot{a: ca}
			reqV := reflect.New(m.Type().In(1)).Elem()
			if pre != nil {
				// ONE request value handed to many concurrent calls (a caller may do that: the client
				// only has to read it)
				reqV = *pre
			} else {
				fillParams(reqV, &rnd{s: ca.Seed})
				snapshotBodies(reqV)
			}
			sent := "ok" + dumpParamsBodies(reqV)
			var res []reflect.Value
			var perr any
			func() {
				defer func() { perr = recover() }()
				res = m.Call([]reflect.Value{reflect.ValueOf(context.WithValue(context.Background(), slotKey{}, sl)), reqV})
			}()
			if perr != nil {
				return "PANIC:" + hx(fmt.Sprint(perr))
			}
			got := "err:"
			if !res[1].IsNil() {
				got += hx(res[1].Interface().(error).Error())
			} else {
				rv := res[0].Elem()
				got = rv.Type().Name() + dumpWithBodies(rv)
			}
			return fmt.Sprintf("sent=%s parsed=%s respsent=%s respgot=%s", sent, sl.parsed, sl.sentResp, got)
		}
		return one
	}
	n := len(a.Calls)
	if n == 0 {
		return "concclient n=0"
	}
	seq := make([]string, n)
	one := mk(false)
	for i := range a.Calls {
		seq[i] = one(a.Calls[i], nil)
	}
	one = mk(true) // fresh API + its own LocalClient for the concurrent phase
	// request values without stream bodies are built once and shared by all goroutines
	shared := make([]*reflect.Value, n)
	for i, ca := range a.Calls {
		field, _, ok := findOp(p, ca.Method, ca.Path)
		if !ok {
			continue
		}
		cm, ok2 := reflect.TypeOf(p.NewClient).Out(0).MethodByName(strings.TrimSuffix(field, "Handler"))
		if !ok2 {
			continue
		}
		reqV := reflect.New(cm.Type.In(2)).Elem()
		fillParams(reqV, &rnd{s: ca.Seed})
		if hasReader(reqV) {
			continue
		}
		shared[i] = &reqV
	}
	var mu sync.Mutex
	ndiff := 0
	first := ""
	var wg sync.WaitGroup
	total := 0
	for w := 0; w < a.Workers; w++ {
		wg.Add(1)
		total += a.Rounds * n
		go func(w int) {
			defer wg.Done()
			for r := 0; r < a.Rounds; r++ {
				for k := 0; k < n; k++ {
					i := (k*5 + w*3 + r) % n
					got := one(a.Calls[i], shared[i])
					if got != seq[i] {
						mu.Lock()
						if ndiff == 0 {
							first = fmt.Sprintf("call=%d alone=%s concurrent=%s", i, hx(seq[i]), hx(got))
						}
						ndiff++
						mu.Unlock()
					}
				}
			}
		}(w)
	}
	wg.Wait()
	if ndiff > 0 {
		return fmt.Sprintf("concclient n=%d calls=%d diffs=%d first=%s", n, total, ndiff, first)
	}
	return fmt.Sprintf("concclient n=%d calls=%d diffs=0", n, total)
}
