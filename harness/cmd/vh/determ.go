package main

// Facet F-gen/determinism (C12, failing-input search): run the generator several times on
// the same spec (in this process, where every map range draws a fresh random order, and in
// fresh processes) and compare sha256 of every written file.

import (
	"bufio"
	"bytes"
	"crypto/sha256"
	"encoding/hex"
	"encoding/json"
	"flag"
	"fmt"
	"os"
	"os/exec"
	"path/filepath"
	"sort"
	"strings"
)

func init() {
	facets["determ"] = facetDeterm
	facets["gen1"] = facetGen1
}

// fatSpec: >= 4 entries in every map-typed OpenAPI construct goag reads.
func fatSpec(rng *PRNG) []byte {
	names := []string{"alpha", "bravo", "charlie", "delta", "echo", "foxtrot"}
	rngShuffle := func(xs []string) []string {
		out := append([]string{}, xs...)
		for i := len(out) - 1; i > 0; i-- {
			j := rng.Intn(i + 1)
			out[i], out[j] = out[j], out[i]
		}
		return out
	}
	schemas := map[string]any{}
	var objNames []string
	for i, n := range rngShuffle(names)[:5] {
		props := map[string]any{}
		var req []any
		for j, pn := range rngShuffle(names)[:4] {
			t := []map[string]any{{"type": "string"}, {"type": "integer"}, {"type": "boolean"}, {"type": "number"}}[(i+j)%4]
			props[pn+"_p"] = t
			if j%2 == 0 {
				req = append(req, pn+"_p")
			}
		}
		// sibling keys that differ only in letter case (a case-insensitive ordering would tie)
		props["Tag_p"] = map[string]any{"type": "string"}
		props["tag_p"] = map[string]any{"type": "integer"}
		props["kind"] = map[string]any{"type": "string"}
		// a property carrying several vendor extensions, in the spellings of this and of other
		// generators, with different values (the extension map has >= 4 entries)
		props["seen_p"] = map[string]any{"type": "string", "format": "date-time", "x-goag-go-time-format": "time.RFC3339", "x-go-time-format": "time.RFC1123",
			"x-go-name": "SeenAt", "x-oapi-codegen-extra-tags": map[string]any{"db": "seen"}, "x-order": 3, "X-GOAG-GO-TIME-FORMAT": "time.Kitchen"}
		req = append(req, "kind")
		schemas["Obj"+strings.Title(n)] = map[string]any{"type": "object", "properties": props, "required": req}
		objNames = append(objNames, "Obj"+strings.Title(n))
	}
	sort.Strings(objNames)
	var oneOf []any
	mapping := map[string]any{}
	for i, on := range objNames[:4] {
		oneOf = append(oneOf, map[string]any{"$ref": "#/components/schemas/" + on})
		mapping[fmt.Sprintf("m%d_%s", i, names[i])] = "#/components/schemas/" + on
		mapping[fmt.Sprintf("x%d", i)] = "#/components/schemas/" + on
		mapping[fmt.Sprintf("X%d", i)] = "#/components/schemas/" + on
	}
	schemas["Union"] = map[string]any{"oneOf": oneOf, "discriminator": map[string]any{"propertyName": "kind", "mapping": mapping}}
	schemas["Merged"] = map[string]any{"allOf": []any{map[string]any{"$ref": "#/components/schemas/" + objNames[0]}, map[string]any{"type": "object", "properties": map[string]any{"extra": map[string]any{"type": "string"}}}}}
	hdrs := map[string]any{}
	for _, n := range names[:4] {
		hdrs["X-"+strings.Title(n)] = map[string]any{"schema": map[string]any{"type": "string"}, "required": n < "c"}
	}
	// component header keys are Go type names in goag: identifier-shaped (a key such as "X-Alpha"
	// is rejected: 'type X-Alpha string' is not valid Go)
	compHdrs := map[string]any{}
	for _, n := range names[:4] {
		compHdrs["H"+strings.Title(n)] = map[string]any{"schema": map[string]any{"type": "string"}, "required": n < "c"}
	}
	compResponses := map[string]any{}
	for _, n := range names[:4] {
		compResponses["R"+strings.Title(n)] = map[string]any{"description": n, "headers": hdrs, "content": map[string]any{"application/json": map[string]any{"schema": map[string]any{"$ref": "#/components/schemas/" + objNames[1]}}}}
	}
	compParams := map[string]any{}
	for i, n := range names[:4] {
		compParams["P"+strings.Title(n)] = map[string]any{"in": []string{"query", "header"}[i%2], "name": "c-" + n, "schema": map[string]any{"type": "integer"}}
	}
	secSchemes := map[string]any{
		"jwt":   map[string]any{"type": "http", "scheme": "bearer"},
		"keyA":  map[string]any{"type": "apiKey", "in": "header", "name": "X-Key-A"},
		"keyB":  map[string]any{"type": "apiKey", "in": "header", "name": "X-Key-B"},
		"keyQ":  map[string]any{"type": "apiKey", "in": "query", "name": "kq"},
		"oauth": map[string]any{"type": "oauth2", "flows": map[string]any{"implicit": map[string]any{"authorizationUrl": "https://e.example/a", "scopes": map[string]any{"a": "A", "b": "B", "c": "C", "d": "D"}}}},
	}
	paths := map[string]any{}
	for i, n := range rngShuffle(names)[:5] {
		pi := map[string]any{}
		for j, m := range []string{"get", "post", "put", "delete"} {
			responses := map[string]any{}
			for k, st := range []string{"200", "201", "400", "404"} {
				if (k+j)%3 == 0 {
					responses[st] = map[string]any{"$ref": "#/components/responses/R" + strings.Title(names[(k+j+i)%4])}
				} else {
					responses[st] = map[string]any{"description": st, "headers": hdrs, "content": map[string]any{"application/json": map[string]any{"schema": map[string]any{"$ref": "#/components/schemas/" + objNames[(k+j)%5]}}}}
				}
			}
			responses["default"] = map[string]any{"description": "d"}
			op := map[string]any{"responses": responses, "parameters": []any{
				map[string]any{"$ref": "#/components/parameters/P" + strings.Title(names[j%4])},
				map[string]any{"in": "query", "name": "q" + fmt.Sprint(j), "schema": map[string]any{"type": "string"}},
				map[string]any{"in": "header", "name": "H-" + n, "schema": map[string]any{"type": "string"}},
			}}
			if j%2 == 1 {
				op["requestBody"] = map[string]any{"content": map[string]any{"application/json": map[string]any{"schema": map[string]any{"$ref": "#/components/schemas/Union"}}, "application/xml": map[string]any{"schema": map[string]any{"type": "string"}}, "text/plain": map[string]any{"schema": map[string]any{"type": "string"}}, "application/octet-stream": map[string]any{"schema": map[string]any{"type": "string", "format": "binary"}}}}
				if j == 3 {
					// four flavours of one media type that differ only in a parameter, each with a schema of its own
					vs := map[string]any{}
					for v := 0; v < 4; v++ {
						vs[fmt.Sprintf("application/json; version=%d", v+1)] = map[string]any{"schema": map[string]any{"$ref": "#/components/schemas/" + objNames[v]}}
					}
					op["requestBody"] = map[string]any{"content": vs}
				}
				op["security"] = []any{map[string]any{"keyA": []any{}, "keyB": []any{}, "jwt": []any{}, "keyQ": []any{}}, map[string]any{"oauth": []any{"a", "b"}, "jwt": []any{}}}
			}
			pi[m] = op
		}
		paths["/"+n+"/{id}/"+names[(i+1)%6]] = pi
		for _, m := range []string{"get", "post", "put", "delete"} {
			o := pi[m].(map[string]any)
			o["parameters"] = append(o["parameters"].([]any), map[string]any{"in": "path", "name": "id", "required": true, "schema": map[string]any{"type": "string"}})
		}
	}
	doc := map[string]any{
		"openapi": "3.0.3", "info": map[string]any{"title": "fat", "version": "1"},
		"servers": []any{map[string]any{"url": "https://{a}.example.com:{b}/{c}/{d}", "variables": map[string]any{
			"a": map[string]any{"default": "host"}, "b": map[string]any{"default": "8443"}, "c": map[string]any{"default": "api"}, "d": map[string]any{"default": "v{c}"}}}},
		"security":   []any{map[string]any{"jwt": []any{}, "keyA": []any{}}, map[string]any{"keyB": []any{}, "keyQ": []any{}}},
		"paths":      paths,
		"components": map[string]any{"schemas": schemas, "responses": compResponses, "parameters": compParams, "headers": compHdrs, "securitySchemes": secSchemes},
	}
	bs, _ := json.Marshal(doc)
	return bs
}

func hashDir(dir string) map[string]string {
	out := map[string]string{}
	ents, _ := os.ReadDir(dir)
	for _, e := range ents {
		if e.IsDir() || e.Name() == siblingName {
			continue
		}
		bs, err := os.ReadFile(filepath.Join(dir, e.Name()))
		if err != nil {
			continue
		}
		h := sha256.Sum256(bs)
		out[e.Name()] = hex.EncodeToString(h[:8])
	}
	return out
}

// facetGen1: one generator run in a fresh process: vh gen1 -spec f -out dir [-client] [-cors]
func facetGen1(args []string) error {
	fs := flag.NewFlagSet("gen1", flag.ExitOnError)
	spec := fs.String("spec", "", "")
	out := fs.String("out", "", "")
	client := fs.Bool("client", false, "")
	cors := fs.Bool("cors", false, "")
	fs.Parse(args)
	bs, err := os.ReadFile(*spec)
	if err != nil {
		return err
	}
	ext := strings.TrimPrefix(filepath.Ext(*spec), ".")
	r := runGoag(*out, GenSpec{Name: "p", Spec: bs, Ext: ext, Client: *client, Cors: *cors, DoNotEdit: true})
	if r.Outcome != "ok" {
		return fmt.Errorf("%s: %s", r.Outcome, firstLine(r.Detail))
	}
	return nil
}

// a hand-written file that may live next to the generated ones: the generated bytes must not
// depend on what else the output directory holds (e.g. on imports found in sibling files)
const siblingName = "ids_handwritten.go"
const siblingText = "package p\n\n// Hand-written file that lives next to the generated ones.\n\nimport \"example.test/acme/acmeids\"\n\n// OrderKey is the key the storage layer uses.\ntype OrderKey = acmeids.OrderID\n"

// custom Go types named without an import path (and no imports entry in the config)
const customTypeSpec = `{"openapi":"3.0.3","info":{"title":"orders","version":"1"},"paths":{"/orders/{order_id}":{"get":{"operationId":"getOrder","parameters":[{"name":"order_id","in":"path","required":true,"schema":{"type":"string","x-goag-go-type":"acmeids.OrderID"}},{"name":"after","in":"query","schema":{"type":"string","x-goag-go-type":"acmeids.OrderID"}}],"responses":{"200":{"description":"OK","content":{"application/json":{"schema":{"$ref":"#/components/schemas/Order"}}}},"default":{"description":"error"}}}}},"components":{"schemas":{"Order":{"type":"object","required":["id"],"properties":{"id":{"type":"string","x-goag-go-type":"acmeids.OrderID"},"note":{"type":"string"}}}}}}`

const failingSpec = `{"openapi":"3.0.3","info":{"title":"t","version":"1"},"paths":{"/x":{"get":{"parameters":[{"in":"query","name":"filter","schema":{"type":"object","properties":{"a":{"type":"string"}}}}],"responses":{"200":{"description":"ok","content":{"application/json":{"schema":{"type":"object","properties":{"v":{"type":"string"}}}}}}}}}}}`

const otherSpec = `{"openapi":"3.0.3","info":{"title":"t","version":"1"},"paths":{"/other/{id}":{"get":{"parameters":[{"in":"path","name":"id","required":true,"schema":{"type":"integer"}}],"responses":{"200":{"description":"ok"}}}}}}`

func facetDeterm(args []string) error {
	fs := flag.NewFlagSet("determ", flag.ExitOnError)
	seed := fs.Uint64("seed", 1, "seed")
	tier := fs.String("tier", "quick", "quick|thorough")
	out := fs.String("out", "", "output dir")
	work := fs.String("work", "", "scratch dir")
	shard := fs.Int("shard", 0, "shard index")
	nshards := fs.Int("nshards", 1, "number of shards")
	fs.Parse(args)
	rng := NewPRNG(*seed*7 + 3)
	type dspec struct {
		name string
		spec []byte
		ext  string
		kind string
	}
	var specs []dspec
	nfat, ngen := 6, 30
	runs, procs := 6, 2
	if *tier == "thorough" {
		nfat, ngen, runs, procs = 40, 300, 24, 4
	}
	for i := 0; i < nfat; i++ {
		specs = append(specs, dspec{fmt.Sprintf("fat%d", i), fatSpec(rng.Fork()), "json", "map-fat"})
	}
	fixtures, _ := filepath.Glob("/repo/tests/*/openapi.yaml")
	sort.Strings(fixtures)
	for _, f := range fixtures {
		bs, err := os.ReadFile(f)
		if err == nil {
			specs = append(specs, dspec{"fx_" + filepath.Base(filepath.Dir(f)), bs, "yaml", "fixture"})
		}
	}
	specs = append(specs, dspec{"custom_types", []byte(customTypeSpec), "json", "custom-type"})
	for i := 0; i < ngen; i++ {
		rs := genRouteSpec(rng.Fork(), fmt.Sprintf("g%d", i), i%3 == 0, i%3 == 1)
		specs = append(specs, dspec{fmt.Sprintf("gen%d", i), rs.Gen.Spec, "json", "generated"})
	}
	self, _ := os.Executable()
	of, _ := os.Create(filepath.Join(*out, "impl.tsv"))
	ow := bufio.NewWriter(of)
	kinds := map[string]int{}
	totalRuns := 0
	for i, s := range specs {
		if i%*nshards != *shard {
			continue
		}
		kinds[s.kind]++
		// should the generator take the whole process down (an unrecoverable runtime error), this
		// marker names the spec it was working on
		ow.Flush()
		os.WriteFile(filepath.Join(*out, "progress"), []byte(s.name+"\t"+s.kind+"\t"+hex.EncodeToString(s.spec)), 0o644)
		var hashes []map[string]string
		outcome := ""
		client := true
		for r := 0; r < runs; r++ {
			w := filepath.Join(*work, fmt.Sprintf("%s_r%d", s.name, r))
			if r%2 == 1 {
				// every other run goes into a directory that already holds a hand-written file
				os.MkdirAll(filepath.Join(w, "mod", "p"), 0o755)
				os.WriteFile(filepath.Join(w, "mod", "p", siblingName), []byte(siblingText), 0o644)
			}
			gs := GenSpec{Name: "p", Spec: s.spec, Ext: s.ext, Client: client, Cors: i%2 == 0, DoNotEdit: true}
			if r%3 == 2 {
				// this run goes into a directory that holds the output of an earlier run on the same
				// (older) spec file with other options: the bytes are a function of THIS invocation only
				gs.Prior = &GenSpec{Name: "alpha", Spec: s.spec, Client: client, DoNotEdit: false, BasePath: "/v2"}
			}
			res := runGoag(w, gs)
			totalRuns++
			if res.Outcome != "ok" && client && r == 0 {
				// e.g. array header parameters are rejected for the client: retry without it
				client = false
				os.RemoveAll(w)
				res = runGoag(w, GenSpec{Name: "p", Spec: s.spec, Ext: s.ext, Client: client, Cors: i%2 == 0, DoNotEdit: true})
			}
			if res.Outcome != "ok" {
				outcome = res.Outcome + ":" + firstLine(res.Detail)
				break
			}
			hashes = append(hashes, hashDir(res.Dir))
			os.RemoveAll(w)
			if r%3 == 1 {
				// other work of the same process in between: a run that FAILS while rendering (an
				// object-typed query parameter) and a run with other options; neither may leave anything
				// behind that reaches the next run's bytes
				wf := filepath.Join(*work, fmt.Sprintf("%s_f%d", s.name, r))
				runGoag(wf, GenSpec{Name: "q", Spec: []byte(failingSpec), Ext: "json", Client: true, DoNotEdit: false})
				os.RemoveAll(wf)
				runGoag(wf, GenSpec{Name: "other", Spec: []byte(otherSpec), Ext: "json", Client: false, DoNotEdit: false, BasePath: "/zz"})
				os.RemoveAll(wf)
				// ... and the failing one once more, so that the next compared run is the first thing that
				// happens after a failure
				runGoag(wf, GenSpec{Name: "q", Spec: []byte(failingSpec), Ext: "json", Client: true, DoNotEdit: false})
				os.RemoveAll(wf)
			}
		}
		if outcome == "" {
			specFile := filepath.Join(*work, s.name+"."+s.ext)
			os.WriteFile(specFile, s.spec, 0o644)
			for p := 0; p < procs; p++ {
				w := filepath.Join(*work, fmt.Sprintf("%s_p%d", s.name, p))
				a := []string{"gen1", "-spec", specFile, "-out", w}
				if client {
					a = append(a, "-client")
				}
				if i%2 == 0 {
					a = append(a, "-cors")
				}
				cmd := exec.Command(self, a...)
				cmd.Env = os.Environ()
				if p == procs-1 && !bytes.Contains(s.spec, []byte("x-goag-go-type")) {
					// (custom Go types named without an import path are resolved by goimports from the
					// machine's GOPATH / module cache: the assumption under which C12 is claimed excludes them)
					// another user's machine: a home directory with a configuration of its own, another
					// working directory, another locale; none of them is an input of the generator
					home := filepath.Join(*work, "otherhome")
					os.MkdirAll(home, 0o755)
					os.WriteFile(filepath.Join(home, ".goag.yaml"), []byte("cors:\n  enable: true\nnullable:\n  type: zzNull\n"), 0o644)
					os.WriteFile(filepath.Join(home, ".goag.yml"), []byte("cors:\n  enable: true\n"), 0o644)
					cmd.Env = append(cmd.Env, "HOME="+home, "XDG_CONFIG_HOME="+home, "LANG=tr_TR.UTF-8", "LC_ALL=tr_TR.UTF-8", "TZ=Asia/Kathmandu")
					cmd.Dir = home
				}
				if o, err := cmd.CombinedOutput(); err != nil {
					outcome = "subprocess:" + firstLine(string(o))
					break
				}
				totalRuns++
				hashes = append(hashes, hashDir(filepath.Join(w, "mod", "p")))
				os.RemoveAll(w)
			}
		}
		verdict := "same"
		var diff []string
		if outcome != "" && len(hashes) > 0 {
			// an earlier run of the very same invocation succeeded: the outcome itself is not a
			// function of the inputs
			verdict = "DIFFERENT"
			diff = append(diff, "outcome("+outcome+")")
		} else if outcome != "" {
			verdict = "not-generated"
		} else {
			for _, h := range hashes[1:] {
				for f, v := range hashes[0] {
					if h[f] != v {
						verdict = "DIFFERENT"
						diff = append(diff, f)
					}
				}
				if len(h) != len(hashes[0]) {
					verdict = "DIFFERENT"
					diff = append(diff, "file-set")
				}
			}
		}
		fmt.Fprintf(ow, "%s\t%s\t%s\t%d\t%s\t%s\t%s\n", s.name, s.kind, verdict, len(hashes), strings.Join(uniq(diff), ","), hex.EncodeToString([]byte(outcome)), hex.EncodeToString(s.spec))
	}
	ow.Flush()
	of.Close()
	os.Remove(filepath.Join(*out, "progress"))
	meta, _ := json.Marshal(map[string]any{"kinds": kinds, "stats": map[string]int{"generator_runs": totalRuns}})
	return os.WriteFile(filepath.Join(*out, "meta.json"), meta, 0o644)
}

func uniq(xs []string) []string {
	sort.Strings(xs)
	var out []string
	for i, x := range xs {
		if i == 0 || xs[i-1] != x {
			out = append(out, x)
		}
	}
	return out
}
