package main

// Facet F-genok (C01): whatever goag reports as success must be a package that parses, is
// gofmt-stable and type-checks. Sources: the fixture specs, every random corpus of the other
// facets (routing, security, parameters, JSON components, responses/client, map-fat specs),
// and name-stress specs (pairs of awkward names in one scope: query / header / path
// parameters, properties, component schemas, operation ids, path segments), each under a
// drawn flag combination (client, api-handler, do-not-edit, base path override, spec handler
// name, CORS). The `verif` hook records which templates the corpus executed.

import (
	"encoding/json"
	"flag"
	"fmt"
	"os"
	"path/filepath"
	"sort"
	"strings"

	"github.com/vkd/goag/generator"
)

func init() { facets["genok"] = facetGenOK }

var stressNames = []string{"a-b", "a_b", "aB", "AB", "a.b", "ab", "id", "ID", "Id", "user_id", "userId", "user-id", "x-val", "XVal", "123", "1a", "a1", "type", "func", "map", "Type",
	"Content-Type", "content_type", "_", "-", "a--b", "a__b", "Ünï", "naïve", "日本", "a b", "a/b", "A", "a", "Items", "Item", "Body", "Response", "Request", "Params", "Query", "HTTP", "Error", "String"}

type stressSpec struct {
	Pos    string
	N1, N2 string
	Spec   []byte
}

func mkStress(pos, n1, n2 string) stressSpec {
	ok := map[string]any{"200": map[string]any{"description": "ok"}}
	doc := map[string]any{"openapi": "3.0.3", "info": map[string]any{"title": "t", "version": "1"}}
	str := map[string]any{"type": "string"}
	param := func(in, n string) any {
		return map[string]any{"in": in, "name": n, "required": in == "path", "schema": str}
	}
	switch pos {
	case "query", "header":
		doc["paths"] = map[string]any{"/x": map[string]any{"get": map[string]any{"parameters": []any{param(pos, n1), param(pos, n2)}, "responses": ok}}}
	case "pathparam":
		doc["paths"] = map[string]any{"/x/{" + n1 + "}/y/{" + n2 + "}": map[string]any{"get": map[string]any{"parameters": []any{param("path", n1), param("path", n2)}, "responses": ok}}}
	case "prop":
		doc["paths"] = map[string]any{"/x": map[string]any{"post": map[string]any{"requestBody": map[string]any{"content": map[string]any{"application/json": map[string]any{"schema": map[string]any{"$ref": "#/components/schemas/Thing"}}}}, "responses": ok}}}
		doc["components"] = map[string]any{"schemas": map[string]any{"Thing": map[string]any{"type": "object", "required": []any{n1}, "properties": map[string]any{n1: str, n2: map[string]any{"type": "integer"}}}}}
	case "schema":
		obj := map[string]any{"type": "object", "properties": map[string]any{"v": str}}
		doc["paths"] = map[string]any{"/x": map[string]any{"post": map[string]any{"requestBody": map[string]any{"content": map[string]any{"application/json": map[string]any{"schema": map[string]any{"$ref": "#/components/schemas/" + n1}}}},
			"responses": map[string]any{"200": map[string]any{"description": "ok", "content": map[string]any{"application/json": map[string]any{"schema": map[string]any{"$ref": "#/components/schemas/" + n2}}}}}}}}
		doc["components"] = map[string]any{"schemas": map[string]any{n1: obj, n2: obj}}
	case "opid":
		doc["paths"] = map[string]any{"/x": map[string]any{"get": map[string]any{"operationId": n1, "responses": ok}}, "/y": map[string]any{"get": map[string]any{"operationId": n2, "responses": ok}}}
	case "seg":
		doc["paths"] = map[string]any{"/" + n1 + "/c": map[string]any{"get": map[string]any{"responses": ok}}, "/" + n2 + "/c": map[string]any{"get": map[string]any{"responses": ok}}}
	}
	bs, _ := json.Marshal(doc)
	return stressSpec{pos, n1, n2, bs}
}

func facetGenOK(args []string) error {
	fs := flag.NewFlagSet("genok", flag.ExitOnError)
	seed := fs.Uint64("seed", 1, "seed")
	tier := fs.String("tier", "quick", "quick|thorough")
	out := fs.String("out", "", "output dir")
	work := fs.String("work", "", "scratch dir")
	shard := fs.Int("shard", 0, "shard index")
	nshards := fs.Int("nshards", 1, "number of shards")
	fs.Parse(args)
	rng := NewPRNG(*seed*2654435761 + uint64(*shard)*97 + 11)
	nRand, nStress := 2, 14
	if *tier == "thorough" {
		nRand, nStress = 8, 60
	}
	type src struct {
		kind   string
		g      GenSpec
		stress *stressSpec
	}
	var srcs []src
	flags := func(g GenSpec, r *PRNG) GenSpec {
		g.Client = r.Bool()
		g.DoNotEdit = r.Bool()
		g.Cors = r.Chance(1, 3)
		if r.Chance(1, 8) {
			g.NoAPI = true
		}
		if r.Chance(1, 4) {
			g.BasePath = Pick(r, []string{"/v9", "/a/b", "/"})
		}
		if r.Chance(1, 5) {
			g.SpecHandler = Pick(r, []string{"spec.json", "doc/openapi.yaml"})
		}
		return g
	}
	// fixtures: shard k takes every nshards-th file
	fixtures, _ := filepath.Glob("/repo/tests/*/openapi.yaml")
	more, _ := filepath.Glob("/repo/examples/*/openapi.yaml")
	fixtures = append(fixtures, more...)
	sort.Strings(fixtures)
	for i, f := range fixtures {
		if i%*nshards != *shard {
			continue
		}
		bs, err := os.ReadFile(f)
		if err != nil || strings.Contains(string(bs), "x-goag-go-type") {
			continue // custom Go types come from user packages: outside "against the standard library alone"
		}
		g := GenSpec{Name: fmt.Sprintf("g%02d_f%03d", *shard, i), Spec: bs, Ext: "yaml"}
		// the fixture's own configuration, then a drawn one
		g0 := g
		g0.Client, g0.DoNotEdit = true, false
		srcs = append(srcs, src{kind: "fixture", g: g0})
		g1 := flags(g, rng.Fork())
		g1.Name += "x"
		srcs = append(srcs, src{kind: "fixture", g: g1})
	}
	for i := 0; i < nRand; i++ {
		base := fmt.Sprintf("g%02d_r%03d", *shard, i)
		r1 := genRouteSpec(rng.Fork(), base+"a", false, false)
		r2 := genRouteSpec(rng.Fork(), base+"b", true, false)
		r3 := genRouteSpec(rng.Fork(), base+"c", false, true)
		for _, rs := range []routeSpec{r1, r2, r3} {
			g := rs.Gen
			fr := rng.Fork()
			g.Client, g.DoNotEdit = fr.Bool(), fr.Bool()
			srcs = append(srcs, src{kind: "routing", g: g})
		}
		env := genJSONEnv(rng.Fork(), jsonFeats{addl: true, inlineObj: true, allOf: true, nullablePrim: true, oneOf: true, anyType: true, tailAddl: true})
		srcs = append(srcs, src{kind: "json", g: flags(GenSpec{Name: base + "d", Spec: env.specDoc(), Ext: "json"}, rng.Fork())})
		rsp := genRespSpec(rng.Fork(), base+"e")
		g := rsp.Gen
		if rsp.MustReject {
			srcs = append(srcs, src{kind: "resp-reject", g: g})
		} else {
			srcs = append(srcs, src{kind: "resp", g: g})
		}
		// specs goag has to refuse (a shared response used twice by one operation through aliases,
		// or as default and numbered): an error is the only acceptable outcome that leaves no broken package
		for try := 0; try < 30; try++ {
			rj := genRespSpec(rng.Fork(), fmt.Sprintf("%sj%d", base, try))
			if rj.MustReject {
				srcs = append(srcs, src{kind: "resp-reject", g: rj.Gen})
				break
			}
		}
		srcs = append(srcs, src{kind: "fat", g: flags(GenSpec{Name: base + "f", Spec: fatSpec(rng.Fork()), Ext: "json"}, rng.Fork())})
	}
	// specs WITHOUT a components section whose bodies carry nested inline objects: every named
	// helper type is registered while the operations are translated, none by the spec itself
	for i := 0; i < 2; i++ {
		inner := map[string]any{"type": "object", "properties": map[string]any{"id": map[string]any{"type": "integer"}, Pick(rng, []string{"tag", "note", "kind"}): map[string]any{"type": "string"}}}
		shapes := []map[string]any{
			{"type": "object", "properties": map[string]any{"pets": map[string]any{"type": "array", "items": inner}}},
			{"type": "object", "properties": map[string]any{"owner": inner}},
			{"type": "object", "additionalProperties": inner},
			{"type": "array", "items": inner},
		}
		body := shapes[rng.Intn(len(shapes))]
		resp := shapes[rng.Intn(len(shapes))]
		op := map[string]any{"responses": map[string]any{"200": map[string]any{"description": "ok", "content": map[string]any{"application/json": map[string]any{"schema": resp}}}}}
		if rng.Bool() {
			op["requestBody"] = map[string]any{"content": map[string]any{"application/json": map[string]any{"schema": body}}}
		}
		doc := map[string]any{"openapi": "3.0.3", "info": map[string]any{"title": "t", "version": "1"},
			"paths": map[string]any{"/shops/{shop}/pets": map[string]any{"post": op, "parameters": []any{map[string]any{"in": "path", "name": "shop", "required": true, "schema": map[string]any{"type": "string"}}}}}}
		bs, _ := json.Marshal(doc)
		srcs = append(srcs, src{kind: "nocomponents", g: flags(GenSpec{Name: fmt.Sprintf("g%02d_n%03d", *shard, i), Spec: bs, Ext: "json"}, rng.Fork())})
	}
	// components that no operation refers to (a library of shared definitions ahead of its users):
	// whatever they need from the rest of the package must be there although no operation asks for it
	for i := 0; i < 2; i++ {
		pet := map[string]any{"type": "object", "required": []any{"name"}, "properties": map[string]any{"name": map[string]any{"type": "string"}}}
		comps := map[string]any{}
		if rng.Bool() {
			comps["responses"] = map[string]any{"Unused": map[string]any{"description": "d", "content": map[string]any{"application/json": map[string]any{"schema": pet}}}}
		}
		if rng.Bool() {
			comps["schemas"] = map[string]any{"Spare": pet, "Spares": map[string]any{"type": "array", "items": map[string]any{"$ref": "#/components/schemas/Spare"}}}
		}
		if rng.Bool() {
			comps["requestBodies"] = map[string]any{"SpareBody": map[string]any{"content": map[string]any{"application/json": map[string]any{"schema": pet}}}}
		}
		if rng.Bool() {
			comps["parameters"] = map[string]any{"SpareParam": map[string]any{"in": "query", "name": "since", "schema": map[string]any{"type": "string", "format": "date-time"}}}
		}
		if rng.Bool() {
			comps["headers"] = map[string]any{"SpareHeader": map[string]any{"schema": map[string]any{"type": "integer"}}}
		}
		if len(comps) == 0 {
			comps["responses"] = map[string]any{"Unused": map[string]any{"description": "d", "content": map[string]any{"application/json": map[string]any{"schema": pet}}}}
		}
		resp := Pick(rng, []map[string]any{{"description": "d"}, {"description": "d", "content": map[string]any{"text/plain": map[string]any{"schema": map[string]any{"type": "string"}}}}})
		doc := map[string]any{"openapi": "3.0.3", "info": map[string]any{"title": "t", "version": "1"}, "components": comps,
			"paths": map[string]any{"/ping": map[string]any{"get": map[string]any{"responses": map[string]any{Pick(rng, []string{"200", "default"}): resp}}}}}
		bs, _ := json.Marshal(doc)
		srcs = append(srcs, src{kind: "orphans", g: flags(GenSpec{Name: fmt.Sprintf("g%02d_o%03d", *shard, i), Spec: bs, Ext: "json"}, rng.Fork())})
	}
	// parameters and response headers whose schema is nullable, optional or required, scalar or array,
	// inline or through a component: two wrappers around one value in every generated parser
	for i := 0; i < 2; i++ {
		types := []map[string]any{{"type": "string"}, {"type": "integer"}, {"type": "integer", "format": "int64"}, {"type": "boolean"}, {"type": "number"}, {"type": "string", "format": "date-time"}}
		mk := func(nullable bool) map[string]any {
			t := map[string]any{}
			for k, v := range Pick(rng, types) {
				t[k] = v
			}
			if nullable {
				t["nullable"] = true
			}
			return t
		}
		var params []any
		schemas := map[string]any{"Plain": map[string]any{"type": "integer"}}
		for k, loc := range []string{"query", "query", "header", "header", "query"} {
			p := map[string]any{"in": loc, "name": fmt.Sprintf("p%d", k), "schema": mk(rng.Chance(2, 3))}
			if rng.Bool() {
				p["required"] = true
			}
			if k == 1 && rng.Bool() {
				p["schema"] = map[string]any{"type": "array", "items": mk(false)}
			}
			params = append(params, p)
		}
		hdrs := map[string]any{"X-A": map[string]any{"schema": mk(true)}, "X-B": map[string]any{"schema": mk(true), "required": true}}
		doc := map[string]any{"openapi": "3.0.3", "info": map[string]any{"title": "t", "version": "1"}, "components": map[string]any{"schemas": schemas},
			"paths": map[string]any{"/things/{id}": map[string]any{"get": map[string]any{
				"parameters": append(params, map[string]any{"in": "path", "name": "id", "required": true, "schema": mk(rng.Bool())}),
				"responses":  map[string]any{"200": map[string]any{"description": "d", "headers": hdrs}}}}}}
		bs, _ := json.Marshal(doc)
		srcs = append(srcs, src{kind: "nullable-params", g: flags(GenSpec{Name: fmt.Sprintf("g%02d_u%03d", *shard, i), Spec: bs, Ext: "json"}, rng.Fork())})
	}
	if *shard%8 == 0 {
		// fixed witness of the recorded finding KF-C01-nullableComponent: a parameter whose schema is a
		// reference to a nullable primitive component
		w := `{"openapi":"3.0.3","info":{"title":"t","version":"1"},"paths":{"/things":{"get":{"parameters":[{"in":"query","name":"p4","schema":{"$ref":"#/components/schemas/NInt"}}],"responses":{"200":{"description":"d"}}}}},"components":{"schemas":{"NInt":{"type":"integer","nullable":true}}}}`
		srcs = append(srcs, src{kind: "nullable-component", g: GenSpec{Name: fmt.Sprintf("g%02d_w000", *shard), Spec: []byte(w), Ext: "json", Client: *shard%16 == 0, DoNotEdit: true}})
		// ... and its sibling: a parameter whose (inline) array schema is nullable
		w2 := `{"openapi":"3.0.3","info":{"title":"t","version":"1"},"paths":{"/things":{"get":{"parameters":[{"in":"query","name":"p1","schema":{"type":"array","nullable":true,"items":{"type":"string"}}}],"responses":{"200":{"description":"d"}}}}}}`
		srcs = append(srcs, src{kind: "nullable-component", g: GenSpec{Name: fmt.Sprintf("g%02d_w001", *shard), Spec: []byte(w2), Ext: "json", Client: *shard%16 == 0, DoNotEdit: true}})
	}
	positions := []string{"query", "header", "pathparam", "prop", "schema", "opid", "seg"}
	for i := 0; i < nStress; i++ {
		pos := positions[(i+*shard)%len(positions)]
		n1 := Pick(rng, stressNames)
		n2 := Pick(rng, stressNames)
		if n1 == n2 {
			n2 = "zz"
		}
		if i%3 == 0 {
			n2 = "zz" // a single awkward name next to a harmless one
		}
		st := mkStress(pos, n1, n2)
		g := GenSpec{Name: fmt.Sprintf("g%02d_s%03d", *shard, i), Spec: st.Spec, Ext: "json", Client: rng.Bool(), DoNotEdit: true}
		srcs = append(srcs, src{kind: "stress", g: g, stress: &st})
	}
	var results []GenResult
	for _, s := range srcs {
		results = append(results, runGoag(*work, s.g))
	}
	for i := range results {
		// api-handler=false without components and without client writes no file at all
		if gos, _ := filepath.Glob(filepath.Join(results[i].Dir, "*.go")); results[i].Outcome == "ok" && len(gos) == 0 {
			results[i].Outcome = "ok-nothing-written"
		}
	}
	if _, err := buildBatch(*work, results); err != nil {
		return err
	}
	gf, _ := os.Create(filepath.Join(*out, "gen.tsv"))
	stats := map[string]int{}
	for i, s := range srcs {
		r := results[i]
		fl := fmt.Sprintf("client=%v api=%v donotedit=%v cors=%v basepath=%s spechandler=%s", s.g.Client, !s.g.NoAPI, s.g.DoNotEdit, s.g.Cors, s.g.BasePath, s.g.SpecHandler)
		st := "\t\t"
		if s.stress != nil {
			st = s.stress.Pos + "\t" + hexs(s.stress.N1) + "\t" + hexs(s.stress.N2)
		}
		fmt.Fprintf(gf, "%s\t%s\t%s\t%s\t%s\t%s\t%s\t%s\t%s\n", r.Name, s.kind, fl, r.Outcome, hexs(firstLine(r.Detail)), hexs(r.Broken), hexs(r.Fmt), hexs(string(s.g.Spec)), st)
		stats[s.kind+":"+r.Outcome]++
	}
	gf.Close()
	meta, _ := json.Marshal(map[string]any{"stats": stats, "templates_executed": generator.VerifTemplatesExecuted(), "templates_defined": generator.VerifTemplateNames()})
	os.WriteFile(filepath.Join(*out, "meta.json"), meta, 0o644)
	_ = strings.TrimSpace
	return nil
}
