package main

// Facet F-json (C06 C07 C08, and the JSON part of C14): random schemas in components,
// reflect-built values encoded with the generated MarshalJSON and decoded back; documents
// generated FROM the schema (independently of goag's encoder) and their single-fault mutants
// decoded with the generated UnmarshalJSON.

import (
	"bufio"
	"encoding/json"
	"flag"
	"fmt"
	"os"
	"path/filepath"
	"sort"
	"strconv"
	"strings"
	"time"

	"github.com/vkd/goag/generator"
	"verif/rt"
)

func init() { facets["jsonf"] = facetJSON }

type JS struct {
	Kind     string // str int int32 int64 num f32 bool time any arr obj ref allOf oneOf
	Nullable bool
	Items    *JS
	Props    []JProp
	Addl     *JS
	Ref      string
	Fmt      string // an integer format other than int32/int64 (the Go type stays int)
	XNull    bool   // carries the Swagger-2 vendor extension x-nullable: true (means nothing in OpenAPI 3)
	Members  []*JS
	Disc     string
	Mapping  [][2]string // discriminator value -> component name
	// explicit `additionalProperties: false`
	AddlFalse bool
	// readOnly: true (says who may send the property, not whether `required` applies to what is encoded)
	ReadOnly bool
}

type JProp struct {
	Name string
	Req  bool
	S    *JS
}

var primKinds = []string{"str", "int", "int32", "int64", "num", "f32", "bool", "time"}

func (s *JS) toSpec() map[string]any {
	m := map[string]any{}
	if s.XNull {
		m["x-nullable"] = true
	}
	switch s.Kind {
	case "str":
		m["type"] = "string"
	case "int":
		m["type"] = "integer"
		if s.Fmt != "" {
			m["format"] = s.Fmt
		}
	case "int32":
		m["type"], m["format"] = "integer", "int32"
	case "int64":
		m["type"], m["format"] = "integer", "int64"
	case "num":
		m["type"] = "number"
	case "f32":
		m["type"], m["format"] = "number", "float"
	case "bool":
		m["type"] = "boolean"
	case "time":
		m["type"], m["format"] = "string", "date-time"
	case "any":
	case "arr":
		m["type"] = "array"
		m["items"] = s.Items.toSpec()
	case "obj":
		m["type"] = "object"
		props := map[string]any{}
		var req []any
		for _, p := range s.Props {
			props[p.Name] = p.S.toSpec()
			if p.Req {
				req = append(req, p.Name)
			}
		}
		if len(props) > 0 {
			m["properties"] = props
		}
		if len(req) > 0 {
			m["required"] = req
		}
		if s.Addl != nil {
			if s.Addl.Kind == "any" {
				m["additionalProperties"] = true
			} else {
				m["additionalProperties"] = s.Addl.toSpec()
			}
		} else if s.AddlFalse {
			m["additionalProperties"] = false
		}
	case "ref":
		return map[string]any{"$ref": "#/components/schemas/" + s.Ref}
	case "allOf":
		var ms []any
		for _, x := range s.Members {
			ms = append(ms, x.toSpec())
		}
		m["allOf"] = ms
	case "oneOf":
		var ms []any
		for _, x := range s.Members {
			ms = append(ms, x.toSpec())
		}
		m["oneOf"] = ms
		if s.Disc != "" {
			d := map[string]any{"propertyName": s.Disc}
			if len(s.Mapping) > 0 {
				mp := map[string]any{}
				for _, kv := range s.Mapping {
					mp[kv[0]] = "#/components/schemas/" + kv[1]
				}
				d["mapping"] = mp
			}
			m["discriminator"] = d
		}
	}
	if s.Nullable {
		m["nullable"] = true
	}
	if s.ReadOnly {
		m["readOnly"] = true
	}
	return m
}

type jsonEnv struct {
	names []string // component names in sorted order
	comps map[string]*JS
}

func (e *jsonEnv) resolve(s *JS) *JS {
	for s.Kind == "ref" {
		s = e.comps[s.Ref]
	}
	return s
}

var propNames = []string{"alpha", "beta", "count", "id", "items", "kind", "name", "note", "size", "tag", "user_id", "x-val", "when",
	// names the generated code has to quote: backslash, percent sign, double quote (453da41)
	"win\\name", "per%cent", "q\"t"}

// pickPrim picks a leaf kind; a plain integer sometimes carries one of the small/unsigned formats
func pickPrim(rng *PRNG) *JS {
	s := &JS{Kind: Pick(rng, primKinds)}
	if s.Kind == "int" && rng.Chance(1, 2) {
		s.Fmt = Pick(rng, []string{"uint8", "int8", "int16", "uint16", "uint32", "uint64"})
	}
	s.XNull = rng.Chance(1, 8)
	return s
}

func genPrim(rng *PRNG, feats jsonFeats) *JS {
	s := pickPrim(rng)
	if feats.nullablePrim && rng.Chance(1, 5) {
		s.Nullable = true
	}
	return s
}

type jsonFeats struct {
	nullablePrim bool
	addl         bool
	allOf        bool
	tailAddl     bool // reff only: allOf whose last member is a reference to an object with additionalProperties
	oneOf        bool
	inlineObj    bool
	anyType      bool
	refPrim      bool
}

func genPropSchema(rng *PRNG, objRefs, arrRefs []string, depth int, feats jsonFeats) *JS {
	switch r := rng.Intn(10); {
	case r < 4:
		return genPrim(rng, feats)
	case r < 6 && len(objRefs) > 0:
		return &JS{Kind: "ref", Ref: Pick(rng, objRefs)}
	case r < 7 && len(arrRefs) > 0:
		return &JS{Kind: "ref", Ref: Pick(rng, arrRefs)}
	case r < 9:
		var items *JS
		if rng.Bool() || len(objRefs) == 0 {
			items = pickPrim(rng)
		} else {
			items = &JS{Kind: "ref", Ref: Pick(rng, objRefs)}
		}
		return &JS{Kind: "arr", Items: items, Nullable: feats.nullablePrim && rng.Chance(1, 6)}
	case feats.inlineObj && depth < 2:
		return genObj(rng, objRefs, arrRefs, depth+1, feats)
	case feats.anyType:
		return &JS{Kind: "any"}
	}
	return genPrim(rng, feats)
}

func genObj(rng *PRNG, objRefs, arrRefs []string, depth int, feats jsonFeats) *JS {
	o := &JS{Kind: "obj"}
	n := 1 + rng.Intn(4)
	used := map[string]bool{}
	for i := 0; i < n; i++ {
		name := Pick(rng, propNames)
		if used[name] {
			continue
		}
		used[name] = true
		pr := JProp{Name: name, Req: rng.Bool(), S: genPropSchema(rng, objRefs, arrRefs, depth, feats)}
		if pr.Req && pr.S.Kind != "ref" && rng.Chance(1, 6) {
			pr.S.ReadOnly = true
		}
		o.Props = append(o.Props, pr)
	}
	sort.Slice(o.Props, func(i, j int) bool { return o.Props[i].Name < o.Props[j].Name })
	if feats.addl && rng.Chance(1, 5) {
		o.AddlFalse = true
	} else if feats.addl && rng.Chance(1, 3) {
		switch rng.Intn(4) {
		case 3:
			if feats.inlineObj && depth < 2 {
				// an inline object as the additional-property schema (hoisted as <Parent>AdditionalProperties);
				// every third one has no properties of its own, only a map (a map of maps)
				o.Addl = genObj(rng, nil, nil, 2, jsonFeats{})
				if rng.Chance(1, 3) {
					o.Addl = &JS{Kind: "obj", Addl: &JS{Kind: Pick(rng, []string{"int", "str"})}}
				}
			} else {
				o.Addl = &JS{Kind: "int"}
			}
		case 0:
			o.Addl = &JS{Kind: "any"}
		case 1:
			o.Addl = &JS{Kind: Pick(rng, []string{"str", "int", "bool", "num"}), Nullable: feats.nullablePrim && rng.Chance(1, 3)}
		default:
			if len(objRefs) > 0 {
				o.Addl = &JS{Kind: "ref", Ref: Pick(rng, objRefs)}
			} else {
				o.Addl = &JS{Kind: "str"}
			}
		}
	}
	return o
}

// genJSONEnv draws a set of named component schemas.
func genJSONEnv(rng *PRNG, feats jsonFeats) *jsonEnv {
	env := &jsonEnv{comps: map[string]*JS{}}
	nObj := 2 + rng.Intn(3)
	var objNames, arrNames []string
	for i := 0; i < nObj; i++ {
		objNames = append(objNames, fmt.Sprintf("Obj%c", 'A'+i))
	}
	for i, n := range objNames {
		// objects may reference earlier AND later objects (no cycles: only later ones by index order)
		var refs []string
		if i+1 < len(objNames) {
			refs = objNames[i+1:]
		}
		env.comps[n] = genObj(rng, refs, nil, 0, feats)
		if feats.nullablePrim && i > 0 && rng.Chance(1, 4) {
			// a nullable object component: properties that refer to it may be null
			env.comps[n].Nullable = true
		}
	}
	nArr := rng.Intn(3)
	for i := 0; i < nArr; i++ {
		n := fmt.Sprintf("Arr%c", 'A'+i)
		var items *JS
		if rng.Bool() {
			items = pickPrim(rng)
			items.Nullable = feats.nullablePrim && rng.Chance(1, 3)
		} else {
			items = &JS{Kind: "ref", Ref: Pick(rng, objNames)}
		}
		env.comps[n] = &JS{Kind: "arr", Items: items}
		arrNames = append(arrNames, n)
	}
	// a holder object that uses arrays and objects by reference
	env.comps["Holder"] = genObj(rng, objNames, arrNames, 0, feats)
	// allOf members by $ref: objects without additionalProperties (an embedded member with
	// additionalProperties swallows its siblings' keys: known finding KF-C06-embeddedAddl,
	// exercised by the fixed witness spec)
	var plainObjs []string
	for _, n := range objNames {
		if env.comps[n].Addl == nil && !env.comps[n].Nullable {
			plainObjs = append(plainObjs, n)
		}
	}
	if feats.allOf && len(plainObjs) > 0 {
		objNames := plainObjs
		for i := 0; i < 1+rng.Intn(2); i++ {
			inline := genObj(rng, nil, nil, 2, jsonFeats{})
			// avoid property-name clashes between members: prefix inline names
			for k := range inline.Props {
				inline.Props[k].Name = "m" + fmt.Sprint(i) + "_" + inline.Props[k].Name
			}
			sort.Slice(inline.Props, func(a, b int) bool { return inline.Props[a].Name < inline.Props[b].Name })
			if feats.addl && rng.Chance(1, 3) {
				// an inline member's additionalProperties become the composite's
				inline.Addl = &JS{Kind: Pick(rng, []string{"str", "int", "any"})}
			}
			ref := &JS{Kind: "ref", Ref: Pick(rng, objNames)}
			var members []*JS
			switch rng.Intn(4) {
			case 0:
				members = []*JS{ref, inline}
			case 1:
				members = []*JS{inline, ref}
			case 2:
				inline2 := genObj(rng, nil, nil, 2, jsonFeats{})
				for k := range inline2.Props {
					inline2.Props[k].Name = "n" + fmt.Sprint(i) + "_" + inline2.Props[k].Name
				}
				sort.Slice(inline2.Props, func(a, b int) bool { return inline2.Props[a].Name < inline2.Props[b].Name })
				members = []*JS{inline, ref, inline2}
			default:
				others := []string{}
				for _, n := range objNames {
					if n != ref.Ref {
						others = append(others, n)
					}
				}
				members = []*JS{ref, inline}
				if len(others) > 0 {
					o2 := Pick(rng, others)
					// two members by reference only when their property names are disjoint
					clash := false
					for _, p := range env.comps[o2].Props {
						for _, q := range env.comps[ref.Ref].Props {
							if p.Name == q.Name {
								clash = true
							}
						}
					}
					if !clash {
						members = append(members, &JS{Kind: "ref", Ref: o2})
					}
				}
			}
			env.comps[fmt.Sprintf("Merged%c", 'A'+i)] = &JS{Kind: "allOf", Members: members}
		}
	}
	if feats.tailAddl && len(plainObjs) > 0 {
		// a member by reference that declares additionalProperties, in LAST position: the earlier
		// members consume their keys first, so nothing is swallowed (not the KF-C06-embeddedAddl class)
		tail := genObj(rng, nil, nil, 2, jsonFeats{})
		for k := range tail.Props {
			tail.Props[k].Name = "t_" + tail.Props[k].Name
		}
		sort.Slice(tail.Props, func(a, b int) bool { return tail.Props[a].Name < tail.Props[b].Name })
		tail.Addl = &JS{Kind: Pick(rng, []string{"str", "int", "any"})}
		env.comps["Tail"] = tail
		env.comps["Stack"] = &JS{Kind: "allOf", Members: []*JS{{Kind: "ref", Ref: Pick(rng, plainObjs)}, {Kind: "ref", Ref: "Tail"}}}
	}
	if feats.oneOf {
		// variants are objects carrying a required string discriminator property "kind"
		var variants []string
		for i := 0; i < 2+rng.Intn(2); i++ {
			n := fmt.Sprintf("Var%c", 'A'+i)
			o := genObj(rng, nil, nil, 2, jsonFeats{})
			var props []JProp
			for _, p := range o.Props {
				if p.Name != "kind" {
					p.Name = fmt.Sprintf("v%d_%s", i, p.Name)
					props = append(props, p)
				}
			}
			props = append(props, JProp{Name: "kind", Req: true, S: &JS{Kind: "str"}})
			// a required property of its own makes undiscriminated probing unambiguous (DESIGN §11)
			props = append(props, JProp{Name: fmt.Sprintf("v%d_uid", i), Req: true, S: &JS{Kind: "int"}})
			sort.Slice(props, func(a, b int) bool { return props[a].Name < props[b].Name })
			o.Props = props
			env.comps[n] = o
			variants = append(variants, n)
		}
		u := &JS{Kind: "oneOf", Disc: "kind"}
		for i, v := range variants {
			u.Members = append(u.Members, &JS{Kind: "ref", Ref: v})
			if rng.Bool() {
				u.Mapping = append(u.Mapping, [2]string{fmt.Sprintf("k%d", i), v})
			}
		}
		env.comps["Union"] = u
		if rng.Bool() {
			u2 := &JS{Kind: "oneOf"}
			for _, v := range variants {
				u2.Members = append(u2.Members, &JS{Kind: "ref", Ref: v})
			}
			env.comps["Probe"] = u2
		}
	}
	for n := range env.comps {
		env.names = append(env.names, n)
	}
	sort.Strings(env.names)
	return env
}

func (e *jsonEnv) specDoc() []byte {
	schemas := map[string]any{}
	paths := map[string]any{}
	for _, n := range e.names {
		schemas[n] = e.comps[n].toSpec()
		ref := map[string]any{"$ref": "#/components/schemas/" + n}
		paths["/t/"+strings.ToLower(n)] = map[string]any{"post": map[string]any{
			"requestBody": map[string]any{"content": map[string]any{"application/json": map[string]any{"schema": ref}}},
			"responses":   map[string]any{"200": map[string]any{"description": "ok", "content": map[string]any{"application/json": map[string]any{"schema": ref}}}},
		}}
	}
	doc := map[string]any{"openapi": "3.0.3", "info": map[string]any{"title": "t", "version": "1"}, "paths": paths, "components": map[string]any{"schemas": schemas}}
	bs, _ := json.Marshal(doc)
	return bs
}

// ---------------------------------------------------------------- values

func jv(k string, v any) rt.Val {
	raw, _ := json.Marshal(v)
	return rt.Val{K: k, V: raw}
}

// typedLeaf computes what the Go library makes of a leaf of the given schema kind: its
// canonical JSON text and its canonical dump (library behaviour supplied to the Lean model).
func typedLeaf(kind string, v rt.Val) rt.Val {
	var s string
	json.Unmarshal(v.V, &s)
	switch kind {
	case "str":
		b, _ := json.Marshal(s)
		v.C, v.D = rt.CanonJSON(b), "s:"+rt.Hx(s)
	case "int", "int32", "int64":
		v.C, v.D = s, "i:"+s
	case "num":
		f, _ := strconv.ParseFloat(s, 64)
		b, _ := json.Marshal(f)
		v.C, v.D = rt.CanonJSON(b), "f:"+strconv.FormatFloat(f, 'g', -1, 64)
	case "f32":
		f, _ := strconv.ParseFloat(s, 64)
		f32 := float32(f)
		b, _ := json.Marshal(f32)
		v.C, v.D = rt.CanonJSON(b), "f:"+strconv.FormatFloat(float64(f32), 'g', -1, 64)
	case "bool":
		var bb bool
		json.Unmarshal(v.V, &bb)
		v.C, v.D = strconv.FormatBool(bb), "b:"+strconv.FormatBool(bb)
	case "time":
		t, _ := time.Parse(time.RFC3339Nano, s)
		b, _ := json.Marshal(t.Format(time.RFC3339Nano))
		v.C, v.D = rt.CanonJSON(b), "t:"+strconv.FormatInt(t.UnixNano(), 10)
	}
	return v
}

// leafDecodeVerdict: what decoding the canonical leaf text into the Go type bound to `kind`
// yields: (dump, canonical re-encoding) or rejection.
func leafDecodeVerdict(kind, canon string) string {
	bs := []byte(canon)
	enc := func(v any, dump string) string {
		b, _ := json.Marshal(v)
		return hexs(dump) + "|" + hexs(rt.CanonJSON(b))
	}
	switch kind {
	case "str":
		var v string
		if json.Unmarshal(bs, &v) != nil {
			return "err"
		}
		return enc(v, "s:"+rt.Hx(v))
	case "int":
		var v int
		if json.Unmarshal(bs, &v) != nil {
			return "err"
		}
		return enc(v, "i:"+strconv.FormatInt(int64(v), 10))
	case "int32":
		var v int32
		if json.Unmarshal(bs, &v) != nil {
			return "err"
		}
		return enc(v, "i:"+strconv.FormatInt(int64(v), 10))
	case "int64":
		var v int64
		if json.Unmarshal(bs, &v) != nil {
			return "err"
		}
		return enc(v, "i:"+strconv.FormatInt(v, 10))
	case "num":
		var v float64
		if json.Unmarshal(bs, &v) != nil {
			return "err"
		}
		return enc(v, "f:"+strconv.FormatFloat(v, 'g', -1, 64))
	case "f32":
		var v float64
		if json.Unmarshal(bs, &v) != nil {
			return "err"
		}
		f := float32(v)
		return enc(f, "f:"+strconv.FormatFloat(float64(f), 'g', -1, 64))
	case "bool":
		var v bool
		if json.Unmarshal(bs, &v) != nil {
			return "err"
		}
		return enc(v, "b:"+strconv.FormatBool(v))
	case "time":
		var sv string
		if json.Unmarshal(bs, &sv) != nil {
			return "err"
		}
		t, err := time.Parse(time.RFC3339Nano, sv)
		if err != nil {
			return "err"
		}
		return enc(t.Format(time.RFC3339Nano), "t:"+strconv.FormatInt(t.UnixNano(), 10))
	}
	return "err"
}

// docToJ renders a decoded document in the harness J form and collects its leaf texts.
func docToJ(x any, leaves map[string]bool) any {
	switch t := x.(type) {
	case nil:
		return nil
	case map[string]any:
		keys := make([]string, 0, len(t))
		for k := range t {
			keys = append(keys, k)
		}
		sort.Strings(keys)
		ms := []any{}
		for _, k := range keys {
			ms = append(ms, []any{k, docToJ(t[k], leaves)})
		}
		return map[string]any{"o": ms}
	case []any:
		es := []any{}
		for _, e := range t {
			es = append(es, docToJ(e, leaves))
		}
		return map[string]any{"a": es}
	default:
		c := rt.CanonAny(x)
		leaves[c] = true
		return map[string]any{"r": c}
	}
}

var strPool = []string{"", "abc", "a\"b", "back\\slash", "line\nbreak", "tab\t", "<html>&", "é日本", " ", "😀", "null", "0", " spaced ", "\x01ctl"}
var timePool = []string{"2024-01-02T03:04:05Z", "1999-12-31T23:59:59.123456789+02:00", "2024-02-29T12:00:00-07:00", "0001-01-01T00:00:00Z"}

func genLeaf(rng *PRNG, kind string) rt.Val {
	switch kind {
	case "str":
		return jv("s", Pick(rng, strPool))
	case "int", "int64":
		return jv("i", Pick(rng, []string{"0", "1", "-1", "42", "9223372036854775807", "-9223372036854775808", "2147483648"}))
	case "int32":
		return jv("i", Pick(rng, []string{"0", "7", "-7", "2147483647", "-2147483648"}))
	case "num":
		return jv("f", Pick(rng, []string{"0", "1.5", "-2.25", "1e21", "1e-7", "123456789.125", "5e-324", "1.7976931348623157e308", "3"}))
	case "f32":
		return jv("f", Pick(rng, []string{"0", "1.5", "-2.25", "3", "16777216", "0.1"}))
	case "bool":
		return jv("b", rng.Bool())
	case "time":
		return jv("t", Pick(rng, timePool))
	}
	return jv("s", "?")
}

func genTypedLeaf(rng *PRNG, kind string) rt.Val { return typedLeaf(kind, genLeaf(rng, kind)) }

func (e *jsonEnv) genVal(rng *PRNG, s *JS, depth int) rt.Val {
	if s.Kind == "ref" {
		return e.genVal(rng, e.comps[s.Ref], depth)
	}
	if s.Nullable && rng.Chance(1, 3) && (depth > 0 || (s.Kind != "obj" && s.Kind != "arr")) {
		return rt.Val{K: "null"}
	}
	switch s.Kind {
	case "arr":
		// a nil slice is generated only where goag converts it to [] (object property or
		// top-level array component, not under Nullable, not nested in arrays / maps): DESIGN §11
		// (a NON-NULL nullable array holding a nil slice is in the domain too: it must stay non-null)
		if rng.Chance(1, 8) && depth <= 1 {
			return rt.Val{K: "nilarr"}
		}
		n := rng.Intn(4)
		if depth > 3 {
			n = rng.Intn(2)
		}
		els := []rt.Val{}
		for i := 0; i < n; i++ {
			els = append(els, e.genVal(rng, s.Items, depth+1))
		}
		return jv("arr", els)
	case "obj":
		return e.genObjVal(rng, s, depth)
	case "allOf":
		// struct fields: embedded members for refs, flattened fields for inline members, in member order
		v := rt.Val{K: "obj"}
		for _, m := range s.Members {
			if m.Kind == "ref" {
				v.F = append(v.F, e.genVal(rng, m, depth+1))
			} else {
				plain := *m
				plain.Addl = nil
				inner := e.genObjVal(rng, &plain, depth)
				v.F = append(v.F, inner.F...)
			}
		}
		if a := allOfAddl(s); a != nil {
			declared := &JS{Kind: "obj", Addl: a}
			for _, m := range s.Members {
				declared.Props = append(declared.Props, e.resolve(m).Props...)
			}
			probe := e.genObjVal(rng, declared, depth)
			v.X = probe.X
		}
		return v
	case "oneOf":
		i := rng.Intn(len(s.Members))
		inner := e.genVal(rng, s.Members[i], depth+1)
		if s.Disc != "" {
			// the discriminator property must select this variant
			target := e.resolve(s.Members[i])
			name := s.Members[i].Ref
			key := name
			for _, kv := range s.Mapping {
				if kv[1] == name && rng.Bool() {
					key = kv[0]
				}
			}
			for k, p := range target.Props {
				if p.Name == s.Disc {
					inner.F[k] = typedLeaf("str", jv("s", key))
				}
			}
		}
		raw, _ := json.Marshal(inner)
		return rt.Val{K: "alt", I: i, V: raw}
	case "any":
		raw := Pick(rng, []string{`{"a":1}`, `[1,"x"]`, `"s"`, `3`, `true`, `{"z":[],"b":{"c":null}}`})
		c := rt.CanonJSON([]byte(raw))
		return rt.Val{K: "any", V: json.RawMessage(raw), C: c, D: "j:" + c}
	}
	return genTypedLeaf(rng, s.Kind)
}

func (e *jsonEnv) genObjVal(rng *PRNG, s *JS, depth int) rt.Val {
	v := rt.Val{K: "obj"}
	for _, p := range s.Props {
		if !p.Req && rng.Chance(2, 5) {
			v.F = append(v.F, rt.Val{K: "unset"})
			continue
		}
		v.F = append(v.F, e.genVal(rng, p.S, depth+1))
	}
	if s.Addl != nil && rng.Chance(2, 3) {
		declared := map[string]bool{}
		for _, p := range s.Props {
			declared[p.Name] = true
		}
		n := rng.Intn(3)
		v.X = [][2]json.RawMessage{}
		for i := 0; i < n; i++ {
			k := Pick(rng, []string{"extra", "x1", "we\"ird", "sla\\sh", "ключ", "new\nline", "z"})
			if len(s.Props) > 0 && k == "z" {
				// a key spelled like the Go field of a declared property (Name for name, UserID for
				// user_id): still an additional property, not the declared one. No extra draw from the
				// stream: the fixed witnesses of the recorded findings keep their values
				k = generator.PublicFieldName(s.Props[(i+len(v.X))%len(s.Props)].Name)
			}
			if declared[k] {
				continue
			}
			dup := false
			for _, kv := range v.X {
				var kk string
				json.Unmarshal(kv[0], &kk)
				if kk == k {
					dup = true
				}
			}
			if dup {
				continue
			}
			kb, _ := json.Marshal(k)
			vb, _ := json.Marshal(e.genVal(rng, s.Addl, depth+1))
			v.X = append(v.X, [2]json.RawMessage{kb, vb})
		}
	}
	return v
}

// ---------------------------------------------------------------- documents (C08)

// genDoc builds a JSON document valid for the schema, independently of goag's encoder.
// Returns the decoded-any form (so mutants can be made) .
func (e *jsonEnv) genDoc(rng *PRNG, s *JS, depth int) any {
	if s.Kind == "ref" {
		return e.genDoc(rng, e.comps[s.Ref], depth)
	}
	if s.Nullable && rng.Chance(1, 3) && (depth > 0 || (s.Kind != "obj" && s.Kind != "arr")) {
		return nil
	}
	switch s.Kind {
	case "str":
		return Pick(rng, strPool)
	case "int", "int64":
		return json.Number(Pick(rng, []string{"0", "1", "-1", "42", "9223372036854775807", "-9223372036854775808"}))
	case "int32":
		return json.Number(Pick(rng, []string{"0", "7", "-7", "2147483647", "-2147483648"}))
	case "num":
		return json.Number(Pick(rng, []string{"0", "1.5", "-2.25", "1e21", "3", "1E3", "0.5e-3"}))
	case "f32":
		return json.Number(Pick(rng, []string{"0", "1.5", "3", "0.25", "0.1", "2.7", "-3.3", "16777217"}))
	case "bool":
		return rng.Bool()
	case "time":
		return Pick(rng, timePool)
	case "any":
		var x any
		json.Unmarshal([]byte(Pick(rng, []string{`{"a":1}`, `[1,"x"]`, `"s"`, `3`, `true`})), &x)
		return x
	case "arr":
		n := rng.Intn(4)
		out := []any{}
		for i := 0; i < n; i++ {
			out = append(out, e.genDoc(rng, s.Items, depth+1))
		}
		return out
	case "obj":
		return e.genObjDoc(rng, s, depth)
	case "allOf":
		// declared properties member by member, then extra keys against the composite's
		// additionalProperties (those of its last inline member that declares them)
		merged := &JS{Kind: "obj", Addl: allOfAddl(s)}
		if last := e.resolve(s.Members[len(s.Members)-1]); merged.Addl == nil && last.Addl != nil {
			merged.Addl = last.Addl // reff: a trailing member by reference with additionalProperties
		}
		for _, m := range s.Members {
			merged.Props = append(merged.Props, e.resolve(m).Props...)
		}
		return e.genObjDoc(rng, merged, depth)
	case "oneOf":
		i := rng.Intn(len(s.Members))
		d := e.genDoc(rng, s.Members[i], depth+1)
		if s.Disc != "" {
			if m, ok := d.(map[string]any); ok {
				name := s.Members[i].Ref
				key := name
				for _, kv := range s.Mapping {
					if kv[1] == name && rng.Bool() {
						key = kv[0]
					}
				}
				m[s.Disc] = key
			}
		}
		return d
	}
	return nil
}

func (e *jsonEnv) genObjDoc(rng *PRNG, s *JS, depth int) map[string]any {
	out := map[string]any{}
	for _, p := range s.Props {
		if !p.Req && rng.Chance(2, 5) {
			continue
		}
		out[p.Name] = e.genDoc(rng, p.S, depth+1)
	}
	// extra keys: kept where additionalProperties is declared, ignored otherwise
	if rng.Chance(1, 2) {
		n := 1 + rng.Intn(2)
		for i := 0; i < n; i++ {
			k := Pick(rng, []string{"extra", "x1", "zz-unknown", "ключ"})
			if len(s.Props) > 0 && k == "x1" && i == 1 && s.Props[0].Name != "kind" {
				// (not for `kind`, the discriminator of the unions: encoding/json matches the probe
				// struct's tag without regard to letter case, which the model does not follow)
				k = generator.PublicFieldName(s.Props[0].Name)
			}
			if _, ok := out[k]; ok {
				continue
			}
			declared := false
			for _, p := range s.Props {
				if p.Name == k {
					declared = true
				}
			}
			if declared {
				continue
			}
			if s.Addl != nil {
				out[k] = e.genDoc(rng, s.Addl, depth+1)
			} else {
				out[k] = Pick(rng, []any{"x", json.Number("1"), true})
			}
		}
	}
	return out
}

// wrongKind: a value of another JSON kind; half of them are exactly four bytes long on the wire
// (the length of `null`).
var wrongKindFlip bool

func wrongKind(v any) any {
	wrongKindFlip = !wrongKindFlip
	four := wrongKindFlip
	switch v.(type) {
	case string:
		if four {
			return json.Number("1234")
		}
		return json.Number("17")
	case json.Number:
		if four {
			return "ab"
		}
		return "seventeen"
	case bool:
		if four {
			return "ye"
		}
		return "yes"
	case map[string]any:
		if four {
			return []any{json.Number("12")}
		}
		return []any{json.Number("1")}
	case []any:
		if four {
			return true
		}
		return map[string]any{"a": json.Number("1")}
	}
	return json.Number("1")
}

type docCase struct {
	fault string // valid | drop:<key> | swap:<key>
	doc   string
}

// docCasesFor: valid documents and single-fault mutants at the top-level object.
func (e *jsonEnv) docCasesFor(rng *PRNG, s *JS, n int) []docCase {
	var out []docCase
	for i := 0; i < n; i++ {
		d := e.genDoc(rng, s, 0)
		bs, _ := json.Marshal(d)
		out = append(out, docCase{"valid", string(bs)})
		base := e.resolve(s)
		if base.Kind == "oneOf" && base.Disc == "" && i == 0 {
			// documents that are well-formed JSON but (most likely) nobody's: the probing decoder has
			// to come back with an error (or with whichever alternative the model says accepts them)
			for _, foreign := range []string{`true`, `[1,2,3]`, `"text"`, `{"zz-nobody":1}`, `7`, `{}`} {
				out = append(out, docCase{"foreign", foreign})
			}
		}
		m, ok := d.(map[string]any)
		if !ok {
			continue
		}
		if base.Kind == "oneOf" && base.Disc != "" {
			// the discriminator property itself: absent, null, and every wrong JSON kind
			for _, bad := range []struct {
				tag string
				v   any
				del bool
			}{{"drop:" + base.Disc, nil, true}, {"swap:" + base.Disc, json.Number("1"), false}, {"swap:" + base.Disc, true, false},
				{"swap:" + base.Disc, []any{"x"}, false}, {"swap:" + base.Disc, map[string]any{"a": "b"}, false}, {"null:" + base.Disc, nil, false}} {
				c := map[string]any{}
				for k, v := range m {
					c[k] = v
				}
				if bad.del {
					delete(c, base.Disc)
				} else {
					c[base.Disc] = bad.v
				}
				bs, _ := json.Marshal(c)
				out = append(out, docCase{bad.tag, string(bs)})
			}
			continue
		}
		if base.Kind != "obj" {
			continue
		}
		for _, p := range base.Props {
			if _, present := m[p.Name]; !present {
				continue
			}
			if p.Req && rng.Chance(1, 2) {
				c := map[string]any{}
				for k, v := range m {
					if k != p.Name {
						c[k] = v
					}
				}
				bs, _ := json.Marshal(c)
				out = append(out, docCase{"drop:" + p.Name, string(bs)})
			}
			if m[p.Name] != nil && e.resolve(p.S).Kind == "arr" && !e.resolve(p.S).Nullable && rng.Chance(1, 2) {
				// JSON null where a (non-nullable) array is declared: the inline form and the form by
				// reference to an array component must treat it alike
				c := map[string]any{}
				for k, v := range m {
					c[k] = v
				}
				c[p.Name] = nil
				bs, _ := json.Marshal(c)
				out = append(out, docCase{"null:" + p.Name, string(bs)})
			}
			if ps := e.resolve(p.S); m[p.Name] != nil && (i == 0 || rng.Chance(1, 2)) {
				// a number with an integral value that is not written as an integer literal, where an
				// integer (or a list of integers) is declared: however it is read, a property given by
				// reference and its inline copy must read it alike
				var v any
				isInt := func(k string) bool { return k == "int" || k == "int32" || k == "int64" }
				if isInt(ps.Kind) {
					v = json.Number(Pick(rng, []string{"1.0", "2e0", "4.00"}))
				} else if ps.Kind == "arr" && isInt(e.resolve(ps.Items).Kind) {
					v = []any{json.Number("1.0"), json.Number("2")}
				}
				if v != nil {
					c := map[string]any{}
					for k, x := range m {
						c[k] = x
					}
					c[p.Name] = v
					bs, _ := json.Marshal(c)
					out = append(out, docCase{"intfloat:" + p.Name, string(bs)})
				}
			}
			if m[p.Name] != nil && e.resolve(p.S).Kind != "any" && rng.Chance(1, 2) {
				c := map[string]any{}
				for k, v := range m {
					c[k] = v
				}
				c[p.Name] = wrongKind(m[p.Name])
				bs, _ := json.Marshal(c)
				out = append(out, docCase{"swap:" + p.Name, string(bs)})
			}
		}
	}
	return out
}

// ---------------------------------------------------------------- facet

func facetJSON(args []string) error {
	fs := flag.NewFlagSet("jsonf", flag.ExitOnError)
	seed := fs.Uint64("seed", 1, "seed")
	tier := fs.String("tier", "quick", "quick|thorough")
	out := fs.String("out", "", "output dir")
	work := fs.String("work", "", "scratch dir")
	shard := fs.Int("shard", 0, "shard index")
	fs.Int("nshards", 1, "number of shards")
	level := fs.Int("level", 3, "feature level 0..3")
	fs.Parse(args)
	rng := NewPRNG(*seed*2654435761 + uint64(*shard)*97 + 11)
	n := 8
	nvals, ndocs := 25, 8
	if *tier == "thorough" {
		n, nvals, ndocs = 40, 60, 20
	}
	var envs []*jsonEnv
	var results []GenResult
	for i := 0; i < n; i++ {
		feats := jsonFeats{}
		lv := *level
		if lv > 3 {
			lv = rng.Intn(4)
		}
		if lv >= 1 {
			feats.addl = true
			feats.inlineObj = true
		}
		if lv >= 2 {
			feats.allOf = true
			feats.nullablePrim = rng.Bool()
		}
		if lv >= 3 {
			feats.oneOf = rng.Bool()
			feats.anyType = rng.Bool()
		}
		env := genJSONEnv(rng.Fork(), feats)
		if *shard == 0 && i == 0 {
			env = kfJSONEnv()
		}
		envs = append(envs, env)
		name := fmt.Sprintf("j%02d_%03d", *shard, i)
		results = append(results, runGoag(*work, GenSpec{Name: name, Spec: env.specDoc(), Ext: "json", DoNotEdit: true, Client: rng.Chance(1, 4)}))
	}
	bin, err := buildBatch(*work, results)
	if err != nil {
		return err
	}
	cf, _ := os.Create(filepath.Join(*out, "cases.tsv"))
	cw := bufio.NewWriterSize(cf, 1<<20)
	gf, _ := os.Create(filepath.Join(*out, "gen.tsv"))
	shf, _ := os.Create(filepath.Join(*out, "shape.tsv"))
	defer shf.Close()
	var cases []rt.Case
	stats := map[string]int{}
	for i, env := range envs {
		r := results[i]
		fmt.Fprintf(gf, "%s\t%s\t%s\t%s\t%s\n", r.Name, r.Outcome, hexs(firstLine(r.Detail)), hexs(brokenOrFmt(r)), hexs(string(env.specDoc())))
		if r.Outcome != "ok" || r.Broken != "" {
			stats["spec_not_driven"]++
			continue
		}
		stats["specs"]++
		fmt.Fprintf(cw, "jsonspec\t%s\t%s\n", r.Name, r.SpecPath)
		crng := rng.Fork()
		if *shard == 0 && i == 0 {
			crng = NewPRNG(424242) // the witness cases are the same in every run
		}
		leafSeen := map[string]bool{}
		for _, tn := range env.names {
			s := env.comps[tn]
			if s.Kind == "obj" {
				// the Go type itself: a required property must not be omittable, an optional one must be
				// ... and a property is nullable in Go exactly when its schema says so (`*`: not compared, the
				// representation of nullable arrays / objects / references is not part of this check)
				var toks []string
				for _, pr := range s.Props {
					t := "O"
					if pr.Req {
						t = "R"
					}
					switch rs := env.resolve(pr.S); {
					case pr.S.Kind == "ref" || rs.Kind == "arr" || rs.Kind == "obj" || rs.Kind == "allOf" || rs.Kind == "oneOf" || rs.Kind == "any":
						t += "*"
					case rs.Nullable:
						t += "n"
					}
					toks = append(toks, t)
				}
				want := strings.Join(toks, ",")
				a, _ := json.Marshal(map[string]any{"type": tn})
				id := fmt.Sprintf("%s#h%s", r.Name, tn)
				cases = append(cases, rt.Case{Op: "jsonshape", Pkg: r.Name, ID: id, Args: a})
				fmt.Fprintf(shf, "%s\t%s\t%s\n", id, tn, want)
			}
			for k := 0; k < nvals; k++ {
				v := env.genVal(crng, s, 0)
				a, _ := json.Marshal(map[string]any{"type": tn, "val": v})
				c := rt.Case{Op: "jsonenc", Pkg: r.Name, ID: fmt.Sprintf("%s#e%s.%d", r.Name, tn, k), Args: a}
				vb, _ := json.Marshal(v)
				fmt.Fprintf(cw, "jsonenc\t%s\t%s\t%s\n", c.ID, tn, hexs(string(vb)))
				cases = append(cases, c)
			}
			if s.Kind == "oneOf" {
				// the zero value of a union (no alternative chosen): there is nothing valid to write
				// for it — the encoder has to refuse, not to invent `null`
				v := rt.Val{K: "noalt"}
				a, _ := json.Marshal(map[string]any{"type": tn, "val": v})
				c := rt.Case{Op: "jsonenc", Pkg: r.Name, ID: fmt.Sprintf("%s#e%s.z", r.Name, tn), Args: a}
				vb, _ := json.Marshal(v)
				fmt.Fprintf(cw, "jsonenc\t%s\t%s\t%s\n", c.ID, tn, hexs(string(vb)))
				cases = append(cases, c)
			}
			for k, dc := range env.docCasesFor(crng, s, ndocs) {
				a, _ := json.Marshal(map[string]any{"type": tn, "doc": dc.doc})
				c := rt.Case{Op: "jsondec", Pkg: r.Name, ID: fmt.Sprintf("%s#d%s.%d", r.Name, tn, k), Args: a}
				var x any
				dec := json.NewDecoder(strings.NewReader(dc.doc))
				dec.UseNumber()
				dec.Decode(&x)
				leaves := map[string]bool{}
				jb, _ := json.Marshal(docToJ(x, leaves))
				for lf := range leaves {
					for _, kd := range primKinds {
						key := kd + "\x00" + lf
						if !leafSeen[key] {
							leafSeen[key] = true
							fmt.Fprintf(cw, "jleaf\t%s\t%s\t%s\n", kd, hexs(lf), leafDecodeVerdict(kd, lf))
						}
					}
				}
				fmt.Fprintf(cw, "jsondec\t%s\t%s\t%s\t%s\n", c.ID, tn, hexs(dc.fault), hexs(string(jb)))
				cases = append(cases, c)
			}
		}
	}
	cw.Flush()
	cf.Close()
	gf.Close()
	obs, rerr := runBatch(bin, cases)
	of, _ := os.Create(filepath.Join(*out, "impl.tsv"))
	ow := bufio.NewWriterSize(of, 1<<20)
	for _, c := range cases {
		o, ok := obs[c.ID]
		if !ok {
			o = "MISSING"
		}
		fmt.Fprintf(ow, "%s\t%s\n", c.ID, o)
	}
	ow.Flush()
	of.Close()
	stats["cases"] = len(cases)
	meta, _ := json.Marshal(map[string]any{"stats": stats})
	os.WriteFile(filepath.Join(*out, "meta.json"), meta, 0o644)
	return rerr
}

// allOfAddl: the additionalProperties schema of the last inline member that declares one.
func allOfAddl(s *JS) *JS {
	var a *JS
	for _, m := range s.Members {
		if m.Kind != "ref" && m.Addl != nil {
			a = m.Addl
		}
	}
	return a
}

// kfJSONEnv: fixed witness of KF-C06-embeddedAddl (an allOf member given by reference whose
// schema declares additionalProperties swallows the keys of the members after it).
func kfJSONEnv() *jsonEnv {
	env := &jsonEnv{comps: map[string]*JS{}}
	env.comps["Extensible"] = &JS{Kind: "obj", Addl: &JS{Kind: "any"}, Props: []JProp{{Name: "id", Req: true, S: &JS{Kind: "int"}}, {Name: "note", S: &JS{Kind: "str"}}}}
	env.comps["Device"] = &JS{Kind: "allOf", Members: []*JS{{Kind: "ref", Ref: "Extensible"},
		{Kind: "obj", Props: []JProp{{Name: "name", Req: true, S: &JS{Kind: "str"}}, {Name: "rack", S: &JS{Kind: "int"}}}}}}
	env.names = []string{"Device", "Extensible"}
	return env
}
