package main

// Facet F-route (C03 C05 C16 C13b C14 C17, and the security wrapper of C11 for single-scheme
// requirements): random well-formed template sets x methods x base-path forms x typed path
// parameters x cors x security, driven with an enumerated request universe.

import (
	"bufio"
	"encoding/hex"
	"encoding/json"
	"flag"
	"fmt"
	"net/http"
	"net/url"
	"os"
	"path/filepath"
	"sort"
	"strings"

	"github.com/vkd/goag/generator"
	"verif/rt"
)

func init() { facets["route"] = facetRoute }

type routeSpec struct {
	Gen       GenSpec
	Templates []string
	Base      string // effective base path the generator is expected to derive (for building requests only)
	SpecName  string
	Schemes   map[string]schemeDef
	HasSec    bool
}

type schemeDef struct {
	Kind string // bearer | header | query
	Name string // header / query key
}

var litAlpha = []string{"a", "b", "c"}
var methodPool = []string{"get", "post", "put", "delete", "patch", "head", "options"}
var ptypePool = []map[string]any{
	{"type": "string"},
	{"type": "integer"},
	{"type": "integer", "format": "int32"},
	{"type": "integer", "format": "int64"},
	{"type": "boolean"},
}

// templateKey is the equivalence key (literal text / variable marker per segment).
func templateKey(segs []string) string {
	var ks []string
	for _, s := range segs {
		if strings.HasPrefix(s, "{") {
			ks = append(ks, "{}")
		} else {
			ks = append(ks, "="+s)
		}
	}
	return strings.Join(ks, "/")
}

func genTemplates(rng *PRNG, n int) []string {
	seen := map[string]bool{}
	var out []string
	for tries := 0; len(out) < n && tries < 200; tries++ {
		depth := 1 + rng.Intn(4)
		var segs []string
		for d := 0; d < depth; d++ {
			last := d == depth-1
			switch {
			case last && rng.Chance(1, 5):
				segs = append(segs, "")
			case rng.Chance(2, 5):
				segs = append(segs, fmt.Sprintf("{v%d}", d))
			default:
				segs = append(segs, Pick(rng, litAlpha))
			}
		}
		k := templateKey(segs)
		if seen[k] {
			continue
		}
		seen[k] = true
		out = append(out, "/"+strings.Join(segs, "/"))
	}
	sort.Strings(out)
	return out
}

type baseForm struct {
	servers []any
	flag    string
	eff     string
}

func genBase(rng *PRNG) baseForm {
	switch rng.Intn(10) {
	case 0:
		return baseForm{servers: []any{map[string]any{"url": "/"}}, eff: ""}
	case 1:
		return baseForm{servers: []any{map[string]any{"url": "/api"}}, eff: "/api"}
	case 2:
		return baseForm{servers: []any{map[string]any{"url": "/api/"}}, eff: "/api"}
	case 3:
		return baseForm{servers: []any{map[string]any{"url": "https://demo.example.com:8443/api/v1"}}, eff: "/api/v1"}
	case 4:
		return baseForm{servers: []any{map[string]any{"url": "https://{user}.example.com:{port}/{bp}", "variables": map[string]any{
			"user": map[string]any{"default": "demo"}, "port": map[string]any{"default": "8443"}, "bp": map[string]any{"default": "api/v2"}}}}, eff: "/api/v2"}
	case 5:
		return baseForm{servers: []any{map[string]any{"url": "https://example.com"}}, eff: ""}
	case 6:
		return baseForm{servers: []any{map[string]any{"url": "/ignored"}}, flag: "/flag", eff: "/flag"}
	case 7:
		return baseForm{flag: "/b/", eff: "/b"}
	case 8:
		return baseForm{servers: []any{map[string]any{"url": "/a"}, map[string]any{"url": "/second"}}, eff: "/a"}
	default:
		return baseForm{eff: ""}
	}
}

func genRouteSpec(rng *PRNG, name string, secMode bool) routeSpec {
	n := 1 + rng.Intn(7)
	tpls := genTemplates(rng, n)
	bf := genBase(rng)
	rs := routeSpec{Templates: tpls, Base: bf.eff, Schemes: map[string]schemeDef{}}
	doc := map[string]any{
		"openapi": "3.0.3",
		"info":    map[string]any{"title": "t", "version": "1"},
	}
	if bf.servers != nil {
		doc["servers"] = bf.servers
	}
	withSec := secMode || rng.Chance(1, 3)
	var schemeNames []string
	if withSec {
		ss := map[string]any{}
		if rng.Chance(3, 4) {
			ss["jwt"] = map[string]any{"type": "http", "scheme": "bearer"}
			rs.Schemes["jwt"] = schemeDef{Kind: "bearer"}
		}
		if rng.Chance(2, 3) {
			hn := Pick(rng, []string{"X-Key", "x-api-key", "Token"})
			ss["hkey"] = map[string]any{"type": "apiKey", "in": "header", "name": hn}
			rs.Schemes["hkey"] = schemeDef{Kind: "header", Name: hn}
		}
		if rng.Chance(1, 2) {
			ss["qkey"] = map[string]any{"type": "apiKey", "in": "query", "name": "key"}
			rs.Schemes["qkey"] = schemeDef{Kind: "query", Name: "key"}
		}
		if len(ss) == 0 {
			ss["jwt"] = map[string]any{"type": "http", "scheme": "bearer"}
			rs.Schemes["jwt"] = schemeDef{Kind: "bearer"}
		}
		for k := range ss {
			schemeNames = append(schemeNames, k)
		}
		sort.Strings(schemeNames)
		doc["components"] = map[string]any{"securitySchemes": ss}
		if rng.Chance(1, 2) {
			doc["security"] = genReqList(rng, schemeNames)
		}
		rs.HasSec = true
	}
	paths := map[string]any{}
	for _, t := range tpls {
		pi := map[string]any{}
		// variables of the template
		var vars []string
		for _, seg := range strings.Split(t, "/") {
			if strings.HasPrefix(seg, "{") {
				vars = append(vars, seg[1:len(seg)-1])
			}
		}
		mkParams := func() []any {
			var ps []any
			order := append([]string{}, vars...)
			if len(order) > 1 && rng.Chance(1, 3) {
				order[0], order[len(order)-1] = order[len(order)-1], order[0]
			}
			for _, v := range order {
				ps = append(ps, map[string]any{"in": "path", "name": v, "required": true, "schema": Pick(rng, ptypePool)})
			}
			return ps
		}
		piLevel := len(vars) > 0 && rng.Chance(1, 3)
		if piLevel {
			pi["parameters"] = mkParams()
		}
		nm := 1 + rng.Intn(3)
		ms := map[string]bool{}
		for len(ms) < nm {
			m := Pick(rng, methodPool)
			if m == "options" && !rng.Chance(1, 3) {
				continue
			}
			ms[m] = true
		}
		for m := range ms {
			op := map[string]any{"responses": map[string]any{"default": map[string]any{"description": "d"}}}
			if len(vars) > 0 && (!piLevel || rng.Chance(1, 4)) {
				op["parameters"] = mkParams()
			}
			if withSec && rng.Chance(2, 3) {
				op["security"] = genReqList(rng, schemeNames)
			}
			pi[m] = op
		}
		paths[t] = pi
	}
	doc["paths"] = paths
	bs, _ := json.Marshal(doc)
	rs.Gen = GenSpec{Name: name, Spec: bs, Ext: "json", BasePath: bf.flag, Cors: rng.Chance(1, 3), DoNotEdit: rng.Bool(), Client: rng.Chance(1, 6)}
	if rng.Chance(1, 4) {
		rs.Gen.SpecHandler = "spec.yaml"
		rs.SpecName = "spec.yaml"
	} else {
		rs.SpecName = "openapi.json"
	}
	return rs
}

// genReqList: a list of single-scheme requirements (possibly empty = public)
func genReqList(rng *PRNG, names []string) []any {
	n := rng.Intn(3)
	out := []any{}
	used := map[string]bool{}
	for i := 0; i < n; i++ {
		s := Pick(rng, names)
		if used[s] {
			continue
		}
		used[s] = true
		out = append(out, map[string]any{s: []any{}})
	}
	return out
}

type serveCase struct {
	c     rt.Case
	parse bool
	query url.Values
}

func hexs(s string) string { return hex.EncodeToString([]byte(s)) }

func multiField(keys []string, m map[string][]string, hexKeys bool) string {
	var parts []string
	for _, k := range keys {
		var vs []string
		for _, v := range m[k] {
			vs = append(vs, hexs(v))
		}
		kk := k
		if hexKeys {
			kk = hexs(k)
		}
		parts = append(parts, kk+"="+strings.Join(vs, ","))
	}
	return strings.Join(parts, ";")
}

func b01(b bool) string {
	if b {
		return "1"
	}
	return "0"
}

// leanServeLine renders the case for the Lean driver.
func leanServeLine(c *rt.Case, parse bool, schemeOf map[string]string) string {
	// auth: scheme name -> accepted tokens (installed hooks only)
	auth := map[string][]string{}
	var akeys []string
	for field, toks := range c.Auth {
		s := schemeOf[field]
		auth[s] = toks
		akeys = append(akeys, s)
	}
	sort.Strings(akeys)
	q, _ := url.ParseQuery(c.Query)
	var qkeys []string
	for k := range q {
		qkeys = append(qkeys, k)
	}
	sort.Strings(qkeys)
	hm := map[string][]string{}
	var hkeys []string
	for _, kv := range c.Headers {
		k := http.CanonicalHeaderKey(kv[0])
		if _, ok := hm[k]; !ok {
			hkeys = append(hkeys, k)
		}
		hm[k] = append(hm[k], kv[1])
	}
	return strings.Join([]string{"serve", c.ID, c.Method, hexs(c.Path), fmt.Sprint(c.Mws), b01(c.NF), b01(c.Spec), b01(c.Cors), b01(parse),
		multiField(akeys, auth, false), multiField(qkeys, q, true), multiField(hkeys, hm, true)}, "\t")
}

func facetRoute(args []string) error {
	fs := flag.NewFlagSet("route", flag.ExitOnError)
	seed := fs.Uint64("seed", 1, "seed")
	tier := fs.String("tier", "quick", "quick|thorough")
	out := fs.String("out", "", "output dir")
	work := fs.String("work", "", "scratch dir")
	shard := fs.Int("shard", 0, "shard index")
	nshards := fs.Int("nshards", 1, "number of shards")
	secMode := fs.Bool("sec", false, "security-heavy specs")
	nspecs := fs.Int("nspecs", 0, "specs per shard (0 = tier default)")
	fs.Parse(args)
	if *out == "" || *work == "" {
		return fmt.Errorf("need -out and -work")
	}
	rng := NewPRNG(*seed*1000003 + uint64(*shard)*7919 + 17)
	n := *nspecs
	if n == 0 {
		n = 10
		if *tier == "thorough" {
			n = 60
		}
	}
	maxDepth := 4
	randomDeep := 150
	if *tier == "thorough" {
		maxDepth = 5
		randomDeep = 0
	}
	_ = nshards

	var specs []routeSpec
	var results []GenResult
	for i := 0; i < n; i++ {
		name := fmt.Sprintf("p%02d_%03d", *shard, i)
		rs := genRouteSpec(rng.Fork(), name, *secMode)
		specs = append(specs, rs)
		results = append(results, runGoag(*work, rs.Gen))
	}
	bin, err := buildBatch(*work, results)
	if err != nil {
		return err
	}

	cf, _ := os.Create(filepath.Join(*out, "cases.tsv"))
	defer cf.Close()
	cw := bufio.NewWriterSize(cf, 1<<20)
	defer cw.Flush()
	gf, _ := os.Create(filepath.Join(*out, "gen.tsv"))
	defer gf.Close()

	var cases []rt.Case
	stats := map[string]int{}
	for i, rs := range specs {
		r := results[i]
		fmt.Fprintf(gf, "%s\t%s\t%s\t%s\t%s\n", r.Name, r.Outcome, hexs(firstLine(r.Detail)), hexs(r.Broken), hexs(string(rs.Gen.Spec)))
		if r.Outcome != "ok" || r.Broken != "" {
			stats["spec_not_driven"]++
			continue
		}
		stats["specs"]++
		fmt.Fprintf(cw, "api\t%s\t%s\t%s\t%s\t%s\n", r.Name, r.SpecPath, hexs(rs.Gen.BasePath), hexs(rs.SpecName), b01(rs.Gen.Cors))
		crng := rng.Fork()
		// API field name -> scheme name
		schemeOf := map[string]string{}
		for sn, sd := range rs.Schemes {
			switch sd.Kind {
			case "bearer":
				schemeOf["SecurityBearerAuth"] = sn
			default:
				schemeOf["SecurityAPIKeyAuth"+generator.Title(sd.Name)] = sn
			}
		}
		reqPaths := genRequestPaths(crng, rs, maxDepth, randomDeep)
		methods := []string{"GET", "POST", "OPTIONS", "DELETE", "PUT", "PATCH", "HEAD", "TRACE"}
		for j, p := range reqPaths {
			for k := 0; k < 2; k++ {
				c := rt.Case{Op: "serve", Pkg: r.Name, ID: fmt.Sprintf("%s#%d.%d", r.Name, j, k), Path: p}
				if k == 0 {
					c.Method = methods[j%3] // GET POST OPTIONS
				} else {
					c.Method = methods[3+crng.Intn(5)]
				}
				c.Mws = crng.Intn(4)
				if crng.Chance(1, 10) {
					c.Mws = 4
				}
				c.NF = crng.Chance(1, 3)
				c.Spec = crng.Chance(1, 2)
				c.Cors = crng.Chance(2, 3)
				if rs.HasSec {
					c.Auth = map[string][]string{}
					for field := range schemeOf {
						switch crng.Intn(4) {
						case 0: // nil hook
						case 1:
							c.Auth[field] = []string{}
						default:
							c.Auth[field] = []string{"good"}
						}
					}
					q := url.Values{}
					for _, sd := range rs.Schemes {
						cred := ""
						switch crng.Intn(3) {
						case 0:
							continue
						case 1:
							cred = "good"
						case 2:
							cred = "bad"
						}
						switch sd.Kind {
						case "bearer":
							if crng.Chance(1, 4) {
								c.Headers = append(c.Headers, [2]string{"Authorization", cred})
							} else {
								c.Headers = append(c.Headers, [2]string{"Authorization", "Bearer " + cred})
							}
						case "header":
							c.Headers = append(c.Headers, [2]string{sd.Name, cred})
							if crng.Chance(1, 8) {
								c.Headers = append(c.Headers, [2]string{sd.Name, "good"})
							}
						case "query":
							q.Add(sd.Name, cred)
						}
					}
					c.Query = q.Encode()
				}
				parse := !rs.HasSec
				c.NoParse = !parse
				c.Alias = schemeOf
				fmt.Fprintln(cw, leanServeLine(&c, parse, schemeOf))
				cases = append(cases, c)
			}
		}
		// sessions: several requests on ONE API value with one configuration (stateful slips
		// such as in-place mutation of API fields only show on the 2nd, 3rd ... request)
		for sIdx := 0; sIdx < 4; sIdx++ {
			mws := 2 + crng.Intn(3)
			nf, sp, co := crng.Bool(), crng.Bool(), crng.Bool()
			auth := map[string][]string{}
			for field := range schemeOf {
				auth[field] = []string{"good"}
			}
			for k := 0; k < 5; k++ {
				t := Pick(crng, rs.Templates)
				segs := strings.Split(t, "/")[1:]
				for i, sg := range segs {
					if strings.HasPrefix(sg, "{") {
						segs[i] = Pick(crng, []string{"a", "7", "true", "z"})
					}
				}
				c := rt.Case{Op: "serve", Pkg: r.Name, ID: fmt.Sprintf("%s#s%d.%d", r.Name, sIdx, k), Path: rs.Base + "/" + strings.Join(segs, "/"),
					Method: Pick(crng, []string{"GET", "POST", "PUT", "DELETE", "OPTIONS", "PATCH", "HEAD"}), Mws: mws, NF: nf, Spec: sp, Cors: co, Reuse: k > 0}
				if rs.HasSec {
					c.Auth = auth
					q := url.Values{}
					for _, sd := range rs.Schemes {
						switch sd.Kind {
						case "bearer":
							c.Headers = append(c.Headers, [2]string{"Authorization", "Bearer good"})
						case "header":
							c.Headers = append(c.Headers, [2]string{sd.Name, "good"})
						case "query":
							q.Add(sd.Name, "good")
						}
					}
					c.Query = q.Encode()
				}
				parse := !rs.HasSec
				c.NoParse = !parse
				c.Alias = schemeOf
				fmt.Fprintln(cw, leanServeLine(&c, parse, schemeOf))
				cases = append(cases, c)
			}
		}
	}
	cw.Flush()
	obs, rerr := runBatch(bin, cases)
	of, _ := os.Create(filepath.Join(*out, "impl.tsv"))
	ow := bufio.NewWriterSize(of, 1<<20)
	for _, c := range cases {
		o, ok := obs[c.ID]
		if !ok {
			o = "MISSING"
		}
		fmt.Fprintf(ow, "%s\t%s\n", c.ID, o)
	}
	ow.Flush()
	of.Close()
	stats["requests"] = len(cases)
	meta, _ := json.Marshal(map[string]any{"stats": stats})
	os.WriteFile(filepath.Join(*out, "meta.json"), meta, 0o644)
	if rerr != nil {
		return rerr
	}
	return nil
}

// genRequestPaths enumerates request paths below the base path plus near-misses.
func genRequestPaths(rng *PRNG, rs routeSpec, maxDepth, randomDeep int) []string {
	alpha := []string{"a", "b", "z", "7", "true", ""}
	var rel []string
	var rec func(prefix string, d int)
	rec = func(prefix string, d int) {
		if d == 0 {
			return
		}
		for _, s := range alpha {
			p := prefix + "/" + s
			rel = append(rel, p)
			rec(p, d-1)
		}
	}
	// full enumeration is 6^d; keep the exhaustive part at depth<=3 and sample deeper
	exh := 3
	if maxDepth >= 5 {
		exh = 4
	}
	rec("", exh)
	for i := 0; i < 250+randomDeep; i++ {
		d := exh + 1 + rng.Intn(maxDepth-exh+1)
		var sb strings.Builder
		for j := 0; j < d; j++ {
			sb.WriteString("/" + Pick(rng, alpha))
		}
		rel = append(rel, sb.String())
	}
	// template-directed requests: instantiate each template with values (so deep templates are hit)
	vals := []string{"a", "z", "7", "-3", "true", "", "2147483648", "9223372036854775808", "x y"}
	for _, t := range rs.Templates {
		for i := 0; i < 6; i++ {
			segs := strings.Split(t, "/")[1:]
			for k, s := range segs {
				if strings.HasPrefix(s, "{") {
					segs[k] = Pick(rng, vals)
				}
			}
			p := "/" + strings.Join(segs, "/")
			rel = append(rel, p)
			if rng.Chance(1, 2) {
				rel = append(rel, p+"/")
			}
			if len(segs) > 1 && rng.Chance(1, 2) {
				rel = append(rel, "/"+strings.Join(segs[:len(segs)-1], "/"))
			}
		}
	}
	var out []string
	for _, p := range rel {
		out = append(out, rs.Base+p)
	}
	// near-misses and specials
	specials := []string{"", "*", "a", rs.Base, rs.Base + "x/a", rs.Base + "/" + rs.SpecName, "/" + rs.SpecName, rs.Base + "/" + rs.SpecName + "/", rs.Base + "//a", "/a", "/api/a", "/apix/a", rs.Base + rs.Base + "/a"}
	if rs.Base != "" {
		specials = append(specials, rs.Base[:len(rs.Base)-1]+"/a", rs.Base+"a")
	}
	out = append(out, specials...)
	return out
}
