package main

// Facet F-route (C03 C05 C16 C13b C14 C17, and the security wrapper of C11 for single-scheme
// requirements): random well-formed template sets x methods x base-path forms x typed path
// parameters x cors x security, driven with an enumerated request universe.

import (
	"bufio"
	"encoding/hex"
	"encoding/json"
	"flag"
	"fmt"
	"math"
	"net/http"
	"net/url"
	"os"
	"path/filepath"
	"regexp"
	"sort"
	"strconv"
	"strings"
	"time"

	"github.com/vkd/goag/generator"
	"verif/rt"
)

func init() { facets["route"] = facetRoute }

type routeSpec struct {
	Gen       GenSpec
	Templates []string
	Base      string // effective base path the generator is expected to derive (for building requests only)
	SpecName  string
	Schemes   map[string]schemeDef
	HasSec    bool
	// declared query/header parameters per template (union over operations), for request generation
	Params map[string][]paramDef
}

type paramDef struct {
	Loc, Name, Tag string
	Array          bool
}

type ptypeDef struct {
	tag    string
	schema map[string]any
}

var qhTypes = []ptypeDef{
	{"str", map[string]any{"type": "string"}},
	{"int", map[string]any{"type": "integer"}},
	{"int32", map[string]any{"type": "integer", "format": "int32"}},
	{"int64", map[string]any{"type": "integer", "format": "int64"}},
	{"bool", map[string]any{"type": "boolean"}},
	{"f64", map[string]any{"type": "number"}},
	{"f32", map[string]any{"type": "number", "format": "float"}},
	{"time", map[string]any{"type": "string", "format": "date-time"}},
	// a date-time with a declared Go layout: the lexical space is that layout's, not RFC 3339's
	{"time1123", map[string]any{"type": "string", "format": "date-time", "x-goag-go-time-format": "time.RFC1123"}},
}

var queryNames = []string{"q", "page", "limit", "user_id", "ids", "from", "sort-by", "flag", "page[size]", "order by", "filter:x"}
var headerNames = []string{"X-Request-Id", "x-trace", "Accept-Lang", "X-Count", "x-request-id", "If-Flag", "Accept", "content-type", "If-Match"}

var lexemes = map[string][]string{
	"str":   {"abc", "", "a b", "x/y", "é", "0", "red,dark"},
	"int":   {"0", "7", "-3", "+5", "007", "2147483647", "2147483648", "-2147483649", "9223372036854775807", "9223372036854775808", "-9223372036854775808", "-9223372036854775809", "1_0", "abc", "", "1.0", " 1", "-", "+", "1,2"},
	"int32": {"0", "7", "-3", "+5", "007", "2147483647", "2147483648", "-2147483648", "-2147483649", "9223372036854775807", "abc", "", "1e3"},
	"int64": {"0", "-1", "9223372036854775807", "9223372036854775808", "-9223372036854775808", "-9223372036854775809", "00", "abc", "", "0x10"},
	"bool":  {"true", "false", "1", "0", "t", "F", "TRUE", "True", "yes", "", "tRUE", "T", "f", "FALSE", "False"},
	"f64":   {"1.5", "1e3", "-0", "Inf", "-Inf", "1e400", "abc", "", "0x1p-2", "1_0", ".5", "5.", "1e-400", "NaN", "1.5,2"},
	"f32":   {"1.5", "1e3", "3.4e38", "3.5e38", "1e-46", "abc", "", "16777217", "-0"},
	"time1123": {"Tue, 02 Jan 2024 03:04:05 GMT", "Mon, 02 Jan 2006 15:04:05 UTC", "2024-01-02T03:04:05Z", "", "Tue, 02 Jan 2024", "Tue, 32 Jan 2024 03:04:05 GMT", "tue, 02 jan 2024 03:04:05 GMT"},
	"time":  {"2024-01-02T03:04:05Z", "2024-01-02T03:04:05.123456789+02:00", "2024-01-02", "", "2024-13-01T00:00:00Z", "2024-01-02t03:04:05z", "2024-01-02T03:04:05", "0000-01-01T00:00:00Z"},
}

// leafDump is the Go library's verdict on a lexeme for the types the Lean model has no closed form for.
func leafDump(tag, lex string) string {
	switch tag {
	case "f64":
		v, err := strconv.ParseFloat(lex, 64)
		if err != nil {
			return "none"
		}
		return "f:" + strconv.FormatUint(math.Float64bits(v), 16)
	case "f32":
		v, err := strconv.ParseFloat(lex, 32)
		if err != nil {
			return "none"
		}
		return "f:" + strconv.FormatUint(math.Float64bits(float64(float32(v))), 16)
	case "time":
		t, err := time.Parse(time.RFC3339Nano, lex)
		if err != nil {
			return "none"
		}
		return "t:" + strconv.FormatInt(t.UnixNano(), 10)
	case "other:time:time.RFC1123":
		t, err := time.Parse(time.RFC1123, lex)
		if err != nil {
			return "none"
		}
		return "t:" + strconv.FormatInt(t.UnixNano(), 10)
	}
	return ""
}

// genQHParams draws query/header parameter declarations; refs go through components.
func genQHParams(rng *PRNG, comps map[string]any, used map[string]bool) ([]any, []paramDef) {
	var ps []any
	var defs []paramDef
	n := rng.Intn(4)
	for i := 0; i < n; i++ {
		loc := "query"
		name := Pick(rng, queryNames)
		if rng.Chance(2, 5) {
			loc = "header"
			name = Pick(rng, headerNames)
		}
		key := loc + ":" + strings.ToLower(name)
		if used[key] {
			continue
		}
		used[key] = true
		t := Pick(rng, qhTypes)
		arr := rng.Chance(1, 4)
		var schema any = t.schema
		if rng.Chance(1, 5) {
			// schema $ref to a primitive component schema
			sn := "S" + strings.Title(t.tag)
			schemas := comps["schemas"].(map[string]any)
			schemas[sn] = t.schema
			schema = map[string]any{"$ref": "#/components/schemas/" + sn}
		}
		if arr {
			schema = map[string]any{"type": "array", "items": schema}
		}
		p := map[string]any{"in": loc, "name": name, "schema": schema}
		if rng.Chance(1, 2) {
			p["required"] = true
		}
		defs = append(defs, paramDef{Loc: loc, Name: name, Tag: t.tag, Array: arr})
		if rng.Chance(1, 5) {
			// component-parameter $ref
			pn := "P" + fmt.Sprint(len(comps["parameters"].(map[string]any)))
			comps["parameters"].(map[string]any)[pn] = p
			ps = append(ps, map[string]any{"$ref": "#/components/parameters/" + pn})
		} else {
			ps = append(ps, p)
		}
	}
	return ps, defs
}

type schemeDef struct {
	Kind string // bearer | header | query
	Name string // header / query key
}

var litAlpha = []string{"a", "b", "c"}
var methodPool = []string{"get", "post", "put", "delete", "patch", "head", "options"}
var ptypePool = []map[string]any{
	{"type": "string"},
	{"type": "integer"},
	{"type": "integer", "format": "int32"},
	{"type": "integer", "format": "int64"},
	{"type": "boolean"},
}

// templateKey is the equivalence key (literal text / variable marker per segment).
func templateKey(segs []string) string {
	var ks []string
	for _, s := range segs {
		if strings.HasPrefix(s, "{") {
			ks = append(ks, "{}")
		} else {
			ks = append(ks, "="+s)
		}
	}
	return strings.Join(ks, "/")
}

func genTemplates(rng *PRNG, n int) []string {
	seen := map[string]bool{}
	var out []string
	for tries := 0; len(out) < n && tries < 200; tries++ {
		depth := 1 + rng.Intn(4)
		var segs []string
		for d := 0; d < depth; d++ {
			last := d == depth-1
			switch {
			case last && rng.Chance(1, 5):
				segs = append(segs, "")
			case rng.Chance(2, 5):
				// sibling templates may spell the variable of one position differently
				segs = append(segs, fmt.Sprintf("{%s%d}", Pick(rng, []string{"v", "v", "w", "id"}), d))
			case rng.Chance(1, 8):
				// literal text outside ASCII: its length in bytes and in characters differ
				segs = append(segs, Pick(rng, []string{"ñu", "日本", "é"}))
			default:
				segs = append(segs, Pick(rng, litAlpha))
			}
		}
		k := templateKey(segs)
		if seen[k] {
			continue
		}
		seen[k] = true
		out = append(out, "/"+strings.Join(segs, "/"))
	}
	sort.Strings(out)
	return out
}

type baseForm struct {
	servers []any
	flag    string
	eff     string
}

func genBase(rng *PRNG) baseForm {
	switch rng.Intn(14) {
	case 13:
		// the root as an explicit override of a server URL that has a path
		return baseForm{servers: []any{map[string]any{"url": "https://demo.example.com/api/v1"}}, flag: "/", eff: ""}
	case 10:
		// one server variable used twice, the second time in the path
		return baseForm{servers: []any{map[string]any{"url": "https://{tenant}.example.com:{port}/{tenant}/{version}", "variables": map[string]any{
			"tenant": map[string]any{"default": "acme"}, "port": map[string]any{"default": "443"}, "version": map[string]any{"default": "v1"}}}}, eff: "/acme/v1"}
	case 11:
		// a relative server URL: the base path has no leading slash, so no request path (they all
		// start with one) lies beneath it
		return baseForm{servers: []any{map[string]any{"url": "api/v1"}}, eff: "api/v1"}
	case 12:
		return baseForm{flag: "rel/base", eff: "rel/base"}
	case 0:
		return baseForm{servers: []any{map[string]any{"url": "/"}}, eff: ""}
	case 1:
		return baseForm{servers: []any{map[string]any{"url": "/api"}}, eff: "/api"}
	case 2:
		return baseForm{servers: []any{map[string]any{"url": "/api/"}}, eff: "/api"}
	case 3:
		return baseForm{servers: []any{map[string]any{"url": "https://demo.example.com:8443/api/v1"}}, eff: "/api/v1"}
	case 4:
		return baseForm{servers: []any{map[string]any{"url": "https://{user}.example.com:{port}/{bp}", "variables": map[string]any{
			"user": map[string]any{"default": "demo"}, "port": map[string]any{"default": "8443"}, "bp": map[string]any{"default": "api/v2"}}}}, eff: "/api/v2"}
	case 5:
		return baseForm{servers: []any{map[string]any{"url": "https://example.com"}}, eff: ""}
	case 6:
		return baseForm{servers: []any{map[string]any{"url": "/ignored"}}, flag: "/flag", eff: "/flag"}
	case 7:
		return baseForm{flag: "/b/", eff: "/b"}
	case 8:
		return baseForm{servers: []any{map[string]any{"url": "/a"}, map[string]any{"url": "/second"}}, eff: "/a"}
	default:
		return baseForm{eff: ""}
	}
}

func genRouteSpec(rng *PRNG, name string, secMode bool, paramMode bool) routeSpec {
	n := 1 + rng.Intn(7)
	tpls := genTemplates(rng, n)
	bf := genBase(rng)
	rs := routeSpec{Templates: tpls, Base: bf.eff, Schemes: map[string]schemeDef{}, Params: map[string][]paramDef{}}
	comps := map[string]any{"schemas": map[string]any{}, "parameters": map[string]any{}}
	withParams := paramMode || rng.Chance(1, 4)
	doc := map[string]any{
		"openapi": "3.0.3",
		"info":    map[string]any{"title": "t", "version": "1", "description": "up to 100% off; 50%s %d %v %% %!(EXTRA) {\n\n}"},
	}
	if bf.servers != nil {
		doc["servers"] = bf.servers
	}
	withSec := secMode || rng.Chance(1, 3)
	var schemeNames []string
	if withSec {
		ss := map[string]any{}
		if rng.Chance(3, 4) {
			ss["jwt"] = map[string]any{"type": "http", "scheme": "bearer"}
			rs.Schemes["jwt"] = schemeDef{Kind: "bearer"}
		}
		if rng.Chance(2, 3) {
			hn := Pick(rng, []string{"X-Key", "x-api-key", "Token"})
			ss["hkey"] = map[string]any{"type": "apiKey", "in": "header", "name": hn}
			rs.Schemes["hkey"] = schemeDef{Kind: "header", Name: hn}
		}
		if rng.Chance(1, 2) {
			ss["qkey"] = map[string]any{"type": "apiKey", "in": "query", "name": "key"}
			rs.Schemes["qkey"] = schemeDef{Kind: "query", Name: "key"}
		}
		if len(ss) == 0 {
			ss["jwt"] = map[string]any{"type": "http", "scheme": "bearer"}
			rs.Schemes["jwt"] = schemeDef{Kind: "bearer"}
		}
		if secMode && rng.Chance(1, 3) {
			// scheme kinds goag has no authenticator for (recorded finding KF-C11-unsupported): they may
			// stand next to, and in front of, supported alternatives in a requirement list
			if rng.Bool() {
				ss["basic"] = map[string]any{"type": "http", "scheme": "basic"}
			} else {
				ss["aoauth"] = map[string]any{"type": "oauth2", "flows": map[string]any{"clientCredentials": map[string]any{"tokenUrl": "https://example.com/token", "scopes": map[string]any{"read": "r"}}}}
			}
		}
		for k := range ss {
			schemeNames = append(schemeNames, k)
		}
		sort.Strings(schemeNames)
		comps["securitySchemes"] = ss
		if rng.Chance(1, 2) {
			doc["security"] = genReqList(rng, schemeNames)
		}
		rs.HasSec = true
	}
	paths := map[string]any{}
	for _, t := range tpls {
		pi := map[string]any{}
		// variables of the template
		var vars []string
		for _, seg := range strings.Split(t, "/") {
			if strings.HasPrefix(seg, "{") {
				vars = append(vars, seg[1:len(seg)-1])
			}
		}
		mkParams := func() []any {
			var ps []any
			order := append([]string{}, vars...)
			if len(order) > 1 && rng.Chance(1, 3) {
				order[0], order[len(order)-1] = order[len(order)-1], order[0]
			}
			for _, v := range order {
				ps = append(ps, map[string]any{"in": "path", "name": v, "required": true, "schema": Pick(rng, ptypePool)})
			}
			return ps
		}
		piLevel := len(vars) > 0 && rng.Chance(1, 3)
		var piParams []any
		if piLevel {
			piParams = mkParams()
		}
		piUsed := map[string]bool{}
		if withParams && rng.Chance(1, 2) {
			ps, defs := genQHParams(rng, comps, piUsed)
			piParams = append(piParams, ps...)
			rs.Params[t] = append(rs.Params[t], defs...)
		}
		if len(piParams) > 0 {
			pi["parameters"] = piParams
		}
		nm := 1 + rng.Intn(3)
		ms := map[string]bool{}
		for len(ms) < nm {
			m := Pick(rng, methodPool)
			if m == "options" && !rng.Chance(1, 3) {
				continue
			}
			ms[m] = true
		}
		for m := range ms {
			op := map[string]any{"responses": map[string]any{"default": map[string]any{"description": "d"}}}
			var opParams []any
			if len(vars) > 0 && (!piLevel || rng.Chance(1, 4)) {
				opParams = mkParams()
			}
			if withParams {
				opUsed := map[string]bool{}
				for k := range piUsed {
					opUsed[k] = true
				}
				ps, defs := genQHParams(rng, comps, opUsed)
				opParams = append(opParams, ps...)
				rs.Params[t] = append(rs.Params[t], defs...)
				// override: re-declare a path-item level parameter (same in+name) with another type
				if len(piParams) > 0 && rng.Chance(1, 3) {
					if pp, ok := piParams[len(piParams)-1].(map[string]any); ok && pp["in"] != nil && pp["in"] != "path" {
						t2 := Pick(rng, qhTypes)
						opParams = append(opParams, map[string]any{"in": pp["in"], "name": pp["name"], "required": rng.Bool(), "schema": t2.schema})
						rs.Params[t] = append(rs.Params[t], paramDef{Loc: pp["in"].(string), Name: pp["name"].(string), Tag: t2.tag})
					}
				}
				// ... and a parameter of the same NAME in the other location: that is another parameter,
				// the path-item level one stays in force
				if len(piParams) > 0 && rng.Chance(1, 3) {
					if pp, ok := piParams[len(piParams)-1].(map[string]any); ok && pp["in"] != nil && pp["in"] != "path" {
						other := "query"
						if pp["in"] == "query" {
							other = "header"
						}
						nm := pp["name"].(string)
						okName := regexp.MustCompile(`^[A-Za-z][A-Za-z0-9-]*$`).MatchString(nm)
						dup := false
						for _, op := range opParams {
							if m, ok := op.(map[string]any); ok && m["in"] == other && strings.EqualFold(fmt.Sprint(m["name"]), nm) {
								dup = true
							}
						}
						if okName && !dup && !opUsed[other+":"+strings.ToLower(nm)] {
							t3 := Pick(rng, qhTypes)
							opParams = append(opParams, map[string]any{"in": other, "name": nm, "schema": t3.schema})
							rs.Params[t] = append(rs.Params[t], paramDef{Loc: other, Name: nm, Tag: t3.tag})
						}
					}
				}
			}
			if len(opParams) > 0 {
				op["parameters"] = opParams
			}
			if withSec && rng.Chance(2, 3) {
				op["security"] = genReqList(rng, schemeNames)
			}
			pi[m] = op
		}
		paths[t] = pi
	}
	doc["paths"] = paths
	for k, v := range comps {
		if m, ok := v.(map[string]any); ok && len(m) == 0 {
			delete(comps, k)
		}
	}
	if len(comps) > 0 {
		doc["components"] = comps
	}
	bs, _ := json.Marshal(doc)
	rs.Gen = GenSpec{Name: name, Spec: bs, Ext: "json", BasePath: bf.flag, Cors: rng.Chance(1, 3), DoNotEdit: rng.Bool(), Client: rng.Chance(1, 6) && !withParams}
	if paramMode && rng.Bool() {
		rs.Gen.Cors = true
	}
	if rng.Chance(1, 4) {
		rs.Gen.SpecHandler = "spec.yaml"
		rs.SpecName = "spec.yaml"
	} else if rng.Chance(1, 4) {
		// a spec handler name with a directory part: served at <base>/docs/v1/spec.yaml
		rs.Gen.SpecHandler = "docs/v1/spec.yaml"
		rs.SpecName = "docs/v1/spec.yaml"
	} else {
		rs.SpecName = "openapi.json"
	}
	if rng.Chance(1, 5) || (bf.flag == "/" && rng.Bool()) {
		rs.Gen.ViaCLI = true
	}
	if !rs.Gen.ViaCLI && rng.Chance(1, 5) {
		// directory mode with a spec file name of its own: the handler name, when given, is still the
		// name the spec is served under; the file name on disk is only where the spec is read from
		rs.Gen.DirSpecName = "api.json"
		if rs.Gen.SpecHandler == "" {
			rs.SpecName = "api.json"
		}
	}
	return rs
}

// genReqList: a list of single-scheme requirements (possibly empty = public)
func genReqList(rng *PRNG, names []string) []any {
	n := rng.Intn(3)
	out := []any{}
	used := map[string]bool{}
	for i := 0; i < n; i++ {
		s := Pick(rng, names)
		if used[s] {
			continue
		}
		used[s] = true
		out = append(out, map[string]any{s: []any{}})
	}
	return out
}

type serveCase struct {
	c     rt.Case
	parse bool
	query url.Values
}

func hexs(s string) string { return hex.EncodeToString([]byte(s)) }

func multiField(keys []string, m map[string][]string, hexKeys bool) string {
	var parts []string
	for _, k := range keys {
		var vs []string
		for _, v := range m[k] {
			vs = append(vs, "v"+hexs(v))
		}
		kk := k
		if hexKeys {
			kk = hexs(k)
		}
		parts = append(parts, kk+"="+strings.Join(vs, ","))
	}
	return strings.Join(parts, ";")
}

func b01(b bool) string {
	if b {
		return "1"
	}
	return "0"
}

// leanServeLine renders the case for the Lean driver.
func leanServeLine(c *rt.Case, parse bool, schemeOf map[string]string) string {
	// auth: scheme name -> accepted tokens (installed hooks only)
	auth := map[string][]string{}
	var akeys []string
	for field, toks := range c.Auth {
		s := schemeOf[field]
		auth[s] = toks
		akeys = append(akeys, s)
	}
	sort.Strings(akeys)
	q, _ := url.ParseQuery(c.Query)
	var qkeys []string
	for k := range q {
		qkeys = append(qkeys, k)
	}
	sort.Strings(qkeys)
	hm := map[string][]string{}
	var hkeys []string
	for _, kv := range c.Headers {
		k := http.CanonicalHeaderKey(kv[0])
		if _, ok := hm[k]; !ok {
			hkeys = append(hkeys, k)
		}
		hm[k] = append(hm[k], kv[1])
	}
	return strings.Join([]string{"serve", c.ID, c.Method, hexs(c.Path), fmt.Sprint(c.Mws), b01(c.NF), b01(c.Spec), b01(c.Cors), b01(parse),
		multiField(akeys, auth, false), multiField(qkeys, q, true), multiField(hkeys, hm, true)}, "\t")
}

func facetRoute(args []string) error {
	fs := flag.NewFlagSet("route", flag.ExitOnError)
	seed := fs.Uint64("seed", 1, "seed")
	tier := fs.String("tier", "quick", "quick|thorough")
	out := fs.String("out", "", "output dir")
	work := fs.String("work", "", "scratch dir")
	shard := fs.Int("shard", 0, "shard index")
	nshards := fs.Int("nshards", 1, "number of shards")
	secMode := fs.Bool("sec", false, "security-heavy specs")
	paramMode := fs.Bool("params", false, "query/header parameter-heavy specs")
	nspecs := fs.Int("nspecs", 0, "specs per shard (0 = tier default)")
	fs.Parse(args)
	if *out == "" || *work == "" {
		return fmt.Errorf("need -out and -work")
	}
	rng := NewPRNG(*seed*1000003 + uint64(*shard)*7919 + 17)
	n := *nspecs
	if n == 0 {
		n = 10
		if *tier == "thorough" {
			n = 60
		}
	}
	maxDepth := 4
	randomDeep := 150
	if *tier == "thorough" {
		maxDepth = 5
		randomDeep = 0
	}
	_ = nshards

	var specs []routeSpec
	var results []GenResult
	for i := 0; i < n; i++ {
		name := fmt.Sprintf("p%02d_%03d", *shard, i)
		rs := genRouteSpec(rng.Fork(), name, *secMode, *paramMode)
		if *secMode && i == 0 {
			rs = kfSecSpec(name, *shard)
		}
		specs = append(specs, rs)
		results = append(results, runGoag(*work, rs.Gen))
	}
	bin, err := buildBatch(*work, results)
	if err != nil {
		return err
	}

	cf, _ := os.Create(filepath.Join(*out, "cases.tsv"))
	defer cf.Close()
	cw := bufio.NewWriterSize(cf, 1<<20)
	defer cw.Flush()
	gf, _ := os.Create(filepath.Join(*out, "gen.tsv"))
	defer gf.Close()

	var cases []rt.Case
	stats := map[string]int{}
	for i, rs := range specs {
		r := results[i]
		inv, _ := json.Marshal(map[string]any{"via_command_line": rs.Gen.ViaCLI, "basepath": rs.Gen.BasePath, "spec_handler_name": rs.Gen.SpecHandler, "dir_mode_spec_file_name": rs.Gen.DirSpecName, "cors": rs.Gen.Cors, "donotedit": rs.Gen.DoNotEdit, "client": rs.Gen.Client})
		fmt.Fprintf(gf, "%s\t%s\t%s\t%s\t%s\t%s\n", r.Name, r.Outcome, hexs(firstLine(r.Detail)), hexs(brokenOrFmt(r)), hexs(string(rs.Gen.Spec)), hexs(string(inv)))
		if r.Outcome != "ok" || r.Broken != "" {
			stats["spec_not_driven"]++
			continue
		}
		stats["specs"]++
		fmt.Fprintf(cw, "api\t%s\t%s\t%s\t%s\t%s\n", r.Name, r.SpecPath, hexs(rs.Gen.BasePath), hexs(rs.SpecName), b01(rs.Gen.Cors))
		// the Go library's verdict on every lexeme the requests may carry, for every leaf type
		allLex := map[string]bool{"a": true, "7": true, "true": true, "1": true, "z": true, "good": true, "bad": true}
		for _, ls := range lexemes {
			for _, lx := range ls {
				allLex[lx] = true
			}
		}
		var lexList []string
		for lx := range allLex {
			lexList = append(lexList, lx)
		}
		sort.Strings(lexList)
		for _, tag := range []string{"f64", "f32", "time", "other:time:time.RFC1123"} {
			for _, lx := range lexList {
				fmt.Fprintf(cw, "leaf\t%s\t%s\t%s\n", tag, hexs(lx), leafDump(tag, lx))
			}
		}
		crng := rng.Fork()
		// API field name -> scheme name
		schemeOf := map[string]string{}
		for sn, sd := range rs.Schemes {
			switch sd.Kind {
			case "bearer":
				schemeOf["SecurityBearerAuth"] = sn
			default:
				schemeOf["SecurityAPIKeyAuth"+generator.Title(sd.Name)] = sn
			}
		}
		reqPaths := genRequestPaths(crng, rs, maxDepth, randomDeep)
		methods := []string{"GET", "POST", "OPTIONS", "DELETE", "PUT", "PATCH", "HEAD", "TRACE"}
		for j, p := range reqPaths {
			for k := 0; k < 2; k++ {
				c := rt.Case{Op: "serve", Pkg: r.Name, ID: fmt.Sprintf("%s#%d.%d", r.Name, j, k), Path: p}
				if k == 0 {
					c.Method = methods[j%3] // GET POST OPTIONS
				} else {
					c.Method = methods[3+crng.Intn(5)]
				}
				c.Mws = crng.Intn(4)
				if crng.Chance(1, 10) {
					c.Mws = 4
				}
				c.NF = crng.Chance(1, 3)
				c.Spec = crng.Chance(1, 2)
				c.Cors = crng.Chance(2, 3)
				if rs.HasSec {
					c.Auth = map[string][]string{}
					for field := range schemeOf {
						switch crng.Intn(4) {
						case 0: // nil hook
						case 1:
							c.Auth[field] = []string{}
						default:
							c.Auth[field] = []string{"good"}
						}
					}
					q := url.Values{}
					for _, sd := range rs.Schemes {
						cred := ""
						switch crng.Intn(3) {
						case 0:
							continue
						case 1:
							cred = "good"
						case 2:
							cred = "bad"
						}
						switch sd.Kind {
						case "bearer":
							if crng.Chance(1, 4) {
								c.Headers = append(c.Headers, [2]string{"Authorization", cred})
							} else {
								c.Headers = append(c.Headers, [2]string{"Authorization", "Bearer " + cred})
							}
						case "header":
							c.Headers = append(c.Headers, [2]string{sd.Name, cred})
							if crng.Chance(1, 8) {
								c.Headers = append(c.Headers, [2]string{sd.Name, "good"})
							}
						case "query":
							q.Add(sd.Name, cred)
						}
					}
					c.Query = q.Encode()
					if (c.Method == "POST" || c.Method == "PUT" || c.Method == "PATCH") && crng.Chance(1, 3) {
						// a form body that carries a field named like a query credential, with the verdict the
						// query string does not have: "in: query" means the query string, nothing else
						for _, sd := range rs.Schemes {
							if sd.Kind != "query" {
								continue
							}
							other := "good"
							if q.Get(sd.Name) == "good" {
								other = "bad"
							}
							b := url.Values{sd.Name: {other}}.Encode()
							c.Body = &b
							c.Headers = append(c.Headers, [2]string{"Content-Type", "application/x-www-form-urlencoded"})
						}
					}
				}
				parse := !crng.Chance(1, 10)
				c.NoParse = !parse
				c.Alias = schemeOf
				fmt.Fprintln(cw, leanServeLine(&c, parse, schemeOf))
				c.Cancelled = !c.Inherit && len(cases)%7 == 3
				cases = append(cases, c)
			}
		}
		// parameter-directed requests: routed paths with query / header values drawn from the
		// lexeme classes of each declared parameter's type x cardinality {absent, one, many}
		for _, t := range rs.Templates {
			defs := rs.Params[t]
			if len(defs) == 0 {
				continue
			}
			for k := 0; k < 40; k++ {
				segs := strings.Split(t, "/")[1:]
				for i, sg := range segs {
					if strings.HasPrefix(sg, "{") {
						segs[i] = Pick(crng, []string{"a", "7", "true", "1"})
					}
				}
				c := rt.Case{Op: "serve", Pkg: r.Name, ID: fmt.Sprintf("%s#q%s.%d", r.Name, hexs(t), k), Path: rs.Base + "/" + strings.Join(segs, "/"),
					Method: Pick(crng, []string{"GET", "POST", "PUT", "DELETE", "PATCH", "HEAD", "OPTIONS"}), Mws: crng.Intn(2), Cors: crng.Bool()}
				q := url.Values{}
				for _, d := range defs {
					card := 1
					switch crng.Intn(8) {
					case 0, 1:
						card = 0
					case 2:
						card = 2 + crng.Intn(2)
					}
					if d.Array && card == 1 && crng.Bool() {
						card = 2
					}
					for j := 0; j < card; j++ {
						lx := Pick(crng, lexemes[d.Tag])
						if crng.Chance(1, 2) {
							lx = lexemes[d.Tag][crng.Intn(3)] // bias towards canonical lexemes
						}
						if d.Loc == "query" {
							q.Add(d.Name, lx)
						} else {
							c.Headers = append(c.Headers, [2]string{d.Name, lx})
						}
					}
				}
				if rs.HasSec {
					c.Auth = map[string][]string{}
					for field := range schemeOf {
						c.Auth[field] = []string{"good"}
					}
					for _, sd := range rs.Schemes {
						switch sd.Kind {
						case "bearer":
							c.Headers = append(c.Headers, [2]string{"Authorization", "Bearer good"})
						case "header":
							c.Headers = append(c.Headers, [2]string{sd.Name, "good"})
						case "query":
							q.Add(sd.Name, "good")
						}
					}
				}
				c.Query = q.Encode()
				c.Alias = schemeOf
				fmt.Fprintln(cw, leanServeLine(&c, true, schemeOf))
				c.Cancelled = !c.Inherit && len(cases)%7 == 3
				cases = append(cases, c)
			}
		}
		// sessions: several requests on ONE API value with one configuration (stateful slips
		// such as in-place mutation of API fields only show on the 2nd, 3rd ... request)
		for sIdx := 0; sIdx < 4; sIdx++ {
			mws := 2 + crng.Intn(3)
			nf, sp, co := crng.Bool(), crng.Bool(), crng.Bool()
			auth := map[string][]string{}
			for field := range schemeOf {
				auth[field] = []string{"good"}
			}
			for k := 0; k < 5; k++ {
				t := Pick(crng, rs.Templates)
				segs := strings.Split(t, "/")[1:]
				for i, sg := range segs {
					if strings.HasPrefix(sg, "{") {
						segs[i] = Pick(crng, []string{"a", "7", "true", "z"})
					}
				}
				c := rt.Case{Op: "serve", Pkg: r.Name, ID: fmt.Sprintf("%s#s%d.%d", r.Name, sIdx, k), Path: rs.Base + "/" + strings.Join(segs, "/"),
					Method: Pick(crng, []string{"GET", "POST", "PUT", "DELETE", "OPTIONS", "PATCH", "HEAD"}), Mws: mws, NF: nf, Spec: sp, Cors: co, Reuse: k > 0}
				// in every other session the later requests carry the context of the request before them
				// (a handler replaying sub-requests, an alias middleware dispatching again): what a request
				// is matched to must not depend on what its context has seen
				c.Inherit = k > 0 && sIdx%2 == 1
				if rs.HasSec {
					c.Auth = auth
					q := url.Values{}
					for _, sd := range rs.Schemes {
						switch sd.Kind {
						case "bearer":
							c.Headers = append(c.Headers, [2]string{"Authorization", "Bearer good"})
						case "header":
							c.Headers = append(c.Headers, [2]string{sd.Name, "good"})
						case "query":
							q.Add(sd.Name, "good")
						}
					}
					c.Query = q.Encode()
				}
				parse := true
				c.NoParse = !parse
				c.Alias = schemeOf
				fmt.Fprintln(cw, leanServeLine(&c, parse, schemeOf))
				c.Cancelled = !c.Inherit && len(cases)%7 == 3
				cases = append(cases, c)
			}
		}
	}
	cw.Flush()
	// request bodies are not part of the model's input line; they are recorded for the replay
	bf, _ := os.Create(filepath.Join(*out, "extras.tsv"))
	for i := range cases {
		ex := map[string]any{}
		if cases[i].Body != nil {
			ex["body"] = *cases[i].Body
		}
		if cases[i].Inherit {
			ex["context"] = "the request carries the context that the previous request of this session (same case id prefix, index - 1, same API value) had when it reached the outermost middleware"
		}
		if cases[i].Cancelled {
			ex["context"] = "the request's context is already cancelled when ServeHTTP is called"
		}
		if cases[i].Reuse {
			ex["session"] = "served on the API value of the previous case of this session"
		}
		if len(ex) > 0 {
			eb, _ := json.Marshal(ex)
			fmt.Fprintf(bf, "%s\t%s\n", cases[i].ID, hexs(string(eb)))
		}
	}
	bf.Close()
	obs, rerr := runBatch(bin, cases)
	of, _ := os.Create(filepath.Join(*out, "impl.tsv"))
	ow := bufio.NewWriterSize(of, 1<<20)
	for _, c := range cases {
		o, ok := obs[c.ID]
		if !ok {
			o = "MISSING"
		}
		fmt.Fprintf(ow, "%s\t%s\n", c.ID, o)
	}
	ow.Flush()
	of.Close()
	stats["requests"] = len(cases)
	meta, _ := json.Marshal(map[string]any{"stats": stats})
	os.WriteFile(filepath.Join(*out, "meta.json"), meta, 0o644)
	if rerr != nil {
		return rerr
	}
	return nil
}

// genRequestPaths enumerates request paths below the base path plus near-misses.
func genRequestPaths(rng *PRNG, rs routeSpec, maxDepth, randomDeep int) []string {
	alpha := []string{"a", "b", "z", "7", "true", ""}
	var rel []string
	var rec func(prefix string, d int)
	rec = func(prefix string, d int) {
		if d == 0 {
			return
		}
		for _, s := range alpha {
			p := prefix + "/" + s
			rel = append(rel, p)
			rec(p, d-1)
		}
	}
	// full enumeration is 6^d; keep the exhaustive part at depth<=3 and sample deeper
	exh := 3
	if maxDepth >= 5 {
		exh = 4
	}
	rec("", exh)
	for i := 0; i < 250+randomDeep; i++ {
		d := exh + 1 + rng.Intn(maxDepth-exh+1)
		var sb strings.Builder
		for j := 0; j < d; j++ {
			sb.WriteString("/" + Pick(rng, alpha))
		}
		rel = append(rel, sb.String())
	}
	// template-directed requests: instantiate each template with values (so deep templates are hit)
	vals := []string{"a", "z", "7", "-3", "true", "", "2147483648", "9223372036854775808", "x y", " 42", "7 ", " true", "1.5 ", "\tz", " ", "2024-01-02T03:04:05Z\n",
		"010", "-010", "09", "0x1F", "0b11", "0o17", "1_000", "+5"}
	for _, t := range rs.Templates {
		for i := 0; i < 6; i++ {
			segs := strings.Split(t, "/")[1:]
			for k, s := range segs {
				if strings.HasPrefix(s, "{") {
					segs[k] = Pick(rng, vals)
				}
			}
			p := "/" + strings.Join(segs, "/")
			rel = append(rel, p)
			if rng.Chance(1, 2) {
				rel = append(rel, p+"/")
			}
			if len(segs) > 1 && rng.Chance(1, 2) {
				rel = append(rel, "/"+strings.Join(segs[:len(segs)-1], "/"))
			}
		}
	}
	var out []string
	for _, p := range rel {
		out = append(out, rs.Base+p)
	}
	// near-misses and specials
	specials := []string{"", "*", "a", rs.Base, rs.Base + "x/a", rs.Base + "/" + rs.SpecName, "/" + rs.SpecName, rs.Base + "/" + rs.SpecName + "/", rs.Base + "//a", "/a", "/api/a", "/apix/a", rs.Base + rs.Base + "/a"}
	if rs.Base != "" {
		specials = append(specials, rs.Base[:len(rs.Base)-1]+"/a", rs.Base+"a")
	}
	if i := strings.LastIndex(rs.SpecName, "/"); i >= 0 {
		// a spec handler name with a directory part: its last element alone, and its directory alone,
		// are ordinary paths (possibly matched by a template)
		specials = append(specials, rs.Base+"/"+rs.SpecName[i+1:], rs.Base+"/"+rs.SpecName[:i])
	}
	out = append(out, specials...)
	return out
}

// kfSecSpec: fixed witness specs of the recorded C11 findings (run first in every sec run):
// a requirement naming two schemes, an anonymous alternative {}, and schemes of kinds goag
// does not implement (oauth2, http basic, apiKey in cookie).
func kfSecSpec(name string, variant int) routeSpec {
	ss := map[string]any{
		"jwt":    map[string]any{"type": "http", "scheme": "bearer"},
		"hkey":   map[string]any{"type": "apiKey", "in": "header", "name": "X-Key"},
		"qkey":   map[string]any{"type": "apiKey", "in": "query", "name": "key"},
		"oauth":  map[string]any{"type": "oauth2", "flows": map[string]any{"implicit": map[string]any{"authorizationUrl": "https://e.example/auth", "scopes": map[string]any{"r": "read"}}}},
		"basic":  map[string]any{"type": "http", "scheme": "basic"},
		"cookie": map[string]any{"type": "apiKey", "in": "cookie", "name": "sid"},
	}
	resp := map[string]any{"default": map[string]any{"description": "d"}}
	op := func(sec []any) map[string]any {
		o := map[string]any{"responses": resp}
		if sec != nil {
			o["security"] = sec
		}
		return o
	}
	req := func(names ...string) map[string]any {
		m := map[string]any{}
		for _, n := range names {
			m[n] = []any{}
		}
		return m
	}
	paths := map[string]any{
		"/and":    map[string]any{"get": op([]any{req("hkey", "jwt")}), "post": op([]any{req("hkey", "qkey")})},
		"/anon":   map[string]any{"get": op([]any{req(), req("jwt")})},
		"/oauth":  map[string]any{"get": op([]any{req("oauth")}), "put": op([]any{req("oauth"), req("hkey")})},
		"/basic":  map[string]any{"get": op([]any{req("basic")}), "delete": op([]any{req("cookie")})},
		"/plain":  map[string]any{"get": op(nil), "post": op([]any{}), "put": op([]any{req("jwt")}), "delete": op([]any{req("hkey")})},
		"/c/{v1}": map[string]any{"get": map[string]any{"responses": resp, "parameters": []any{map[string]any{"in": "path", "name": "v1", "required": true, "schema": map[string]any{"type": "string"}}}, "security": []any{req("qkey"), req("jwt")}}},
	}
	doc := map[string]any{
		"openapi": "3.0.3", "info": map[string]any{"title": "t", "version": "1"},
		"components": map[string]any{"securitySchemes": ss},
		"paths":      paths,
	}
	if variant%2 == 0 {
		doc["security"] = []any{req("jwt")}
	}
	bs, _ := json.Marshal(doc)
	var tpls []string
	for t := range paths {
		tpls = append(tpls, t)
	}
	sort.Strings(tpls)
	return routeSpec{
		Gen: GenSpec{Name: name, Spec: bs, Ext: "json", Cors: variant%3 == 0, DoNotEdit: true}, Templates: tpls, SpecName: "openapi.json",
		Schemes: map[string]schemeDef{"jwt": {Kind: "bearer"}, "hkey": {Kind: "header", Name: "X-Key"}, "qkey": {Kind: "query", Name: "key"}},
		HasSec:  true, Params: map[string][]paramDef{},
	}
}
