package main

// Facet F-resp / F-client (C02 C09 C10): operations with parameter sets, request bodies and
// response sets (numbered statuses, default, inline / shared component / alias chains,
// headers, JSON / raw / empty bodies), generated with --client. Observations:
//   - go/types: the implementers of every <Op>Response interface (whole program, not sampled)
//   - respinfo: what writing each constructible response emits
//   - clientcall: client -> server -> client round trip with seeded values
//   - clientstatus: what the client makes of documented and undocumented status codes

import (
	"bufio"
	"encoding/json"
	"flag"
	"fmt"
	"go/types"
	"os"
	"path/filepath"
	"sort"
	"strings"

	"golang.org/x/tools/go/packages"
	"verif/rt"
)

func init() { facets["respf"] = facetResp }

// the parameter types of the client round trips: every type of the routing corpus except the
// date-time with a declared Go layout (RFC1123 carries no fractional seconds, so a time.Time a
// caller can put into the request struct is not, in general, what that layout can transmit)
var qhTypesClient = qhTypes[:len(qhTypes)-1]

type respDef struct {
	Status  string // "200" | "default"
	Ref     string // component response name ("" = inline)
	CT      string // "" | application/json | text/plain ...
	Headers []string
	Body    string // none | json | raw
}

type respOp struct {
	Method, Path string
	Responses    []respDef
	HasParams    bool
	Body         string // "" | json | raw
	BodySchema   string // component schema of a JSON request body
}

type respSpec struct {
	Gen GenSpec
	Ops []respOp
	// component response name -> resolved definition (aliases resolved)
	Comps map[string]respDef
	// the spec uses one shared response as default and numbered: the generator must report an error
	MustReject bool
	Base       string
}

func genRespSpec(rng *PRNG, name string) respSpec {
	rs := respSpec{Comps: map[string]respDef{}}
	schemas := map[string]any{
		"Pet":   map[string]any{"type": "object", "required": []any{"id", "name"}, "properties": map[string]any{"id": map[string]any{"type": "integer", "format": "int64"}, "name": map[string]any{"type": "string"}, "tag": map[string]any{"type": "string"}, "born": map[string]any{"type": "string", "format": "date-time"}, "score": map[string]any{"type": "number"}}},
		"Error": map[string]any{"type": "object", "required": []any{"message"}, "properties": map[string]any{"message": map[string]any{"type": "string"}, "code": map[string]any{"type": "integer"}}, "additionalProperties": true},
		"Pets":  map[string]any{"type": "array", "items": map[string]any{"$ref": "#/components/schemas/Pet"}},
		// a composition that keeps its members' keys apart from its own additional ones
		"Tagged": map[string]any{"allOf": []any{map[string]any{"$ref": "#/components/schemas/Pet"},
			map[string]any{"type": "object", "properties": map[string]any{"owner": map[string]any{"type": "string"}}, "additionalProperties": map[string]any{"type": "string"}}}},
	}
	// a map whose values may be null: the entries are written from map values, which are not addressable
	schemas["Counts"] = map[string]any{"type": "object", "required": []any{"name"}, "properties": map[string]any{"name": map[string]any{"type": "string"}}, "additionalProperties": map[string]any{"type": "integer", "nullable": true}}
	// discriminated unions as request and response bodies. Naming convention shared with the value
	// filler (rt.fill): a variant called <T>M<n> is selected by <T>M<n> itself and by the n mapping keys
	// k1<T>M<n> .. kn<T>M<n>; a variant without the suffix only by its own name. UnionA: two keys
	// for one member; UnionB: fewer mapping entries than members, the mapped member first.
	variant := func(extra string, t map[string]any) map[string]any {
		return map[string]any{"type": "object", "required": []any{"kind", extra}, "properties": map[string]any{"kind": map[string]any{"type": "string"}, extra: t}}
	}
	schemas["UCatM2"] = variant("lives", map[string]any{"type": "integer"})
	schemas["UDog"] = variant("bark", map[string]any{"type": "string"})
	schemas["UAntM1"] = variant("legs", map[string]any{"type": "integer"})
	schemas["UBee"] = variant("hive", map[string]any{"type": "string"})
	schemas["UCow"] = variant("milk", map[string]any{"type": "boolean"})
	uref := func(n string) map[string]any { return map[string]any{"$ref": "#/components/schemas/" + n} }
	schemas["UnionA"] = map[string]any{"oneOf": []any{uref("UCatM2"), uref("UDog")}, "discriminator": map[string]any{"propertyName": "kind",
		"mapping": map[string]any{"k1UCatM2": "#/components/schemas/UCatM2", "k2UCatM2": "#/components/schemas/UCatM2"}}}
	schemas["UnionB"] = map[string]any{"oneOf": []any{uref("UAntM1"), uref("UBee"), uref("UCow")}, "discriminator": map[string]any{"propertyName": "kind",
		"mapping": map[string]any{"k1UAntM1": "#/components/schemas/UAntM1"}}}
	hdrTypes := []map[string]any{{"type": "string"}, {"type": "integer"}, {"type": "boolean"}, {"type": "integer", "format": "int64"}, {"type": "number"}, {"type": "string", "format": "date-time"},
		{"type": "array", "items": map[string]any{"type": "integer"}}, {"type": "array", "items": map[string]any{"type": "string"}}}
	hdrNames := []string{"X-Next", "x-total", "X-Rate-Limit", "ETag", "x-flag", "Retry-After"}
	compHeaders := map[string]any{}
	mkHeaders := func() (map[string]any, []string) {
		n := rng.Intn(3)
		hs := map[string]any{}
		var names []string
		for i := 0; i < n; i++ {
			hn := Pick(rng, hdrNames)
			if _, ok := hs[hn]; ok {
				continue
			}
			h := map[string]any{"schema": Pick(rng, hdrTypes)}
			if rng.Bool() {
				h["required"] = true
			}
			if rng.Chance(1, 5) {
				// a deprecated header is still a declared header
				h["deprecated"] = true
			}
			if sch, _ := h["schema"].(map[string]any); rng.Chance(1, 3) && sch["type"] != "array" {
				// a shared header (goag refuses array-typed component headers with an error): the
				// response's own key names it on the wire, not the component's
				cn := fmt.Sprintf("Shared%dHdr", len(compHeaders))
				compHeaders[cn] = h
				hs[hn] = map[string]any{"$ref": "#/components/headers/" + cn}
			} else {
				hs[hn] = h
			}
			names = append(names, hn)
		}
		sort.Strings(names)
		return hs, names
	}
	mkBody := func() (map[string]any, string, string) {
		switch rng.Intn(8) {
		case 0:
			return nil, "", "none"
		case 7:
			return map[string]any{"application/json": map[string]any{"schema": map[string]any{"$ref": "#/components/schemas/" + Pick(rng, []string{"UnionA", "UnionB"})}}}, "application/json", "json"
		case 6:
			return map[string]any{"application/json": map[string]any{"schema": map[string]any{"$ref": "#/components/schemas/Counts"}}}, "application/json", "json"
		case 1:
			// the documented media type is what has to be sent, parameters and letter case included
			mt := Pick(rng, []string{"text/plain", "text/plain; charset=utf-8", "text/CSV; header=present", "application/vnd.acme.v2+xml", "application/problem+json"})
			return map[string]any{mt: map[string]any{"schema": map[string]any{"type": "string"}}}, mt, "raw"
		case 2:
			return map[string]any{"application/json": map[string]any{"schema": map[string]any{"$ref": "#/components/schemas/Pets"}}}, "application/json", "json"
		case 3:
			// JSON next to other media types: the JSON flavour is generated and labelled application/json
			c3 := map[string]any{"application/json": map[string]any{"schema": map[string]any{"$ref": "#/components/schemas/Error"}},
				"text/csv": map[string]any{"schema": map[string]any{"type": "string"}}, "application/xml": map[string]any{"schema": map[string]any{"type": "string"}}}
			if rng.Bool() {
				// the same JSON flavour listed a second time with a parameter: still one response type
				c3["application/json; charset=utf-8"] = map[string]any{"schema": map[string]any{"$ref": "#/components/schemas/Error"}}
			}
			return c3, "application/json", "json"
		default:
			return map[string]any{"application/json": map[string]any{"schema": map[string]any{"$ref": "#/components/schemas/Pet"}}}, "application/json", "json"
		}
	}
	mkResponse := func() (map[string]any, respDef) {
		r := map[string]any{"description": "d"}
		var d respDef
		if hs, names := mkHeaders(); len(hs) > 0 {
			r["headers"] = hs
			d.Headers = names
		}
		c, ct, bk := mkBody()
		if c != nil {
			r["content"] = c
		}
		d.CT, d.Body = ct, bk
		return r, d
	}
	// shared component responses and aliases
	compResponses := map[string]any{}
	var compNames []string
	for i := 0; i < 2+rng.Intn(2); i++ {
		n := fmt.Sprintf("Shared%c", 'A'+i)
		r, d := mkResponse()
		compResponses[n] = r
		rs.Comps[n] = d
		compNames = append(compNames, n)
	}
	for i := 0; i < rng.Intn(3); i++ {
		n := fmt.Sprintf("Alias%c", 'A'+i)
		target := Pick(rng, compNames)
		compResponses[n] = map[string]any{"$ref": "#/components/responses/" + target}
		rs.Comps[n] = rs.Comps[target]
		compNames = append(compNames, n)
	}
	// a component is used either only as default or only under numbered statuses
	usedAsDefault := map[string]bool{}
	usedNumbered := map[string]bool{}
	resolveRoot := func(n string) string {
		for {
			m, ok := compResponses[n].(map[string]any)
			if !ok {
				return n
			}
			ref, ok := m["$ref"].(string)
			if !ok {
				return n
			}
			n = strings.TrimPrefix(ref, "#/components/responses/")
		}
	}
	paths := map[string]any{}
	nops := 3 + rng.Intn(3)
	tplPool := []string{"/pets", "/pets/{id}", "/shops/{shop}/pets/{id}", "/status", "/shops/{shop}", "/", "/files/{name}/raw", "/shops/mine/summary", "/shops/{shop}/pets", "/pets/", "/shops/{shop}/"}
	usedT := map[string]bool{}
	for i := 0; i < nops; i++ {
		tpl := Pick(rng, tplPool)
		method := Pick(rng, []string{"get", "post", "put", "delete"})
		if usedT[tpl+method] {
			continue
		}
		usedT[tpl+method] = true
		op := map[string]any{}
		var params []any
		for _, seg := range strings.Split(tpl, "/") {
			if strings.HasPrefix(seg, "{") {
				params = append(params, map[string]any{"in": "path", "name": seg[1 : len(seg)-1], "required": true, "schema": Pick(rng, []map[string]any{{"type": "string"}, {"type": "integer"}, {"type": "integer", "format": "int32"}, {"type": "boolean"}, {"type": "number"}, {"type": "string", "format": "date-time"}})})
			}
		}
		for _, qn := range []string{"q", "limit", "tags", "since", "ratio", "flag"} {
			if !rng.Chance(1, 3) {
				continue
			}
			t := Pick(rng, qhTypesClient)
			var schema any = t.schema
			if rng.Chance(1, 4) {
				schema = map[string]any{"type": "array", "items": t.schema}
			}
			p := map[string]any{"in": "query", "name": qn, "schema": schema}
			if rng.Bool() {
				p["required"] = true
			}
			params = append(params, p)
		}
		for _, hn := range []string{"X-Request-Id", "x-trace", "If-Flag"} {
			if !rng.Chance(1, 4) {
				continue
			}
			p := map[string]any{"in": "header", "name": hn, "schema": Pick(rng, qhTypesClient).schema}
			if rng.Bool() {
				p["required"] = true
			}
			params = append(params, p)
		}
		if len(params) > 0 {
			op["parameters"] = params
		}
		bodySchema := ""
		if method != "get" && method != "delete" && rng.Chance(2, 3) {
			if rng.Chance(1, 4) {
				op["requestBody"] = map[string]any{"content": map[string]any{"application/octet-stream": map[string]any{"schema": map[string]any{"type": "string", "format": "binary"}}}}
			} else {
				bodySchema = Pick(rng, []string{"Pet", "Error", "Pets", "Tagged", "Counts", "UnionA", "UnionB"})
				content := map[string]any{"application/json": map[string]any{"schema": map[string]any{"$ref": "#/components/schemas/" + bodySchema}}}
				if rng.Chance(1, 3) {
					// JSON next to media types that sort before and after it: the JSON flavour is what the
					// client sends, and it has to say so
					content["application/cbor"] = map[string]any{"schema": map[string]any{"type": "string", "format": "binary"}}
					content["text/plain"] = map[string]any{"schema": map[string]any{"type": "string"}}
				}
				op["requestBody"] = map[string]any{"content": content}
			}
		}
		responses := map[string]any{}
		ro := respOp{Method: strings.ToUpper(method), Path: tpl, HasParams: len(params) > 0, BodySchema: bodySchema}
		if rb, ok := op["requestBody"].(map[string]any); ok {
			ro.Body = "raw"
			if _, isJSON := rb["content"].(map[string]any)["application/json"]; isJSON {
				ro.Body = "json"
			}
		}
		statuses := []string{"200", "201", "204", "400", "404", "default"}
		usedInOp := map[string]bool{}
		for _, st := range statuses {
			if !rng.Chance(2, 5) && !(st == "200" && len(responses) == 0) {
				continue
			}
			if rng.Chance(1, 3) {
				cn := Pick(rng, compNames)
				root := resolveRoot(cn)
				okUse := !usedInOp[root]
				if st == "default" && usedNumbered[root] {
					okUse = false
				}
				if st != "default" && usedAsDefault[root] {
					okUse = false
				}
				if okUse {
					usedInOp[root] = true
					if st == "default" {
						usedAsDefault[root] = true
					} else {
						usedNumbered[root] = true
					}
					responses[st] = map[string]any{"$ref": "#/components/responses/" + cn}
					d := rs.Comps[cn]
					d.Status, d.Ref = st, cn
					ro.Responses = append(ro.Responses, d)
					continue
				}
			}
			r, d := mkResponse()
			responses[st] = r
			d.Status = st
			ro.Responses = append(ro.Responses, d)
		}
		op["responses"] = responses
		pi, _ := paths[tpl].(map[string]any)
		if pi == nil {
			pi = map[string]any{}
			paths[tpl] = pi
			if rng.Chance(1, 3) {
				// parameters shared by the operations of the path; an operation that declares one of
				// them again (same name and location) replaces it for itself
				pi["parameters"] = []any{map[string]any{"in": "query", "name": "limit", "schema": map[string]any{"type": "string"}},
					map[string]any{"in": "header", "name": "x-trace", "schema": map[string]any{"type": "string"}},
					map[string]any{"in": "query", "name": "flag", "required": true, "schema": map[string]any{"type": "string"}}}
			}
		}
		pi[method] = op
		rs.Ops = append(rs.Ops, ro)
	}
	if rng.Bool() {
		// a second operation on the SAME path that documents the same shared response under the same
		// status: both operations must be able to return it (the usage list of a shared response is
		// per operation, not per path and status)
		for _, o := range rs.Ops {
			var use *respDef
			for i := range o.Responses {
				if o.Responses[i].Ref != "" {
					use = &o.Responses[i]
					break
				}
			}
			if use == nil {
				continue
			}
			pi := paths[o.Path].(map[string]any)
			m2 := ""
			for _, m := range []string{"get", "post", "put", "delete"} {
				if _, taken := pi[m]; !taken {
					m2 = m
					break
				}
			}
			if m2 == "" {
				continue
			}
			orig, _ := pi[strings.ToLower(o.Method)].(map[string]any)
			twin := map[string]any{"responses": map[string]any{use.Status: map[string]any{"$ref": "#/components/responses/" + use.Ref}}}
			var pps []any
			if ps, ok := orig["parameters"].([]any); ok {
				for _, p := range ps {
					if pm, ok := p.(map[string]any); ok && pm["in"] == "path" {
						pps = append(pps, p)
					}
				}
			}
			if len(pps) > 0 {
				twin["parameters"] = pps
			}
			pi[m2] = twin
			rs.Ops = append(rs.Ops, respOp{Method: strings.ToUpper(m2), Path: o.Path, Responses: []respDef{*use}, HasParams: len(pps) > 0})
			break
		}
	}
	if rng.Chance(1, 16) {
		// goag must refuse this too: ONE operation uses one shared response twice, once by its own
		// name and once through an alias (two numbered statuses)
		var alias string
		for _, n := range compNames {
			if strings.HasPrefix(n, "Alias") {
				alias = n
			}
		}
		if alias != "" {
			root := resolveRoot(alias)
			o := rs.Ops[0]
			po := paths[o.Path].(map[string]any)[strings.ToLower(o.Method)].(map[string]any)["responses"].(map[string]any)
			for st, r := range po {
				if rr, ok := r.(map[string]any); ok {
					if ref, ok := rr["$ref"].(string); ok && resolveRoot(strings.TrimPrefix(ref, "#/components/responses/")) == root {
						delete(po, st)
					}
				}
			}
			if !usedAsDefault[root] {
				po["409"] = map[string]any{"$ref": "#/components/responses/" + root}
				po["410"] = map[string]any{"$ref": "#/components/responses/" + alias}
				rs.MustReject = true
			}
		}
	}
	if !rs.MustReject && rng.Chance(1, 12) && len(rs.Ops) >= 2 {
		// goag must refuse this: one shared response as 'default' in one operation and under a
		// numbered status in another (either visiting order)
		cn := compNames[0]
		a, b := rs.Ops[0], rs.Ops[len(rs.Ops)-1]
		if rng.Bool() {
			a, b = b, a
		}
		if a.Method != b.Method || a.Path != b.Path {
			pa := paths[a.Path].(map[string]any)[strings.ToLower(a.Method)].(map[string]any)["responses"].(map[string]any)
			pb := paths[b.Path].(map[string]any)[strings.ToLower(b.Method)].(map[string]any)["responses"].(map[string]any)
			// remove other uses of this component's root in the two operations, then add the clash
			for _, m := range []map[string]any{pa, pb} {
				for st, r := range m {
					if rr, ok := r.(map[string]any); ok {
						if ref, ok := rr["$ref"].(string); ok && resolveRoot(strings.TrimPrefix(ref, "#/components/responses/")) == resolveRoot(cn) {
							delete(m, st)
						}
					}
				}
			}
			pa["default"] = map[string]any{"$ref": "#/components/responses/" + cn}
			pb["409"] = map[string]any{"$ref": "#/components/responses/" + cn}
			rs.MustReject = true
		}
	}
	doc := map[string]any{"openapi": "3.0.3", "info": map[string]any{"title": "t", "version": "1"}, "paths": paths,
		"components": map[string]any{"schemas": schemas, "responses": compResponses, "headers": compHeaders}}
	if rng.Chance(1, 3) {
		doc["servers"] = []any{map[string]any{"url": "/api/v1"}}
		rs.Base = "/api/v1"
	}
	bs, _ := json.Marshal(doc)
	rs.Gen = GenSpec{Name: name, Spec: bs, Ext: "json", Client: true, DoNotEdit: true}
	if !rs.MustReject && rng.Chance(1, 5) {
		// a later revision of the spec, generated over the package of the earlier one: everything is
		// written in place now and there are no components left. What the earlier revision shared must
		// not survive in the package (its response types would still satisfy the response interfaces).
		prior := rs.Gen
		prior.Name = ""
		prior.DoNotEdit = rng.Bool()
		rs.Gen.Prior = &prior
		var d map[string]any
		json.Unmarshal(inlinedSpec(bs, false), &d)
		delete(d, "components")
		// (only the bare form: a fully inlined copy with two anonymous list-of-object bodies is an
		// instance of KF-C01-nameCollision, helper type `Item` hoisted twice, not a matter of this check)
		bare := true
		rng.Bool()
		if bare {
			// ... and nothing is left that would need a components file at all: the same operations and
			// statuses, every response without headers and body, no JSON request bodies
			for _, pi := range d["paths"].(map[string]any) {
				for m, o := range pi.(map[string]any) {
					op, ok := o.(map[string]any)
					if !ok || m == "parameters" {
						continue
					}
					if rb, ok := op["requestBody"].(map[string]any); ok {
						if _, isJSON := rb["content"].(map[string]any)["application/json"]; isJSON {
							delete(op, "requestBody")
						}
					}
					for st := range op["responses"].(map[string]any) {
						op["responses"].(map[string]any)[st] = map[string]any{"description": "d"}
					}
				}
			}
		}
		rs.Gen.Spec, _ = json.Marshal(d)
		for i := range rs.Ops {
			if bare && rs.Ops[i].Body == "json" {
				rs.Ops[i].Body, rs.Ops[i].BodySchema = "", ""
			}
			for j := range rs.Ops[i].Responses {
				rs.Ops[i].Responses[j].Ref = ""
				if bare {
					rs.Ops[i].Responses[j] = respDef{Status: rs.Ops[i].Responses[j].Status, Body: "none"}
				}
			}
		}
	}
	return rs
}

// implementersOf loads the generated packages with go/types and lists, for every interface
// named <X>Response, the named types of the package that implement it.
func implementersOf(work string, names []string) (map[string]map[string][]string, error) {
	var patterns []string
	for _, n := range names {
		patterns = append(patterns, "verifscratch/mod/"+n)
	}
	cfg := &packages.Config{Mode: packages.NeedName | packages.NeedTypes | packages.NeedTypesInfo | packages.NeedSyntax | packages.NeedImports, Dir: work,
		Env: goEnv()}
	pkgs, err := packages.Load(cfg, patterns...)
	if err != nil {
		return nil, err
	}
	out := map[string]map[string][]string{}
	for _, p := range pkgs {
		res := map[string][]string{}
		scope := p.Types.Scope()
		for _, in := range scope.Names() {
			tn, ok := scope.Lookup(in).(*types.TypeName)
			if !ok || tn.IsAlias() {
				continue
			}
			iface, ok := tn.Type().Underlying().(*types.Interface)
			if !ok || !strings.HasSuffix(in, "Response") || iface.NumMethods() == 0 {
				continue
			}
			var impls []string
			for _, tn2n := range scope.Names() {
				t2, ok := scope.Lookup(tn2n).(*types.TypeName)
				if !ok || t2.IsAlias() {
					continue
				}
				if _, isIface := t2.Type().Underlying().(*types.Interface); isIface {
					continue
				}
				if named, ok := t2.Type().(*types.Named); ok && named.TypeParams().Len() > 0 {
					continue
				}
				if types.Implements(t2.Type(), iface) || types.Implements(types.NewPointer(t2.Type()), iface) {
					impls = append(impls, tn2n)
				}
			}
			sort.Strings(impls)
			res[in] = impls
		}
		parts := strings.Split(p.PkgPath, "/")
		out[parts[len(parts)-1]] = res
	}
	return out, nil
}

func facetResp(args []string) error {
	fs := flag.NewFlagSet("respf", flag.ExitOnError)
	seed := fs.Uint64("seed", 1, "seed")
	tier := fs.String("tier", "quick", "quick|thorough")
	out := fs.String("out", "", "output dir")
	work := fs.String("work", "", "scratch dir")
	shard := fs.Int("shard", 0, "shard index")
	fs.Int("nshards", 1, "number of shards")
	fs.Parse(args)
	rng := NewPRNG(*seed*40503 + uint64(*shard)*131 + 7)
	n, ncalls := 6, 30
	if *tier == "thorough" {
		n, ncalls = 30, 100
	}
	var specs []respSpec
	var results []GenResult
	for i := 0; i < n; i++ {
		name := fmt.Sprintf("r%02d_%03d", *shard, i)
		rs := genRespSpec(rng.Fork(), name)
		specs = append(specs, rs)
		results = append(results, runGoag(*work, rs.Gen))
	}
	bin, err := buildBatch(*work, results)
	if err != nil {
		return err
	}
	var okNames []string
	for _, r := range results {
		if r.Outcome == "ok" && r.Broken == "" {
			okNames = append(okNames, r.Name)
		}
	}
	impls, ierr := implementersOf(*work, okNames)
	gf, _ := os.Create(filepath.Join(*out, "gen.tsv"))
	df, _ := os.Create(filepath.Join(*out, "documented.tsv"))
	cf, _ := os.Create(filepath.Join(*out, "cases.tsv"))
	cw := bufio.NewWriter(cf)
	var cases []rt.Case
	type wireRef struct{ spec, op int }
	wireOf := map[string]wireRef{}
	stats := map[string]int{}
	for i, rs := range specs {
		r := results[i]
		prior := ""
		if rs.Gen.Prior != nil {
			pb, _ := json.Marshal(map[string]any{"spec": string(rs.Gen.Prior.Spec), "donotedit": rs.Gen.Prior.DoNotEdit, "client": rs.Gen.Prior.Client})
			prior = hexs(string(pb))
		}
		fmt.Fprintf(gf, "%s\t%s\t%s\t%s\t%s\t%s\n", r.Name, r.Outcome, hexs(firstLine(r.Detail)), hexs(brokenOrFmt(r)), hexs(string(rs.Gen.Spec)), prior)
		// the model must agree with the generator on whether the spec is accepted at all
		fmt.Fprintf(cw, "respspec\t%s\t%s\n", r.Name, r.SpecPath)
		if rs.MustReject {
			stats["must_reject_specs"]++
		}
		if r.Outcome != "ok" || r.Broken != "" {
			stats["spec_not_driven"]++
			continue
		}
		stats["specs"]++
		crng := rng.Fork()
		for k, op := range rs.Ops {
			fmt.Fprintf(cw, "respinfo\t%s#i%d\t%s\t%s\n", r.Name, k, op.Method, hexs(op.Path))
			db, _ := json.Marshal(op.Responses)
			ib := "?"
			if ierr == nil {
				jb, _ := json.Marshal(impls[r.Name])
				ib = string(jb)
			}
			fmt.Fprintf(df, "%s#i%d\t%s\t%s\t%s\t%s\n", r.Name, k, op.Method, op.Path, hexs(string(db)), hexs(ib))
			a, _ := json.Marshal(map[string]any{"method": op.Method, "path": op.Path, "seed": crng.Next() % 1000000})
			cases = append(cases, rt.Case{Op: "respinfo", Pkg: r.Name, ID: fmt.Sprintf("%s#i%d", r.Name, k), Args: a})
			for j := 0; j < ncalls; j++ {
				a, _ := json.Marshal(map[string]any{"method": op.Method, "path": op.Path, "seed": crng.Next() % 100000000, "resp": j, "status": []int{299, 418, 500, 302, 202}[j%5], "net": j%6 == 5})
				cases = append(cases, rt.Case{Op: "clientcall", Pkg: r.Name, ID: fmt.Sprintf("%s#c%d.%d", r.Name, k, j), Args: a})
				wireOf[fmt.Sprintf("%s#c%d.%d", r.Name, k, j)] = wireRef{i, k}
			}
			if op.Body != "" {
				// raw requests with a body straight into ServeHTTP (C14): valid / invalid / empty / huge
				// documents, with a declared and with an unknown (-1, chunked) content length
				segs := strings.Split(op.Path, "/")
				for x, sg := range segs {
					if strings.HasPrefix(sg, "{") {
						segs[x] = "1"
					}
				}
				bodies := []string{`{"id":1,"name":"rex"}`, `{"message":"m"}`, `[{"id":1,"name":"a"}]`, `{"id":`, ``, `null`, `[]`, `"s"`, `{"id":"x","name":7}`, strings.Repeat("[", 2000)}
				for bi, b := range bodies {
					for ci, cl := range []int64{int64(len(b)), -1} {
						b, cl := b, cl
						cases = append(cases, rt.Case{Op: "serve", Pkg: r.Name, ID: fmt.Sprintf("%s#b%d.%d.%d", r.Name, k, bi, ci), Method: op.Method,
							Path: rs.Base + strings.Join(segs, "/"), Body: &b, CL: &cl, Mws: 1, Headers: [][2]string{{"Content-Type", "application/json"}}})
					}
				}
			}
			{
				// a handler that returns NaN where the schema says number (C14): encoding/json refuses
				// the body; the API has to answer exactly once all the same
				segs := strings.Split(op.Path, "/")
				for x, sg := range segs {
					if strings.HasPrefix(sg, "{") {
						segs[x] = "1"
					}
				}
				for ri := 0; ri < 4; ri++ {
					cases = append(cases, rt.Case{Op: "serve", Pkg: r.Name, ID: fmt.Sprintf("%s#bn%d.%d", r.Name, k, ri), Method: op.Method,
						Path: rs.Base + strings.Join(segs, "/"), Mws: 1, NaN: true, Resp: ri, NoParse: true})
				}
			}
			for _, st := range []int{200, 201, 202, 204, 299, 301, 400, 404, 418, 500, 503} {
				a, _ := json.Marshal(map[string]any{"method": op.Method, "path": op.Path, "seed": 5, "status": st})
				cases = append(cases, rt.Case{Op: "clientstatus", Pkg: r.Name, ID: fmt.Sprintf("%s#s%d.%d", r.Name, k, st), Args: a})
				fmt.Fprintf(cw, "clientstatus\t%s#s%d.%d\t%s\t%s\t%d\n", r.Name, k, st, op.Method, hexs(op.Path), st)
			}
		}
	}
	gf.Close()
	df.Close()
	cw.Flush()
	cf.Close()
	obs, rerr := runBatch(bin, cases)
	// the recorded wire requests under an OpenAPI request validator that is not goag's (C09)
	vf, _ := os.Create(filepath.Join(*out, "valid.tsv"))
	vw := bufio.NewWriterSize(vf, 1<<20)
	validators := map[int]*wireValidator{}
	for _, c := range cases {
		wi, ok := wireOf[c.ID]
		if !ok {
			continue
		}
		o := obs[c.ID]
		a := strings.Index(o, " wire=")
		b := strings.Index(o, " respsent=")
		if a < 0 || b < a {
			continue
		}
		v := validators[wi.spec]
		if v == nil {
			v = newWireValidator(specs[wi.spec].Gen.Spec)
			validators[wi.spec] = v
		}
		op := specs[wi.spec].Ops[wi.op]
		// Tagged: an allOf member with its own additionalProperties schema; goag reads the members as
		// one merged object, JSON Schema judges every member against the whole object (no value
		// satisfies both readings), so the body is left out there
		fmt.Fprintf(vw, "%s\t%s\n", c.ID, v.validate(specs[wi.spec].Base, op.Method, op.Path, o[a+6:b], op.BodySchema == "Tagged" || strings.HasPrefix(op.BodySchema, "Union")))
	}
	vw.Flush()
	vf.Close()
	of, _ := os.Create(filepath.Join(*out, "impl.tsv"))
	ow := bufio.NewWriterSize(of, 1<<20)
	for _, c := range cases {
		o, ok := obs[c.ID]
		if !ok {
			o = "MISSING"
		}
		fmt.Fprintf(ow, "%s\t%s\n", c.ID, o)
	}
	ow.Flush()
	of.Close()
	stats["cases"] = len(cases)
	if ierr != nil {
		stats["implementers_unavailable"] = 1
	}
	meta, _ := json.Marshal(map[string]any{"stats": stats})
	os.WriteFile(filepath.Join(*out, "meta.json"), meta, 0o644)
	return rerr
}
