package main

// Facet names (C01 tie of the identifier model): generator.PublicFieldName / Title /
// PrivateFieldName on every string of length <= 5 over {a,I,d,s,1,-,_,.}, the names that occur
// in the fixture specs, and seeded random ASCII names.

import (
	"bufio"
	"flag"
	"fmt"
	"os"
	"path/filepath"
	"regexp"
	"sort"

	"github.com/vkd/goag/generator"
)

func init() { facets["names"] = facetNames }

func facetNames(args []string) error {
	fs := flag.NewFlagSet("names", flag.ExitOnError)
	seed := fs.Uint64("seed", 1, "seed")
	tier := fs.String("tier", "quick", "")
	out := fs.String("out", "", "output dir")
	fs.String("work", "", "")
	shard := fs.Int("shard", 0, "")
	nshards := fs.Int("nshards", 1, "")
	fs.Parse(args)
	rng := NewPRNG(*seed + 77)
	alpha := []string{"a", "I", "d", "s", "1", "-", "_", "."}
	var names []string
	var gen func(p string, n int)
	gen = func(p string, n int) {
		names = append(names, p)
		if n == 0 {
			return
		}
		for _, a := range alpha {
			gen(p+a, n-1)
		}
	}
	maxLen := 5
	if *tier == "thorough" {
		maxLen = 6
	}
	gen("", maxLen)
	fixtures, _ := filepath.Glob("/repo/tests/*/openapi.yaml")
	re := regexp.MustCompile(`[A-Za-z0-9_.\-]{2,30}`)
	seen := map[string]bool{}
	for _, f := range fixtures {
		bs, _ := os.ReadFile(f)
		for _, m := range re.FindAllString(string(bs), -1) {
			if !seen[m] {
				seen[m] = true
				names = append(names, m)
			}
		}
	}
	pool := []string{"a", "b", "z", "A", "Z", "Id", "id", "ids", "uuid", "1", "9", "-", "_", ".", "x", "Q"}
	for i := 0; i < 20000; i++ {
		n := 1 + rng.Intn(12)
		s := ""
		for j := 0; j < n; j++ {
			s += Pick(rng, pool)
		}
		names = append(names, s)
	}
	sort.Strings(names)
	cf, _ := os.Create(filepath.Join(*out, "cases.tsv"))
	of, _ := os.Create(filepath.Join(*out, "impl.tsv"))
	cw, ow := bufio.NewWriter(cf), bufio.NewWriter(of)
	func() {
		goagMu.Lock()
		defer goagMu.Unlock()
		for i, n := range names {
			if i%*nshards != *shard {
				continue
			}
			id := fmt.Sprintf("n%07d", i)
			fmt.Fprintf(cw, "names\t%s\t%s\n", id, hexs(n))
			pub := generator.PublicFieldName(n)
			fmt.Fprintf(ow, "%s\t%s\t%s\t%s\t%s\n", id, hexs(n), hexs(pub), hexs(generator.Title(n)), hexs(generator.PrivateFieldName(pub)))
		}
	}()
	cw.Flush()
	ow.Flush()
	cf.Close()
	of.Close()
	return nil
}
