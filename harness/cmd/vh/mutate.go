package main

// Facet F-gen/mut (C15): corpus specs under single structural faults. For every JSON
// position of a corpus document: delete the key, null the value, swap the value's JSON type;
// plus targeted faults (drop `schema`, `content` parameters, non-string server variable
// defaults, dangling / cyclic $ref, unsupported types and formats). The real generator runs
// in-process under recover; a sample also goes through the built CLI for exit status.

import (
	"bufio"
	"encoding/hex"
	"encoding/json"
	"flag"
	"fmt"
	"os"
	"os/exec"
	"path/filepath"
	"runtime/debug"
	"sort"
	"strings"
	"time"

	"github.com/ghodss/yaml"
)

func init() { facets["mutate"] = facetMutate }

type mutant struct {
	id    string
	base  string
	fault string // kind@jsonpointer
	doc   []byte
}

// walk enumerates JSON pointers of a decoded document.
func walkJSON(v any, ptr []string, f func(ptr []string, parent any, key any)) {
	switch t := v.(type) {
	case map[string]any:
		keys := make([]string, 0, len(t))
		for k := range t {
			keys = append(keys, k)
		}
		sort.Strings(keys)
		for _, k := range keys {
			f(append(ptr, k), t, k)
			walkJSON(t[k], append(ptr, k), f)
		}
	case []any:
		for i := range t {
			f(append(ptr, fmt.Sprint(i)), t, i)
			walkJSON(t[i], append(ptr, fmt.Sprint(i)), f)
		}
	}
}

func deepCopy(v any) any {
	bs, _ := json.Marshal(v)
	var out any
	json.Unmarshal(bs, &out)
	return out
}

func getAt(root any, ptr []string) (parent any, key any, ok bool) {
	cur := root
	for i, p := range ptr {
		last := i == len(ptr)-1
		switch t := cur.(type) {
		case map[string]any:
			if last {
				_, ok := t[p]
				return t, p, ok
			}
			cur = t[p]
		case []any:
			var idx int
			fmt.Sscan(p, &idx)
			if idx < 0 || idx >= len(t) {
				return nil, nil, false
			}
			if last {
				return t, idx, true
			}
			cur = t[idx]
		default:
			return nil, nil, false
		}
	}
	return nil, nil, false
}

func swapType(v any) any {
	switch v.(type) {
	case string:
		return 7.0
	case float64:
		return "seven"
	case bool:
		return "true"
	case map[string]any:
		return []any{"x"}
	case []any:
		return map[string]any{"x": "y"}
	case nil:
		return "null"
	}
	return nil
}

func mutantsOf(base string, doc any, rng *PRNG, budget int) []mutant {
	var ptrs [][]string
	walkJSON(doc, nil, func(ptr []string, _ any, _ any) { ptrs = append(ptrs, append([]string{}, ptr...)) })
	var out []mutant
	add := func(fault string, d any) {
		bs, _ := json.Marshal(d)
		out = append(out, mutant{base: base, fault: fault, doc: bs})
	}
	type job struct {
		kind string
		ptr  []string
	}
	var jobs []job
	for _, p := range ptrs {
		for _, k := range []string{"delete", "null", "swap"} {
			jobs = append(jobs, job{k, p})
		}
	}
	// budgeted, seeded selection (thorough: all)
	if budget > 0 && len(jobs) > budget {
		for i := len(jobs) - 1; i > 0; i-- {
			j := rng.Intn(i + 1)
			jobs[i], jobs[j] = jobs[j], jobs[i]
		}
		jobs = jobs[:budget]
	}
	for _, jb := range jobs {
		d := deepCopy(doc)
		parent, key, ok := getAt(d, jb.ptr)
		if !ok {
			continue
		}
		ptrS := "/" + strings.Join(jb.ptr, "/")
		switch pt := parent.(type) {
		case map[string]any:
			k := key.(string)
			switch jb.kind {
			case "delete":
				delete(pt, k)
			case "null":
				pt[k] = nil
			case "swap":
				pt[k] = swapType(pt[k])
			}
		case []any:
			i := key.(int)
			switch jb.kind {
			case "delete":
				continue // handled via parent replacement below
			case "null":
				pt[i] = nil
			case "swap":
				pt[i] = swapType(pt[i])
			}
		}
		add(jb.kind+"@"+ptrS, d)
	}
	// targeted faults
	targeted := func(name string, edit func(ptr []string, parent map[string]any, key string) bool) {
		var hits [][]string
		for _, p := range ptrs {
			// dry run on a shallow copy of the parent map: is the fault applicable here?
			parent, key, ok := getAt(doc, p)
			pm, isMap := parent.(map[string]any)
			if !ok || !isMap {
				continue
			}
			shallow := make(map[string]any, len(pm))
			for k, v := range pm {
				shallow[k] = v
			}
			if edit(p, shallow, key.(string)) {
				hits = append(hits, p)
			}
		}
		if budget > 0 && len(hits) > 4 {
			for i := len(hits) - 1; i > 0; i-- {
				j := rng.Intn(i + 1)
				hits[i], hits[j] = hits[j], hits[i]
			}
			hits = hits[:4]
		}
		for _, p := range hits {
			d := deepCopy(doc)
			parent, key, _ := getAt(d, p)
			if edit(p, parent.(map[string]any), key.(string)) {
				add(name+"@/"+strings.Join(p, "/"), d)
			}
		}
	}
	targeted("content-param", func(p []string, pm map[string]any, k string) bool {
		if k != "schema" || len(p) < 2 || p[len(p)-3%len(p)] == "" {
			return false
		}
		if _, isParam := pm["in"]; !isParam {
			return false
		}
		pm["content"] = map[string]any{"application/json": map[string]any{"schema": pm["schema"]}}
		delete(pm, "schema")
		return true
	})
	targeted("dangling-ref", func(p []string, pm map[string]any, k string) bool {
		if k != "$ref" {
			return false
		}
		pm["$ref"] = fmt.Sprint(pm["$ref"]) + "Missing"
		return true
	})
	targeted("bad-type", func(p []string, pm map[string]any, k string) bool {
		if k != "type" {
			return false
		}
		if s, ok := pm[k].(string); !ok || s == "object" || s == "array" || s == "http" || s == "apiKey" || s == "oauth2" {
			return false
		}
		pm[k] = "quaternion"
		return true
	})
	targeted("bad-format", func(p []string, pm map[string]any, k string) bool {
		if k != "type" {
			return false
		}
		if s, ok := pm[k].(string); !ok || (s != "string" && s != "integer" && s != "number") {
			return false
		}
		pm["format"] = "weird-format"
		return true
	})
	// names without any letter (every identifier derived from them is empty or blank)
	for _, degenerate := range []string{"42", "_", "-"} {
		dn := degenerate
		targeted("rename-key:"+dn, func(p []string, pm map[string]any, k string) bool {
			if len(p) < 2 {
				return false
			}
			container := p[len(p)-2]
			if container != "headers" && container != "properties" && container != "schemas" && container != "responses" {
				return false
			}
			if container == "responses" && (len(p) < 3 || p[len(p)-3] != "components") {
				return false // status codes are not names
			}
			if _, exists := pm[dn]; exists || k == dn {
				return false
			}
			pm[dn] = pm[k]
			delete(pm, k)
			return true
		})
		targeted("rename-param:"+dn, func(p []string, pm map[string]any, k string) bool {
			if k != "name" {
				return false
			}
			if _, isParam := pm["in"]; !isParam || pm["in"] == "path" {
				return false
			}
			pm["name"] = dn
			return true
		})
	}
	// a path key that does not start with a slash (the loader accepts it)
	targeted("path-no-slash", func(p []string, pm map[string]any, k string) bool {
		if len(p) != 2 || p[0] != "paths" || !strings.HasPrefix(k, "/") || len(k) < 2 {
			return false
		}
		nk := strings.ReplaceAll(k[1:], "/", "-")
		if _, exists := pm[nk]; exists {
			return false
		}
		pm[nk] = pm[k]
		delete(pm, k)
		return true
	})
	targeted("array-no-items", func(p []string, pm map[string]any, k string) bool {
		if k != "items" {
			return false
		}
		delete(pm, "items")
		return true
	})
	targeted("server-default-nonstring", func(p []string, pm map[string]any, k string) bool {
		if k != "default" || len(p) < 3 || p[len(p)-3] != "variables" {
			return false
		}
		pm["default"] = 8443.0
		return true
	})
	targeted("server-default-missing", func(p []string, pm map[string]any, k string) bool {
		if k != "default" || len(p) < 3 || p[len(p)-3] != "variables" {
			return false
		}
		delete(pm, "default")
		return true
	})
	targeted("server-default-null", func(p []string, pm map[string]any, k string) bool {
		if k != "default" || len(p) < 3 || p[len(p)-3] != "variables" {
			return false
		}
		pm["default"] = nil
		return true
	})
	targeted("server-enum-nonstring", func(p []string, pm map[string]any, k string) bool {
		if k != "default" || len(p) < 3 || p[len(p)-3] != "variables" {
			return false
		}
		pm["enum"] = []any{1.0, true}
		return true
	})
	targeted("self-ref-schema", func(p []string, pm map[string]any, k string) bool {
		if len(p) != 3 || p[0] != "components" || p[1] != "schemas" {
			return false
		}
		pm[k] = map[string]any{"type": "object", "properties": map[string]any{"self": map[string]any{"$ref": "#/components/schemas/" + k}}}
		return true
	})
	targeted("alias-cycle", func(p []string, pm map[string]any, k string) bool {
		if len(p) != 3 || p[0] != "components" || (p[1] != "schemas" && p[1] != "responses" && p[1] != "parameters") {
			return false
		}
		pm[k] = map[string]any{"$ref": "#/components/" + p[1] + "/" + k}
		return true
	})
	targeted("unknown-security", func(p []string, pm map[string]any, k string) bool {
		if k != "security" {
			return false
		}
		pm["security"] = []any{map[string]any{"noSuchScheme": []any{}}}
		return true
	})
	targeted("empty-content", func(p []string, pm map[string]any, k string) bool {
		if k != "content" {
			return false
		}
		pm["content"] = map[string]any{"application/json": map[string]any{}}
		return true
	})
	// well-formed additions (the generator must succeed or report an error, never crash):
	// forward references between components, arrays of arrays, aliases declared before targets
	inject := func(name string, edit func(root map[string]any, schemas map[string]any, paths map[string]any)) {
		d := deepCopy(doc)
		root, ok := d.(map[string]any)
		if !ok {
			return
		}
		comps, _ := root["components"].(map[string]any)
		if comps == nil {
			comps = map[string]any{}
			root["components"] = comps
		}
		schemas, _ := comps["schemas"].(map[string]any)
		if schemas == nil {
			schemas = map[string]any{}
			comps["schemas"] = schemas
		}
		paths, _ := root["paths"].(map[string]any)
		if paths == nil {
			paths = map[string]any{}
			root["paths"] = paths
		}
		edit(root, schemas, paths)
		add("inject-"+name+"@/", d)
	}
	item := map[string]any{"type": "object", "required": []any{"n"}, "properties": map[string]any{"n": map[string]any{"type": "string"}}}
	useIn := func(paths map[string]any, schema string) {
		paths["/zz-injected"] = map[string]any{"post": map[string]any{
			"requestBody": map[string]any{"content": map[string]any{"application/json": map[string]any{"schema": map[string]any{"$ref": "#/components/schemas/" + schema}}}},
			"responses":   map[string]any{"200": map[string]any{"description": "ok", "content": map[string]any{"application/json": map[string]any{"schema": map[string]any{"$ref": "#/components/schemas/" + schema}}}}}}}
	}
	inject("array-forward-ref", func(_ map[string]any, schemas, paths map[string]any) {
		schemas["AaaBasket"] = map[string]any{"type": "array", "items": map[string]any{"$ref": "#/components/schemas/ZzzOrder"}}
		schemas["ZzzOrder"] = item
		useIn(paths, "AaaBasket")
	})
	inject("array-backward-ref", func(_ map[string]any, schemas, paths map[string]any) {
		schemas["ZzzBasket"] = map[string]any{"type": "array", "items": map[string]any{"$ref": "#/components/schemas/AaaOrder"}}
		schemas["AaaOrder"] = item
		useIn(paths, "ZzzBasket")
	})
	inject("property-forward-ref", func(_ map[string]any, schemas, paths map[string]any) {
		schemas["AaaHolder"] = map[string]any{"type": "object", "properties": map[string]any{"o": map[string]any{"$ref": "#/components/schemas/ZzzOrder"}, "os": map[string]any{"type": "array", "items": map[string]any{"$ref": "#/components/schemas/ZzzOrder"}}}}
		schemas["ZzzOrder"] = item
		useIn(paths, "AaaHolder")
	})
	inject("alias-before-target", func(_ map[string]any, schemas, paths map[string]any) {
		schemas["AaaAlias"] = map[string]any{"$ref": "#/components/schemas/ZzzOrder"}
		schemas["ZzzOrder"] = item
		useIn(paths, "AaaAlias")
	})
	inject("array-of-arrays", func(_ map[string]any, schemas, paths map[string]any) {
		schemas["AaaMatrix"] = map[string]any{"type": "array", "items": map[string]any{"type": "array", "items": map[string]any{"$ref": "#/components/schemas/ZzzOrder"}}}
		schemas["ZzzOrder"] = item
		useIn(paths, "AaaMatrix")
	})
	inject("allof-forward-ref", func(_ map[string]any, schemas, paths map[string]any) {
		schemas["AaaMerged"] = map[string]any{"allOf": []any{map[string]any{"$ref": "#/components/schemas/ZzzOrder"}, map[string]any{"type": "object", "properties": map[string]any{"extra": map[string]any{"type": "integer"}}}}}
		schemas["ZzzOrder"] = item
		useIn(paths, "AaaMerged")
	})
	// references that the loader resolves but that do not name a component: into the middle of a
	// schema, into itself, as a oneOf member
	nest := map[string]any{"type": "object", "properties": map[string]any{"shelter": map[string]any{"type": "object", "properties": map[string]any{"n": map[string]any{"type": "string"}}}}}
	inject("nested-ref", func(_ map[string]any, schemas, paths map[string]any) {
		schemas["AaaNest"] = nest
		schemas["ZzzUser"] = map[string]any{"type": "object", "properties": map[string]any{"s": map[string]any{"$ref": "#/components/schemas/AaaNest/properties/shelter"}}}
		useIn(paths, "ZzzUser")
	})
	inject("nested-ref-into-itself", func(_ map[string]any, schemas, paths map[string]any) {
		schemas["AaaComment"] = map[string]any{"type": "object", "properties": map[string]any{"author": map[string]any{"type": "object", "properties": map[string]any{
			"name": map[string]any{"type": "string"}, "invitedBy": map[string]any{"$ref": "#/components/schemas/AaaComment/properties/author"}}}}}
		useIn(paths, "AaaComment")
	})
	inject("nested-ref-oneof-member", func(_ map[string]any, schemas, paths map[string]any) {
		schemas["AaaNest"] = nest
		schemas["ZzzOrder"] = item
		schemas["AaaPick"] = map[string]any{"oneOf": []any{map[string]any{"$ref": "#/components/schemas/AaaNest/properties/shelter"}, map[string]any{"$ref": "#/components/schemas/ZzzOrder"}}}
		useIn(paths, "AaaPick")
	})
	// custom Go types spelled in the forms people write them
	for i, gt := range []string{"github.com/foo/Bar", "github.com/foo/bar.Baz", "Bar", ".Bar", "foo.", "a/b.c/D", ""} {
		gt := gt
		inject(fmt.Sprintf("custom-type-%d", i), func(_ map[string]any, schemas, paths map[string]any) {
			schemas["AaaCustom"] = map[string]any{"type": "string", "x-goag-go-type": gt}
			schemas["ZzzHolder"] = map[string]any{"type": "object", "properties": map[string]any{"c": map[string]any{"$ref": "#/components/schemas/AaaCustom"}, "d": map[string]any{"type": "string", "x-goag-go-type": gt}}}
			useIn(paths, "ZzzHolder")
		})
	}
	// a template that uses one variable name twice
	inject("repeated-path-variable", func(_ map[string]any, _ map[string]any, paths map[string]any) {
		paths["/zz/{id}/b/{id}"] = map[string]any{"get": map[string]any{"parameters": []any{map[string]any{"in": "path", "name": "id", "required": true, "schema": map[string]any{"type": "string"}}},
			"responses": map[string]any{"200": map[string]any{"description": "ok"}}}}
	})
	inject("server-variable-no-default", func(root map[string]any, _ map[string]any, _ map[string]any) {
		root["servers"] = []any{map[string]any{"url": "https://{tenant}.example.com/{base}", "variables": map[string]any{"tenant": map[string]any{"enum": []any{"a", "b"}}, "base": map[string]any{"default": "v1"}}}}
	})
	return out
}

func facetMutate(args []string) error {
	fs := flag.NewFlagSet("mutate", flag.ExitOnError)
	seed := fs.Uint64("seed", 1, "seed")
	tier := fs.String("tier", "quick", "quick|thorough")
	out := fs.String("out", "", "output dir")
	work := fs.String("work", "", "scratch dir")
	shard := fs.Int("shard", 0, "shard index")
	nshards := fs.Int("nshards", 1, "number of shards")
	worker := fs.Bool("worker", false, "internal: run mutants in this process")
	start := fs.Int("start", 0, "internal: first mutant index to run")
	fs.Parse(args)
	if !*worker {
		return superviseMutate(args, *out)
	}
	// an unbounded recursion should die quickly, not after filling the default 1 GB stack
	debug.SetMaxStack(48 << 20)
	rng := NewPRNG(*seed*31 + 5)
	type bspec struct {
		name string
		doc  any
	}
	var bases []bspec
	fixtures, _ := filepath.Glob("/repo/tests/*/openapi.yaml")
	sort.Strings(fixtures)
	for _, f := range fixtures {
		bs, err := os.ReadFile(f)
		if err != nil {
			continue
		}
		js, err := yaml.YAMLToJSON(bs)
		if err != nil {
			continue
		}
		var d any
		if json.Unmarshal(js, &d) == nil {
			bases = append(bases, bspec{"fx_" + filepath.Base(filepath.Dir(f)), d})
		}
	}
	for i := 0; i < 3; i++ {
		var d any
		json.Unmarshal(fatSpec(rng.Fork()), &d)
		bases = append(bases, bspec{fmt.Sprintf("fat%d", i), d})
	}
	for i := 0; i < 6; i++ {
		rs := genRouteSpec(rng.Fork(), fmt.Sprintf("g%d", i), i%3 == 0, i%3 == 1)
		var d any
		json.Unmarshal(rs.Gen.Spec, &d)
		bases = append(bases, bspec{fmt.Sprintf("gen%d", i), d})
	}
	budget := 12
	if *tier == "thorough" {
		budget = 0
	}
	var muts []mutant
	for _, b := range bases {
		ms := mutantsOf(b.name, b.doc, rng.Fork(), budget)
		muts = append(muts, ms...)
	}
	for i := range muts {
		muts[i].id = fmt.Sprintf("m%06d", i)
	}

	// CLI binary for exit-status observation
	cli := filepath.Join(*work, "goag-cli")
	cmd := exec.Command("go", "build", "-o", cli, "github.com/vkd/goag/cmd/goag")
	cmd.Dir = "/repo"
	cmd.Env = append(os.Environ(), "GOFLAGS=-mod=mod", "GOPROXY=off", "GOSUMDB=off", "GOTOOLCHAIN=local")
	if o, err := cmd.CombinedOutput(); err != nil {
		return fmt.Errorf("build cli: %v: %s", err, o)
	}

	of, _ := os.OpenFile(filepath.Join(*out, "impl.tsv"), os.O_CREATE|os.O_WRONLY|os.O_APPEND, 0o644)
	ow := bufio.NewWriter(of)
	stats := map[string]int{}
	faultKinds := map[string]int{}
	for i, m := range muts {
		if i%*nshards != *shard || i < *start {
			continue
		}
		// progress marker: if this process dies with a fatal error (stack overflow, out of
		// memory) the supervisor records this mutant and resumes after it
		os.WriteFile(filepath.Join(*out, "progress"), []byte(fmt.Sprintf("%d\t%s\t%s\t%s\t%s", i, m.id, m.base, m.fault, hex.EncodeToString(m.doc))), 0o644)
		w := filepath.Join(*work, m.id)
		// a generator that does not return is a finding too: the worker gives up on this mutant,
		// the supervisor records it (progress marker) and resumes after it
		disarm := armWatchdog(40*time.Second, func() {
			ow.Flush()
			fmt.Fprintln(os.Stderr, "fatal error: HANG: the generator did not return within 40s")
			os.Exit(3)
		})
		r := runGoag(w, GenSpec{Name: "p", Spec: m.doc, Ext: "json", Client: i%3 == 0, Cors: i%4 == 0, DoNotEdit: true})
		disarm()
		outcome := r.Outcome
		detail := r.Detail
		if outcome == "error" && strings.HasPrefix(detail, "load spec") {
			outcome = "load-error" // the loader did not accept the document: outside the property's domain
		}
		stats[outcome]++
		faultKinds[strings.SplitN(m.fault, "@", 2)[0]]++
		cliObs := ""
		if (outcome == "error" || outcome == "ok" || outcome == "panic") && (i/(*nshards))%8 == 0 {
			cw := filepath.Join(*work, m.id+"_cli")
			os.MkdirAll(cw, 0o755)
			sp := filepath.Join(cw, "openapi.json")
			os.WriteFile(sp, m.doc, 0o644)
			a := []string{"--file", sp, "--out", filepath.Join(cw, "out"), "--package", "p", "--config", filepath.Join(cw, "none.yaml")}
			if i%3 == 0 {
				a = append(a, "--client")
			}
			c := exec.Command(cli, a...)
			o, err := c.CombinedOutput()
			code := 0
			if err != nil {
				if ee, ok := err.(*exec.ExitError); ok {
					code = ee.ExitCode()
				} else {
					code = -1
				}
			}
			crash := strings.Contains(string(o), "panic:") || strings.Contains(string(o), "goroutine ")
			cliObs = fmt.Sprintf("exit=%d crash=%v", code, crash)
			stats["cli_runs"]++
			os.RemoveAll(cw)
		}
		fmt.Fprintf(ow, "%s\t%s\t%s\t%s\t%s\t%s\t%s\n", m.id, m.base, m.fault, outcome, hex.EncodeToString([]byte(firstLines(detail, 12))), cliObs, hex.EncodeToString(m.doc))
		ow.Flush()
		os.RemoveAll(w)
	}
	ow.Flush()
	of.Close()
	os.Remove(filepath.Join(*out, "progress"))
	return nil
}

// superviseMutate runs the worker in a child process and survives its fatal crashes.
func superviseMutate(args []string, out string) error {
	self, _ := os.Executable()
	os.Remove(filepath.Join(out, "impl.tsv"))
	start := 0
	fatal := 0
	for attempt := 0; attempt < 200; attempt++ {
		a := append([]string{"mutate"}, args...)
		a = append(a, "-worker", "-start", fmt.Sprint(start))
		cmd := exec.Command(self, a...)
		cmd.Env = os.Environ()
		var stderr strings.Builder
		cmd.Stderr = &stderr
		err := cmd.Run()
		if err == nil {
			break
		}
		pb, perr := os.ReadFile(filepath.Join(out, "progress"))
		if perr != nil {
			return fmt.Errorf("worker failed without progress marker: %v: %s", err, tail(stderr.String(), 1500))
		}
		f := strings.Split(string(pb), "\t")
		var idx int
		fmt.Sscan(f[0], &idx)
		msg := "fatal: worker process died"
		for _, l := range strings.Split(stderr.String(), "\n") {
			if strings.HasPrefix(l, "fatal error") || strings.HasPrefix(l, "runtime: goroutine stack exceeds") {
				msg = "fatal: " + l
			}
		}
		var frames []string
		for _, l := range strings.Split(stderr.String(), "\n") {
			if strings.HasPrefix(l, "github.com/vkd/goag") && len(frames) < 6 {
				frames = append(frames, strings.SplitN(l, "(", 2)[0])
			}
		}
		of, _ := os.OpenFile(filepath.Join(out, "impl.tsv"), os.O_CREATE|os.O_WRONLY|os.O_APPEND, 0o644)
		fmt.Fprintf(of, "%s\t%s\t%s\t%s\t%s\t%s\t%s\n", f[1], f[2], f[3], "fatal", hex.EncodeToString([]byte(msg+"\n"+strings.Join(frames, "\n"))), "", f[4])
		of.Close()
		fatal++
		start = idx + 1
	}
	stats := map[string]int{"fatal_restarts": fatal}
	meta, _ := json.Marshal(map[string]any{"stats": stats})
	return os.WriteFile(filepath.Join(out, "meta.json"), meta, 0o644)
}

func firstLines(s string, n int) string {
	ls := strings.Split(s, "\n")
	if len(ls) > n {
		ls = ls[:n]
	}
	return strings.Join(ls, "\n")
}
