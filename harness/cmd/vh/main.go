// Command vh is the Go side of the correspondence harness: it runs the real goag
// (linked from /repo's working tree) and the packages it generates, and writes canonical
// observation lines that the check script diffs against the Lean model's predictions.
package main

import (
	"fmt"
	"os"
)

type facetFunc func(args []string) error

var facets = map[string]facetFunc{}

func main() {
	if len(os.Args) < 2 {
		fmt.Fprintln(os.Stderr, "usage: vh <facet> [flags]")
		os.Exit(2)
	}
	f, ok := facets[os.Args[1]]
	if !ok {
		fmt.Fprintf(os.Stderr, "unknown facet %q\n", os.Args[1])
		os.Exit(2)
	}
	if err := f(os.Args[2:]); err != nil {
		fmt.Fprintf(os.Stderr, "vh %s: %v\n", os.Args[1], err)
		os.Exit(3)
	}
}
