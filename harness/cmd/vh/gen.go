package main

// Shared machinery: run the real goag in-process on a list of specs, assemble the emitted
// packages into one scratch module with a registry package each, build one batch binary,
// and run it over a list of cases.

import (
	"bufio"
	"bytes"
	"encoding/json"
	"fmt"
	"go/ast"
	"go/format"
	"go/parser"
	"go/token"
	"os"
	"os/exec"
	"path/filepath"
	"regexp"
	"runtime/debug"
	"sort"
	"strings"
	"sync"
	"time"

	"github.com/vkd/goag"
	"verif/rt"
)

type GenSpec struct {
	Name        string // package name, unique in the batch
	Spec        []byte // spec file content
	Ext         string // json | yaml
	Client      bool
	NoAPI       bool // --api-handler=false
	DoNotEdit   bool
	BasePath    string // --basepath
	SpecHandler string // --spec-handler-name ("" => file base name)
	Cors        bool
	Meta        map[string]any
	ViaCLI      bool     // run the built command (cmd/goag) instead of calling the package in-process
	DirSpecName string   // non-empty: generated through GenerateDir (--dir) with this on-disk spec file name
	Prior       *GenSpec // an earlier revision generated into the same directory first (its outcome is ignored)
}

type GenResult struct {
	Name     string
	Outcome  string // ok | error | panic
	Detail   string
	Dir      string
	SpecPath string
	Broken   string // set when the package did not compile
	Fmt      string // set when a written file does not parse or is not gofmt-stable
}

var goagMu sync.Mutex

// runGoag runs the real generator on one spec (sequentially: goag is not goroutine-safe).
func runGoag(work string, s GenSpec) (res GenResult) {
	goagMu.Lock()
	defer goagMu.Unlock()
	res.Name = s.Name
	specDir := filepath.Join(work, "specs", s.Name)
	os.MkdirAll(specDir, 0o755)
	ext := s.Ext
	if ext == "" {
		ext = "json"
	}
	res.SpecPath = filepath.Join(specDir, "openapi."+ext)
	os.WriteFile(res.SpecPath, s.Spec, 0o644)
	cfg := filepath.Join(specDir, ".goag.yaml")
	if s.Cors {
		os.WriteFile(cfg, []byte("cors:\n  enable: true\n"), 0o644)
	}
	res.Dir = filepath.Join(work, "mod", s.Name)
	defer func() {
		if r := recover(); r != nil {
			res.Outcome = "panic"
			res.Detail = fmt.Sprint(r) + "\n" + string(debug.Stack())
		}
	}()
	if s.Prior != nil {
		func() {
			defer func() { recover() }()
			pp := filepath.Join(specDir, "prior."+ext)
			os.WriteFile(pp, s.Prior.Spec, 0o644)
			pg := goag.Generator{GenClient: s.Prior.Client, GenAPIHandler: !s.Prior.NoAPI, DoNotEdit: s.Prior.DoNotEdit}
			pkg := s.Name
			if s.Prior.Name != "" {
				pkg = s.Prior.Name
			}
			pg.GenerateFile(res.Dir, pkg, pp, s.Prior.BasePath, cfg, s.Prior.SpecHandler)
		}()
	}
	g := goag.Generator{GenClient: s.Client, GenAPIHandler: !s.NoAPI, DoNotEdit: s.DoNotEdit}
	var err error
	if s.ViaCLI && s.DirSpecName == "" {
		// the command as a user runs it: flag parsing and whatever main does with the values included
		handler := s.SpecHandler
		if handler == "" {
			handler = filepath.Base(res.SpecPath) // the package API's default; the command's own default is openapi.yaml
		}
		a := []string{"--file", res.SpecPath, "--out", res.Dir, "--package", s.Name, "--config", cfg, "--spec-handler-name", handler,
			"--client=" + fmt.Sprint(s.Client), "--api-handler=" + fmt.Sprint(!s.NoAPI), "--donotedit=" + fmt.Sprint(s.DoNotEdit)}
		if s.BasePath != "" {
			a = append(a, "--basepath", s.BasePath)
		}
		cli, cerr := builtCLI(work)
		if cerr != nil {
			res.Outcome, res.Detail = "error", "building cmd/goag: "+cerr.Error()
			return res
		}
		out, xerr := exec.Command(cli, a...).CombinedOutput()
		if xerr != nil {
			res.Outcome = "error"
			res.Detail = strings.TrimPrefix(strings.TrimSpace(string(out)), "Error on generate: ")
			if strings.Contains(string(out), "goroutine ") && strings.Contains(string(out), "panic") {
				res.Outcome = "panic"
			}
			return res
		}
		res.Outcome = "ok"
		res.Fmt = fmtIssues(res.Dir)
		return res
	}
	if s.DirSpecName != "" {
		// directory mode: <specDir>/svc/<DirSpecName>, output relative to the service directory
		svc := filepath.Join(specDir, "svc")
		os.MkdirAll(svc, 0o755)
		os.Remove(res.SpecPath)
		res.SpecPath = filepath.Join(svc, s.DirSpecName)
		os.WriteFile(res.SpecPath, s.Spec, 0o644)
		if s.Cors {
			os.Rename(cfg, filepath.Join(svc, ".goag.yaml"))
		}
		err = g.GenerateDir(specDir, filepath.Join("..", "..", "..", "mod", s.Name), s.Name, s.DirSpecName, s.BasePath, ".goag.yaml", s.SpecHandler)
	} else {
		err = g.GenerateFile(res.Dir, s.Name, res.SpecPath, s.BasePath, cfg, s.SpecHandler)
	}
	if err != nil {
		res.Outcome = "error"
		res.Detail = err.Error()
		return res
	}
	res.Outcome = "ok"
	res.Fmt = fmtIssues(res.Dir)
	return res
}

var (
	cliOnce sync.Once
	cliPath string
	cliErr  error
)

// builtCLI builds cmd/goag of the current tree once per process.
func builtCLI(work string) (string, error) {
	cliOnce.Do(func() {
		cliPath = filepath.Join(work, "goag-cli-bin")
		cmd := exec.Command("go", "build", "-o", cliPath, "github.com/vkd/goag/cmd/goag")
		cmd.Env = goEnv()
		if o, err := cmd.CombinedOutput(); err != nil {
			cliErr = fmt.Errorf("%v: %s", err, tail(string(o), 400))
		}
	})
	return cliPath, cliErr
}

// fmtIssues: every written file must parse and be gofmt-stable (format.Source is the identity on it).
func fmtIssues(dir string) string {
	ents, _ := os.ReadDir(dir)
	for _, e := range ents {
		if e.IsDir() || !strings.HasSuffix(e.Name(), ".go") {
			continue
		}
		src, err := os.ReadFile(filepath.Join(dir, e.Name()))
		if err != nil {
			continue
		}
		out, err := format.Source(src)
		if err != nil {
			return e.Name() + ": does not parse: " + firstLine(err.Error())
		}
		if !bytes.Equal(out, src) {
			return e.Name() + ": not gofmt-stable"
		}
	}
	return ""
}

// runGoagDir runs the generator on a spec into an explicit output directory (C19 histories).
func runGoagDir(work, outDir, specName string, spec []byte, client, noAPI, doNotEdit bool, pkg string) (res GenResult) {
	goagMu.Lock()
	defer goagMu.Unlock()
	specDir := filepath.Join(work, "specs", specName)
	os.MkdirAll(specDir, 0o755)
	res.SpecPath = filepath.Join(specDir, "openapi.json")
	// the spec file is written once and looks old (as a spec that has not been edited for an hour
	// does): whether a run regenerates must not depend on file times
	if old, err := os.ReadFile(res.SpecPath); err != nil || !bytes.Equal(old, spec) {
		os.WriteFile(res.SpecPath, spec, 0o644)
	}
	past := time.Now().Add(-time.Hour)
	os.Chtimes(res.SpecPath, past, past)
	res.Dir = outDir
	defer func() {
		if r := recover(); r != nil {
			res.Outcome = "panic"
			res.Detail = fmt.Sprint(r) + "\n" + string(debug.Stack())
		}
	}()
	g := goag.Generator{GenClient: client, GenAPIHandler: !noAPI, DoNotEdit: doNotEdit}
	err := g.GenerateFile(outDir, pkg, res.SpecPath, "", filepath.Join(specDir, ".goag.yaml"), "")
	if err != nil {
		res.Outcome = "error"
		res.Detail = err.Error()
		return res
	}
	res.Outcome = "ok"
	return res
}

// writeRegistry writes <dir>/reg/reg.go registering the package with the rt driver.
func writeRegistry(modName string, r GenResult) error {
	fset := token.NewFileSet()
	pkgs, err := parser.ParseDir(fset, r.Dir, func(fi os.FileInfo) bool { return strings.HasSuffix(fi.Name(), ".go") }, 0)
	if err != nil {
		return err
	}
	var funcs, types []string
	has := map[string]bool{}
	for _, p := range pkgs {
		for _, f := range p.Files {
			for _, d := range f.Decls {
				switch d := d.(type) {
				case *ast.FuncDecl:
					if d.Recv == nil && d.Name.IsExported() && d.Type.TypeParams == nil {
						funcs = append(funcs, d.Name.Name)
						has[d.Name.Name] = true
					}
				case *ast.GenDecl:
					for _, sp := range d.Specs {
						switch sp := sp.(type) {
						case *ast.TypeSpec:
							if sp.Name.IsExported() && sp.TypeParams == nil {
								types = append(types, sp.Name.Name)
								has["type:"+sp.Name.Name] = true
							}
						case *ast.ValueSpec:
							for _, n := range sp.Names {
								has["val:"+n.Name] = true
							}
						}
					}
				}
			}
		}
	}
	sort.Strings(funcs)
	sort.Strings(types)
	var b bytes.Buffer
	fmt.Fprintf(&b, "package reg\n\nimport (\n\t\"reflect\"\n\n\tp \"%s/%s\"\n\t\"verif/rt\"\n)\n\n", modName, r.Name)
	fmt.Fprintf(&b, "func init() {\n\trt.Register(&rt.Pkg{\n\t\tName: %q,\n", r.Name)
	if has["type:API"] {
		fmt.Fprintf(&b, "\t\tNewAPI: func() any { return &p.API{} },\n")
	}
	if has["val:SpecFile"] {
		fmt.Fprintf(&b, "\t\tSpecFile: p.SpecFile,\n")
	}
	if has["SpecFileHandler"] {
		fmt.Fprintf(&b, "\t\tSpecFileHandler: p.SpecFileHandler,\n")
	}
	if has["SchemaPath"] {
		fmt.Fprintf(&b, "\t\tSchemaPath: p.SchemaPath,\n")
	}
	if has["val:LogError"] {
		fmt.Fprintf(&b, "\t\tLogError: &p.LogError,\n")
	}
	if has["NewClient"] {
		fmt.Fprintf(&b, "\t\tNewClient: p.NewClient,\n")
	}
	fmt.Fprintf(&b, "\t\tFuncs: map[string]any{\n")
	for _, f := range funcs {
		fmt.Fprintf(&b, "\t\t\t%q: p.%s,\n", f, f)
	}
	fmt.Fprintf(&b, "\t\t},\n\t\tTypes: map[string]reflect.Type{\n")
	for _, t := range types {
		fmt.Fprintf(&b, "\t\t\t%q: reflect.TypeOf((*p.%s)(nil)).Elem(),\n", t, t)
	}
	fmt.Fprintf(&b, "\t\t},\n\t})\n}\n")
	os.MkdirAll(filepath.Join(r.Dir, "reg"), 0o755)
	return os.WriteFile(filepath.Join(r.Dir, "reg", "reg.go"), b.Bytes(), 0o644)
}

var pkgErrRe = regexp.MustCompile(`(?m)^(?:# )?(?:verifscratch/|mod/|\./mod/)?(p[0-9a-z_]+)(?:/reg)?(?:[/ :\n]|$)`)

// buildBatch builds one binary importing every ok package; packages that do not compile
// are marked Broken and excluded (their diagnostics kept). Returns the binary path.
// goEnv: the environment of every `go` invocation on generated packages. Their build outputs go
// to a cache of their own (VH_BATCH_GOCACHE, managed by the check driver) because no entry of a
// package compiled at a unique scratch path is ever reused.
func goEnv() []string {
	env := append(os.Environ(), "GOFLAGS=-mod=mod", "GOPROXY=off", "GOSUMDB=off", "GOTOOLCHAIN=local")
	if c := os.Getenv("VH_BATCH_GOCACHE"); c != "" {
		env = append(env, "GOCACHE="+c)
	}
	return env
}

// armWatchdog runs onHang if it is not disarmed within d.
func armWatchdog(d time.Duration, onHang func()) (disarm func()) {
	t := time.AfterFunc(d, onHang)
	return func() { t.Stop() }
}

// buildRace / batchEnv: the conc facet compiles the batch binary with the race detector.
var (
	buildRace bool
	batchEnv  []string
)

func buildBatch(work string, results []GenResult) (string, error) {
	modDir := work
	gomod := "module verifscratch\n\ngo 1.20\n\nrequire verif/rt v0.0.0\n\nreplace verif/rt => /verif/harness/rt\n"
	if err := os.WriteFile(filepath.Join(modDir, "go.mod"), []byte(gomod), 0o644); err != nil {
		return "", err
	}
	for i := range results {
		if results[i].Outcome != "ok" {
			continue
		}
		if err := writeRegistry("verifscratch/mod", results[i]); err != nil {
			results[i].Broken = "parse: " + err.Error()
		}
	}
	bin := filepath.Join(work, "batch.bin")
	for attempt := 0; attempt < 40; attempt++ {
		var b bytes.Buffer
		b.WriteString("package main\n\nimport (\n\t\"verif/rt\"\n")
		n := 0
		for _, r := range results {
			if r.Outcome == "ok" && r.Broken == "" {
				fmt.Fprintf(&b, "\t_ \"verifscratch/mod/%s/reg\"\n", r.Name)
				n++
			}
		}
		b.WriteString(")\n\nfunc main() { rt.Main() }\n")
		os.MkdirAll(filepath.Join(modDir, "cmd"), 0o755)
		os.WriteFile(filepath.Join(modDir, "cmd", "main.go"), b.Bytes(), 0o644)
		buildArgs := []string{"build", "-o", bin, "./cmd"}
		if buildRace {
			buildArgs = []string{"build", "-race", "-o", bin, "./cmd"}
		}
		cmd := exec.Command("go", buildArgs...)
		cmd.Dir = modDir
		cmd.Env = goEnv()
		out, err := cmd.CombinedOutput()
		if err == nil {
			return bin, nil
		}
		// find the packages named in the diagnostics and exclude them
		bad := map[string]string{}
		lines := strings.Split(string(out), "\n")
		for _, l := range lines {
			m := regexp.MustCompile(`mod/([a-z][0-9A-Za-z_]+)/`).FindStringSubmatch(l)
			if m == nil {
				m = regexp.MustCompile(`^# verifscratch/mod/([a-z][0-9A-Za-z_]+)`).FindStringSubmatch(l)
			}
			if m != nil {
				if _, ok := bad[m[1]]; !ok || strings.HasPrefix(bad[m[1]], "#") {
					bad[m[1]] = l
				}
			}
		}
		if len(bad) == 0 {
			return "", fmt.Errorf("go build failed without attributable package: %s", string(out))
		}
		for i := range results {
			if d, ok := bad[results[i].Name]; ok && results[i].Broken == "" {
				results[i].Broken = d
			}
		}
	}
	return "", fmt.Errorf("go build: too many attempts")
}

// runBatch pipes cases to the batch binary and returns id -> observation.
func runBatch(bin string, cases []rt.Case) (map[string]string, error) {
	res := map[string]string{}
	start := 0
	// a fatal error of the Go runtime (stack overflow, concurrent map writes, out of memory) cannot
	// be recovered inside the process: the case that was running is recorded as FATAL with the
	// runtime's message, and a fresh process resumes after it
	for crashes := 0; start < len(cases); crashes++ {
		n, fatal, err := runBatchFrom(bin, cases[start:], res)
		if err == nil {
			return res, nil
		}
		if crashes >= 25 || start+n >= len(cases) {
			return res, err
		}
		res[cases[start+n].ID] = "FATAL:" + hexs(fatal)
		start += n + 1
	}
	return res, nil
}

// runBatchFrom runs the cases in one process; on a crash it returns how many cases had been
// answered and the runtime's message.
func runBatchFrom(bin string, cases []rt.Case, res map[string]string) (int, string, error) {
	var in bytes.Buffer
	enc := json.NewEncoder(&in)
	for i := range cases {
		if err := enc.Encode(&cases[i]); err != nil {
			return 0, "", err
		}
	}
	cmd := exec.Command(bin)
	cmd.Stdin = &in
	cmd.Env = append(os.Environ(), "GOMEMLIMIT=4GiB")
	cmd.Env = append(cmd.Env, batchEnv...)
	var stderr bytes.Buffer
	cmd.Stderr = &stderr
	outp, err := cmd.StdoutPipe()
	if err != nil {
		return 0, "", err
	}
	if err := cmd.Start(); err != nil {
		return 0, "", err
	}
	answered := 0
	sc := bufio.NewScanner(outp)
	sc.Buffer(make([]byte, 1<<20), 1<<26)
	for sc.Scan() {
		line := sc.Text()
		if i := strings.IndexByte(line, '\t'); i >= 0 {
			res[line[:i]] = line[i+1:]
			answered++
		}
	}
	werr := cmd.Wait()
	if werr != nil {
		msg := "process died: " + werr.Error()
		for _, l := range strings.Split(stderr.String(), "\n") {
			if strings.HasPrefix(l, "fatal error") || strings.HasPrefix(l, "runtime: goroutine stack exceeds") || strings.HasPrefix(l, "panic:") {
				msg = l
				break
			}
		}
		var frames []string
		for _, l := range strings.Split(stderr.String(), "\n") {
			if strings.HasPrefix(l, "verifscratch/mod/") && len(frames) < 4 {
				frames = append(frames, strings.SplitN(l, "(", 2)[0])
			}
		}
		if len(frames) > 0 {
			msg += " @ " + strings.Join(frames, " < ")
		}
		return answered, msg, fmt.Errorf("batch binary: %v: %s", werr, tail(stderr.String(), 2000))
	}
	return answered, "", nil
}

func tail(s string, n int) string {
	if len(s) > n {
		return s[len(s)-n:]
	}
	return s
}

func brokenOrFmt(r GenResult) string {
	if r.Broken != "" {
		return r.Broken
	}
	return r.Fmt
}
