package main

// SplitMix64: every random choice of a run derives from one state seeded by VERIF_SEED.
type PRNG struct{ s uint64 }

func NewPRNG(seed uint64) *PRNG { return &PRNG{s: seed*0x9E3779B97F4A7C15 + 0x1234567} }

func (p *PRNG) Next() uint64 {
	p.s += 0x9E3779B97F4A7C15
	z := p.s
	z = (z ^ (z >> 30)) * 0xBF58476D1CE4E5B9
	z = (z ^ (z >> 27)) * 0x94D049BB133111EB
	return z ^ (z >> 31)
}

func (p *PRNG) Intn(n int) int {
	if n <= 0 {
		return 0
	}
	return int(p.Next() % uint64(n))
}

func (p *PRNG) Bool() bool { return p.Next()&1 == 1 }

// Chance returns true with probability num/den.
func (p *PRNG) Chance(num, den int) bool { return p.Intn(den) < num }

func (p *PRNG) Fork() *PRNG { return &PRNG{s: p.Next()} }

func Pick[T any](p *PRNG, xs []T) T { return xs[p.Intn(len(xs))] }
