package main

// Facet F-gen/dir (C19): histories of generator invocations into one output directory.
// Observation after each history: per goag-owned file absent / stale marker / equal to the
// fresh generation of which invocation(s) / something else; and whether a foreign file
// survived unchanged.

import (
	"bufio"
	"crypto/sha256"
	"encoding/hex"
	"encoding/json"
	"flag"
	"fmt"
	"os"
	"os/exec"
	"path/filepath"
	"strings"
)

func init() { facets["dir"] = facetDir }

var ownedFiles = []string{"components.go", "handler.go", "router.go", "spec_file.go", "client.go"}

const specWithComponents = `{"openapi":"3.0.3","info":{"title":"t","version":"1"},"paths":{"/pets/{id}":{"get":{"parameters":[{"in":"path","name":"id","required":true,"schema":{"type":"string"}}],"responses":{"200":{"description":"ok","content":{"application/json":{"schema":{"$ref":"#/components/schemas/Pet"}}}},"default":{"description":"d"}}}}},"components":{"schemas":{"Pet":{"type":"object","required":["name"],"properties":{"name":{"type":"string"},"tag":{"type":"string"}}}}}}`
const specNoComponents = `{"openapi":"3.0.3","info":{"title":"t","version":"1"},"paths":{"/ping":{"get":{"responses":{"default":{"description":"d"}}}}}}`

// a spec without any operation (a shared type library): only components.go has content of its own
const specNoOperations = `{"openapi":"3.0.3","info":{"title":"t","version":"1"},"paths":{},"components":{"schemas":{"Pet":{"type":"object","required":["name"],"properties":{"name":{"type":"string"},"tag":{"type":"string"}}}}}}`

// bigSpec: every generated file is well beyond 32 KiB; the two variants differ in one digit of the
// last operation (status 200 / 201), so each file keeps its length and differs only near its end
func bigSpec(variant int) string {
	paths := map[string]any{}
	for k := 0; k < 24; k++ {
		st := "200"
		if k == 23 && variant == 1 {
			st = "201"
		}
		paths[fmt.Sprintf("/zone%02d/{id}", k)] = map[string]any{"get": map[string]any{
			"parameters": []any{map[string]any{"in": "path", "name": "id", "required": true, "schema": map[string]any{"type": "integer"}},
				map[string]any{"in": "query", "name": "limit", "schema": map[string]any{"type": "integer", "format": "int32"}},
				map[string]any{"in": "header", "name": "X-Trace", "schema": map[string]any{"type": "string"}}},
			"responses": map[string]any{st: map[string]any{"description": "ok", "headers": map[string]any{"X-Next": map[string]any{"schema": map[string]any{"type": "string"}}},
				"content": map[string]any{"application/json": map[string]any{"schema": map[string]any{"$ref": "#/components/schemas/Pet"}}}}, "default": map[string]any{"description": "d"}}}}
	}
	doc := map[string]any{"openapi": "3.0.3", "info": map[string]any{"title": "t", "version": "1"}, "paths": paths,
		"components": map[string]any{"schemas": map[string]any{"Pet": map[string]any{"type": "object", "required": []any{"name"}, "properties": map[string]any{"name": map[string]any{"type": "string"}, "tag": map[string]any{"type": "string"}}}}}}
	bs, _ := json.Marshal(doc)
	return string(bs)
}

// a components section that holds nothing components.go is written for (a security scheme and a
// shared parameter only)
const specOnlyParamsAndSecurity = `{"openapi":"3.0.3","info":{"title":"t","version":"1"},"security":[{"jwt":[]}],"paths":{"/pets":{"get":{"parameters":[{"$ref":"#/components/parameters/Limit"}],"responses":{"200":{"description":"ok","content":{"application/json":{"schema":{"type":"object","properties":{"n":{"type":"integer"}}}}}},"default":{"description":"d"}}}}},"components":{"securitySchemes":{"jwt":{"type":"http","scheme":"bearer"}},"parameters":{"Limit":{"in":"query","name":"limit","schema":{"type":"integer"}}}}}`

func dirSpec(i int) string {
	switch i {
	case 3, 4:
		return bigSpec(i - 3)
	case 5:
		return specOnlyParamsAndSecurity
	}
	return []string{specWithComponents, specNoComponents, specNoOperations}[i]
}

type dirInv struct {
	Spec   int // 0 with components, 1 without, 2 without operations, 3 / 4 the two big variants, 5 components that need no components.go
	Client bool
	API    bool
	DNE    bool // --donotedit
}

func (i dirInv) tag() int {
	t := i.Spec * 8
	if i.DNE {
		t += 4
	}
	if i.Client {
		t += 2
	}
	if i.API {
		t++
	}
	return t
}

func hashFile(p string) string {
	bs, err := os.ReadFile(p)
	if err != nil {
		return ""
	}
	h := sha256.Sum256(bs)
	return hex.EncodeToString(h[:])
}

func runInv(work, dir string, inv dirInv) error {
	spec := dirSpec(inv.Spec)
	r := runGoagDir(work, dir, fmt.Sprintf("dirspec%d", inv.Spec), []byte(spec), inv.Client, !inv.API, inv.DNE, "p")
	if r.Outcome != "ok" {
		return fmt.Errorf("goag %s: %s", r.Outcome, firstLine(r.Detail))
	}
	return nil
}

// runFailing: an invocation that fails (a package name that is not an identifier: the first file
// it renders is not valid Go). Whatever it leaves behind, the next successful run must clean up.
func runFailing(work, dir string, inv dirInv) bool {
	spec := dirSpec(inv.Spec)
	r := runGoagDir(work, dir, fmt.Sprintf("dirspec%d", inv.Spec), []byte(spec), inv.Client, !inv.API, inv.DNE, "pet-api")
	return r.Outcome == "error"
}

func facetDir(args []string) error {
	fs := flag.NewFlagSet("dir", flag.ExitOnError)
	seed := fs.Uint64("seed", 1, "seed")
	tier := fs.String("tier", "quick", "quick|thorough")
	out := fs.String("out", "", "output dir")
	work := fs.String("work", "", "scratch dir")
	shard := fs.Int("shard", 0, "shard index")
	nshards := fs.Int("nshards", 1, "number of shards")
	one := fs.Int("one", -1, "internal: run this single invocation into -out and exit")
	fs.Parse(args)
	rng := NewPRNG(*seed)

	var invs []dirInv
	for s := 0; s < 6; s++ {
		for _, e := range []bool{true, false} {
			if s >= 3 && !e {
				continue // the big variants only with the header
			}
			for _, c := range []bool{false, true} {
				for _, a := range []bool{false, true} {
					invs = append(invs, dirInv{s, c, a, e})
				}
			}
		}
	}
	if *one >= 0 {
		// internal: one invocation, twice, into -out, in this fresh process
		for _, inv := range invs {
			if inv.tag() == *one {
				if err := runInv(*work, *out, inv); err != nil {
					return err
				}
				return nil
			}
		}
		return fmt.Errorf("no such invocation %d", *one)
	}
	// what a single run of every invocation produces in an empty directory: generated in a FRESH
	// PROCESS each, so that nothing an earlier run left in this process can leak into the reference
	self, _ := os.Executable()
	fresh := map[int]map[string]string{}
	hasComp := map[int]bool{}
	for _, inv := range invs {
		d := filepath.Join(*work, fmt.Sprintf("fresh%d", inv.tag()))
		sub := func() error {
			cmd := exec.Command(self, "dir", "-one", fmt.Sprint(inv.tag()), "-out", d, "-work", filepath.Join(*work, fmt.Sprintf("freshw%d", inv.tag())))
			cmd.Env = os.Environ()
			if o, err := cmd.CombinedOutput(); err != nil {
				return fmt.Errorf("fresh-process run of invocation %d: %v: %s", inv.tag(), err, tail(string(o), 400))
			}
			return nil
		}
		if err := sub(); err != nil {
			return err
		}
		m := map[string]string{}
		for _, f := range ownedFiles {
			m[f] = hashFile(filepath.Join(d, f))
		}
		// a second run into the same directory must reproduce it (re-run changes nothing)
		if err := sub(); err != nil {
			return err
		}
		for _, f := range ownedFiles {
			if hashFile(filepath.Join(d, f)) != m[f] {
				m[f] = "UNSTABLE"
			}
		}
		fresh[inv.tag()] = m
		hasComp[inv.tag()] = m["components.go"] != ""
	}
	stale := []byte(strings.Repeat("// stale leftover that is longer than any generated file\n", 6000))
	staleHash := func() string { h := sha256.Sum256(stale); return hex.EncodeToString(h[:]) }()
	// a user file of the same package that imports same-named non-stdlib packages: generated
	// files must not depend on what else lives in the directory
	foreign := []byte("package p\n\nimport (\n\t\"net/http\"\n\n\t\"golang.org/x/net/context\"\n)\n\n// hand-written helper living next to the generated code (not owned by goag)\n\ntype traceKey struct{}\n\nfunc WithTrace(r *http.Request, id string) *http.Request {\n\tvar ctx context.Context = r.Context()\n\treturn r.WithContext(context.WithValue(ctx, traceKey{}, id))\n}\n")
	foreignHash := func() string { h := sha256.Sum256(foreign); return hex.EncodeToString(h[:]) }()

	type dcase struct {
		id   string
		init string // 5 chars + foreign flag
		hist []dirInv
		kind string
		// failBefore[i]: a failing invocation (same spec / flags as failWith[i]) runs before hist[i]
		failBefore map[int]dirInv
	}
	var cases []dcase
	// 1. all single steps: 2^5 presence patterns x foreign x 8 invocations
	for pat := 0; pat < 32; pat++ {
		for fo := 0; fo < 2; fo++ {
			init := ""
			for b := 0; b < 5; b++ {
				if pat&(1<<b) != 0 {
					init += "S"
				} else {
					init += "-"
				}
			}
			if fo == 1 {
				init += "F"
			} else {
				init += "-"
			}
			for _, inv := range invs {
				cases = append(cases, dcase{fmt.Sprintf("d1-%02d-%d-%d", pat, fo, inv.tag()), init, []dirInv{inv}, "single-step", nil})
			}
		}
	}
	// 2. all histories of length <= 3 from an empty directory
	var rec func(prefix []dirInv, n int)
	rec = func(prefix []dirInv, n int) {
		if len(prefix) > 0 {
			cases = append(cases, dcase{fmt.Sprintf("dh-%d", len(cases)), "------", append([]dirInv{}, prefix...), fmt.Sprintf("history-%d", len(prefix)), nil})
		}
		if n == 0 {
			return
		}
		for _, inv := range invs {
			rec(append(prefix, inv), n-1)
		}
	}
	rec(nil, 2)
	// a failed invocation followed by every invocation
	for fi, f := range invs {
		if fi%3 != 0 {
			continue
		}
		for _, inv := range invs {
			cases = append(cases, dcase{id: fmt.Sprintf("df-%d-%d", f.tag(), inv.tag()), init: "------", hist: []dirInv{inv}, kind: "after-failed-run", failBefore: map[int]dirInv{0: f}})
		}
	}
	n3 := 1200
	if *tier == "thorough" {
		n3 = 12000
	}
	for i := 0; i < n3; i++ {
		cases = append(cases, dcase{fmt.Sprintf("d3-%d", i), "------", []dirInv{Pick(rng, invs), Pick(rng, invs), Pick(rng, invs)}, "history-3", nil})
	}
	// 3. random longer histories from random initial states
	nr := 60
	if *tier == "thorough" {
		nr = 600
	}
	for i := 0; i < nr; i++ {
		init := ""
		for b := 0; b < 5; b++ {
			init += Pick(rng, []string{"S", "-"})
		}
		init += Pick(rng, []string{"F", "-"})
		n := 4 + rng.Intn(9)
		var h []dirInv
		for j := 0; j < n; j++ {
			h = append(h, Pick(rng, invs))
		}
		fb := map[int]dirInv{}
		for j := range h {
			if rng.Chance(1, 5) {
				fb[j] = Pick(rng, invs)
			}
		}
		cases = append(cases, dcase{id: fmt.Sprintf("dr-%d", i), init: init, hist: h, kind: "history-long", failBefore: fb})
	}

	cf, _ := os.Create(filepath.Join(*out, "cases.tsv"))
	of, _ := os.Create(filepath.Join(*out, "impl.tsv"))
	cw, ow := bufio.NewWriter(cf), bufio.NewWriter(of)
	kinds := map[string]int{}
	runs := 0
	failedRuns := 0
	for i, c := range cases {
		if i%*nshards != *shard {
			continue
		}
		kinds[c.kind]++
		d := filepath.Join(*work, "case")
		os.RemoveAll(d)
		os.MkdirAll(d, 0o755)
		for b, f := range ownedFiles {
			if c.init[b] == 'S' {
				os.WriteFile(filepath.Join(d, f), stale, 0o644)
			}
		}
		if c.init[5] == 'F' {
			os.WriteFile(filepath.Join(d, "user.go"), foreign, 0o644)
		}
		var hs []string
		errStr := ""
		for hi, inv := range c.hist {
			if f, ok := c.failBefore[hi]; ok {
				// (an invocation that writes no file at all has nothing to fail on)
				if runFailing(*work, d, f) {
					failedRuns++
				}
			}
			if err := runInv(*work, d, inv); err != nil {
				errStr = err.Error()
				break
			}
			runs++
			hc := "0"
			if hasComp[inv.tag()] {
				hc = "1"
			}
			hs = append(hs, fmt.Sprintf("%s%s%s:%d", hc, b01(inv.Client), b01(inv.API), inv.tag()))
		}
		fmt.Fprintf(cw, "dirrun\t%s\t%s\t%s\n", c.id, c.init, strings.Join(hs, ","))
		var obs []string
		if errStr != "" {
			obs = []string{"ERR:" + errStr}
		} else {
			for _, f := range ownedFiles {
				h := hashFile(filepath.Join(d, f))
				switch {
				case h == "":
					obs = append(obs, "-")
				case h == staleHash:
					obs = append(obs, "S")
				default:
					var tags []string
					for _, inv := range invs {
						if fresh[inv.tag()][f] == h {
							tags = append(tags, fmt.Sprint(inv.tag()))
						}
					}
					if len(tags) == 0 {
						obs = append(obs, "X")
					} else {
						obs = append(obs, "G:"+strings.Join(tags, "+"))
					}
				}
			}
			switch h := hashFile(filepath.Join(d, "user.go")); {
			case h == "":
				obs = append(obs, "-")
			case h == foreignHash:
				obs = append(obs, "F")
			default:
				obs = append(obs, "X")
			}
			// nothing else may appear in the directory
			ents, _ := os.ReadDir(d)
			for _, e := range ents {
				known := e.Name() == "user.go"
				for _, f := range ownedFiles {
					if e.Name() == f {
						known = true
					}
				}
				if !known {
					obs = append(obs, "EXTRA:"+e.Name())
				}
			}
		}
		fmt.Fprintf(ow, "%s\t%s\t%s\n", c.id, c.kind, strings.Join(obs, " "))
	}
	cw.Flush()
	ow.Flush()
	cf.Close()
	of.Close()
	unstable := 0
	for _, m := range fresh {
		for _, h := range m {
			if h == "UNSTABLE" {
				unstable++
			}
		}
	}
	meta, _ := json.Marshal(map[string]any{"kinds": kinds, "stats": map[string]int{"generator_runs": runs, "rerun_unstable_files": unstable}})
	return os.WriteFile(filepath.Join(*out, "meta.json"), meta, 0o644)
}
