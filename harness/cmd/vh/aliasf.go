package main

// Facet F-alias (C15 tie of Goag.Alias): component maps whose entries are definitions or pure
// aliases ($ref to a sibling component) in every shape of functional graph on <= 5 names -
// chains, trees, self-aliases, longer cycles, cycles with tails - for components.responses,
// components.schemas, components.parameters, components.requestBodies and components.headers.
// Observation: loader verdict, then generator outcome (ok / error class) under recover.

import (
	"encoding/json"
	"flag"
	"fmt"
	"os"
	"path/filepath"
	"sort"
	"strings"
	"time"
)

func init() { facets["aliasf"] = facetAlias }

func facetAlias(args []string) error {
	fs := flag.NewFlagSet("aliasf", flag.ExitOnError)
	seed := fs.Uint64("seed", 1, "seed")
	tier := fs.String("tier", "quick", "quick|thorough")
	out := fs.String("out", "", "output dir")
	work := fs.String("work", "", "scratch dir")
	shard := fs.Int("shard", 0, "shard index")
	nshards := fs.Int("nshards", 1, "number of shards")
	fs.Parse(args)
	rng := NewPRNG(*seed*31337 + uint64(*shard)*53 + 9)
	names := []string{"A", "B", "C", "D", "E"}
	kinds := []string{"responses", "schemas", "parameters", "requestBodies", "headers"}
	type cmap map[string]string // name -> alias target, "" = definition
	var maps []cmap
	// exhaustive: every functional graph on 3 names (each name: definition or alias of any of the 3)
	var rec func(i int, cur cmap)
	rec = func(i int, cur cmap) {
		if i == 3 {
			c := cmap{}
			for k, v := range cur {
				c[k] = v
			}
			maps = append(maps, c)
			return
		}
		for _, t := range []string{"", "A", "B", "C"} {
			cur[names[i]] = t
			rec(i+1, cur)
		}
	}
	rec(0, cmap{})
	nRand := 40
	if *tier == "thorough" {
		nRand = 400
	}
	for i := 0; i < nRand; i++ {
		n := 2 + rng.Intn(4)
		c := cmap{}
		for j := 0; j < n; j++ {
			if rng.Chance(1, 3) {
				c[names[j]] = ""
			} else {
				c[names[j]] = names[rng.Intn(n)]
			}
		}
		maps = append(maps, c)
	}
	def := map[string]any{
		"responses":     map[string]any{"description": "d"},
		"schemas":       map[string]any{"type": "object", "properties": map[string]any{"v": map[string]any{"type": "string"}}},
		"parameters":    map[string]any{"in": "query", "name": "q", "schema": map[string]any{"type": "string"}},
		"requestBodies": map[string]any{"content": map[string]any{"application/json": map[string]any{"schema": map[string]any{"type": "string"}}}},
		"headers":       map[string]any{"schema": map[string]any{"type": "string"}},
	}
	gf, _ := os.Create(filepath.Join(*out, "impl.tsv"))
	cf, _ := os.Create(filepath.Join(*out, "cases.tsv"))
	stats := map[string]int{}
	idx := 0
	for mi, c := range maps {
		for ki, kind := range kinds {
			idx++
			if idx%*nshards != *shard {
				continue
			}
			comp := map[string]any{}
			var keys []string
			for k := range c {
				keys = append(keys, k)
			}
			sort.Strings(keys)
			var enc []string
			for _, k := range keys {
				if c[k] == "" {
					comp[k] = def[kind]
					enc = append(enc, k+"=")
				} else {
					comp[k] = map[string]any{"$ref": "#/components/" + kind + "/" + c[k]}
					enc = append(enc, k+">"+c[k])
				}
			}
			op := map[string]any{"responses": map[string]any{"200": map[string]any{"description": "ok"}}}
			first := keys[0]
			switch kind {
			case "responses":
				op["responses"] = map[string]any{"200": map[string]any{"$ref": "#/components/responses/" + first}}
			case "schemas":
				op["requestBody"] = map[string]any{"content": map[string]any{"application/json": map[string]any{"schema": map[string]any{"$ref": "#/components/schemas/" + first}}}}
			case "parameters":
				op["parameters"] = []any{map[string]any{"$ref": "#/components/parameters/" + first}}
			case "requestBodies":
				op["requestBody"] = map[string]any{"$ref": "#/components/requestBodies/" + first}
			}
			if rng.Chance(1, 3) {
				// the component map alone, not referenced by any operation
				op = map[string]any{"responses": map[string]any{"200": map[string]any{"description": "ok"}}}
			}
			doc := map[string]any{"openapi": "3.0.3", "info": map[string]any{"title": "t", "version": "1"},
				"paths":      map[string]any{"/x": map[string]any{"post": op}},
				"components": map[string]any{kind: comp}}
			bs, _ := json.Marshal(doc)
			id := fmt.Sprintf("al%02d_%04d_%d", *shard, mi, ki)
			disarm := armWatchdog(30*time.Second, func() {
				// the generator does not return: record it and give up on the rest of this shard
				fmt.Fprintf(gf, "%s\t%s\t%s\t%s\t%s\t%s\n", id, kind, hexs(strings.Join(enc, ";")), "hang", hexs("the generator did not return within 30s"), hexs(string(bs)))
				fmt.Fprintf(cf, "aliascheck\t%s\t%s\n", id, hexs(strings.Join(enc, ";")))
				gf.Close()
				cf.Close()
				stats["hang"]++
				meta, _ := json.Marshal(map[string]any{"stats": stats})
				os.WriteFile(filepath.Join(*out, "meta.json"), meta, 0o644)
				os.Exit(0)
			})
			r := runGoag(*work, GenSpec{Name: id, Spec: bs, Ext: "json", Client: mi%2 == 0, DoNotEdit: true})
			disarm()
			cls := r.Outcome
			switch {
			case r.Outcome == "error" && strings.Contains(r.Detail, "reference cycle"):
				cls = "reference cycle"
			case r.Outcome == "error" && strings.Contains(r.Detail, "not found"):
				cls = "reference not found"
			case r.Outcome == "error" && (strings.Contains(r.Detail, "load") || strings.Contains(r.Detail, "openapi3") || strings.Contains(r.Detail, "validate")):
				cls = "load-error"
			}
			stats[kind+":"+cls]++
			fmt.Fprintf(gf, "%s\t%s\t%s\t%s\t%s\t%s\n", id, kind, hexs(strings.Join(enc, ";")), cls, hexs(firstLine(r.Detail)), hexs(string(bs)))
			fmt.Fprintf(cf, "aliascheck\t%s\t%s\n", id, hexs(strings.Join(enc, ";")))
			os.RemoveAll(r.Dir)
		}
	}
	gf.Close()
	cf.Close()
	meta, _ := json.Marshal(map[string]any{"stats": stats})
	os.WriteFile(filepath.Join(*out, "meta.json"), meta, 0o644)
	return nil
}
