package main

// sharedFacts (C20 translator): for generated packages, the table of every access that could
// share state between concurrently served requests:
//   pkgvar-write    assignment / inc-dec / compound assignment whose target is (a part of) a package-level variable
//   pkgvar-addr     &v of a package-level variable (or of a part of it)
//   pkgvar-refarg   a package-level variable of reference type (slice, map, pointer, chan) passed to a call or used as receiver
//   pkgvar-read     any other use of a package-level variable
//   service-write   assignment through the receiver of a method of a long-lived service type
//                   (a type with a ServeHTTP method or one named API / Client / *Middleware)
//   go / select     goroutine start / select statement in generated code
// Sites are normalised (identifiers that depend on the spec are replaced) and de-duplicated.

import (
	"fmt"
	"go/ast"
	"go/token"
	"go/types"
	"sort"
	"strings"

	"golang.org/x/tools/go/packages"
)

type sharedSite struct {
	Kind, Var, Where, Expr string
}

func isServiceType(named *types.Named) bool {
	n := named.Obj().Name()
	if n == "API" || n == "Client" || strings.HasSuffix(n, "Middleware") {
		return true
	}
	for i := 0; i < named.NumMethods(); i++ {
		if named.Method(i).Name() == "ServeHTTP" {
			return true
		}
	}
	return false
}

func rootIdent(e ast.Expr) *ast.Ident {
	for {
		switch t := e.(type) {
		case *ast.Ident:
			return t
		case *ast.SelectorExpr:
			e = t.X
		case *ast.IndexExpr:
			e = t.X
		case *ast.StarExpr:
			e = t.X
		case *ast.ParenExpr:
			e = t.X
		case *ast.SliceExpr:
			e = t.X
		default:
			return nil
		}
	}
}

func isRefType(t types.Type) bool {
	switch t.Underlying().(type) {
	case *types.Slice, *types.Map, *types.Pointer, *types.Chan:
		return true
	}
	return false
}

func sharedFacts(work string, names []string) (map[string][]sharedSite, error) {
	var patterns []string
	for _, n := range names {
		patterns = append(patterns, "verifscratch/mod/"+n)
	}
	cfg := &packages.Config{Mode: packages.NeedName | packages.NeedTypes | packages.NeedTypesInfo | packages.NeedSyntax | packages.NeedImports, Dir: work,
		Env: goEnv()}
	pkgs, err := packages.Load(cfg, patterns...)
	if err != nil {
		return nil, err
	}
	out := map[string][]sharedSite{}
	for _, p := range pkgs {
		parts := strings.Split(p.PkgPath, "/")
		pname := parts[len(parts)-1]
		seen := map[sharedSite]bool{}
		add := func(s sharedSite) {
			if !seen[s] {
				seen[s] = true
				out[pname] = append(out[pname], s)
			}
		}
		isPkgVar := func(id *ast.Ident) *types.Var {
			if id == nil {
				return nil
			}
			obj := p.TypesInfo.Uses[id]
			v, ok := obj.(*types.Var)
			if !ok || v.IsField() || v.Parent() != p.Types.Scope() {
				return nil
			}
			return v
		}
		render := func(e ast.Node) string { return identPath(p.Fset, e) }
		for _, f := range p.Syntax {
			// function literals bound to package-level variables (`var LogError = func...`) run on the
			// request goroutines like declared functions do
			var decls []ast.Decl
			for _, d := range f.Decls {
				decls = append(decls, d)
				if gd, ok := d.(*ast.GenDecl); ok && gd.Tok == token.VAR {
					for _, sp := range gd.Specs {
						vs, ok := sp.(*ast.ValueSpec)
						if !ok {
							continue
						}
						for vi, val := range vs.Values {
							name := "_"
							if vi < len(vs.Names) {
								name = vs.Names[vi].Name
							}
							ast.Inspect(val, func(n ast.Node) bool {
								if lit, ok := n.(*ast.FuncLit); ok {
									decls = append(decls, &ast.FuncDecl{Name: ast.NewIdent("var:" + name), Type: lit.Type, Body: lit.Body})
								}
								return true
							})
						}
					}
				}
			}
			for _, d := range decls {
				fd, ok := d.(*ast.FuncDecl)
				if !ok || fd.Body == nil {
					continue
				}
				where := "func"
				if strings.HasPrefix(fd.Name.Name, "var:") {
					where = "func-literal-of-" + fd.Name.Name
				}
				var recvObj types.Object
				service := false
				if fd.Recv != nil && len(fd.Recv.List) == 1 {
					rt := p.TypesInfo.TypeOf(fd.Recv.List[0].Type)
					ptr := false
					if pt, ok := rt.(*types.Pointer); ok {
						rt, ptr = pt.Elem(), true
					}
					if named, ok := rt.(*types.Named); ok {
						where = "method"
						if isServiceType(named) {
							where = "service-method"
							if ptr {
								service = true
							}
							if n := named.Obj().Name(); n == "API" || n == "Client" {
								where = n + "." + fd.Name.Name
							}
						}
					}
					if len(fd.Recv.List[0].Names) == 1 {
						recvObj = p.TypesInfo.Defs[fd.Recv.List[0].Names[0]]
					}
				}
				handled := map[*ast.Ident]bool{}
				target := func(lhs ast.Expr, kind string) {
					id := rootIdent(lhs)
					if v := isPkgVar(id); v != nil {
						handled[id] = true
						add(sharedSite{"pkgvar-" + kind, v.Name(), where, ""})
						return
					}
					if service && id != nil && recvObj != nil && p.TypesInfo.Uses[id] == recvObj {
						if _, plain := lhs.(*ast.Ident); !plain {
							add(sharedSite{"service-write", "", where, fieldPath(lhs)})
						}
					}
				}
				ast.Inspect(fd.Body, func(n ast.Node) bool {
					switch t := n.(type) {
					case *ast.AssignStmt:
						for _, l := range t.Lhs {
							target(l, "write")
						}
					case *ast.IncDecStmt:
						target(t.X, "write")
					case *ast.UnaryExpr:
						if t.Op == token.AND {
							target(t.X, "addr")
						}
					case *ast.RangeStmt:
						if t.Tok == token.ASSIGN {
							if t.Key != nil {
								target(t.Key, "write")
							}
							if t.Value != nil {
								target(t.Value, "write")
							}
						}
					case *ast.GoStmt:
						add(sharedSite{"go", "", where, ""})
					case *ast.SelectStmt:
						add(sharedSite{"select", "", where, ""})
					case *ast.CallExpr:
						for _, a := range t.Args {
							id := rootIdent(a)
							if v := isPkgVar(id); v != nil && isRefType(p.TypesInfo.TypeOf(a)) {
								handled[id] = true
								add(sharedSite{"pkgvar-refarg", v.Name(), where, calleeText(render(t.Fun))})
							}
						}
						if sel, ok := t.Fun.(*ast.SelectorExpr); ok {
							id := rootIdent(sel.X)
							if v := isPkgVar(id); v != nil && isRefType(v.Type()) {
								handled[id] = true
								add(sharedSite{"pkgvar-refarg", v.Name(), where, "recv." + sel.Sel.Name})
							} else if v != nil {
								// a method called on a package-level value (an atomic, a mutex, a sync.Map, a
								// struct with pointer-receiver methods): the call may write it
								if selInfo, ok := p.TypesInfo.Selections[sel]; ok && selInfo.Kind() == types.MethodVal {
									if fn, ok := selInfo.Obj().(*types.Func); ok {
										if sig, ok := fn.Type().(*types.Signature); ok && sig.Recv() != nil {
											if _, ptr := sig.Recv().Type().(*types.Pointer); ptr {
												handled[id] = true
												add(sharedSite{"pkgvar-method", v.Name(), where, "recv." + sel.Sel.Name})
											}
										}
									}
								}
							}
						}
					}
					return true
				})
				ast.Inspect(fd.Body, func(n ast.Node) bool {
					if id, ok := n.(*ast.Ident); ok && !handled[id] {
						if v := isPkgVar(id); v != nil {
							k := "pkgvar-read"
							if isRefType(v.Type()) {
								k = "pkgvar-refread"
							}
							add(sharedSite{k, v.Name(), "", ""})
						}
					}
					return true
				})
			}
		}
		sort.Slice(out[pname], func(i, j int) bool { return fmt.Sprint(out[pname][i]) < fmt.Sprint(out[pname][j]) })
	}
	return out, nil
}

func identPath(fset *token.FileSet, n ast.Node) string {
	var b strings.Builder
	ast.Inspect(n, func(x ast.Node) bool {
		switch t := x.(type) {
		case *ast.Ident:
			b.WriteString(t.Name + ".")
		}
		return true
	})
	return strings.TrimSuffix(b.String(), ".")
}

// calleeText keeps the package / method name of a callee and drops receivers that depend on the spec.
func calleeText(s string) string {
	parts := strings.Split(s, ".")
	if len(parts) > 2 {
		parts = parts[len(parts)-2:]
	}
	return strings.Join(parts, ".")
}

func fieldPath(e ast.Expr) string {
	switch t := e.(type) {
	case *ast.SelectorExpr:
		return fieldPath(t.X) + "." + t.Sel.Name
	case *ast.IndexExpr:
		return fieldPath(t.X) + "[]"
	case *ast.StarExpr:
		return "*" + fieldPath(t.X)
	case *ast.ParenExpr:
		return fieldPath(t.X)
	case *ast.Ident:
		return "recv"
	}
	return "?"
}
