package main

// Facet F-ref (C18): every base spec is generated twice — as written (with $ref to component
// schemas / parameters / responses / headers and alias chains) and with every reference
// replaced by an inline copy of its target — and both generated packages are driven with the
// SAME raw requests, JSON documents and status codes. Observations are wire-level
// (dispatch / accept / reject with error class and name, re-encoded JSON, status, header
// names, content type), so Go type names do not matter.

import (
	"bufio"
	"encoding/json"
	"flag"
	"fmt"
	"os"
	"path/filepath"
	"strings"

	"verif/rt"
)

func init() { facets["reff"] = facetRef }

// plainTree: the schema is made of objects, arrays and leaves only, through every reference.
func (e *jsonEnv) plainTree(s *JS, depth int) bool {
	if s == nil {
		return true
	}
	if depth > 12 {
		return false
	}
	switch s.Kind {
	case "ref":
		return e.plainTree(e.comps[s.Ref], depth+1)
	case "obj":
		for _, p := range s.Props {
			if !e.plainTree(p.S, depth+1) {
				return false
			}
		}
		return e.plainTree(s.Addl, depth+1)
	case "arr":
		return e.plainTree(s.Items, depth+1)
	case "allOf", "oneOf", "any":
		return false
	}
	return true
}

// inlineRefs replaces every {"$ref": "#/components/..."} node by a deep copy of its target,
// recursively. Members of a oneOf that declares a discriminator are left alone (their names are
// the discriminator values).
func inlineRefs(root map[string]any, node any, depth int, underDisc bool) any {
	if depth > 40 {
		return node
	}
	switch t := node.(type) {
	case map[string]any:
		if ref, ok := t["$ref"].(string); ok && strings.HasPrefix(ref, "#/components/") && !underDisc {
			parts := strings.Split(strings.TrimPrefix(ref, "#/"), "/")
			var cur any = root
			for _, p := range parts {
				m, ok := cur.(map[string]any)
				if !ok {
					return node
				}
				cur = m[p]
			}
			if cur == nil {
				return node
			}
			return inlineRefs(root, deepCopy(cur), depth+1, false)
		}
		out := map[string]any{}
		_, hasDisc := t["discriminator"]
		for k, v := range t {
			if k == "oneOf" && hasDisc {
				out[k] = inlineRefs(root, v, depth+1, true)
			} else if k == "discriminator" || k == "securitySchemes" {
				out[k] = v
			} else {
				out[k] = inlineRefs(root, v, depth+1, false)
			}
		}
		return out
	case []any:
		out := make([]any, len(t))
		for i, v := range t {
			out[i] = inlineRefs(root, v, depth+1, underDisc)
		}
		return out
	}
	return node
}

// inlinedSpec inlines every reference; with componentsOnly the references from paths to the
// top-level components stay (the bodies keep their names: goag names helper types hoisted from
// anonymous bodies by property name only, KF-C01-nameCollision) and only the references between
// components are inlined.
func inlinedSpec(spec []byte, componentsOnly bool) []byte {
	var root map[string]any
	json.Unmarshal(spec, &root)
	out := map[string]any{}
	for k, v := range root {
		if k != "components" && componentsOnly {
			out[k] = v
		} else {
			out[k] = inlineRefs(root, v, 0, false)
		}
	}
	bs, _ := json.Marshal(out)
	return bs
}

func countRefs(spec []byte) int { return strings.Count(string(spec), `"$ref"`) }

func facetRef(args []string) error {
	fs := flag.NewFlagSet("reff", flag.ExitOnError)
	seed := fs.Uint64("seed", 1, "seed")
	tier := fs.String("tier", "quick", "quick|thorough")
	out := fs.String("out", "", "output dir")
	work := fs.String("work", "", "scratch dir")
	shard := fs.Int("shard", 0, "shard index")
	fs.Int("nshards", 1, "number of shards")
	fs.Parse(args)
	rng := NewPRNG(*seed*7919 + uint64(*shard)*271 + 3)
	n := 4
	if *tier == "thorough" {
		n = 16
	}
	type pair struct {
		kind     string
		ref, inl GenSpec
		rs       routeSpec
		env      *jsonEnv
		resp     respSpec
	}
	var pairs []pair
	for i := 0; i < n; i++ {
		base := fmt.Sprintf("x%02d_%03d", *shard, i)
		switch i % 3 {
		case 0:
			rs := genRouteSpec(rng.Fork(), base+"r", false, true)
			rs.Gen.Client = false
			// always present: array parameters whose ITEMS are given by reference to a primitive component
			// (element-wise parsing goes through another path of the generator than inline items do)
			{
				var doc map[string]any
				json.Unmarshal(rs.Gen.Spec, &doc)
				comps, _ := doc["components"].(map[string]any)
				if comps == nil {
					comps = map[string]any{}
					doc["components"] = comps
				}
				schemas, _ := comps["schemas"].(map[string]any)
				if schemas == nil {
					schemas = map[string]any{}
					comps["schemas"] = schemas
				}
				schemas["ItemStr"] = map[string]any{"type": "string"}
				schemas["ItemInt"] = map[string]any{"type": "integer"}
				t0 := rs.Templates[0]
				if pi, ok := doc["paths"].(map[string]any)[t0].(map[string]any); ok {
					ps, _ := pi["parameters"].([]any)
					ps = append(ps, map[string]any{"in": "query", "name": "tagz", "schema": map[string]any{"type": "array", "items": map[string]any{"$ref": "#/components/schemas/ItemStr"}}},
						map[string]any{"in": "header", "name": "X-Numz", "schema": map[string]any{"type": "array", "items": map[string]any{"$ref": "#/components/schemas/ItemInt"}}})
					pi["parameters"] = ps
					rs.Params[t0] = append(rs.Params[t0], paramDef{Loc: "query", Name: "tagz", Tag: "str", Array: true}, paramDef{Loc: "header", Name: "X-Numz", Tag: "int", Array: true})
					rs.Gen.Spec, _ = json.Marshal(doc)
				}
			}
			g2 := rs.Gen
			g2.Name = base + "i"
			g2.Spec = inlinedSpec(rs.Gen.Spec, false)
			pairs = append(pairs, pair{kind: "params", ref: rs.Gen, inl: g2, rs: rs})
		case 1:
			env := genJSONEnv(rng.Fork(), jsonFeats{addl: true, inlineObj: true, allOf: true, tailAddl: true, nullablePrim: true, oneOf: true, anyType: true})
			g := GenSpec{Name: base + "r", Spec: env.specDoc(), Ext: "json", DoNotEdit: true}
			g2 := g
			g2.Name = base + "i"
			g2.Spec = inlinedSpec(g.Spec, i%2 == 1)
			pairs = append(pairs, pair{kind: "json", ref: g, inl: g2, env: env})
		default:
			rsp := genRespSpec(rng.Fork(), base+"r")
			for rsp.MustReject {
				rsp = genRespSpec(rng.Fork(), base+"r")
			}
			g2 := rsp.Gen
			g2.Name = base + "i"
			g2.Spec = inlinedSpec(rsp.Gen.Spec, false)
			pairs = append(pairs, pair{kind: "resp", ref: rsp.Gen, inl: g2, resp: rsp})
		}
	}
	if *shard%4 == 2 {
		// fixed pair: lists of primitives as components referenced by properties vs. the same lists
		// written inline (goag decodes the former element by element, the latter as a whole)
		env := &jsonEnv{comps: map[string]*JS{}}
		env.comps["Quantities"] = &JS{Kind: "arr", Items: &JS{Kind: "int"}}
		env.comps["Ratios"] = &JS{Kind: "arr", Items: &JS{Kind: "f32"}}
		env.comps["Stamps"] = &JS{Kind: "arr", Items: &JS{Kind: "time", Nullable: true}}
		env.comps["Order"] = &JS{Kind: "obj", Props: []JProp{{Name: "n", S: &JS{Kind: "int32"}}, {Name: "quantities", Req: true, S: &JS{Kind: "ref", Ref: "Quantities"}},
			{Name: "ratios", S: &JS{Kind: "ref", Ref: "Ratios"}}, {Name: "stamps", S: &JS{Kind: "ref", Ref: "Stamps"}}}}
		env.names = []string{"Order", "Quantities", "Ratios", "Stamps"}
		g := GenSpec{Name: fmt.Sprintf("x%02d_lr", *shard), Spec: env.specDoc(), Ext: "json", DoNotEdit: true}
		g2 := g
		g2.Name = fmt.Sprintf("x%02d_li", *shard)
		g2.Spec = inlinedSpec(g.Spec, false)
		pairs = append(pairs, pair{kind: "json", ref: g, inl: g2, env: env})
	}
	if *shard%4 == 3 {
		// fixed pair: two schema components whose names differ only in spelling convention (ZipCode an
		// integer, zip_code a string); a parameter refers to the one that sorts later. The reference
		// must mean that component, as its inline copy does
		doc := map[string]any{"openapi": "3.0.3", "info": map[string]any{"title": "t", "version": "1"},
			"paths": map[string]any{"/search": map[string]any{"get": map[string]any{
				"parameters": []any{map[string]any{"in": "query", "name": "zipref", "schema": map[string]any{"$ref": "#/components/schemas/zip_code"}},
					map[string]any{"in": "header", "name": "X-Zip", "schema": map[string]any{"$ref": "#/components/schemas/ZipCode"}}},
				"responses": map[string]any{"200": map[string]any{"description": "ok"}}}}},
			"components": map[string]any{"schemas": map[string]any{"ZipCode": map[string]any{"type": "integer"}, "zip_code": map[string]any{"type": "string"}}}}
		bs, _ := json.Marshal(doc)
		rs := routeSpec{Gen: GenSpec{Name: fmt.Sprintf("x%02d_zr", *shard), Spec: bs, Ext: "json", DoNotEdit: true}, Templates: []string{"/search"},
			Params: map[string][]paramDef{"/search": {{Loc: "query", Name: "zipref", Tag: "str"}, {Loc: "header", Name: "X-Zip", Tag: "int"}}}}
		g2 := rs.Gen
		g2.Name = fmt.Sprintf("x%02d_zi", *shard)
		g2.Spec = inlinedSpec(rs.Gen.Spec, false)
		pairs = append(pairs, pair{kind: "params", ref: rs.Gen, inl: g2, rs: rs})
	}
	if *shard%4 == 1 {
		// a request body given by reference to components.requestBodies, with several media types in
		// every order around application/json, vs. the same body written inline
		others := [][]string{{"application/cbor"}, {"text/plain"}, {"application/cbor", "text/plain"}, {"*/*"}, {}}[(*shard/4)%5]
		content := map[string]any{"application/json": map[string]any{"schema": map[string]any{"type": "array", "items": map[string]any{"$ref": "#/components/schemas/Pet"}}}}
		for _, mt := range others {
			content[mt] = map[string]any{"schema": map[string]any{"type": "string", "format": "binary"}}
		}
		doc := map[string]any{"openapi": "3.0.3", "info": map[string]any{"title": "t", "version": "1"},
			"paths": map[string]any{"/batch": map[string]any{"post": map[string]any{"requestBody": map[string]any{"$ref": "#/components/requestBodies/Batch"},
				"responses": map[string]any{"200": map[string]any{"description": "ok"}}}}},
			"components": map[string]any{"requestBodies": map[string]any{"Batch": map[string]any{"content": content}},
				"schemas": map[string]any{"Pet": map[string]any{"type": "object", "required": []any{"id"}, "properties": map[string]any{"id": map[string]any{"type": "integer"}, "name": map[string]any{"type": "string"}}}}}}
		bs, _ := json.Marshal(doc)
		g := GenSpec{Name: fmt.Sprintf("x%02d_qr", *shard), Spec: bs, Ext: "json", DoNotEdit: true}
		// the inline form: the same body written at the operation, the component gone
		doc["paths"] = map[string]any{"/batch": map[string]any{"post": map[string]any{"requestBody": map[string]any{"content": content},
			"responses": map[string]any{"200": map[string]any{"description": "ok"}}}}}
		delete(doc["components"].(map[string]any), "requestBodies")
		bs2, _ := json.Marshal(doc)
		g2 := g
		g2.Name = fmt.Sprintf("x%02d_qi", *shard)
		g2.Spec = bs2
		pairs = append(pairs, pair{kind: "reqbody", ref: g, inl: g2})
	}
	if *shard == 0 {
		// fixed witnesses of KF-C01-nameCollision / KF-C01-hoistedRawName: helper types hoisted from
		// an anonymous (inlined) request / response body are named after the property alone
		for wi, prop := range []string{"note", "x-val"} {
			env := &jsonEnv{comps: map[string]*JS{}}
			env.comps["Pet"] = &JS{Kind: "obj", Props: []JProp{{Name: "id", Req: true, S: &JS{Kind: "int"}},
				{Name: prop, S: &JS{Kind: "arr", Items: &JS{Kind: "obj", Props: []JProp{{Name: "a", S: &JS{Kind: "int"}}}}}}}}
			env.comps["Cat"] = env.comps["Pet"]
			env.names = []string{"Cat", "Pet"}
			g := GenSpec{Name: fmt.Sprintf("x00_k%dr", wi), Spec: env.specDoc(), Ext: "json", DoNotEdit: true}
			g2 := g
			g2.Name = fmt.Sprintf("x00_k%di", wi)
			g2.Spec = inlinedSpec(g.Spec, false)
			pairs = append(pairs, pair{kind: "json", ref: g, inl: g2, env: env})
		}
	}
	var results []GenResult
	for _, p := range pairs {
		results = append(results, runGoag(*work, p.ref), runGoag(*work, p.inl))
	}
	bin, err := buildBatch(*work, results)
	if err != nil {
		return err
	}
	gf, _ := os.Create(filepath.Join(*out, "gen.tsv"))
	var cases []rt.Case
	stats := map[string]int{}
	type pairCase struct{ refID, inlID, kind string }
	var pcs []pairCase
	for i, p := range pairs {
		r1, r2 := results[2*i], results[2*i+1]
		fmt.Fprintf(gf, "%s\t%s\t%s\t%s\t%s\t%s\t%s\t%d\n", p.ref.Name, p.kind, r1.Outcome+"/"+r2.Outcome, hexs(firstLine(r1.Detail)+" | "+firstLine(r2.Detail)), hexs(brokenOrFmt(r1)+" | "+brokenOrFmt(r2)), hexs(string(p.ref.Spec)), hexs(string(p.inl.Spec)), countRefs(p.ref.Spec))
		ok1 := r1.Outcome == "ok" && r1.Broken == ""
		ok2 := r2.Outcome == "ok" && r2.Broken == ""
		if !ok1 || !ok2 {
			stats["pair_not_driven"]++
			continue
		}
		stats["pairs"]++
		crng := rng.Fork()
		add := func(c rt.Case, kind string) {
			c1, c2 := c, c
			c1.Pkg, c1.ID = p.ref.Name, p.ref.Name+"#"+c.ID
			c2.Pkg, c2.ID = p.inl.Name, p.inl.Name+"#"+c.ID
			cases = append(cases, c1, c2)
			pcs = append(pcs, pairCase{c1.ID, c2.ID, kind})
		}
		switch p.kind {
		case "params":
			k := 0
			for _, t := range p.rs.Templates {
				defs := p.rs.Params[t]
				for j := 0; j < 25; j++ {
					segs := strings.Split(t, "/")[1:]
					for x, sg := range segs {
						if strings.HasPrefix(sg, "{") {
							segs[x] = Pick(crng, []string{"a", "7", "true", "1", "", "x y"})
						}
					}
					c := rt.Case{Op: "serve", ID: fmt.Sprintf("q%d", k), Path: p.rs.Base + "/" + strings.Join(segs, "/"),
						Method: Pick(crng, []string{"GET", "POST", "PUT", "DELETE", "PATCH", "HEAD", "OPTIONS"}), Mws: 1, Cors: true}
					k++
					var qparts []string
					for _, d := range defs {
						card := []int{0, 1, 1, 1, 2, 3}[crng.Intn(6)]
						for x := 0; x < card; x++ {
							lx := Pick(crng, lexemes[d.Tag])
							if d.Loc == "query" {
								qparts = append(qparts, d.Name+"="+strings.ReplaceAll(strings.ReplaceAll(lx, " ", "+"), "&", "%26"))
							} else {
								c.Headers = append(c.Headers, [2]string{d.Name, lx})
							}
						}
					}
					c.Query = strings.Join(qparts, "&")
					add(c, "serve")
				}
			}
		case "reqbody":
			for bi, b := range []string{`[{"id":1,"name":"rex"}]`, `[]`, `[{"name":"no id"}]`, `[{"id":"x"}]`, `{"id":1}`, `[{"id":`, ``, `null`, `not json`} {
				b := b
				add(rt.Case{Op: "serve", ID: fmt.Sprintf("b%d", bi), Method: "POST", Path: "/batch", Body: &b, Mws: 1,
					Headers: [][2]string{{"Content-Type", "application/json"}}}, "serve")
			}
		case "json":
			k := 0
			for _, tn := range p.env.names {
				for _, dc := range p.env.docCasesFor(crng, p.env.comps[tn], 6) {
					a, _ := json.Marshal(map[string]any{"type": tn, "doc": dc.doc})
					add(rt.Case{Op: "jsondec", ID: fmt.Sprintf("d%d", k), Args: a}, "jsondec")
					k++
				}
			}
			// values a handler builds by hand (nil slices, unset optionals, nulls) encoded by both
			// packages: only types whose Go shape is the same with and without references (objects,
			// arrays and leaves all the way down; a composition is embedded in one form and flattened in
			// the other, so one value description cannot build both)
			ek := 0
			for _, tn := range p.env.names {
				if !p.env.plainTree(p.env.comps[tn], 0) {
					continue
				}
				for x := 0; x < 5; x++ {
					v := p.env.genVal(crng, p.env.comps[tn], 0)
					a, _ := json.Marshal(map[string]any{"type": tn, "val": v})
					add(rt.Case{Op: "jsonenc", ID: fmt.Sprintf("e%d", ek), Args: a}, "jsonenc")
					ek++
				}
			}
		case "resp":
			for k, op := range p.resp.Ops {
				a, _ := json.Marshal(map[string]any{"method": op.Method, "path": op.Path, "seed": 77})
				add(rt.Case{Op: "respinfo", ID: fmt.Sprintf("i%d", k), Args: a}, "respinfo")
				for _, st := range []int{200, 201, 204, 299, 400, 404, 418, 500} {
					a, _ := json.Marshal(map[string]any{"method": op.Method, "path": op.Path, "seed": 5, "status": st})
					add(rt.Case{Op: "clientstatus", ID: fmt.Sprintf("s%d.%d", k, st), Args: a}, "clientstatus")
				}
			}
		}
	}
	gf.Close()
	obs, rerr := runBatch(bin, cases)
	of, _ := os.Create(filepath.Join(*out, "impl.tsv"))
	ow := bufio.NewWriterSize(of, 1<<20)
	for _, pc := range pcs {
		fmt.Fprintf(ow, "%s\t%s\t%s\t%s\n", pc.refID, pc.kind, obs[pc.refID], obs[pc.inlID])
	}
	ow.Flush()
	of.Close()
	stats["case_pairs"] = len(pcs)
	meta, _ := json.Marshal(map[string]any{"stats": stats})
	os.WriteFile(filepath.Join(*out, "meta.json"), meta, 0o644)
	return rerr
}
