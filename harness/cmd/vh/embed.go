package main

// Facet F-embed (C13, embedding half): arbitrary spec-file contents through the real
// generator; the observation is the constant value of SpecFile read back from the written
// spec_file.go with go/parser + go/types (go/constant), plus the literal chain of the
// constant's initialiser (so the model's encoder is compared text for text, not only by value).

import (
	"bufio"
	"bytes"
	"encoding/hex"
	"encoding/json"
	"flag"
	"fmt"
	"go/ast"
	"go/constant"
	"go/parser"
	"go/token"
	"go/types"
	"os"
	"path/filepath"
	"runtime/debug"
	"sort"
	"strings"
	"unicode/utf8"

	"github.com/getkin/kin-openapi/openapi3"
	"github.com/ghodss/yaml"
	"github.com/vkd/goag"
	"github.com/vkd/goag/generator"
)

func init() { facets["embed"] = facetEmbed }

type embedCase struct {
	ID      string
	Kind    string // short, fixture-yaml, fixture-json, fixture-crlf, fixture-notrail, fixture-bom, random, malformed
	Content []byte
	ViaFile bool // through GenerateFile (loader sees the content) or Generate with a fixed parsed spec
	Ext     string
}

type embedObs struct {
	Expr string // hex of literal chain joined by "+", or ""
	Out  string // v:<hex> | err:<class> | broken:<msg>
}

const minimalSpec = `{"openapi":"3.0.0","info":{"title":"t","version":"1"},"paths":{"/a":{"get":{"responses":{"200":{"description":"ok"}}}}}}`

func facetEmbed(args []string) error {
	fs := flag.NewFlagSet("embed", flag.ExitOnError)
	seed := fs.Uint64("seed", 1, "seed")
	tier := fs.String("tier", "quick", "quick|thorough")
	out := fs.String("out", "", "output dir")
	work := fs.String("work", "", "scratch dir")
	shard := fs.Int("shard", 0, "shard index")
	nshards := fs.Int("nshards", 1, "number of shards")
	fs.Parse(args)
	if *out == "" || *work == "" {
		return fmt.Errorf("need -out and -work")
	}
	rng := NewPRNG(*seed)

	var cases []embedCase
	add := func(kind string, content []byte, viaFile bool, ext string) {
		cases = append(cases, embedCase{ID: fmt.Sprintf("e%05d", len(cases)), Kind: kind, Content: content, ViaFile: viaFile, Ext: ext})
	}

	// 1. exhaustive short strings over the 8-symbol alphabet of the property
	// ("{" and "%": text that a later whole-file pass or a format verb could mistake for its own)
	alpha := []string{"`", "\"", "\\", "\n", "\r", "$", "a", "\uFEFF", "{", "%"}
	var gen func(prefix string, n int, f func(string))
	gen = func(prefix string, n int, f func(string)) {
		if n == 0 {
			f(prefix)
			return
		}
		for _, a := range alpha {
			gen(prefix+a, n-1, f)
		}
	}
	maxExh := 3
	if *tier == "thorough" {
		maxExh = 4
	}
	for n := 0; n <= maxExh; n++ {
		gen("", n, func(s string) { add("short", []byte(s), false, "yaml") })
	}
	if *tier != "thorough" {
		// a seeded sample of the length-4 and length-5..8 layers
		for i := 0; i < 500; i++ {
			n := 4 + rng.Intn(5)
			var sb strings.Builder
			for j := 0; j < n; j++ {
				sb.WriteString(Pick(rng, alpha))
			}
			add("short", []byte(sb.String()), false, "yaml")
		}
	}

	// 2. real specs in several byte forms, through the loader
	fixtures, _ := filepath.Glob("/repo/tests/*/openapi.yaml")
	sort.Strings(fixtures)
	corpus, _ := filepath.Glob("corpus/embed/*")
	sort.Strings(corpus)
	fixtures = append(corpus, fixtures...)
	nfix := len(fixtures)
	if *tier != "thorough" && nfix > 14 {
		// rotate through fixtures by seed
		start := int(*seed) % nfix
		var sel []string
		for i := 0; i < 14; i++ {
			sel = append(sel, fixtures[(start+i*3)%nfix])
		}
		fixtures = sel
	}
	for _, f := range fixtures {
		bs, err := os.ReadFile(f)
		if err != nil {
			continue
		}
		ext := strings.TrimPrefix(filepath.Ext(f), ".")
		add("fixture-yaml", bs, true, ext)
		add("fixture-crlf", []byte(strings.ReplaceAll(string(bs), "\n", "\r\n")), true, ext)
		add("fixture-notrail", []byte(strings.TrimRight(string(bs), "\n")), true, ext)
		add("fixture-bom", append([]byte("\uFEFF"), bs...), true, ext)
		if js, err := yaml.YAMLToJSON(bs); err == nil {
			add("fixture-json", js, true, "json")
			// one-line JSON with a backslash-carrying description
			var m map[string]any
			if json.Unmarshal(js, &m) == nil {
				if info, ok := m["info"].(map[string]any); ok {
					info["description"] = "a\\d \"q\" `t` C:\\dir $x \uFEFF end"
					if js2, err := json.Marshal(m); err == nil {
						add("fixture-json-esc", js2, true, "json")
					}
				}
			}
		}
	}

	// 3. random text (valid UTF-8, NUL-free), both one-line and multi-line
	nrand := 300
	if *tier == "thorough" {
		nrand = 3000
	}
	pool := []string{"`", "\"", "\\", "\n", "\r", "$", "a", "\uFEFF", "b", " ", "\t", "'", "+", "é", "日", "\\n", "\\u", "{", "}", "%", "\x7f", "\x01", "😀", "\u2028"}
	for i := 0; i < nrand; i++ {
		n := rng.Intn(60)
		oneLine := rng.Bool()
		var sb strings.Builder
		for j := 0; j < n; j++ {
			s := Pick(rng, pool)
			if oneLine && s == "\n" {
				s = "\r"
			}
			sb.WriteString(s)
		}
		add("random", []byte(sb.String()), false, "yaml")
	}

	// 4. malformed stream: the loader must reject these (NUL, invalid UTF-8)
	base := "openapi: \"3.0.0\"\ninfo:\n  title: t\n  version: \"1\"\n  description: \"x%sy\"\npaths: {}\n"
	for _, bad := range []string{"\x00", "\xff", "\xc3\x28", "\xed\xa0\x80"} {
		add("malformed", []byte(fmt.Sprintf(base, bad)), true, "yaml")
	}

	// fixed parsed spec for the direct cases
	sw, err := openapi3.NewSwaggerLoader().LoadSwaggerFromData([]byte(minimalSpec))
	if err != nil {
		return fmt.Errorf("load minimal spec: %w", err)
	}

	// goag is not safe for concurrent use in one process (shared x/text Caser in
	// generator.Title), so a shard runs its cases sequentially; parallelism is by process.
	obs := make([]embedObs, len(cases))
	for i := range cases {
		if i%*nshards != *shard {
			continue
		}
		obs[i] = runEmbedCase(cases[i], sw, filepath.Join(*work, cases[i].ID))
	}

	cf, err := os.Create(filepath.Join(*out, "cases.tsv"))
	if err != nil {
		return err
	}
	of, err := os.Create(filepath.Join(*out, "impl.tsv"))
	if err != nil {
		return err
	}
	cw, ow := bufio.NewWriter(cf), bufio.NewWriter(of)
	kinds := map[string]int{}
	for i, c := range cases {
		if i%*nshards != *shard {
			continue
		}
		kinds[c.Kind]++
		if utf8.Valid(c.Content) {
			fmt.Fprintf(cw, "embed\t%s\t%s\n", c.ID, hex.EncodeToString(c.Content))
		} else {
			fmt.Fprintf(cw, "skip\t%s\t%s\n", c.ID, hex.EncodeToString(c.Content))
		}
		fmt.Fprintf(ow, "%s\t%s\t%s\t%s\t%s\n", c.ID, c.Kind, hex.EncodeToString(c.Content), obs[i].Expr, obs[i].Out)
	}
	cw.Flush()
	ow.Flush()
	cf.Close()
	of.Close()
	meta, _ := json.Marshal(map[string]any{"kinds": kinds, "cases": len(cases)})
	return os.WriteFile(filepath.Join(*out, "meta.json"), meta, 0o644)
}

func runEmbedCase(c embedCase, sw *openapi3.Swagger, dir string) (o embedObs) {
	defer func() {
		if r := recover(); r != nil {
			o = embedObs{Out: "panic:" + hex.EncodeToString([]byte(fmt.Sprint(r)))}
			fmt.Fprintf(os.Stderr, "PANIC %s: %v\n%s\n", c.ID, r, debug.Stack())
		}
		os.RemoveAll(dir)
	}()
	os.MkdirAll(dir, 0o755)
	g := goag.Generator{GenAPIHandler: true, DoNotEdit: true}
	var err error
	if !c.ViaFile && len(c.ID) > 0 && c.ID[len(c.ID)-1]%2 == 0 {
		// every other direct case regenerates in place over an earlier run whose content differs in
		// white space only (re-indented, re-wrapped, a blank line more): white space is content
		prior := append(bytes.ReplaceAll(bytes.ReplaceAll(c.Content, []byte(" "), []byte("\t")), []byte("\n"), []byte("\n\n")), '\n')
		func() {
			defer func() { recover() }()
			g.Generate(sw, filepath.Join(dir, "out"), "p", prior, "openapi.yaml", "", generator.Config{})
		}()
	}
	if c.ViaFile {
		specFile := filepath.Join(dir, "openapi."+c.Ext)
		if err = os.WriteFile(specFile, c.Content, 0o644); err != nil {
			return embedObs{Out: "err:write"}
		}
		err = g.GenerateFile(filepath.Join(dir, "out"), "p", specFile, "", filepath.Join(dir, ".goag.yaml"), "")
	} else {
		err = g.Generate(sw, filepath.Join(dir, "out"), "p", c.Content, "openapi.yaml", "", generator.Config{})
	}
	if err != nil {
		cls := "generate"
		if strings.Contains(err.Error(), "load spec") {
			cls = "load"
		}
		return embedObs{Out: "err:" + cls}
	}
	return readSpecConst(filepath.Join(dir, "out", "spec_file.go"))
}

// readSpecConst parses and type-checks spec_file.go alone and returns the literal chain
// and the constant value of SpecFile.
func readSpecConst(file string) embedObs {
	fset := token.NewFileSet()
	f, err := parser.ParseFile(fset, file, nil, parser.AllErrors)
	if err != nil {
		return embedObs{Out: "broken:" + hex.EncodeToString([]byte(firstLine(err.Error())))}
	}
	conf := types.Config{Error: func(error) {}}
	pkg, err := conf.Check("p", fset, []*ast.File{f}, nil)
	if err != nil {
		return embedObs{Out: "broken:" + hex.EncodeToString([]byte(firstLine(err.Error())))}
	}
	obj, ok := pkg.Scope().Lookup("SpecFile").(*types.Const)
	if !ok || obj.Val().Kind() != constant.String {
		return embedObs{Out: "broken:" + hex.EncodeToString([]byte("no string const SpecFile"))}
	}
	var lits []string
	okChain := true
	ast.Inspect(f, func(n ast.Node) bool {
		vs, ok := n.(*ast.ValueSpec)
		if !ok || len(vs.Names) != 1 || vs.Names[0].Name != "SpecFile" || len(vs.Values) != 1 {
			return true
		}
		var walk func(e ast.Expr)
		walk = func(e ast.Expr) {
			switch e := e.(type) {
			case *ast.BinaryExpr:
				if e.Op != token.ADD {
					okChain = false
				}
				walk(e.X)
				walk(e.Y)
			case *ast.BasicLit:
				lits = append(lits, e.Value)
			case *ast.ParenExpr:
				walk(e.X)
			default:
				okChain = false
			}
		}
		walk(vs.Values[0])
		return false
	})
	expr := ""
	if okChain {
		expr = hex.EncodeToString([]byte(strings.Join(lits, "+")))
	}
	return embedObs{Expr: expr, Out: "v:" + hex.EncodeToString([]byte(constant.StringVal(obj.Val())))}
}

func firstLine(s string) string {
	if i := strings.IndexByte(s, '\n'); i >= 0 {
		return s[:i]
	}
	return s
}
