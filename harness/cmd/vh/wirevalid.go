package main

// The second sentence of C09: the request the generated client puts on the wire is valid for the
// operation under an OpenAPI request validator that is not goag's: kin-openapi's openapi3filter
// reads the source spec on its own and judges the recorded request (method, escaped path, raw query,
// headers, body). The route is given (operation of the case), so no server matching is involved; the
// path parameter texts are the unescaped request-path segments at the template's variable positions
// beneath the base path.

import (
	"bytes"
	"context"
	"encoding/hex"
	"fmt"
	"net/http"
	"net/url"
	"regexp"
	"strings"

	"github.com/getkin/kin-openapi/openapi3"
	"github.com/getkin/kin-openapi/openapi3filter"
)

var emptyRe = regexp.MustCompile(`^Parameter '([^']*)' in (query|header|path) `)

var wireRe = regexp.MustCompile(`^([A-Z]+) ([0-9a-f]*) \?([0-9a-f]*) H\[([^\]]*)\] B:([0-9a-f]*)$`)

func unhexs(s string) string {
	b, _ := hex.DecodeString(s)
	return string(b)
}

type wireValidator struct {
	doc *openapi3.Swagger
	err error
}

func newWireValidator(spec []byte) *wireValidator {
	doc, err := openapi3.NewSwaggerLoader().LoadSwaggerFromData(spec)
	if err == nil {
		err = doc.Validate(context.Background())
	}
	return &wireValidator{doc: doc, err: err}
}

// validate returns "ok", "skip:<why>" or "invalid:<hex of the validator's complaint>".
func (w *wireValidator) validate(base, method, tpl, wire string, excludeBody bool) string {
	if w.err != nil {
		return "skip:spec-not-loaded-by-validator"
	}
	m := wireRe.FindStringSubmatch(wire)
	if m == nil {
		return "skip:no-wire"
	}
	if m[1] != method {
		return "invalid:" + hexs("method on the wire is "+m[1])
	}
	esc := unhexs(m[2])
	if !strings.HasPrefix(esc, base) {
		return "invalid:" + hexs("path not beneath the base path: "+esc)
	}
	rel := strings.Split(strings.TrimPrefix(esc, base), "/")
	tsegs := strings.Split(tpl, "/")
	if len(rel) != len(tsegs) {
		return "invalid:" + hexs(fmt.Sprintf("path %q has %d segments, template %q has %d", esc, len(rel), tpl, len(tsegs)))
	}
	pp := map[string]string{}
	for i, ts := range tsegs {
		seg, err := url.PathUnescape(rel[i])
		if err != nil {
			return "invalid:" + hexs("segment does not unescape: "+rel[i])
		}
		if strings.HasPrefix(ts, "{") {
			pp[ts[1:len(ts)-1]] = seg
		} else if seg != ts {
			return "invalid:" + hexs(fmt.Sprintf("literal segment %q sent as %q", ts, seg))
		}
	}
	pi := w.doc.Paths[tpl]
	if pi == nil || pi.GetOperation(method) == nil {
		return "skip:no-such-operation"
	}
	u := &url.URL{Path: "", RawQuery: unhexs(m[3])}
	if p, err := url.PathUnescape(esc); err == nil {
		u.Path, u.RawPath = p, esc
	}
	body := unhexs(m[5])
	req, err := http.NewRequest(method, "http://validator.invalid"+esc, bytes.NewReader([]byte(body)))
	if err != nil {
		return "invalid:" + hexs("request line: "+err.Error())
	}
	req.URL.RawQuery = u.RawQuery
	req.Header = http.Header{}
	if m[4] != "" {
		for _, kv := range strings.Split(m[4], ",") {
			p := strings.SplitN(kv, "=", 2)
			if len(p) == 2 {
				req.Header.Add(unhexs(p[0]), unhexs(p[1]))
			}
		}
	}
	in := &openapi3filter.RequestValidationInput{Request: req, PathParams: pp,
		Route:   &openapi3filter.Route{Swagger: w.doc, Path: tpl, PathItem: pi, Method: method, Operation: pi.GetOperation(method)},
		Options: &openapi3filter.Options{ExcludeRequestBody: excludeBody, AuthenticationFunc: func(context.Context, *openapi3filter.AuthenticationInput) error { return nil }}}
	if err := openapi3filter.ValidateRequest(context.Background(), in); err != nil {
		msg := firstLine(err.Error())
		// this validator reads an empty text ("flag=", an empty array item) as no value at all (OpenAPI's
		// allowEmptyValue defaults to false); the caller did express the empty string, the key is on the
		// wire: outside the domain in which the validator's verdict says anything about the client
		if pm := emptyRe.FindStringSubmatch(msg); pm != nil && (strings.Contains(msg, "must have a value") || strings.Contains(msg, "not nullable")) {
			var vals []string
			switch pm[2] {
			case "query":
				vals = req.URL.Query()[pm[1]]
			case "header":
				for _, v := range req.Header.Values(pm[1]) {
					vals = append(vals, strings.Split(v, ",")...)
				}
			case "path":
				vals = []string{pp[pm[1]]}
			}
			for _, v := range vals {
				if v == "" {
					return "skip:empty-text-read-as-absent"
				}
			}
		}
		return "invalid:" + hexs(msg)
	}
	return "ok"
}
