package main

// Facet F-conc (C20): generated packages are compiled with the race detector; one API value per
// configuration serves many distinct requests from several goroutines at once, one generated
// client sends many seeded calls at once. Every request's observation (middleware / auth /
// handler / Parse() trace, response status, headers, body; client: sent params, parsed params,
// response sent, response received) must equal its observation when served alone, and the race
// detector must stay silent.

import (
	"encoding/json"
	"flag"
	"fmt"
	"net/url"
	"os"
	"path/filepath"
	"strings"

	"github.com/vkd/goag/generator"
	"verif/rt"
)

func init() { facets["conc"] = facetConc }

func facetConc(args []string) error {
	fs := flag.NewFlagSet("conc", flag.ExitOnError)
	seed := fs.Uint64("seed", 1, "seed")
	tier := fs.String("tier", "quick", "quick|thorough")
	out := fs.String("out", "", "output dir")
	work := fs.String("work", "", "scratch dir")
	shard := fs.Int("shard", 0, "shard index")
	fs.Int("nshards", 1, "number of shards")
	fs.Parse(args)
	rng := NewPRNG(*seed*48271 + uint64(*shard)*613 + 5)
	n, workers, rounds := 3, 8, 6
	if *tier == "thorough" {
		n, workers, rounds = 8, 16, 20
	}
	type item struct {
		kind string
		rs   routeSpec
		rsp  respSpec
	}
	var items []item
	var results []GenResult
	for i := 0; i < n; i++ {
		base := fmt.Sprintf("c%02d_%03d", *shard, i)
		switch i % 3 {
		case 0:
			rs := genRouteSpec(rng.Fork(), base, false, true)
			items = append(items, item{kind: "params", rs: rs})
			results = append(results, runGoag(*work, rs.Gen))
		case 1:
			rs := genRouteSpec(rng.Fork(), base, true, false)
			items = append(items, item{kind: "sec", rs: rs})
			results = append(results, runGoag(*work, rs.Gen))
		default:
			rsp := genRespSpec(rng.Fork(), base)
			for rsp.MustReject {
				rsp = genRespSpec(rng.Fork(), base)
			}
			items = append(items, item{kind: "client", rsp: rsp})
			results = append(results, runGoag(*work, rsp.Gen))
		}
	}
	// one package per shard from the JSON corpus (maps, allOf, oneOf with and without discriminator, untyped
	// values): not driven concurrently here, but its code is part of what the shared-state scan reads
	{
		env := genJSONEnv(rng.Fork(), jsonFeats{addl: true, inlineObj: true, allOf: true, nullablePrim: true, oneOf: true, anyType: true})
		g := GenSpec{Name: fmt.Sprintf("c%02d_json", *shard), Spec: env.specDoc(), Ext: "json", DoNotEdit: true, Client: *shard%2 == 0}
		items = append(items, item{kind: "scan-only", rs: routeSpec{Gen: g}})
		results = append(results, runGoag(*work, g))
	}
	buildRace = true
	raceLog := filepath.Join(*work, "race")
	batchEnv = []string{"GORACE=log_path=" + raceLog + " halt_on_error=0 exitcode=0 history_size=2", "GOMEMLIMIT=12GiB"}
	bin, err := buildBatch(*work, results)
	if err != nil {
		return err
	}
	gf, _ := os.Create(filepath.Join(*out, "gen.tsv"))
	var cases []rt.Case
	stats := map[string]int{}
	for i, it := range items {
		r := results[i]
		spec := it.rs.Gen.Spec
		if it.kind == "client" {
			spec = it.rsp.Gen.Spec
		}
		fmt.Fprintf(gf, "%s\t%s\t%s\t%s\t%s\t%s\n", r.Name, it.kind, r.Outcome, hexs(firstLine(r.Detail)), hexs(brokenOrFmt(r)), hexs(string(spec)))
		if r.Outcome != "ok" || r.Broken != "" {
			stats["spec_not_driven"]++
			continue
		}
		stats["specs_"+it.kind]++
		if it.kind == "scan-only" {
			continue
		}
		crng := rng.Fork()
		if it.kind == "client" {
			var calls []map[string]any
			for k, op := range it.rsp.Ops {
				for j := 0; j < 6; j++ {
					calls = append(calls, map[string]any{"method": op.Method, "path": op.Path, "seed": uint64(1000*k + j + 1), "resp": j, "status": 299})
				}
			}
			a, _ := json.Marshal(map[string]any{"calls": calls, "workers": workers, "rounds": rounds})
			cases = append(cases, rt.Case{Op: "concclient", Pkg: r.Name, ID: r.Name + "#client", Args: a})
			stats["distinct_requests"] += len(calls)
			continue
		}
		rs := it.rs
		schemeOf := map[string]string{}
		for sn, sd := range rs.Schemes {
			switch sd.Kind {
			case "bearer":
				schemeOf["SecurityBearerAuth"] = sn
			default:
				schemeOf["SecurityAPIKeyAuth"+generator.Title(sd.Name)] = sn
			}
		}
		// two configurations per package
		for cfgIdx := 0; cfgIdx < 2; cfgIdx++ {
			top := rt.Case{Op: "conc", Pkg: r.Name, ID: fmt.Sprintf("%s#cfg%d", r.Name, cfgIdx), Mws: 1 + cfgIdx*2, NF: cfgIdx == 1, Spec: true, Cors: true, Alias: schemeOf}
			if rs.HasSec {
				top.Auth = map[string][]string{}
				for field := range schemeOf {
					top.Auth[field] = []string{"good", "good2"}
				}
			}
			var reqs []rt.Case
			k := 0
			for _, t := range rs.Templates {
				for j := 0; j < 6; j++ {
					segs := strings.Split(t, "/")[1:]
					for x, sg := range segs {
						if strings.HasPrefix(sg, "{") {
							segs[x] = fmt.Sprintf("%d", 100+k) // a per-request tag in every path parameter
							if crng.Chance(1, 5) {
								segs[x] = Pick(crng, []string{"a", "true", "x y"})
							}
						}
					}
					c := rt.Case{ID: fmt.Sprintf("r%d", k), Path: rs.Base + "/" + strings.Join(segs, "/"),
						Method: Pick(crng, []string{"GET", "POST", "PUT", "DELETE", "OPTIONS"})}
					q := url.Values{}
					for _, d := range rs.Params[t] {
						card := []int{0, 1, 1, 1, 2}[crng.Intn(5)]
						for x := 0; x < card; x++ {
							lx := Pick(crng, lexemes[d.Tag])
							if d.Loc == "query" {
								q.Add(d.Name, lx)
							} else {
								c.Headers = append(c.Headers, [2]string{d.Name, lx})
							}
						}
					}
					for _, sd := range rs.Schemes {
						cred := Pick(crng, []string{"good", "good2", "bad", ""})
						if cred == "" {
							continue
						}
						switch sd.Kind {
						case "bearer":
							c.Headers = append(c.Headers, [2]string{"Authorization", "Bearer " + cred})
						case "header":
							c.Headers = append(c.Headers, [2]string{sd.Name, cred})
						case "query":
							q.Add(sd.Name, cred)
						}
					}
					c.Query = q.Encode()
					reqs = append(reqs, c)
					k++
				}
			}
			// the spec file and an unrouted path among them
			reqs = append(reqs, rt.Case{ID: "spec", Method: "GET", Path: rs.Base + "/" + rs.SpecName}, rt.Case{ID: "nf", Method: "GET", Path: "/definitely/not/there"})
			a, _ := json.Marshal(map[string]any{"reqs": reqs, "workers": workers, "rounds": rounds})
			top.Args = a
			cases = append(cases, top)
			stats["distinct_requests"] += len(reqs)
		}
	}
	gf.Close()
	// translator: shared-state access table of every generated package of this shard
	var okNames []string
	for _, r := range results {
		if r.Outcome == "ok" && r.Broken == "" {
			okNames = append(okNames, r.Name)
		}
	}
	facts, ferr := sharedFacts(*work, okNames)
	sf, _ := os.Create(filepath.Join(*out, "sites.tsv"))
	if ferr != nil {
		fmt.Fprintf(sf, "ERROR\t%s\n", hexs(ferr.Error()))
	}
	for pn, ss := range facts {
		for _, s := range ss {
			fmt.Fprintf(sf, "%s\t%s\t%s\t%s\t%s\n", pn, s.Kind, s.Var, s.Where, s.Expr)
		}
	}
	sf.Close()
	obs, rerr := runBatch(bin, cases)
	of, _ := os.Create(filepath.Join(*out, "impl.tsv"))
	for _, c := range cases {
		fmt.Fprintf(of, "%s\t%s\t%s\n", c.ID, c.Op, obs[c.ID])
	}
	of.Close()
	// race detector reports
	matches, _ := filepath.Glob(raceLog + ".*")
	var reports []string
	for _, m := range matches {
		bs, _ := os.ReadFile(m)
		for _, rep := range strings.Split(string(bs), "==================") {
			if strings.Contains(rep, "DATA RACE") {
				reports = append(reports, rep)
			}
		}
	}
	stats["race_reports"] = len(reports)
	rf, _ := os.Create(filepath.Join(*out, "races.tsv"))
	for i, rep := range reports {
		if i >= 20 {
			break
		}
		fmt.Fprintf(rf, "%s\n", hexs(rep))
	}
	rf.Close()
	meta, _ := json.Marshal(map[string]any{"stats": stats, "workers": workers, "rounds": rounds})
	os.WriteFile(filepath.Join(*out, "meta.json"), meta, 0o644)
	return rerr
}
