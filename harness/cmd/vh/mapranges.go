package main

// Translator for C12: regenerate, from /repo's current source, the table of every place
// where the generator's output could depend on something other than its inputs:
//   - every `range` statement over a map-typed operand,
//   - every call of maps.Keys / maps.Values,
//   - every read of the environment (os.Getenv/LookupEnv/Environ, time.Now, math/rand, crypto/rand),
//   - every `go` statement and select (scheduling).
// Each site is identified by (package, function, operand text, sha of the normalised
// statement text); the Lean side holds the reviewed classification of each site.

import (
	"bytes"
	"crypto/sha256"
	"encoding/hex"
	"flag"
	"fmt"
	"go/ast"
	"go/printer"
	"go/token"
	"go/types"
	"os"
	"path/filepath"
	"sort"
	"strings"

	"golang.org/x/tools/go/packages"
)

func init() { facets["mapranges"] = facetMapRanges }

type site struct {
	Pkg, Func, Kind, Operand, Hash, Text string
}

func facetMapRanges(args []string) error {
	fs := flag.NewFlagSet("mapranges", flag.ExitOnError)
	out := fs.String("out", "", "output dir")
	fs.String("work", "", "")
	fs.Uint64("seed", 1, "")
	fs.String("tier", "quick", "")
	shard := fs.Int("shard", 0, "")
	fs.Int("nshards", 1, "")
	fs.Parse(args)
	if *shard != 0 {
		return nil
	}
	cfg := &packages.Config{
		Mode: packages.NeedName | packages.NeedFiles | packages.NeedSyntax | packages.NeedTypes | packages.NeedTypesInfo | packages.NeedImports,
		Dir:  "/repo",
		Env:  append(os.Environ(), "GOFLAGS=-mod=mod", "GOPROXY=off", "GOSUMDB=off", "GOTOOLCHAIN=local"),
	}
	pkgs, err := packages.Load(cfg, "github.com/vkd/goag", "github.com/vkd/goag/generator", "github.com/vkd/goag/specification", "github.com/vkd/goag/cmd/goag")
	if err != nil {
		return err
	}
	var sites []site
	// which package-level functions are referenced anywhere in the loaded packages
	referenced := map[types.Object]bool{}
	for _, p := range pkgs {
		for _, obj := range p.TypesInfo.Uses {
			referenced[obj] = true
		}
	}
	for _, p := range pkgs {
		if len(p.Errors) > 0 {
			return fmt.Errorf("load %s: %v", p.PkgPath, p.Errors[0])
		}
		for _, f := range p.Syntax {
			fname := p.Fset.Position(f.Pos()).Filename
			if strings.HasSuffix(fname, "_test.go") || strings.Contains(filepath.Base(fname), "verif_hook") {
				continue
			}
			for _, d := range f.Decls {
				fd, ok := d.(*ast.FuncDecl)
				if !ok || fd.Body == nil {
					continue
				}
				fn := fd.Name.Name
				if fd.Recv != nil && len(fd.Recv.List) > 0 {
					fn = exprText(p.Fset, fd.Recv.List[0].Type) + "." + fn
				}
				short := strings.TrimPrefix(p.PkgPath, "github.com/vkd/")
				isRef := true
				if fd.Recv == nil && fd.Name.Name != "main" && fd.Name.Name != "init" {
					if obj := p.TypesInfo.Defs[fd.Name]; obj != nil && !referenced[obj] {
						isRef = false
					}
				}
				sortedVars := sortedSlices(fd.Body)
				ast.Inspect(fd.Body, func(n ast.Node) bool {
					switch n := n.(type) {
					case *ast.RangeStmt:
						t := p.TypesInfo.TypeOf(n.X)
						if t == nil {
							return true
						}
						if _, ok := t.Underlying().(*types.Map); ok {
							txt := exprText(p.Fset, n)
							kind := "range"
							if v := collectTarget(n); v != "" && sortedVars[v] {
								kind = "range-collect-sorted"
							}
							if !isRef {
								kind = "range-unreferenced"
							}
							sites = append(sites, site{short, fn, kind, exprText(p.Fset, n.X), sha(txt), txt})
						}
					case *ast.CallExpr:
						if sel, ok := n.Fun.(*ast.SelectorExpr); ok {
							if id, ok := sel.X.(*ast.Ident); ok {
								if pn, ok := p.TypesInfo.Uses[id].(*types.PkgName); ok {
									path := pn.Imported().Path()
									name := sel.Sel.Name
									kind := ""
									switch {
									case (path == "golang.org/x/exp/maps" || path == "maps") && (name == "Keys" || name == "Values"):
										kind = "mapsKeys"
									case path == "os" && (name == "Getenv" || name == "LookupEnv" || name == "Environ" || name == "Hostname" || name == "Getpid" || name == "Getwd"):
										kind = "env"
									case path == "time" && (name == "Now" || name == "Since"):
										kind = "env"
									case path == "math/rand" || path == "crypto/rand" || path == "math/rand/v2":
										kind = "env"
									}
									if kind == "mapsKeys" {
										if v := assignedVar(fd.Body, n); v != "" && sortedVars[v] {
											kind = "mapsKeys-sorted"
										}
									}
									if kind != "" {
										txt := exprText(p.Fset, n)
										sites = append(sites, site{short, fn, kind, txt, sha(txt), txt})
									}
								}
							}
						}
					case *ast.GoStmt:
						txt := exprText(p.Fset, n)
						sites = append(sites, site{short, fn, "go", "go", sha(txt), txt})
					case *ast.SelectStmt:
						txt := exprText(p.Fset, n)
						sites = append(sites, site{short, fn, "select", "select", sha(txt), txt})
					}
					return true
				})
			}
		}
	}
	sort.Slice(sites, func(i, j int) bool {
		a, b := sites[i], sites[j]
		return a.Pkg+a.Func+a.Operand+a.Hash < b.Pkg+b.Func+b.Operand+b.Hash
	})
	var b bytes.Buffer
	for _, s := range sites {
		fmt.Fprintf(&b, "%s\t%s\t%s\t%s\t%s\t%s\n", s.Pkg, s.Func, s.Kind, s.Operand, s.Hash, hex.EncodeToString([]byte(s.Text)))
	}
	return os.WriteFile(filepath.Join(*out, "sites.tsv"), b.Bytes(), 0o644)
}

func exprText(fset *token.FileSet, n ast.Node) string {
	var b bytes.Buffer
	printer.Fprint(&b, fset, n)
	// normalise whitespace so that re-indentation is not an edit
	return strings.Join(strings.Fields(b.String()), " ")
}

func sha(s string) string {
	h := sha256.Sum256([]byte(s))
	return hex.EncodeToString(h[:6])
}

// sortedSlices: variables passed to sort.Strings / sort.Slice / slices.Sort anywhere in the body.
func sortedSlices(body *ast.BlockStmt) map[string]bool {
	out := map[string]bool{}
	ast.Inspect(body, func(n ast.Node) bool {
		c, ok := n.(*ast.CallExpr)
		if !ok || len(c.Args) == 0 {
			return true
		}
		sel, ok := c.Fun.(*ast.SelectorExpr)
		if !ok {
			return true
		}
		pk, ok := sel.X.(*ast.Ident)
		if !ok {
			return true
		}
		// only the canonical total order on strings counts; a custom comparator (sort.Slice,
		// slices.SortFunc) may have ties and needs a reviewed entry
		if (pk.Name == "sort" && sel.Sel.Name == "Strings") || (pk.Name == "slices" && sel.Sel.Name == "Sort") {
			if id, ok := c.Args[0].(*ast.Ident); ok {
				out[id.Name] = true
			}
		}
		return true
	})
	return out
}

// collectTarget: for `for k := range m { x = append(x, k) }` returns "x".
func collectTarget(r *ast.RangeStmt) string {
	key, ok := r.Key.(*ast.Ident)
	if !ok || r.Value != nil || len(r.Body.List) != 1 {
		return ""
	}
	as, ok := r.Body.List[0].(*ast.AssignStmt)
	if !ok || len(as.Lhs) != 1 || len(as.Rhs) != 1 {
		return ""
	}
	lhs, ok := as.Lhs[0].(*ast.Ident)
	if !ok {
		return ""
	}
	call, ok := as.Rhs[0].(*ast.CallExpr)
	if !ok || len(call.Args) != 2 {
		return ""
	}
	if f, ok := call.Fun.(*ast.Ident); !ok || f.Name != "append" {
		return ""
	}
	a0, ok0 := call.Args[0].(*ast.Ident)
	a1, ok1 := call.Args[1].(*ast.Ident)
	if !ok0 || !ok1 || a0.Name != lhs.Name || a1.Name != key.Name {
		return ""
	}
	return lhs.Name
}

// assignedVar: the variable a call's result is assigned to (`keys := maps.Keys(m)`).
func assignedVar(body *ast.BlockStmt, call *ast.CallExpr) string {
	v := ""
	ast.Inspect(body, func(n ast.Node) bool {
		as, ok := n.(*ast.AssignStmt)
		if !ok || len(as.Lhs) != 1 || len(as.Rhs) != 1 || as.Rhs[0] != ast.Expr(call) {
			return true
		}
		if id, ok := as.Lhs[0].(*ast.Ident); ok {
			v = id.Name
		}
		return true
	})
	return v
}
