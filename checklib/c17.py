"""C17 — decided over the serve protocol (see servefam.py and DESIGN.md)."""
from . import servefam
from .c03 import TRUSTED

THEOREMS = ['Goag.Serve.cors_arm_exact', 'Goag.Serve.options_not_shadowed', 'Goag.Serve.cors_off', 'Goag.Serve.cors_requires_handler', 'Goag.Serve.dedupKeep_spec', 'Goag.Serve.sec_headers_fragment']
FACETS = [("route", [], "route"), ("route", ["-params"], "params"), ("route", ["-sec"], "sec")]
RULE = "same corpus as C03 (random well-formed template sets x methods x base forms x typed path parameters x cors x single-scheme security; enumerated + template-directed + near-miss request paths, random handler/middleware/authenticator configuration); non-trivial = not answered by the plain not-found path; distinct by (package, method, path, projected observation)"

EXPLANATION = 'the (methods, headers) argument lists received by API.CORSHandler and the status of OPTIONS requests are compared with the Lean plan (NewRouter accumulation) and with the reference (declared methods; canonicalised, de-duplicated header parameters plus the headers of the security schemes)'
ASSUMPTIONS = ['header / scheme names are ASCII token strings (canonKey model)', 'requirement alternatives name one scheme each (else KF-C11-arity)']


def check(ctx):
    return servefam.check_prop(ctx, "C17", ["GoagModel.Props.C17"], THEOREMS, FACETS, TRUSTED, rule=RULE,
                               explanation=EXPLANATION, assumptions=ASSUMPTIONS)
