"""C05 — decided over the serve protocol (see servefam.py and DESIGN.md)."""
from . import servefam
from .c03 import TRUSTED

THEOREMS = ["Goag.Serve.runProg_progOf", "Goag.Serve.refRun_ok_values"]
FACETS = [("route", [], "route")]
RULE = "same corpus as C03 (random well-formed template sets x methods x base forms x typed path parameters x cors x single-scheme security; enumerated + template-directed + near-miss request paths, random handler/middleware/authenticator configuration); non-trivial = not answered by the plain not-found path; distinct by (package, method, path, projected observation)"

EXPLANATION = "for every dispatched request the handler calls Parse(); the dumped Params.Path (positional, canonical) or the error (kind, location, name) is compared with the Lean model pathParse(pathProgOf template) and with the reference refPathParams (typed value of the segment at the parameter's own template position; empty or ill-typed segment => error naming that parameter)"
ASSUMPTIONS = ['path parameter types string / integer / int32 / int64 / boolean have closed-form lexical models (strconv.ParseInt / ParseBool), tied against strconv by the prim facet', 'requests are those the router dispatches (C03)', 'handlers installed; operations carry no security in the specs where Parse() is compared']


def check(ctx):
    return servefam.check_prop(ctx, "C05", ["GoagModel.Props.C05"], THEOREMS, FACETS, TRUSTED, rule=RULE,
                               explanation=EXPLANATION, assumptions=ASSUMPTIONS, level="proof")
