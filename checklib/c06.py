"""C06 — JSON codec (see jsonfam.py and DESIGN.md §4.6-4.8)."""
from . import jsonfam

THEOREMS = ["Goag.JsonM.encode_members_wellformed", "Goag.JsonM.writeItems_inv", "Goag.JsonM.old_writer_missing_comma", "Goag.JsonM.old_writer_leading_comma", "Goag.JsonM.fields_roundtrip", "Goag.JsonM.rt_roundtrip", "Goag.JsonM.rt_all", "Goag.JsonM.list_roundtrip", "Goag.JsonM.addl_roundtrip", "Goag.JsonM.toJMembers_names_declared", "Goag.JsonM.oneOf_disc_roundtrip", "Goag.JsonM.oneOf_probe_roundtrip", "Goag.JsonM.oneOf_probe_roundtrip_rt"]
RULE = "specs = random component sets: objects (1-4 properties of primitive / nullable primitive / $ref / inline array / inline object / untyped kind, required or optional, additionalProperties absent / true / schema), array components, allOf in every ref/inline member order, oneOf with discriminator (+mapping) and without; values = reflect-built from the schema (every optional subset, nulls where allowed, empty and nil collections, strings needing escapes, extreme numbers, zoned times, additional keys with quotes / backslashes / newlines / non-ASCII); documents = generated from the schema independently of goag (optional subsets, null where allowed, extra keys) + single-fault mutants (drop a required key, swap a value kind); distinct by (package, type, canonical JSON)"
EXPLANATION = "theorem rt_roundtrip: for leaf / array / object / map / allOf-of-plain-objects schemas of any depth, decode (toJ v) = v for every value whose leaves the library round-trips (the run reports how many of its values lie inside that fragment: inside_proved_fragment); encode: the bytes of the generated MarshalJSON must be valid JSON without duplicate keys and decode back (generated UnmarshalJSON) to an equal value; canonical JSON and canonical value dump are compared with the Lean model toJ / dumpVal"
ASSUMPTIONS = ["schemas non-recursive; property names free of quote / backslash / control characters", "oneOf without discriminator: every alternative has a required property of its own (unambiguous probing)",
               "nil slices only where goag converts them (object property, array component); not under Nullable, not nested in arrays or maps",
               "allOf members by reference do not declare additionalProperties (KF-C06-embeddedAddl) and do not share property names"]


def check(ctx):
    return jsonfam.check(ctx, "C06", ["GoagModel.Props.C06", "GoagModel.Props.C06b", "GoagModel.Props.C06c"], THEOREMS, RULE, EXPLANATION, ASSUMPTIONS, level="translation_validation")
