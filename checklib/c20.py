"""C20 — concurrent requests are isolated and race-free."""
import os
import re

from . import core

THEOREMS = ["Goag.Sched.isolation", "Goag.Sched.schedule_independent", "Goag.Sched.interleaving_eq_alone",
            "Goag.Sched.independent_of_others", "Goag.Sched.shared_write_breaks_isolation", "Goag.C20.no_mutation_of_allowed"]
TRUSTED = [
    "Lean 4.33.0 kernel; axioms propext, Classical.choice, Quot.sound only (audited by #print axioms)",
    "the model Goag.Sched (a shared environment no step changes + one local state per request) is an abstraction of the generated code's shape, not a translation of it; the tie is the regenerated site table",
    "translator `vh conc` / sharedFacts (go/packages + go/types over every generated package of the run): lists writes to and address-of package-level variables, reference-typed package-level variables handed to calls, assignments through the receiver of API / Client / ServeHTTP types, go and select statements; aliasing through locals, closures capturing shared values and mutation inside called library code are NOT tracked syntactically - they are what the race-detector search samples",
    "the two reviewed read-only callees (bytes.Equal on nullValueBs, ResponseWriter.Write on specFileBs)",
    "Go's race detector (-race) and memory model for the dynamic search; the user's handlers, hooks, middlewares and HTTPClient are outside the statement (the driver's own are written to share nothing)",
    "what a theorem cannot exhibit here: actual thread interleavings and the memory model - the runtime half of the property is explored by the search, not proved",
]


def q(s):
    return '"' + s.replace("\\", "\\\\").replace('"', '\\"') + '"'


def sites_obligation(ctx, sites):
    lean = os.path.join(ctx.scratch, "SharedSites.lean")
    with open(lean, "w") as f:
        f.write("import GoagModel.C20Known\nopen Goag.C20\n\ndef sites : List Site := [\n")
        f.write(",\n".join("  ⟨%s, %s, %s, %s⟩" % tuple(q(x) for x in s) for s in sites))
        f.write("\n]\n\n/-- regenerated obligation: no generated code path changes state shared between requests -/\n")
        f.write("theorem generated_code_shares_nothing : allAllowed sites = true := by decide\n")
        f.write("#print axioms generated_code_shares_nothing\n")
    rc, o = core.run(["lake", "env", "lean", lean], cwd=core.LEAN, timeout=600)
    return rc == 0 and "error" not in o, o


def run_search(ctx, vh, seed_offset=0, tag="conc"):
    saved = ctx.seed
    ctx.seed = saved + seed_offset
    outs = core.run_sharded(ctx, vh, "conc", tag=tag, timeout=3000)
    ctx.seed = saved
    return outs


def check(ctx):
    audit = core.proof_audit(ctx, ["GoagModel.Props.C20"], THEOREMS)
    vh = core.build_harness(ctx)
    n = served = 0
    stats, samples, site_list = {}, [], []
    ob_ok = None
    races = []
    if vh:
        outs = run_search(ctx, vh)
        raw = core.read_tsv(outs, "sites.tsv")
        terr = [r for r in raw if r and r[0] == "ERROR"]
        if terr:
            ctx.broken.append({"kind": "translator", "detail": bytes.fromhex(terr[0][1]).decode("utf-8", "replace")[-1500:]})
        uniq = sorted({tuple((r + ["", "", "", ""])[1:5]) for r in raw if r and r[0] != "ERROR" and len(r) >= 2})
        site_list = [{"kind": s[0], "var": s[1], "where": s[2], "expr": s[3]} for s in uniq]
        ob_ok, lean_out = sites_obligation(ctx, uniq)
        audit["obligations"] = audit.get("obligations", 0) + 1
        if ob_ok:
            audit["discharged"] = audit.get("discharged", 0) + 1
        if not ob_ok:
            # escalate the search before reporting an obligation without a failing input
            for k in (1, 2):
                outs += run_search(ctx, vh, seed_offset=500 * k, tag="conc%d" % k)
            ctx.broken.append({"kind": "regenerated-obligation", "theorem": "generated_code_shares_nothing (SharedSites.lean regenerated from the generated packages by vh conc)",
                               "detail": "the generated code contains an access that can change state shared between requests, or hands a shared reference to a callee that is not reviewed as read-only",
                               "not_allowed": [s for s in site_list if not (s["kind"] == "pkgvar-read" or (s["kind"] == "pkgvar-refarg" and (s["var"], s["expr"]) in (("nullValueBs", "bytes.Equal"), ("specFileBs", "rw.Write"))))],
                               "lean_output": lean_out[-1200:]})
        meta = core.merge_meta(outs)
        stats = meta.get("stats", {})
        gens = {g[0]: g for g in core.read_tsv(outs, "gen.tsv")}
        for r in core.read_tsv(outs, "impl.tsv"):
            if len(r) < 3:
                continue
            n += 1
            m = re.search(r"(?:served|calls)=(\d+) diffs=(\d+)", r[2])
            pk = r[0].split("#")[0]
            g = gens.get(pk)
            spec = bytes.fromhex(g[5]).decode("utf-8", "replace") if g else None
            if not m:
                ctx.violations.append({"kind": "the concurrent run did not complete", "case": r[0], "observation": r[2][:3000], "spec": spec})
                continue
            served += int(m.group(1))
            if int(m.group(2)) > 0:
                ctx.violations.append({"kind": "a request served concurrently with others was observed differently from the same request served alone",
                                       "case": r[0], "observation": r[2][:6000], "spec": spec,
                                       "how": "vh conc: one API value / one client, %s goroutines; fields alone= / concurrent= are hex" % meta.get("workers")})
            elif len(samples) < 3:
                samples.append({"case": r[0], "observation": r[2]})
        for r in core.read_tsv(outs, "races.tsv"):
            if r and r[0]:
                races.append(bytes.fromhex(r[0]).decode("utf-8", "replace"))
        seen = set()
        for rep in races:
            # one violation per distinct pair of accessing functions
            fns = tuple(re.findall(r"^\s+((?:verifscratch|verif/rt|net/http|io|bytes)[^\s(]*)\(", rep, re.M)[:4])
            key = tuple(re.sub(r"mod/c\d+_\d+", "mod/PKG", f) for f in fns)
            if key in seen:
                continue
            seen.add(key)
            ctx.violations.append({"kind": "the race detector reports an unsynchronised access while one generated API value / client served concurrent requests",
                                   "report": rep[:5000]})
    cov = dict(audit)
    cov.update({
        "trusted_base": TRUSTED, "evaluations": served, "distinct_nontrivial": stats.get("distinct_requests", 0),
        "rule": "specs = parameter-heavy routing specs, security-heavy routing specs, response/client specs; per package two API configurations (1 and 3 middlewares, custom not-found on/off, spec handler, CORS handler, authenticators accepting two tokens) each serving 6 distinct requests per template (a distinct tag in every path parameter, lexeme-class query/header values, good / bad / absent credentials) plus the spec file and an unrouted path from 8 (quick) / 16 (thorough) goroutines for 6 / 20 rounds; per client package 6 seeded calls per operation (parameters, JSON and raw bodies, response values) sent from the same number of goroutines through one Client; binaries built with -race; evaluations = requests served concurrently; distinct = distinct requests",
        "samples": samples, "cases": n, "race_reports": len(races), "harness_stats": stats,
        "regenerated_sites": site_list, "regenerated_obligation_ok": ob_ok,
        "explanation": "isolation is proved for the model (any schedule, any number of requests); the regenerated obligation shows the generated code of this run has the model's shape (no write to shared state); the concurrent differential run under the race detector is the failing-input search and covers what the syntactic table cannot (aliasing, library internals)",
    })
    return core.finish(ctx, "proof", cov, ["user-supplied handlers, hooks, middlewares, authenticators and HTTPClient are race-free themselves", "the interleavings and memory-model behaviour actually exercised are those of this machine's scheduler"])
