"""C19 — the output directory reflects only the last invocation."""
from . import core

THEOREMS = ["Goag.Dir.history_last_wins", "Goag.Dir.step_owned_depends_only_on_invocation",
            "Goag.Dir.step_foreign_untouched", "Goag.Dir.run_foreign_untouched", "Goag.Dir.rerun_idempotent"]
TRUSTED = [
    "Lean 4.33.0 kernel; axioms propext, Classical.choice, Quot.sound only (audited by #print axioms)",
    "hand-written model Goag.Dir.stepDir of the file logic in goag.Generate (write/remove per owned file, O_TRUNC rewrite): tied EXHAUSTIVELY on single steps (all 2^5 stale-presence patterns x foreign file x 36 invocations) against the real generator on every run, plus all 1332 histories of length <= 2, sampled histories of length 3 and random longer ones; the single-run references are generated in a fresh process each",
    "sha256 equality with a fresh-directory generation as the meaning of 'what a single run produces'",
    "the filesystem (os.Remove, O_TRUNC) behaves as documented; runs that return an error are outside the statement",
]


def check(ctx):
    audit = core.proof_audit(ctx, ["GoagModel.Props.C19"], THEOREMS)
    vh = core.build_harness(ctx)
    n = agree = 0
    kinds = {}
    samples = []
    meta = {}
    if vh:
        outs = core.run_sharded(ctx, vh, "dir")
        meta = core.merge_meta(outs)
        cases = core.read_lines(outs, "cases.tsv")
        impl = {r[0]: (r[1], r[2]) for r in core.read_tsv(outs, "impl.tsv") if len(r) >= 3}
        model = {}
        for line in core.run_driver(cases, ctx):
            f = line.split("\t")
            if len(f) == 2:
                model[f[0]] = f[1]
        case_of = {c.split("\t")[1]: c for c in cases}
        bad = []
        for cid, (kind, obs) in impl.items():
            n += 1
            kinds[kind] = kinds.get(kind, 0) + 1
            m = model.get(cid, "NO-MODEL").split(" ")
            o = obs.split(" ")
            ok = len(m) == len(o)
            if ok:
                for a, b in zip(o, m):
                    if b.startswith("G"):
                        ok = ok and a.startswith("G:") and b[1:] in a[2:].split("+")
                    else:
                        ok = ok and a == b
            if ok:
                agree += 1
            else:
                bad.append((cid, kind, obs, " ".join(m)))
            if len(samples) < 3 and kind not in [s["kind"] for s in samples]:
                samples.append({"id": cid, "kind": kind, "case": case_of.get(cid, "").split("\t")[2:], "impl": obs, "model": " ".join(m)})
        # here the model IS the reference (theorem history_last_wins is about it), so a
        # disagreement is a violation: the directory is not what the last invocation alone produces
        bad.sort(key=lambda b: len(case_of.get(b[0], "")))
        for cid, kind, obs, m in bad[:5]:
            f = case_of.get(cid, "").split("\t")
            ctx.violations.append({"kind": "directory after history differs from a fresh run of the last invocation",
                                   "case": cid, "initial_state(components,handler,router,spec_file,client,user file)": f[2] if len(f) > 2 else None,
                                   "history(hasComponents client api : invocation tag)": f[3] if len(f) > 3 else None,
                                   "observed": obs, "expected": m, "theorem": "Goag.Dir.history_last_wins",
                                   "legend": "- absent, S stale marker survived, G:<tags> equals fresh generation of these invocations, X other content, F user file intact"})
        if meta.get("stats", {}).get("rerun_unstable_files"):
            ctx.violations.append({"kind": "re-running the same invocation changed a file", "detail": meta})
    cov = dict(audit)
    cov.update({
        "trusted_base": TRUSTED,
        "evaluations": n, "distinct_nontrivial": n - kinds.get("history-1", 0),
        "rule": "single steps: all 32 stale-presence patterns x user file present/absent x 36 invocations ({spec with components / without components / without operations} x {donotedit} x {client} x {api handler}, plus two 24-operation specs that differ in one digit near the end of every generated file (each file > 32 KiB, same length) and a spec whose components section holds a security scheme and a shared parameter only, x {client} x {api handler}) (2304, exhaustive); histories: all 1332 sequences of length <= 2 from an empty directory, 1200 (quick) / 12000 (thorough) sampled sequences of length 3, run in ONE process while every single-run reference comes from a fresh process; failed invocations (a package name that is not an identifier) before successful ones; spec files written once and dated one hour back; 60 (quick) / 600 (thorough) random histories of length 4-12 from random initial states; non-trivial = more than one invocation or a non-empty initial directory",
        "samples": samples, "agree_with_model": agree, "input_kinds": kinds, "harness_stats": meta.get("stats", {}),
        "exhaustive": True,
        "explanation": "single-step space enumerated completely; theorem history_last_wins lifts the validated step to histories of any length",
    })
    return core.finish(ctx, "proof", cov, ["runs that return success; a failing run may leave a partial directory (outside the statement)"])
