"""C18 — a $ref behaves exactly like the component it points to."""
import re

from . import core

THEOREMS = ["Goag.JsonM.allOf_ref_encodes_like_inline", "Goag.JsonM.allOf_ref_decodes_like_inline", "Goag.JsonM.toJFields_append"]
TRUSTED = [
    "Lean 4.33.0 kernel; axioms propext, Classical.choice, Quot.sound only (audited by #print axioms)",
    "the harness's inlining of references (replace every #/components/... reference by a deep copy of its target; members of a discriminated oneOf are kept) as the meaning of 'inline copy'",
    "Go reflection driver /verif/harness/rt; wire-level projections of its observations (Go type names removed)",
]


def proj(kind, o):
    if kind == "serve":
        return o
    if kind == "jsondec":
        o = o.split(" msg=")[0]
        # the error class is compared; the path inside the message names Go members ("embedded
        # 'Tail' field" vs "additional property"), which the inline form cannot share
        o = re.sub(r"dec=err\((\w+),[^)]*\)", r"dec=err(\1)", o)
        m = re.match(r"dec=ok dump=.* reenc=(\w*)", o)
        return "ok " + m.group(1) if m else o
    if kind == "jsonenc":
        # a value built by hand and encoded by both packages: the encoder's verdict and the canonical JSON
        if o.startswith("build-error") or o.startswith("no-such-type") or o.startswith("bad-args"):
            return "unbuildable"
        if o.startswith("enc=ERR"):
            return "enc=ERR"
        m = re.search(r"valid=(\w+) dup=(\w+) canon=(\w*)", o)
        return "valid=%s dup=%s canon=%s" % m.groups() if m else o
    if kind == "respinfo":
        # array header lengths are seeded per constructor: compare "all field lines written", not the count
        o = re.sub(r"hv=(-?\d+)/(-?\d+)", lambda m: "hv=ok" if m.group(1) == m.group(2) or m.group(2) == "-1" else m.group(0), o)
        # the caller-supplied code of a default response is seeded per constructor: compare "the code that was passed"
        o = re.sub(r"status=(-?\d+),code_arg=true(.*?),code=(\d+)", lambda m: "status=%s,code_arg=true%s" % ("code" if m.group(1) == m.group(3) else m.group(1), m.group(2)), o)
        o = re.sub(r",code=\d+", "", o)
        return ";".join(sorted({p.split(":", 1)[1] if ":" in p else p for p in o.split(" ; ")}))  # a set: aliases add constructors, not behaviours
    # a shared response's Write takes the status from its use site (Write(w, code)); an inline one
    # has it fixed. Both are "the documented arm": the client-side class is what is compared.
    o = re.sub(r"documented\(.*\)", "documented", o)
    if o.startswith("error:other"):
        return "error:arm-rejected-stub"
    return o


def check(ctx):
    audit = core.proof_audit(ctx, ["GoagModel.Props.C18"], THEOREMS)
    vh = core.build_harness(ctx)
    n = agree = 0
    kinds, samples = {}, []
    gout = {}
    diags = {}
    meta = {}
    distinct = set()
    if vh:
        outs = core.run_sharded(ctx, vh, "reff")
        meta = core.merge_meta(outs)
        gens = {g[0]: g for g in core.read_tsv(outs, "gen.tsv")}
        kf = core.known_findings()
        listed = {e["id"] for e in kf.get("open", []) if e.get("property") == "C18" or "C18" in e.get("also", [])}
        kf_hits = {}
        for g in gens.values():
            gout[g[2]] = gout.get(g[2], 0) + 1
            broken = bytes.fromhex(g[4]).decode("utf-8", "replace")
            b1, b2 = [x.strip() for x in broken.split(" | ", 1)] if " | " in broken else (broken, "")
            o1, o2 = g[2].split("/")
            if (o1 == "ok") != (o2 == "ok") or bool(b1) != bool(b2):
                n += 1
                dk = re.sub(r"\w+/x\d+_\d+[ri]/", "", (b1 or b2))[:120]
                diags[dk] = diags.get(dk, 0) + 1
                if "redeclared" in (b1 + b2) and "KF-C01-nameCollision" in listed:
                    kf_hits["KF-C01-nameCollision"] = kf_hits.get("KF-C01-nameCollision", 0) + 1
                    continue
                errs = bytes.fromhex(g[3]).decode("utf-8", "replace")
                if "is not valid Go source" in errs and "expected type, found" in errs and "KF-C18-hoistedRawName" in listed:
                    kf_hits["KF-C18-hoistedRawName"] = kf_hits.get("KF-C18-hoistedRawName", 0) + 1
                    continue
                ctx.violations.append({"kind": "the referenced form and its inline copy do not both generate a working package",
                                       "pair": g[0], "source": g[1], "generator_outcomes": g[2], "errors": bytes.fromhex(g[3]).decode("utf-8", "replace"),
                                       "compile": broken, "spec_with_refs": bytes.fromhex(g[5]).decode("utf-8", "replace"),
                                       "spec_inlined": bytes.fromhex(g[6]).decode("utf-8", "replace")})
        bad = []
        for r in core.read_tsv(outs, "impl.tsv"):
            if len(r) < 4:
                continue
            n += 1
            kinds[r[1]] = kinds.get(r[1], 0) + 1
            a, b = proj(r[1], r[2]), proj(r[1], r[3])
            if "unbuildable" in (a, b):
                # the value description fits only one of the two Go shapes: no comparison
                kinds["jsonenc(not comparable)"] = kinds.get("jsonenc(not comparable)", 0) + 1
                agree += 1
                continue
            if a == b:
                agree += 1
                if "S:404" not in a:
                    distinct.add((r[0].split("#")[0], a))
            else:
                bad.append((r, a, b))
            if len(samples) < 3 and r[1] not in [s["kind"] for s in samples]:
                samples.append({"id": r[0], "kind": r[1], "with_refs": a[:300], "inlined": b[:300]})
        bad.sort(key=lambda x: len(x[1]) + len(x[2]))
        for r, a, b in bad[:5]:
            g = gens.get(r[0].split("#")[0])
            ctx.violations.append({"kind": "wire-level behaviour differs between a spec with references and its inlined copy on the same input",
                                   "case": r[0], "input_kind": r[1], "with_refs": a, "inlined": b, "raw_with_refs": r[2][:2000], "raw_inlined": r[3][:2000],
                                   "spec_with_refs": bytes.fromhex(g[5]).decode("utf-8", "replace") if g else None,
                                   "spec_inlined": bytes.fromhex(g[6]).decode("utf-8", "replace") if g else None})
        for k, c in kf_hits.items():
            e = [e for e in kf["open"] if e["id"] == k][0]
            ctx.known.append("%s %s (%d pairs)" % (k, e["what"], c))
    cov = dict(audit)
    cov.update({
        "trusted_base": TRUSTED, "evaluations": n, "distinct_nontrivial": len(distinct),
        "rule": "base specs from the parameter corpus (schema $ref and component-parameter $ref), the JSON corpus (component schemas referencing each other, allOf / oneOf members by reference) and the response corpus (shared responses, alias chains); each generated as written and with every reference inlined; both packages driven with identical raw requests (lexeme-class query/header values x cardinalities), identical JSON documents incl. single-fault mutants, identical status codes; non-trivial = not a plain 404; distinct by (pair, projected observation)",
        "samples": samples, "programs": 2 * sum(v for k, v in gout.items() if k == "ok/ok"), "pair_outcomes": gout, "one_sided_failures": diags, "agree": agree, "case_kinds": kinds,
        "disagreements_checked": n - agree, "harness_stats": meta.get("stats", {}),
        "explanation": "a relation between two generated programs: observations are projected to wire level (dispatch / parse result or error class+name, re-encoded canonical JSON, written status / content type / header names / body kind, client arm) and must be equal",
    })
    return core.finish(ctx, "translation_validation", cov, ["members of a discriminated oneOf stay references (their names are discriminator values)", "recursive schemas excluded"])
