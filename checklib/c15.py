"""C15 — the generator fails cleanly instead of crashing."""
import re

from . import core

THEOREMS = ["Goag.Alias.exhausted_is_cycle", "Goag.Alias.accepted_resolves", "Goag.Alias.walk_found_mono", "Goag.Alias.pigeon"]
TRUSTED = [
    "Lean 4.33.0 kernel; axioms propext, Classical.choice, Quot.sound only (audited by #print axioms)",
    "kin-openapi loader decides which documents are in the property's domain (documents it rejects or crashes on are counted, not judged)",
    "the hand-written model Goag.Alias (bounded alias walk and the two checks of NewMapRefSelfSource), tied on every run: all 64 functional graphs on three names and random graphs on up to five names, for components.responses / schemas / parameters / requestBodies / headers, generator verdict vs model verdict",
    "recover() around goag.Generator.GenerateFile in-process and the exit status / stderr of the built CLI as the observation",
]


def classify_panic(detail):
    lines = detail.split("\n")
    goag = [l.strip() for l in lines if l.strip().startswith("/repo/")]
    kin = [l.strip() for l in lines if "kin-openapi" in l and l.strip().startswith("/")]
    tmpl = [l.strip() for l in lines if "text/template" in l]
    first = None
    for l in lines:
        s = l.strip()
        if s.startswith("/repo/") or ("kin-openapi" in s and s.startswith("/")):
            first = s
            break
    if first and "kin-openapi" in first and not goag:
        return "loader-crash", first.split(" ")[0]
    return "generator-panic", (goag[0].split(" ")[0] if goag else (first or "?"))


GOOD_SPEC = '{"openapi":"3.0.3","info":{"title":"t","version":"1"},"paths":{"/ping":{"get":{"responses":{"200":{"description":"ok"}}}}}}'
# a query parameter of an unsupported string format: the generator reports an error for it
BAD_SPEC = '{"openapi":"3.0.3","info":{"title":"t","version":"1"},"paths":{"/ping":{"get":{"parameters":[{"in":"query","name":"h","schema":{"type":"string","format":"hostname"}}],"responses":{"200":{"description":"ok"}}}}}}'


def cli_dir_mode(ctx):
    """the --dir mode of the command: the exit status is non-zero iff some spec directory fails, wherever it sorts"""
    import os
    import subprocess
    cli = os.path.join(ctx.scratch, "goag-cli-dir")
    rc, out = core.run(["go", "build", "-o", cli, "./cmd/goag"], cwd="/repo", env=core.GOENV, timeout=600)
    res = {"scenarios": 0, "agree": 0}
    if rc != 0:
        ctx.broken.append({"kind": "cli-build", "detail": out[-800:]})
        return res
    scenarios = [("all-fine", [("a_one", GOOD_SPEC), ("b_two", GOOD_SPEC)], False),
                 ("broken-first", [("a_broken", BAD_SPEC), ("b_fine", GOOD_SPEC)], True),
                 ("broken-last", [("a_fine", GOOD_SPEC), ("b_broken", BAD_SPEC)], True),
                 ("broken-middle", [("a_fine", GOOD_SPEC), ("b_broken", BAD_SPEC), ("c_fine", GOOD_SPEC)], True),
                 ("unreadable-first", [("a_garbage", "{not json"), ("b_fine", GOOD_SPEC)], True)]
    for name, dirs, must_fail in scenarios:
        root = ctx.sub("dirmode-" + name)
        for dn, spec in dirs:
            os.makedirs(os.path.join(root, dn), exist_ok=True)
            with open(os.path.join(root, dn, "openapi.json"), "w") as f:
                f.write(spec)
        p = subprocess.run([cli, "--dir", root, "--spec", "openapi.json", "--package", "p", "--out", "gen"], stdout=subprocess.PIPE, stderr=subprocess.STDOUT, text=True, timeout=300)
        res["scenarios"] += 1
        crashed = "panic:" in p.stdout or "goroutine " in p.stdout
        if (p.returncode != 0) == must_fail and not crashed:
            res["agree"] += 1
        else:
            ctx.violations.append({"kind": "the command's exit status in --dir mode does not tell that a spec could not be generated" if not crashed else "the command crashed in --dir mode",
                                   "scenario": name, "directories": [d for d, _ in dirs], "exit_status": p.returncode, "expected": "non-zero" if must_fail else "0",
                                   "output_tail": p.stdout[-600:],
                                   "how": "goag --dir <root> --spec openapi.json --package p --out gen, one sub-directory per listed name; *_broken holds a query parameter with format hostname, *_garbage is not JSON"})
    return res


def check(ctx):
    audit = core.proof_audit(ctx, ["GoagModel.Props.C15"], THEOREMS)
    vh = core.build_harness(ctx)
    rows, meta = [], {}
    if vh:
        outs = core.run_sharded(ctx, vh, "mutate")
        rows = core.read_tsv(outs, "impl.tsv")
        meta = core.merge_meta(outs)
    alias = {"cases": 0, "agree": 0, "by_kind": {}}
    if vh:
        # tie of Goag.Alias to NewMapRefSelfSource and friends
        aouts = core.run_sharded(ctx, vh, "aliasf")
        acases = core.read_lines(aouts, "cases.tsv")
        amodel = {}
        for l in (core.run_driver(acases, ctx, "alias") if acases else []):
            pp = l.split("\t", 1)
            if len(pp) == 2:
                amodel[pp[0]] = pp[1]
        for r in core.read_tsv(aouts, "impl.tsv"):
            if len(r) < 6:
                continue
            cid, kind, enc, cls, detail, doc = r[:6]
            if cls == "load-error":
                continue
            alias["cases"] += 1
            m = amodel.get(cid)
            alias["by_kind"][kind + ":" + cls] = alias["by_kind"].get(kind + ":" + cls, 0) + 1
            impl_ok = cls == "ok"
            if cls == "hang":
                ctx.violations.append({"kind": "the generator does not terminate on a document the loader accepted", "components": kind,
                                       "entries": bytes.fromhex(enc).decode(), "model": m, "spec": bytes.fromhex(doc).decode("utf-8", "replace"),
                                       "how": "write the spec to a file and run goag on it: no return within 30 s"})
                continue
            if cls == "panic":
                continue  # reported by the fault enumeration below as well; counted here
            if m is None:
                ctx.broken.append({"kind": "correspondence", "detail": "no model answer for alias case " + cid})
                break
            if (m == "ok") == impl_ok and (cls in ("ok", "error") or cls == m):
                alias["agree"] += 1
                continue
            spec = bytes.fromhex(doc).decode("utf-8", "replace")
            entries = bytes.fromhex(enc).decode()
            if m != "ok" and impl_ok:
                ctx.violations.append({"kind": "a component map with an alias chain that never reaches a definition was accepted (later unbounded walks cannot terminate)",
                                       "components": kind, "entries": entries, "model": m, "impl": cls, "spec": spec})
            elif m == "ok" and not impl_ok:
                ctx.violations.append({"kind": "a component map whose alias chains all end at definitions was refused",
                                       "components": kind, "entries": entries, "model": m, "impl": cls + ": " + bytes.fromhex(detail).decode("utf-8", "replace"), "spec": spec})
            else:
                ctx.broken.append({"kind": "correspondence", "detail": "alias model says %s, generator says %s on %s %s" % (m, cls, kind, entries)})
        for r in core.read_tsv(aouts, "impl.tsv"):
            if len(r) >= 6 and r[3] == "panic":
                ctx.violations.append({"kind": "the generator panicked on a document the loader accepted", "components": r[1], "entries": bytes.fromhex(r[2]).decode(),
                                       "panic": bytes.fromhex(r[4]).decode("utf-8", "replace")[:800], "spec": bytes.fromhex(r[5]).decode("utf-8", "replace")})
                break
    dir_mode = cli_dir_mode(ctx) if vh else {}
    outcomes, kinds = {}, {}
    samples = []
    cli = {"runs": 0, "exit0_on_ok": 0, "exit1_on_error": 0}
    panics = []
    distinct = set()
    for r in rows:
        mid, base, fault, outcome, detail, cliobs, doc = r[:7]
        detail = bytes.fromhex(detail).decode("utf-8", "replace")
        kinds[fault.split("@")[0]] = kinds.get(fault.split("@")[0], 0) + 1
        if outcome == "fatal":
            panics.append((mid, base, fault, "fatal:" + "|".join(detail.split("\n")[:3]), detail, doc))
        if outcome == "panic":
            cls, site = classify_panic(detail)
            if cls == "loader-crash":
                outcome = "loader-crash"
            else:
                panics.append((mid, base, fault, site, detail, doc))
        outcomes[outcome] = outcomes.get(outcome, 0) + 1
        if outcome in ("ok", "error"):
            distinct.add((base, fault))
        if outcome == "error":
            # an error must say where: non-empty and carrying some location context
            msg = detail.split("\n")[0]
            if not msg.strip() or not re.search(r"[\"'`/#:]", msg):
                ctx.violations.append({"kind": "generator error without any location", "mutant": mid, "base": base, "fault": fault, "error": msg,
                                       "spec": bytes.fromhex(doc).decode("utf-8", "replace")})
        if cliobs:
            cli["runs"] += 1
            m = re.match(r"exit=(-?\d+) crash=(\w+)", cliobs)
            code, crash = int(m.group(1)), m.group(2) == "true"
            if outcome == "ok" and code == 0 and not crash:
                cli["exit0_on_ok"] += 1
            elif outcome == "error" and code != 0 and not crash:
                cli["exit1_on_error"] += 1
            elif outcome in ("ok", "error"):
                ctx.violations.append({"kind": "CLI exit status / crash disagrees with the in-process outcome", "mutant": mid, "base": base, "fault": fault,
                                       "in_process": outcome, "cli": cliobs, "spec": bytes.fromhex(doc).decode("utf-8", "replace")})
        if len(samples) < 4 and outcome in ("ok", "error", "load-error") and outcome not in [s["outcome"] for s in samples]:
            samples.append({"mutant": mid, "base": base, "fault": fault, "outcome": outcome, "detail": detail.split("\n")[0][:200]})
    seen_sites = set()
    for mid, base, fault, site, detail, doc in sorted(panics, key=lambda p: len(p[5])):
        if site in seen_sites:
            continue
        seen_sites.add(site)
        ctx.violations.append({"kind": "the generator panicked on a document the loader accepted", "mutant": mid, "base": base, "fault": fault,
                               "panic_site": site, "panic": detail[:1500], "spec": bytes.fromhex(doc).decode("utf-8", "replace"),
                               "how": "write spec to a file, goag.Generator.GenerateFile under recover"})
    cov = dict(audit)
    cov.update({
        "trusted_base": TRUSTED,
        "evaluations": len(rows), "distinct_nontrivial": len(distinct),
        "rule": "base documents = 42 fixture specs + 3 map-fat specs + 6 generated routing/parameter/security specs; faults = for every JSON position: delete the key / null the value / swap the JSON type (quick: 12 seeded positions per base, thorough: all), plus targeted faults (content parameter, dangling $ref, unknown type/format, array without items, non-string server default/enum, self-referencing schema, alias cycle, unknown security scheme, media type without schema); non-trivial = the loader accepted the mutant (generator outcome ok or error); distinct by (base, fault)",
        "samples": samples, "outcomes": outcomes, "fault_kinds": kinds, "cli": cli, "panic_sites": sorted(seen_sites),
        "harness_stats": meta.get("stats", {}), "alias_tie": alias, "cli_dir_mode": dir_mode,
        "explanation": "single structural faults enumerated over corpus documents; the generator must return ok or a located error for every mutant the loader accepts, and the CLI must exit non-zero exactly on error",
    })
    return core.finish(ctx, "fault_enumeration", cov, ["documents the loader rejects (or crashes on) are outside the statement"])
