"""Shared machinery for C02 / C09 / C10: the respf facet (responses + generated client)."""
import json
import re

from . import core

TRUSTED = [
    "Lean 4.33.0 kernel; axioms propext, Classical.choice, Quot.sound only (audited by #print axioms)",
    "hand-written model Goag.Resp (operation / response type names, emitted response types and their write<Op> method sets, what Write emits, the client's status switch) — tied to the code on every run, not verified",
    "hand-written model Goag.RespHdr (field lines written per declared response header, the client's reader) — tied on every C10 run: the real field lines and the client's value of every in-process round trip against writeLines / readLines",
    "go/types (types.Implements over the whole generated package) as the judge of which types satisfy an operation's response interface",
    "Go reflection driver /verif/harness/rt (seeded value filling under the domain restrictions of DESIGN.md §11, recording HTTP client)",
    "net/http, net/url, encoding/json, strconv, time as the transport between generated client and generated server",
]


def run(ctx):
    vh = core.build_harness(ctx)
    if not vh:
        return None
    outs = core.run_sharded(ctx, vh, "respf")
    cases = core.read_lines(outs, "cases.tsv")
    impl = {}
    for r in core.read_tsv(outs, "impl.tsv"):
        if len(r) >= 2:
            impl[r[0]] = r[1]
    gens = core.read_tsv(outs, "gen.tsv")
    docs = {}
    for r in core.read_tsv(outs, "documented.tsv"):
        if len(r) >= 5:
            try:
                docs[r[0]] = json.loads(bytes.fromhex(r[4]).decode())
            except Exception:
                docs[r[0]] = None
    meta = core.merge_meta(outs)
    ctx.wire_valid = {}
    for r in core.read_tsv(outs, "valid.tsv"):
        if len(r) >= 2:
            ctx.wire_valid[r[0]] = r[1]
    answers = core.run_driver(cases, ctx, name="resp")
    if len(answers) != len(cases):
        ctx.broken.append({"kind": "driver-desync", "detail": "%d cases, %d answers" % (len(cases), len(answers))})
        return None
    model = {}
    ctx.resp_accept = {}
    for cl, al in zip(cases, answers):
        cf, af = cl.split("\t"), al.split("\t")
        if cf[0] in ("respinfo", "clientstatus"):
            model[cf[1]] = af[1:]
        elif cf[0] == "respspec":
            ctx.resp_accept[cf[1]] = af[1] if len(af) > 1 else "?"
    return impl, model, docs, gens, meta


def spec_of(gens, cid):
    pkg = cid.split("#")[0]
    for g in gens:
        if g[0] == pkg and len(g) > 4:
            sp = bytes.fromhex(g[4]).decode("utf-8", "replace")
            if len(g) > 5 and g[5]:
                # the package was generated over an earlier revision: both specs are the input
                return json.dumps({"spec": sp, "generated_over_earlier_revision": json.loads(bytes.fromhex(g[5]).decode("utf-8", "replace"))})
            return sp
    return None


def rt_written(obs):
    rw = []
    for part in obs.split(" ; "):
        m = re.match(r"(\w+):status=(-?\d+),code_arg=(\w+),ct=([^,]*),headers=([^,]*),body=(\w+),w=(\d+)", part)
        if not m:
            return None, False
        st = m.group(2)
        pc = re.search(r",code=(\d+)", part)
        if m.group(3) == "true" and st == (pc.group(1) if pc else "299"):
            st = "code"
        rw.append("%s:%s,%s,%s,%s" % (m.group(1), st, m.group(4), m.group(5), m.group(6)))
        if m.group(7) != "1":
            return ";".join(sorted(rw)), False
        hv = re.search(r",hv=(-?\d+)/(-?\d+)", part)
        if hv and hv.group(2) != "-1" and hv.group(1) != hv.group(2):
            # e.g. an array header of three elements written as one field line
            return ";".join(sorted(rw)) + " [header field lines written %s, value carries %s]" % (hv.group(1), hv.group(2)), False
    return ";".join(sorted(rw)), True


def header_values(ctx, impl, gens, st, distinct, samples, viol, corr):
    """C10, header values: the field lines the generated server wrote and the value the generated
    client rebuilt, against the Lean model Goag.RespHdr (writeLines / readLines, the subject of
    read_write_header) — one evaluation per declared header of every in-process round trip."""
    reqs, keys = [], []
    for cid, o in impl.items():
        if "#" not in cid or cid.split("#")[1][0] != "c":
            continue
        m = re.search(r" hdrs=(\S*)$", o)
        if not m or m.group(1) == "-":
            continue
        for ent in m.group(1).split(";"):
            f = ent.split("|")
            if len(f) != 7:
                corr.append({"case": cid, "detail": {"header_entry": ent[:200], "what": "malformed header observation"}, "spec": spec_of(gens, cid)})
                continue
            name, ty, arr, req, lines, sent, got = f
            if ty == "x":
                st["kinds"]["header-value(outside the model: float / time / named type)"] = st["kinds"].get("header-value(outside the model: float / time / named type)", 0) + 1
                continue
            keys.append((cid, name, ty, arr, req, lines, sent, got))
            reqs.append("hdrrt\t%s.%s\t%s\t%s\t%s\t%s\t%s" % (cid, name, ty, arr, req, lines, sent))
    if not reqs:
        return
    ans = core.run_driver(reqs, ctx, name="hdr")
    if len(ans) != len(reqs):
        ctx.broken.append({"kind": "driver-desync", "detail": "%d header cases, %d answers" % (len(reqs), len(ans))})
        return
    for (cid, name, ty, arr, req, lines, sent, got), a in zip(keys, ans):
        af = a.split("\t")
        st["evaluations"] += 1
        k = "header-value"
        st["kinds"][k] = st["kinds"].get(k, 0) + 1
        shape = "header-value[%s,%s,%s,%s]" % (ty, "array" if arr == "1" else "scalar", "required" if req == "1" else "optional",
                                               "unset" if sent == "u" else ("empty-string" if sent == "o:x" else "set"))
        st["kinds"][shape] = st["kinds"].get(shape, 0) + 1
        mlines = af[1] if len(af) > 1 else "?"
        mread = af[2] if len(af) > 2 else "?"
        got_matches = (got == mread) or (got == "err" and mread.startswith("err:"))
        okm = mlines == lines and got_matches
        # reference (the property): the client's value is the handler's value; domain: a set array is non-empty
        in_domain = sent != "m:"
        okr = (got == sent) or not in_domain
        if not in_domain:
            st["kinds"]["header-value(empty array: outside the domain)"] = st["kinds"].get("header-value(empty array: outside the domain)", 0) + 1
        detail = {"header_field": name, "declared": {"type": ty, "array": arr == "1", "required": req == "1"}, "field_lines_on_the_wire": lines,
                  "model_writeLines": mlines, "handler_sent": sent, "client_returned": got, "model_readLines": mread}
        distinct.add((cid.split("#")[0], name, sent))
        if okm:
            st["agree_model"] += 1
        if okr:
            st["agree_ref"] += 1
        if len(samples) < 3 and k not in [x["kind"] for x in samples]:
            samples.append({"id": cid, "kind": k, "detail": detail})
        if okm and okr:
            continue
        item = {"case": cid, "detail": detail, "spec": spec_of(gens, cid)}
        (corr if okr else viol).append(item)


def check(ctx, prop, modules, theorems, rule, explanation, assumptions, level):
    audit = core.proof_audit(ctx, modules, theorems)
    res = run(ctx)
    st = {"evaluations": 0, "agree_model": 0, "agree_ref": 0, "kinds": {}}
    samples, distinct = [], set()
    gout, meta = {}, {}
    viol, corr = [], []
    if res:
        impl, model, docs, gens, meta = res
        for g in gens:
            k = g[1] if not (len(g) > 3 and g[3]) else "broken"
            gout[k] = gout.get(k, 0) + 1
        core.flag_broken_packages(ctx, gens, {"C02": "no handler of it can return any response", "C09": "no client of it can send a request",
                                              "C10": "no client of it can receive a response"}.get(prop, "the property cannot hold for it"))
        if prop == "C02":
            # generator outcome vs the model's reading of goag's own rejections
            for g in gens:
                verdict = ctx.resp_accept.get(g[0], "?")
                st["evaluations"] += 1
                gen_ok = g[1] == "ok"
                model_ok = verdict == "resp-ok"
                if gen_ok == model_ok:
                    st["agree_model"] += 1
                    st["agree_ref"] += 1
                    st["kinds"]["accept/reject"] = st["kinds"].get("accept/reject", 0) + 1
                    if not gen_ok:
                        distinct.add((g[0], "rejected"))
                elif gen_ok and not model_ok:
                    # accepted although a shared response is used as default AND numbered: the driven
                    # cases below show the wrong status; reported here too with the spec as replay
                    viol.append({"case": g[0], "detail": {"generator": "accepted", "model": verdict,
                                 "why": "a shared response used both as 'default' and under a numbered status cannot write the documented status for both"},
                                 "spec": bytes.fromhex(g[4]).decode("utf-8", "replace")})
                else:
                    corr.append({"case": g[0], "detail": {"generator": g[1] + ": " + bytes.fromhex(g[2]).decode("utf-8", "replace")[-200:], "model": verdict},
                                 "spec": bytes.fromhex(g[4]).decode("utf-8", "replace")})
        if meta.get("stats", {}).get("implementers_unavailable") and prop == "C02":
            ctx.broken.append({"kind": "extraction", "detail": "go/types implementer extraction unavailable"})
        if prop == "C10":
            header_values(ctx, impl, gens, st, distinct, samples, viol, corr)
        for cid, o in impl.items():
            kind = cid.split("#")[1][0]
            okm = okr = True
            if o.startswith("FATAL:"):
                if len([v for v in viol if "fatal" in v.get("detail", {})]) < 2:
                    viol.append({"case": cid, "detail": {"fatal": core.fatal_text(o), "what": "the process died on this case (unrecoverable runtime error)"}, "spec": spec_of(gens, cid)})
                continue
            if prop == "C02" and kind == "i":
                m = model.get(cid)
                if not m or not m[0].startswith("iface="):
                    continue
                st["evaluations"] += 1
                iface, mimpl, docu, wr = m[0][6:], m[1][5:], m[2][13:], m[3][8:]
                gi = "+".join((docs.get(cid) or {}).get(iface, ["?missing-interface"]))
                rw, once = rt_written(o)
                okm = gi == mimpl and rw == wr
                # reference: implementers are exactly the documented types; every value written once,
                # with the documented status / content type / headers / body kind
                okr = gi == docu and rw == wr and once
                detail = {"interface": iface, "go_types_implementers": gi, "model_implementers": mimpl, "documented": docu, "written": rw, "model_written": wr}
                distinct.add((cid.split("#")[0], iface, gi, rw))
            elif prop == "C10" and kind == "s":
                m = model.get(cid)
                if not m:
                    continue
                st["evaluations"] += 1
                if o.startswith("default("):
                    arm = "default"
                    inj = cid.rsplit(".", 1)[1]
                    okr = o == "default(code=%s)" % inj
                elif o == "error:not-implemented":
                    arm = "not-implemented"
                elif o.startswith("PANIC"):
                    arm = "panic"
                elif o.startswith("error:other"):
                    # an arm was chosen and rejected the stub's empty headers / body: which one is
                    # not observable; accepted for both the documented and the default arm
                    arm = "arm-chosen"
                else:
                    arm = "documented"
                    mw = re.search(r"writes=(\d+),fixed", o)
                    if mw and mw.group(1) != cid.rsplit(".", 1)[1]:
                        okr = False
                okm = m[0].startswith(arm) or (arm == "arm-chosen" and not m[0].startswith("not-implemented"))
                okr = okr and okm  # the model IS the reference reading of the status set here
                detail = {"client": o[:300], "model_arm": m[0]}
                distinct.add((cid.split("#")[0], cid.split("#")[1].split(".")[0], m[0]))
            elif prop in ("C09", "C10") and kind == "c" and o.startswith("skip:"):
                st["kinds"]["skipped(" + o[5:] + ")"] = st["kinds"].get("skipped(" + o[5:] + ")", 0) + 1
                continue
            elif prop in ("C09", "C10") and kind == "c":
                mm = re.match(r"sent=(.*) parsed=(.*) wire=(.*) respsent=(.*) respgot=(.*?)(?: hdrs=(\S*))?$", o)
                st["evaluations"] += 1
                if not mm:
                    okm = okr = False
                    detail = {"observation": o[:600]}
                elif prop == "C09":
                    okr = mm.group(1) == mm.group(2)
                    detail = {"sent": mm.group(1)[:600], "parsed": mm.group(2)[:600], "wire": mm.group(3)[:600]}
                    # second sentence of the property: the wire request under a validator that is not goag's
                    wv = ctx.wire_valid.get(cid, "skip:not-validated")
                    wk = wv.split(":")[0]
                    st["kinds"]["wire-" + (wv if wk == "skip" else wk)] = st["kinds"].get("wire-" + (wv if wk == "skip" else wk), 0) + 1
                    if wk == "invalid":
                        okr = False
                        detail["request_validator"] = bytes.fromhex(wv[8:]).decode("utf-8", "replace")[:400]
                    distinct.add((cid.split("#")[0], mm.group(3)))
                else:
                    okr = mm.group(4) == mm.group(5) and mm.group(4) != ""
                    detail = {"handler_returned": mm.group(4)[:600], "client_returned": mm.group(5)[:600]}
                    distinct.add((cid.split("#")[0], mm.group(4)))
            else:
                continue
            k = {"i": "respinfo", "s": "status", "c": "roundtrip"}[kind]
            st["kinds"][k] = st["kinds"].get(k, 0) + 1
            if okm:
                st["agree_model"] += 1
            if okr:
                st["agree_ref"] += 1
            if len(samples) < 3 and k not in [s["kind"] for s in samples]:
                samples.append({"id": cid, "kind": k, "detail": detail})
            if okm and okr:
                continue
            item = {"case": cid, "detail": detail, "spec": spec_of(gens, cid)}
            (corr if okr else viol).append(item)
    viol.sort(key=lambda v: len(json.dumps(v["detail"])))
    for v in viol[:5]:
        v["kind"] = "implementation contradicts the reference"
        ctx.violations.append(v)
    if corr:
        ctx.broken.append({"kind": "correspondence", "count": len(corr), "first": corr[0]})
    cov = dict(audit)
    cov.update({
        "trusted_base": TRUSTED, "evaluations": st["evaluations"], "distinct_nontrivial": len(distinct), "rule": rule, "samples": samples,
        "programs": gout.get("ok", 0), "generator_outcomes": gout, "agree_with_model": st["agree_model"], "agree_with_reference": st["agree_ref"],
        "disagreements_checked": len(viol) + len(corr), "case_kinds": st["kinds"], "harness_stats": meta.get("stats", {}), "explanation": explanation,
    })
    return core.finish(ctx, level, cov, assumptions)
