"""C03 — routing equals OpenAPI path matching under the server base path."""
from . import servefam

THEOREMS = ["Goag.Router.route_refines_spec", "Goag.Router.route_reports_matching_item", "Goag.Router.not_found_iff_no_match", "Goag.Router.no_leading_slash_not_found"]
TRUSTED = [
    "Lean 4.33.0 kernel; axioms propext, Classical.choice, Quot.sound only (audited by #print axioms)",
    "hand-written models Goag.Router (Route.add / emitted route functions on segment lists), Goag.Serve.basePath/plan (goag.Generate base path, NewRouter) — tied to the code by differential correspondence on every run, not verified",
    "Lean reader Goag.Spec.readDoc of the same OpenAPI JSON file goag loads (assumed to agree with kin-openapi on the dialect)",
    "Go reflection driver /verif/harness/rt (installs handlers/middlewares, records events)",
    "net/http request plumbing, url.Parse for the server URL forms of the dialect",
]


def check(ctx):
    return servefam.check_prop(
        ctx, "C03", ["GoagModel.Props.C03"], THEOREMS,
        [("route", [], "route")], TRUSTED,
        rule="specs = random well-formed template sets (1-7 templates, depth<=4 over literals {a,b,c}, per-depth variables, empty last segment) x 1-3 methods x 10 base-path forms x cors x optional single-scheme security; requests = all paths to depth 3 (quick) / 4 (thorough) over {a,b,z,7,true,''} + sampled deeper + template-directed instantiations + base-path near-misses, x 2 methods, random middleware/handler configuration; non-trivial = not answered by the plain not-found path; distinct by (package, method, path, observation)",
        explanation="the routing decision observed on the generated package (handler identity via its generated Method()/Path(), template seen by middlewares, not-found / spec / CORS class) is compared with the Lean model routeGo(build items) and with the reference specRoute (OpenAPI matching, literal first)",
        assumptions=["templates pairwise non-equivalent, variables are whole segments (WF)", "handlers installed for every operation",
                     "CORS enabled implies a CORS handler is installed, otherwise KF-C17-nilCorsFallback"])
