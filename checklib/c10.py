"""C10 — the generated client reconstructs every response the server can send."""
from . import respfam

THEOREMS = ["Goag.Resp.documented_arm_exact", "Goag.Resp.documented_reaches_arm", "Goag.Resp.undocumented_to_default", "Goag.Resp.undocumented_is_error",
            "Goag.RespHdr.read_write_header", "Goag.RespHdr.read_write_all", "Goag.RespHdr.valuesOf_writeAll_absent", "Goag.RespHdr.unset_iff_no_lines", "Goag.RespHdr.required_absent_is_error", "Goag.RespHdr.parseLeaves_fmtLeaves"]


def check(ctx):
    return respfam.check(ctx, "C10", ["GoagModel.Props.C10", "GoagModel.Props.C10b"], THEOREMS,
                         rule="specs = 3-5 operations over 7 path templates x {get,post,put,delete}: typed path / query (scalar and array) / header parameters, JSON or raw request bodies, response sets drawn from {200,201,204,400,404,default} with inline responses, shared component responses (used by several operations and statuses) and alias chains, 0-2 declared headers (required / optional, six types), JSON / raw / empty bodies; optional server base path; generated with --client; per operation: seeded round trips of every constructible response value (status, headers, JSON / raw body) and 11 injected status codes (documented and undocumented) through a stub transport; distinct by (package, response value) / (package, operation, arm)",
                         explanation="the response value a handler returns is dumped canonically and compared with the value Client.<Op> returns (same type, code, headers, body); injected status codes are compared with the Lean model clientArm (documented arm / default arm / not-implemented error)",
                         assumptions=["a default response carries a code that is not one of the operation's numbered statuses", "raw bodies compared as byte sequences after full read"],
                         level="translation_validation")
