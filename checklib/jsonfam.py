"""Shared machinery for C06 / C07 / C08: the jsonf facet against the Lean JSON codec model."""
import json
import re

from . import core


def to_jform(x):
    """canonical-text JSON -> harness J form (leaf texts re-rendered; only their JSON kind matters to conforms)"""
    if x is None:
        return None
    if isinstance(x, dict):
        return {"o": [[k, to_jform(v)] for k, v in x.items()]}
    if isinstance(x, list):
        return {"a": [to_jform(v) for v in x]}
    if isinstance(x, bool):
        return {"r": "true" if x else "false"}
    if isinstance(x, str) and x.startswith("\x00NUM"):
        return {"r": x[4:]}
    if isinstance(x, str):
        return {"r": json.dumps(x, ensure_ascii=False)}
    return {"r": str(x)}


def parse_keep_numbers(text):
    return json.loads(text, parse_float=lambda s: "\x00NUM" + s, parse_int=lambda s: "\x00NUM" + s)


def run(ctx, prop, extra=()):
    vh = core.build_harness(ctx)
    if not vh:
        return None
    outs = core.run_sharded(ctx, vh, "jsonf", extra=list(extra))
    cases = core.read_lines(outs, "cases.tsv")
    impl = {}
    for r in core.read_tsv(outs, "impl.tsv"):
        if len(r) >= 2:
            impl[r[0]] = r[1]
    gens = core.read_tsv(outs, "gen.tsv")
    meta = core.merge_meta(outs)
    ctx.json_shapes = [(r[0], r[1], r[2], impl.get(r[0], "MISSING")) for r in core.read_tsv(outs, "shape.tsv") if len(r) >= 3]
    answers = core.run_driver(cases, ctx, name="json")
    if len(answers) != len(cases):
        ctx.broken.append({"kind": "driver-desync", "detail": "%d cases, %d answers" % (len(cases), len(answers))})
        return None
    rows = []
    ctx.json_specpaths = {}
    for cl, al in zip(cases, answers):
        cf = cl.split("\t")
        af = al.split("\t")
        if cf[0] == "jsonspec":
            ctx.json_specpaths[cf[1]] = cf[2]
        if cf[0] not in ("jsonenc", "jsondec"):
            continue
        rows.append({"op": cf[0], "id": cf[1], "type": cf[2], "case": cf, "impl": impl.get(cf[1], "MISSING"), "model": af[1:]})
    return rows, gens, meta


def spec_of(gens, cid):
    pkg = cid.split("#")[0]
    for g in gens:
        if g[0] == pkg and len(g) > 4:
            return bytes.fromhex(g[4]).decode("utf-8", "replace")
    return None


def lost_map_keys(r):
    """C07, 'map entries appear under their own keys': keys of the value's additional-property maps
    (every depth) that occur as no member name anywhere in the encoded document. A necessary
    condition only — used when the output differs from the model's, where the schema reference alone
    cannot see a dropped entry."""
    if r.get("op") != "jsonenc":
        return []
    try:
        val = json.loads(bytes.fromhex(r["case"][3]).decode())
        ic = re.search(r"canon=(\w*)", r["impl"])
        doc = json.loads(bytes.fromhex(ic.group(1)).decode())
    except Exception:
        return []
    want, have = [], set()

    def walk_val(v):
        if isinstance(v, list):
            for x in v:
                walk_val(x)
        elif isinstance(v, dict):
            for kv in v.get("x") or []:
                if isinstance(kv, list) and len(kv) == 2 and isinstance(kv[0], str):
                    want.append(kv[0])
                    walk_val(kv[1])
            for key in ("f", "v"):
                if isinstance(v.get(key), (list, dict)):
                    walk_val(v[key])

    def walk_doc(d):
        if isinstance(d, dict):
            for k, x in d.items():
                have.add(k)
                walk_doc(x)
        elif isinstance(d, list):
            for x in d:
                walk_doc(x)

    walk_val(val)
    walk_doc(doc)
    return sorted(set(k for k in want if k not in have))


def decide(ctx, prop, rows, gens):
    st = {"evaluations": 0, "agree_model": 0, "agree_ref": 0, "unmodelled": 0, "kinds": {}, "distinct": set(), "samples": []}
    viol, corr, need_conf = [], [], []
    kf = core.known_findings()
    kf_entry = next((e for e in kf.get("open", []) if e["id"] == "KF-C06-embeddedAddl" and (e.get("property") == prop or prop in e.get("also", []))), None)
    st["known_finding_hits"] = {}
    for r in rows:
        m = r["model"]
        in_kf = bool(m) and any("KF-C06-embeddedAddl" in x for x in m)
        if in_kf:
            # inside the recorded class: the witness cases must still fail exactly as recorded
            if not kf_entry:
                viol.append(r)
                continue
            exp = kf_entry.get("expected_observations", {}).get(r["id"])
            o = r["impl"]
            obs = re.sub(r"enc=\w+ ", "", o).split(" dump=")[0].split(" msg=")[0]
            holds = ("valid=true" in o and "dup=false" in o and " rt=equal" in o) if r["op"] == "jsonenc" else o.startswith("dec=ok")
            if exp is not None and obs != exp and not holds:
                r2 = dict(r)
                r2["model"] = ["recorded: " + exp, "observed: " + obs]
                viol.append(r2)
            elif not holds or exp is None:
                st["known_finding_hits"]["KF-C06-embeddedAddl"] = st["known_finding_hits"].get("KF-C06-embeddedAddl", 0) + 1
            continue
        if r["impl"].startswith("FATAL:"):
            # the process died on this case (stack overflow, ...): no value, no error, no response
            r2 = dict(r)
            r2["impl"] = "the process died: " + core.fatal_text(r["impl"])
            viol.append(r2)
            continue
        if "PANIC" in r["impl"] and r["op"] == "jsondec" and prop == "C08":
            # whatever the model says about the document: decoding must return a value or an error
            viol.append(r)
            continue
        if r["op"] == "jsonenc" and r["id"].endswith(".z"):
            # the zero value of a union (no alternative chosen): outside the model's values; the
            # reference (C06 / C07): nothing valid can be written for it, so the encoder must refuse
            if prop in ("C06", "C07"):
                st["evaluations"] += 1
                st["kinds"]["union zero value"] = st["kinds"].get("union zero value", 0) + 1
                if r["impl"].startswith("enc=ERR") and "PANIC" not in r["impl"]:
                    st["agree_model"] += 1
                    st["agree_ref"] += 1
                else:
                    r2 = dict(r)
                    r2["model"] = ["R: a union value with no alternative chosen has no valid encoding: MarshalJSON must return an error"]
                    viol.append(r2)
            continue
        if not m or m[0].startswith("unmodelled") or m[0] == "no-model":
            st["unmodelled"] += 1
            continue
        o = r["impl"]
        # which inputs of this run lie inside the fragments the tree theorems are proved for
        tf = next((x[2:] for x in m if x.startswith("T:")), None)
        if tf:
            flags = dict(kv.split("=") for kv in tf.split(","))
            fr = st.setdefault("inside_proved_fragment", {})
            if r["op"] == "jsonenc" and prop == "C06":
                fr["values"] = fr.get("values", 0) + 1
                fr["rt_roundtrip applies"] = fr.get("rt_roundtrip applies", 0) + (flags.get("rt") == "true")
            elif r["op"] == "jsonenc" and prop == "C07":
                fr["values"] = fr.get("values", 0) + 1
                fr["toJ_conforms applies"] = fr.get("toJ_conforms applies", 0) + (flags.get("wf") == "true")
            elif r["op"] == "jsondec" and prop == "C08":
                fr["documents"] = fr.get("documents", 0) + 1
                conf_ok = len(m) > 1 and m[1].startswith("R:conforms=true")
                fr["valid_document_cycle applies"] = fr.get("valid_document_cycle applies", 0) + (flags.get("frag") == "true" and flags.get("leaves") == "true" and conf_ok)
                fr["bad_shape_rejected applies"] = fr.get("bad_shape_rejected applies", 0) + (flags.get("frag") == "true" and flags.get("shape") == "false")
        if r["op"] == "jsonenc" and prop in ("C06", "C07"):
            st["evaluations"] += 1
            mc, md = m[0][6:], m[1][5:]
            conf = m[2].split("=")[1] == "true"
            ic = re.search(r"canon=(\w*)", o)
            idp = re.search(r" dump=(.*)$", o)
            valid = "valid=true" in o
            dup = "dup=true" in o
            rt = re.search(r" rt=(\w+)", o)
            rt = rt.group(1) if rt else "?"
            okm = bool(ic) and ic.group(1) == mc and bool(idp) and idp.group(1) == md
            if prop == "C06":
                okr = valid and not dup and rt == "equal"
            else:
                okr = valid and not dup and okm and conf
                if valid and not okm:
                    need_conf.append(r)
                    continue
            kind = r["type"][:3]
            st["kinds"][kind] = st["kinds"].get(kind, 0) + 1
            st["distinct"].add((r["id"].split("#")[0], r["type"], mc))
        elif r["op"] == "jsondec" and prop == "C07":
            # decode-then-encode (an echo handler, a forwarding client): what comes out must conform too
            io = o.split(" msg=")[0]
            if not io.startswith("dec=ok") or not m[0].startswith("dec=ok"):
                continue
            st["evaluations"] += 1
            re_i = re.search(r"reenc=(\w*)", io)
            re_m = re.search(r"reenc=(\w*)", m[0])
            okm = bool(re_i) and bool(re_m) and re_i.group(1) == re_m.group(1)
            okr = okm and m[1].endswith("reencConforms=true")
            if not okm and re_i:
                r2 = dict(r)
                r2["impl"] = "canon=" + re_i.group(1)
                need_conf.append(r2)
                continue
            st["kinds"]["reencode"] = st["kinds"].get("reencode", 0) + 1
            st["distinct"].add((r["id"].split("#")[0], r["type"], r["case"][4]))
        elif r["op"] == "jsondec" and prop == "C08":
            st["evaluations"] += 1
            fault = bytes.fromhex(r["case"][3]).decode()
            io = o.split(" msg=")[0]
            okm = io == m[0]
            rm = re.match(r"R:conforms=(\w+) expect=(\w*)", m[1]) if len(m) > 1 else None
            if not rm:
                st["unmodelled"] += 1
                st["evaluations"] -= 1
                continue
            conf = rm.group(1) == "true"
            expect = rm.group(2)
            if fault == "valid":
                re_i = re.search(r"reenc=(\w*)", io)
                okr = (not conf) or (io.startswith("dec=ok") and bool(re_i) and re_i.group(1) == expect)
            elif r["type"] in ("Union",) and fault.split(":")[0] in ("drop", "swap", "null"):
                # the discriminator property of a oneOf: absent / null / wrong JSON kind must be refused;
                # the error class "discriminator" is what names it (the message quotes the value)
                okr = io.startswith("dec=err(")
            elif fault.startswith("drop:"):
                okr = io == "dec=err(missing,%s)" % fault[5:].encode().hex()
            elif fault.startswith("swap:"):
                okr = io == "dec=err(type,%s)" % fault[5:].encode().hex()
            else:
                okr = True
            st["kinds"][fault.split(":")[0]] = st["kinds"].get(fault.split(":")[0], 0) + 1
            st["distinct"].add((r["id"].split("#")[0], r["type"], r["case"][4]))
        else:
            continue
        if okm:
            st["agree_model"] += 1
        if okr:
            st["agree_ref"] += 1
        if len(st["samples"]) < 3 and r["type"] not in [s["type"] for s in st["samples"]]:
            st["samples"].append({"id": r["id"], "type": r["type"], "impl": o[:400], "model": [x[:300] for x in m]})
        if okm and okr:
            continue
        (corr if okr else viol).append(r)
    # C07: outputs that differ from the model are judged by the reference directly
    if need_conf:
        lines, back = [], []
        cur = None
        for r in need_conf:
            pkg = r["id"].split("#")[0]
            if pkg != cur:
                for g in gens:
                    pass
            ic = re.search(r"canon=(\w*)", r["impl"])
            try:
                doc = parse_keep_numbers(bytes.fromhex(ic.group(1)).decode())
                jf = json.dumps(to_jform(doc), ensure_ascii=False)
            except Exception:
                viol.append(r)
                continue
            lines.append(("jsonconf", r, jf))
        # re-establish the schema context per package, then ask the reference
        by_pkg = {}
        for tag, r, jf in lines:
            by_pkg.setdefault(r["id"].split("#")[0], []).append((r, jf))
        specpath = {}
        for c in rows:
            pass
        req = []
        order = []
        for pkg, items in by_pkg.items():
            sp = ctx.json_specpaths.get(pkg)
            if not sp:
                continue
            req.append("jsonspec\t%s\t%s" % (pkg, sp))
            order.append(None)
            for r, jf in items:
                req.append("jsonconf\t%s\t%s\t%s" % (r["id"], r["type"], jf.encode().hex()))
                order.append(r)
        ans = core.run_driver(req, ctx, name="jsonconf")
        for r, a in zip(order, ans):
            if r is None:
                continue
            st["evaluations"] += 1
            lost = lost_map_keys(r)
            if lost:
                # "map entries appear under their own keys": dropping an entry leaves a document that
                # still validates, so this clause of the property is judged on the value itself
                r2 = dict(r)
                r2["model"] = list(r["model"]) + ["R:map entries of the value that appear under no key of the output: " + json.dumps(lost, ensure_ascii=False)]
                viol.append(r2)
            elif a.endswith("conforms=true"):
                st["agree_ref"] += 1
                corr.append(r)
            else:
                viol.append(r)
    st["distinct_nontrivial"] = len(st.pop("distinct"))

    def payload(r, kind):
        p = {"kind": kind, "case": r["id"], "type": r["type"], "impl": r["impl"][:3000], "model": r["model"], "spec": spec_of(gens, r["id"])}
        if r["op"] == "jsonenc":
            p["value"] = bytes.fromhex(r["case"][3]).decode("utf-8", "replace")
        else:
            p["fault"] = bytes.fromhex(r["case"][3]).decode()
            p["document(J form)"] = bytes.fromhex(r["case"][4]).decode("utf-8", "replace")
        return p
    viol.sort(key=lambda r: len(r["case"][-1]))
    for r in viol[:5]:
        ctx.violations.append(payload(r, "implementation contradicts the reference"))
    st["violations_total"] = len(viol)
    if corr:
        corr.sort(key=lambda r: len(r["case"][-1]))
        ctx.broken.append({"kind": "correspondence", "count": len(corr), "first": payload(corr[0], "model and implementation differ (reference satisfied)")})
    return st


TRUSTED = [
    "Lean 4.33.0 kernel; axioms propext, Classical.choice, Quot.sound only (audited by #print axioms)",
    "hand-written structural model Goag.JsonM (toJ / decode / dumpVal over schema trees after $ref inlining) of the emitted MarshalJSON / UnmarshalJSON — tied to the code by differential correspondence on every run, not verified",
    "leaves (strings, numbers, booleans, times, untyped values) are opaque: their canonical JSON text, dump text and decode verdict come from the Go library (encoding/json, strconv, time) as a table measured on this run",
    "Lean reader readSchema of the same OpenAPI JSON file goag loads",
    "Go reflection driver /verif/harness/rt (builds values positionally, canonicalises JSON, detects duplicate keys)",
]


def check(ctx, prop, modules, theorems, rule, explanation, assumptions, level="proof"):
    audit = core.proof_audit(ctx, modules, theorems)
    res = run(ctx, prop)
    st = {"evaluations": 0, "agree_model": 0, "agree_ref": 0, "unmodelled": 0, "kinds": {}, "distinct_nontrivial": 0, "samples": []}
    gout, meta = {}, {}
    if res:
        rows, gens, meta = res
        st = decide(ctx, prop, rows, gens)
        for k, n in st.get("known_finding_hits", {}).items():
            e = [e for e in core.known_findings()["open"] if e["id"] == k][0]
            ctx.known.append("%s %s (%d witness / class inputs behaved as recorded)" % (k, e["what"], n))
        for g in gens:
            k = g[1] if not (len(g) > 3 and g[3]) else "broken"
            gout[k] = gout.get(k, 0) + 1
        core.flag_broken_packages(ctx, gens, "none of its types can be encoded or decoded")
        if prop == "C07":
            # the generated Go type: a required property that can be left unset would be omitted from the
            # encoding, an optional one that cannot would be written as a zero value nobody set
            nshape = 0
            for cid, tn, want, got in getattr(ctx, "json_shapes", []):
                if got == "MISSING":
                    continue  # package not driven (reported above if it did not compile)
                st["evaluations"] += 1
                nshape += 1
                def shape_eq(w, g):
                    wt, gt = w.split(","), g[6:].split(",") if g.startswith("shape=") else None
                    if gt is None or len(wt) != len(gt):
                        return w == "" and g == "shape="
                    return all((a[0] == b[0]) if a.endswith("*") else a == b for a, b in zip(wt, gt))
                if not shape_eq(want, got):
                    if nshape <= 10**9 and len([v for v in ctx.violations if v.get("kind", "").startswith("the Go type")]) < 2:
                        ctx.violations.append({"kind": "the Go type generated for an object schema lets a required property be omitted (or forces an optional one)",
                                               "case": cid, "type": tn, "declared (R = required, O = optional, n = nullable, * = nullability not compared; property-name order)": want,
                                               "generated": got, "spec": spec_of(gens, cid)})
                else:
                    st["agree_model"] += 1
                    st["agree_ref"] += 1
            st["kinds"]["type-shape"] = nshape
    cov = dict(audit)
    cov.update({
        "trusted_base": TRUSTED, "evaluations": st["evaluations"], "distinct_nontrivial": st["distinct_nontrivial"], "rule": rule,
        "samples": st["samples"], "programs": gout.get("ok", 0), "generator_outcomes": gout, "agree_with_model": st["agree_model"],
        "agree_with_reference": st["agree_ref"], "disagreements_checked": st.get("violations_total", 0), "unmodelled": st["unmodelled"],
        "case_kinds": st["kinds"], "harness_stats": meta.get("stats", {}), "explanation": explanation,
        "inside_proved_fragment": st.get("inside_proved_fragment", {}),
    })
    return core.finish(ctx, level, cov, assumptions)
