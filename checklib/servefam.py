"""Shared machinery for the properties decided over the `serve` protocol (C03 C05 C11 C13b C14
C16 C17): run the route/sec facets against the real generator + generated packages, run the
Lean model on the same cases, and decide per property on a projection of the trace."""
import json
import os
import re

from . import core


class Row:
    __slots__ = ("id", "pkg", "fields", "impl", "model", "ref", "kf")


def run_facets(ctx, facets):
    """facets: list of (facet name, extra args). Returns (rows, gen_rows, meta, plan_msgs)."""
    vh = core.build_harness(ctx)
    if not vh:
        return [], [], {}, {}
    rows, gens, plans = [], [], {}
    meta = {}
    for facet, extra, tag in facets:
        # distinct output dirs per facet invocation
        outs = core.run_sharded(ctx, vh, facet, extra=extra, tag=tag)
        cases = core.read_lines(outs, "cases.tsv")
        impl = {}
        for r in core.read_tsv(outs, "impl.tsv"):
            if len(r) >= 2:
                impl[r[0]] = r[1]
        for g in core.read_tsv(outs, "gen.tsv"):
            gens.append(g)
        for b in core.read_tsv(outs, "extras.tsv"):
            if len(b) >= 2:
                BODIES[b[0]] = b[1]
        m = core.merge_meta(outs)
        for k, v in m.get("stats", {}).items():
            meta[k] = meta.get(k, 0) + v
        answers = core.run_driver(cases, ctx, name="serve-" + tag)
        if len(answers) != len(cases):
            ctx.broken.append({"kind": "driver-desync", "detail": "%d cases, %d answers" % (len(cases), len(answers))})
            continue
        for cl, al in zip(cases, answers):
            cf = cl.split("\t")
            af = al.split("\t")
            if cf[0] == "api":
                plans[cf[1]] = af[1] if len(af) > 1 else al
                continue
            if cf[0] != "serve":
                continue
            r = Row()
            r.id = cf[1]
            r.pkg = cf[1].split("#")[0]
            r.fields = cf
            r.impl = impl.get(cf[1], "MISSING")
            if len(af) >= 4:
                r.model, r.ref, r.kf = af[1], af[2][2:], [k for k in af[3][2:].split(",") if k]
            else:
                r.model, r.ref, r.kf = "NO-MODEL:" + "|".join(af[1:]), "", []
            rows.append(r)
    return rows, gens, meta, plans


def events(trace):
    return trace.split(" | ") if trace else []


BODIES = {}


def case_cfg(r):
    f = r.fields
    cfg = {"method": f[2], "path": bytes.fromhex(f[3]).decode("utf-8", "replace"), "mws": int(f[4]), "nf": f[5] == "1",
           "spec": f[6] == "1", "cors": f[7] == "1", "parse": f[8] == "1", "auth": f[9], "query": f[10], "headers": f[11]}
    if r.id in BODIES:
        cfg.update(json.loads(bytes.fromhex(BODIES[r.id]).decode("utf-8", "replace")))
    return cfg


def find(evs, prefix):
    return [e for e in evs if e.startswith(prefix)]


def final_of(evs):
    fs = find(evs, "S:")
    return fs[-1] if fs else ""


def route_class(evs):
    """what the request was routed to, as far as the trace shows"""
    fin = final_of(evs)
    h = find(evs, "H:")
    if h:
        return "op(" + h[0][2:] + ")"
    if find(evs, "CORS("):
        return "cors"
    if "B:SPECFILE" in fin and fin.startswith("S:200"):
        return "spec"
    if fin.startswith("S:401"):
        m = find(evs, "M0>")
        return "denied(" + (m[0][4:-1].rsplit(",", 1)[0] if m else "?") + ")"
    if fin.startswith("S:404"):
        return "nf"
    if find(evs, "PANIC"):
        return "panic"
    return "other(" + fin + ")"


def tpl_seen(evs):
    return [e[e.index(">") + 1:] for e in evs if re.match(r"M\d+>", e)]


# ---------------------------------------------------------------- per-property projections

def aspect(prop, trace):
    evs = events(trace)
    if prop == "C03":
        return route_class(evs) + " tpl=" + ",".join(sorted(set(tpl_seen(evs))))
    if prop == "C05":
        ps = find(evs, "P:")
        if not ps:
            return ""
        m = re.search(r"Path\[[^\]]*\]", ps[0])
        if m:
            return m.group(0)
        return ps[0] if "err(path" in ps[0] or "wrong-path" in ps[0] else "no-path-part"
    if prop == "C04":
        ps = find(evs, "P:")
        if not ps:
            return ""
        if ps[0].startswith("P:err("):
            return ps[0] if ("err(query" in ps[0] or "err(header" in ps[0]) else "non-qh-error"
        q = re.search(r"Query\[[^\]]*\]", ps[0])
        h = re.search(r"Headers\[[^\]]*\]", ps[0])
        return (q.group(0) if q else "") + " " + (h.group(0) if h else "")
    if prop == "C16":
        return " ".join(e if not e.startswith(("A:", "H:", "C:", "P:")) else e[0] for e in evs if not e.startswith("S:"))
    if prop == "C11":
        return " ".join(e for e in evs if e.startswith(("A:", "C:", "H:"))) + " " + final_of(evs)[:5]
    if prop == "C17":
        # the preflight is answered by the CORS handler alone: a middleware, authenticator or operation
        # handler event in the same trace is part of the aspect
        others = [e.split("(")[0].split(":")[0] for e in evs if find(evs, "CORS") and not e.startswith(("CORS", "S:"))]
        return " ".join(find(evs, "CORS")) + " " + route_class(evs) + (" +" + ",".join(others) if others else "")
    if prop == "C13":
        return "spec" if route_class(evs) == "spec" else "not-spec"
    if prop == "C14":
        m = re.search(r"W:(\d+)", final_of(evs))
        return ("PANIC " if find(evs, "PANIC") or "PANIC" in trace else "") + "W:" + (m.group(1) if m else "?")
    return trace


def ref_ok(prop, r):
    """does the implementation's observation satisfy the reference verdict for this property?"""
    evs = events(r.impl)
    cfg = case_cfg(r)
    route, auth, params, qh, sec = (r.ref.split("|") + ["-", "-", "-", "sec[]"])[:5]
    rc = route_class(evs)
    if prop == "C03":
        if route == "spec":
            return rc == "spec"
        if route == "nf":
            return rc == "nf"
        if route.startswith("cors("):
            return rc == "cors"
        if route.startswith("op("):
            tpl = route[3:-1].split(" ", 1)[1]
            seen = tpl_seen(evs)
            if any(s != "(%s,true)" % tpl for s in seen):
                return False
            if auth == "401":
                return rc == "denied(%s)" % tpl or rc == "denied(?)"
            return rc == route
        return False
    if prop == "C05":
        if not route.startswith("op(") or auth == "401" or not cfg["parse"]:
            return True
        p = find(evs, "P:")
        if not p:
            return False
        got = p[0][2:]
        if got.startswith("err(query") or got.startswith("err(header"):
            return True  # the query / header block failed first: C04's matter, the path block never ran
        if params.startswith("ok"):
            gp = re.search(r"Path\[[^\]]*\]", got)
            rp = re.search(r"Path\[[^\]]*\]", params)
            return got.startswith("ok") and (gp.group(0) if gp else "") == (rp.group(0) if rp else "")
        m = re.match(r"err\(path,([0-9a-f]*),(\w+)\)", got)
        if not m:
            return False
        faults = params[4:-1].split(",")
        return (m.group(1) + ":" + m.group(2)) in faults
    if prop == "C04":
        if not route.startswith("op(") or auth == "401" or not cfg["parse"]:
            return True
        p = find(evs, "P:")
        if not p:
            return False
        got = p[0][2:]
        if qh.startswith("ok"):
            if got.startswith("err("):
                # a path-parameter fault may legitimately fail the parse (C05's matter); so may a
                # fault on a header read by the operation's own security scheme
                ms = re.match(r"err\(header,([0-9a-f]*),(multiple|required)\)", got)
                if ms and ms.group(1) in sec[4:-1].split(","):
                    return True
                return got.startswith("err(path") or got == "err(wrong-path)"
            rq = re.search(r"Query\[([^\]]*)\]", qh).group(1)
            rh = re.search(r"Headers\[([^\]]*)\]", qh).group(1)
            gq = re.search(r"Query\[([^\]]*)\]", got)
            gh = re.search(r"Headers\[([^\]]*)\]", got)
            gqs = gq.group(1) if gq else ""
            ghs = gh.group(1) if gh else ""
            # declared header parameters come first; security-derived header fields may follow
            return gqs == rq and (ghs == rh or ghs.startswith(rh + ",") or (rh == "" ))
        m = re.match(r"err\((query|header),([0-9a-f]*),(\w+)\)", got)
        if not m:
            return False
        if m.group(1) == "header" and m.group(2) in sec[4:-1].split(",") and m.group(3) in ("multiple", "required"):
            return True
        return "%s:%s:%s" % (m.group(1), m.group(2), m.group(3)) in qh[4:-1].split(",")
    if prop == "C16":
        ms = [e for e in evs if re.match(r"M\d+[<>]", e)]
        hev = find(evs, "H:")
        if not route.startswith("op(") and hev:
            # the implementation did dispatch to an operation (whatever the model thinks of the routing,
            # which is C03's matter): "whenever a request is dispatched to an operation" applies to it
            route = "op(" + hev[0][2:] + ")"
        if not route.startswith("op("):
            return not ms
        n = cfg["mws"]
        enters = ["M%d>" % i for i in range(n)]
        leaves = ["M%d<" % i for i in reversed(range(n))]
        shape = [re.match(r"M\d+[<>]", e).group(0) for e in ms]
        if shape != enters + leaves:
            return False
        tpl = route[3:-1].split(" ", 1)[1]
        if any(s != "(%s,true)" % tpl for s in tpl_seen(evs)):
            return False
        # all auth / handler events strictly inside the innermost middleware
        idx = [i for i, e in enumerate(evs) if e.startswith(("A:", "H:", "C:", "P:"))]
        if n and idx:
            first_leave = evs.index("M%d<" % (n - 1))
            last_enter = max(i for i, e in enumerate(evs) if re.match(r"M\d+>", e))
            return min(idx) > last_enter and max(idx) < first_leave
        return True
    if prop == "C11":
        if not route.startswith("op("):
            return True
        h = find(evs, "H:")
        c = find(evs, "C:")
        if auth == "pub":
            return bool(h) and not c and not find(evs, "A:")
        if auth == "401":
            return not h and final_of(evs).startswith("S:401")
        if auth.startswith("ran{"):
            tags = auth[4:-1].split(",")
            return bool(h) and len(c) == 1 and c[0][2:] in tags
        return False
    if prop == "C17":
        if route.startswith("cors("):
            ce = find(evs, "CORS(")
            if not ce:
                return False
            m = re.match(r"CORS\(([^;]*);([^)]*)\)", ce[0])
            rm = re.match(r"cors\(([^;]*);([^)]*)\)", route)
            hs = m.group(2).split(",") if m.group(2) else []
            alone = all(e.startswith(("CORS", "S:")) for e in evs)  # no middleware / authenticator / handler around it
            return (m.group(1) == rm.group(1) and ",".join(sorted(hs)) == rm.group(2) and len(set(hs)) == len(hs)
                    and len(ce) == 1 and len(find(evs, "CORSH(")) == 1 and final_of(evs).startswith("S:204") and alone)
        return not find(evs, "CORS")
    if prop == "C13":
        return (rc == "spec") == (route == "spec")
    if prop == "C14":
        return "PANIC" not in r.impl and "W:1 " in final_of(evs)
    return True


KF_OF_PROP = {
    "C03": set(),
    "C17": {"KF-C11-arity"},
    "C11": {"KF-C11-arity", "KF-C11-unsupported"},
    "C16": set(),
    "C05": set(), "C13": set(), "C14": set(), "C04": set(),
}


def decide(ctx, prop, rows, gens, plans, listed_open):
    """Applies the decision table to every row for the property's aspect. Returns stats."""
    st = {"evaluations": 0, "agree_model": 0, "agree_ref": 0, "known_finding_hits": {}, "unmodelled": 0,
          "classes": {}, "disagreements_checked": 0}
    viol, corr = [], []
    distinct = set()
    samples = []
    for r in rows:
        if r.model.startswith("NO-MODEL"):
            st["unmodelled"] += 1
            continue
        st["evaluations"] += 1
        if r.impl.startswith("FATAL:"):
            # the process serving this request died with an unrecoverable runtime error
            if len([v for v in ctx.violations if v.get("kind", "").startswith("the serving process died")]) < 2:
                g = next((g for g in gens if g[0] == r.pkg), None)
                ctx.violations.append({"kind": "the serving process died on this request (unrecoverable runtime error)", "case": r.id, "request": case_cfg(r),
                                       "fatal": core.fatal_text(r.impl), "spec": bytes.fromhex(g[4]).decode("utf-8", "replace") if g and len(g) > 4 else None})
            continue
        ai, am = aspect(prop, r.impl), aspect(prop, r.model)
        okm = ai == am
        okr = ref_ok(prop, r)
        cls = route_class(events(r.impl)).split("(")[0]
        st["classes"][cls] = st["classes"].get(cls, 0) + 1
        if cls != "nf":
            distinct.add((r.pkg, r.fields[2], r.fields[3], ai))
        if okm:
            st["agree_model"] += 1
        if okr:
            st["agree_ref"] += 1
        if len(samples) < 3 and cls not in [s["class"] for s in samples]:
            samples.append({"id": r.id, "class": cls, "request": case_cfg(r), "impl": r.impl, "model": r.model, "reference": r.ref})
        if okm and okr:
            continue
        st["disagreements_checked"] += 1
        kf = [k for k in r.kf if k in KF_OF_PROP.get(prop, set()) and k in listed_open]
        if okm and not okr and kf:
            for k in kf:
                st["known_finding_hits"][k] = st["known_finding_hits"].get(k, 0) + 1
            continue
        if not okm and okr:
            corr.append(r)
            continue
        viol.append(r)
    st["distinct_nontrivial"] = len(distinct)
    st["samples"] = samples
    spec_of = {g[0]: g for g in gens}

    def payload(r, kind):
        g = spec_of.get(r.pkg)
        return {"kind": kind, "case": r.id, "request": case_cfg(r), "impl": r.impl, "model": r.model, "reference": r.ref,
                "kf_classes": r.kf, "aspect_impl": aspect(prop, r.impl), "aspect_model": aspect(prop, r.model),
                "spec": bytes.fromhex(g[4]).decode("utf-8", "replace") if g and len(g) > 4 else None,
                "invocation": json.loads(bytes.fromhex(g[5]).decode("utf-8", "replace")) if g and len(g) > 5 and g[5].startswith("7b") else None,
                "plan": plans.get(r.pkg)}
    viol.sort(key=lambda r: (len(r.fields[3]), len(r.impl)))
    for r in viol[:5]:
        ctx.violations.append(payload(r, "implementation contradicts the reference on this request"))
    st["violations_total"] = len(viol)
    if corr:
        corr.sort(key=lambda r: (len(r.fields[3]), len(r.impl)))
        ctx.broken.append({"kind": "correspondence", "count": len(corr), "first": payload(corr[0], "model and implementation differ (reference satisfied)")})
    return st


def check_prop(ctx, prop, modules, theorems, facets, trusted, rule, explanation, assumptions, level="proof"):
    audit = core.proof_audit(ctx, modules, theorems)
    rows, gens, meta, plans = run_facets(ctx, facets)
    kf = core.known_findings()
    listed = {e["id"] for e in kf.get("open", []) if e.get("property") == prop or prop in e.get("also", [])}
    st = decide(ctx, prop, rows, gens, plans, listed)
    # generator outcomes of the corpus
    gout = {}
    for g in gens:
        k = g[1] if not (len(g) > 3 and g[3]) else "broken"
        gout[k] = gout.get(k, 0) + 1
    core.flag_broken_packages(ctx, gens, "it cannot serve any request")
    unmod = sum(1 for v in plans.values() if not v.startswith("plan-ok"))
    if unmod:
        ctx.broken.append({"kind": "model-reader", "detail": "Lean reader/plan rejected %d generated specs: %s" % (unmod, [v for v in plans.values() if not v.startswith("plan-ok")][:3])})
    for k, n in st["known_finding_hits"].items():
        e = [e for e in kf["open"] if e["id"] == k][0]
        ctx.known.append("%s %s (%d inputs in class behaved as recorded)" % (k, e["what"], n))
    cov = dict(audit)
    cov.update({
        "trusted_base": trusted,
        "evaluations": st["evaluations"],
        "distinct_nontrivial": st["distinct_nontrivial"],
        "rule": rule,
        "samples": st["samples"],
        "programs": gout.get("ok", 0),
        "generator_outcomes": gout,
        "agree_with_model": st["agree_model"],
        "agree_with_reference": st["agree_ref"],
        "disagreements_checked": st["disagreements_checked"],
        "known_finding_hits": st["known_finding_hits"],
        "observed_classes": st["classes"],
        "unmodelled": st["unmodelled"],
        "violations_total": st.get("violations_total", 0),
        "harness_stats": meta,
        "explanation": explanation,
    })
    cov.update(getattr(ctx, "extra_cov", {}))
    return core.finish(ctx, level, cov, assumptions)
