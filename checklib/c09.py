"""C09 — generated client and server agree on every request they can express."""
from . import respfam

THEOREMS = ["Goag.Serve.server_parses_client_scalar", "Goag.Serve.server_parses_client_array", "Goag.Serve.pvalue_clientText",
            "Goag.Prim.parseInt_formatInt", "Goag.Prim.parseBool_formatBool", "Goag.Prim.digitsVal_toDigits", "Goag.Prim.parseInts_formatInts", "Goag.Prim.parseBools_formatBools", "Goag.Prim.formatInt_lexeme", "Goag.Prim.formatInts_lexemes", "Goag.Prim.formatBool_lexeme"]


def check(ctx):
    return respfam.check(ctx, "C09", ["GoagModel.Props.C09", "GoagModel.Props.C09b"], THEOREMS,
                         rule="specs = 3-5 operations over 7 path templates x {get,post,put,delete}: typed path / query (scalar and array) / header parameters, JSON or raw request bodies, response sets drawn from {200,201,204,400,404,default} with inline responses, shared component responses (used by several operations and statuses) and alias chains, 0-2 declared headers (required / optional, six types), JSON / raw / empty bodies; optional server base path; generated with --client; per operation 30 (quick) / 100 (thorough) seeded calls through the API's LocalClient with a recording transport; values under the domain restrictions (path values non-empty and '/'-free, set arrays non-empty, no NaN, times as instants); path-item level parameters that operations redefine; one spec in five generated over an earlier revision's package; distinct by (package, wire request)",
                         explanation="the parameter struct given to Client.<Op> (query, header, path values, JSON or raw body) is dumped canonically and compared with what Parse() returns inside the handler; the wire request (method, escaped path, raw query, headers, body) is recorded and judged by kin-openapi's openapi3filter.ValidateRequest against the source spec (route given by the case; path parameter texts are the unescaped segments at the template's variable positions beneath the base path): a complaint is a violation",
                         assumptions=["path values non-empty and free of '/'", "required and set-optional arrays non-empty", "header values without CR/LF", "times compared as instants, floats not NaN",
                                      "wire validity only: requests where the validator reads an empty text (flag=, empty array item) as an absent value are counted (wire-skip), not judged; a body whose schema is an allOf with a member's own additionalProperties is judged without its body; calls over the real loopback connection are not recorded (wire-skip:no-wire)"],
                         level="translation_validation")
