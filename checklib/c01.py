"""C01 — successful generation always yields a compilable, formatted Go package."""
import re

from . import core

THEOREMS = ["Goag.Naming.publicFieldName_alnum", "Goag.Naming.handler_client_field_disagree"]
TRUSTED = [
    "Lean 4.33.0 kernel; axioms propext, Classical.choice, Quot.sound only (audited by #print axioms)",
    "the Go toolchain as the judge of 'compiles': go/parser + go/format (gofmt stability) on every written file and `go build` of every generated package (with a small registry file importing it)",
    "the hand-written Lean naming model (Goag.Naming publicFieldName / title / privateFieldName), tied to generator.PublicFieldName / Title / PrivateFieldName on every run (all strings of length <= 5 over a separator/letter/digit alphabet, names of the fixtures, random ASCII names)",
    "no formal Go type system is modelled: type-correctness of emitted code is decided per generated package, not proved for all specs",
]

COLLISION = re.compile(r"redeclared|already declared|duplicate (field|method|case|argument)|cannot use _ as (value|type)|other declaration of|is not a type|is not an expression")
NOAPI = re.compile(r"undefined: \w+")
NULLCOMP = re.compile(r"cannot convert \w+ \(variable of type Nullable\[\w+\]\) to type \w+|\(type Nullable\[\w+\] has no field or method \w+\)"
                      r"|\(variable of type (Nullable\[\[\]\w+\]|\[\]\w+)\) as (\[\]\w+|Nullable\[\[\]\w+\]) value")


def hx(s):
    return bytes.fromhex(s).decode("utf-8", "replace")


def check(ctx):
    audit = core.proof_audit(ctx, ["GoagModel.Props.C01"], THEOREMS)
    vh = core.build_harness(ctx)
    n = ok_pkgs = 0
    outcomes, samples, flags_seen, kf_hits, templates = {}, [], {}, {}, {}
    names_n = names_bad = 0
    if vh:
        # tie of the naming model
        nouts = core.run_sharded(ctx, vh, "names", nshards=1)
        rows = core.read_tsv(nouts, "impl.tsv")
        lines = core.read_lines(nouts, "cases.tsv")
        model = {}
        for l in (core.run_driver(lines, ctx, "names") if lines else []):
            parts = l.split("\t", 1)
            if len(parts) == 2:
                model[parts[0]] = parts[1]
        for r in rows:
            names_n += 1
            m = model.get(r[0])
            if m is None:
                ctx.broken.append({"kind": "correspondence", "detail": "no model answer for name case " + r[0]})
                break
            if m == "unmodelled":
                continue
            if "\t".join(r[2:5]) != m:
                names_bad += 1
                if names_bad <= 3:
                    ctx.broken.append({"kind": "correspondence", "detail": "naming model differs from generator on %r: model %s impl %s" % (hx(r[1]), m, r[2:5])})
        outs = core.run_sharded(ctx, vh, "genok")
        meta = core.merge_meta(outs)
        ex = set()
        defined = set()
        import json as _json, os as _os
        for o in outs:
            p = _os.path.join(o, "meta.json")
            if _os.path.exists(p):
                mm = _json.load(open(p))
                ex |= set(mm.get("templates_executed") or [])
                defined |= set(mm.get("templates_defined") or [])
        templates = {"defined": len(defined), "executed": len(ex), "not_executed": sorted(defined - ex)}
        kf = core.known_findings()
        listed = {e["id"]: e for e in kf.get("open", []) if e.get("property") == "C01"}
        for r in core.read_tsv(outs, "gen.tsv"):
            if len(r) < 8:
                continue
            n += 1
            name, kind, fl, outcome, detail, broken, fmt = r[0], r[1], r[2], r[3], hx(r[4]), hx(r[5]), hx(r[6])
            outcomes[kind + ":" + outcome] = outcomes.get(kind + ":" + outcome, 0) + 1
            for kv in fl.split(" "):
                flags_seen[kv] = flags_seen.get(kv, 0) + 1
            spec = hx(r[7])
            stress = {"position": r[8], "names": [hx(r[9]), hx(r[10])]} if len(r) > 10 and r[8] else None
            if outcome == "panic":
                ctx.violations.append({"kind": "the generator panicked", "package": name, "source": kind, "flags": fl, "panic": detail[:1500], "spec": spec})
                continue
            if outcome == "ok-nothing-written":
                continue
            if outcome == "error":
                if kind == "fixture":
                    ctx.violations.append({"kind": "a fixture spec of the repository is no longer generated", "package": name, "flags": fl, "error": detail, "spec": spec})
                continue
            if not broken and not fmt:
                ok_pkgs += 1
                if len(samples) < 3 and kind not in [s["source"] for s in samples]:
                    samples.append({"package": name, "source": kind, "flags": fl, "verdict": "parses, gofmt-stable, type-checks"})
                continue
            diag = re.sub(r"\S*/mod/\w+/", "", broken or fmt)
            if broken and "api=false" in fl and NOAPI.search(broken) and "KF-C01-noApiHandler" in listed:
                kf_hits["KF-C01-noApiHandler"] = kf_hits.get("KF-C01-noApiHandler", 0) + 1
                continue
            if broken and kind == "nullable-component" and NULLCOMP.search(broken) and "KF-C01-nullableComponent" in listed:
                kf_hits["KF-C01-nullableComponent"] = kf_hits.get("KF-C01-nullableComponent", 0) + 1
                continue
            names_hit = False
            if stress and broken:
                low = re.sub(r"[^a-z0-9]", "", broken.lower())
                for nm in stress["names"]:
                    k = re.sub(r"[^a-z0-9]", "", nm.lower())
                    if len(k) >= 2 and k in low:
                        names_hit = True  # the diagnostic is about an identifier derived from one of the two awkward names
            if broken and (COLLISION.search(broken) or names_hit) and kind in ("stress", "fat") and "KF-C01-nameCollision" in listed:
                kf_hits["KF-C01-nameCollision"] = kf_hits.get("KF-C01-nameCollision", 0) + 1
                continue
            ctx.violations.append({"kind": "goag reported success but the written package " + ("does not compile" if broken else "is not valid, gofmt-stable Go"),
                                   "package": name, "source": kind, "flags": fl, "diagnostic": diag[:600], "stress": stress, "spec": spec,
                                   "how": "write the spec to a file, run goag with the flags, go build the output directory"})
        for k, c in sorted(kf_hits.items()):
            ctx.known.append("%s %s (%d packages)" % (k, listed[k]["what"], c))
    cov = dict(audit)
    cov.update({
        "trusted_base": TRUSTED, "evaluations": n, "distinct_nontrivial": ok_pkgs,
        "rule": "specs = the fixture specs of /repo (own configuration + one drawn flag combination), random routing / security / parameter / JSON-component / response+client / map-fat specs, component-less specs with nested inline objects in bodies, name-stress specs (two awkward names in one scope: query, header, path parameter, property, component schema, operation id, path segment); flags drawn from client x api-handler x donotedit x cors x basepath override x spec-handler-name; non-trivial = goag reported success (the package was then parsed, gofmt-checked and compiled)",
        "samples": samples, "outcomes": outcomes, "flags": flags_seen, "templates": templates,
        "naming_tie": {"names_compared": names_n, "disagreements": names_bad},
        "explanation": "every package goag reports as written is parsed, checked for gofmt stability and compiled; errors are accepted outcomes (except for the repository's own fixtures); the naming theorems state that derived identifiers consist of letters and digits only",
    })
    return core.finish(ctx, "translation_validation", cov, ["type-correctness is decided per generated package by the Go compiler; name collisions between distinct spec names are a recorded finding class (accepted only on name-stress specs and on the map-fat specs, which carry case-variant sibling keys on purpose)"])
