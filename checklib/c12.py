"""C12 — generation is deterministic."""
import os

from . import core

THEOREMS = ["Goag.C12.sorted_perm_eq", "Goag.C12.insertDistinct_perm", "Goag.C12.insertAll_lookup",
            "Goag.C12.firstWins_sensitive", "Goag.C12.pinned_sites_classified"]
TRUSTED = [
    "Lean 4.33.0 kernel; axioms propext, Classical.choice, Quot.sound only (audited by #print axioms)",
    "translator `vh mapranges` (go/packages + go/types over /repo's four packages): lists every range over a map, maps.Keys/Values call, environment read, go/select statement; its syntactic shape detection (collect-then-sort, unreferenced function) is a heuristic written for this project and fails closed (unknown shape => unclassified)",
    "the hand-reviewed table Goag.C12.reviewed (4 sites pinned by statement hash) and the per-shape lemmas sorted_perm_eq / insertDistinct_perm",
    "library code the generator calls (kin-openapi loader, text/template which sorts map keys, golang.org/x/tools/imports with stdlib-only imports, encoding/json) is assumed order-insensitive; this is what the repeated-run search samples",
    "TEMPLATE_DEBUG unset (recorded input, DESIGN.md §11)",
]


def sites_obligation(ctx, vh):
    out = ctx.sub("mapranges-out")
    rc, o = core.run([vh, "mapranges", "-out", out], cwd=core.HARNESS, env=core.GOENV, timeout=600)
    path = os.path.join(out, "sites.tsv")
    if rc != 0 or not os.path.exists(path):
        ctx.broken.append({"kind": "translator", "detail": o[-2000:]})
        return None, []
    sites = [l.rstrip("\n").split("\t") for l in open(path) if l.strip()]

    def q(s):
        return '"' + s.replace("\\", "\\\\").replace('"', '\\"') + '"'
    lean = os.path.join(ctx.scratch, "Sites.lean")
    with open(lean, "w") as f:
        f.write("import GoagModel.C12Known\nopen Goag.C12\n\ndef sites : List Site := [\n")
        f.write(",\n".join("  ⟨%s, %s, %s, %s, %s⟩" % (q(s[0]), q(s[1]), q(s[2]), q(s[3]), q(s[4])) for s in sites))
        f.write("\n]\n\n/-- regenerated obligation: every order- or environment-sensitive site of the current tree is classified -/\n")
        f.write("theorem all_sites_classified : allClassified sites = true := by decide\n")
        f.write("#print axioms all_sites_classified\n")
        f.write("#eval (sites.filter (fun s => (classify s).isNone)).map (fun s => s!\"{s.pkg} {s.fn} {s.kind} {s.operand} {s.hash}\")\n")
    rc, o = core.run(["lake", "env", "lean", lean], cwd=core.LEAN, timeout=600)
    ok = rc == 0 and "error" not in o
    return ok, [{"pkg": s[0], "func": s[1], "kind": s[2], "operand": s[3], "hash": s[4]} for s in sites], o


def run_search(ctx, vh, seed_offset=0, tag="determ"):
    saved = ctx.seed
    ctx.seed = saved + seed_offset
    outs = core.run_sharded(ctx, vh, "determ", tag=tag)
    ctx.seed = saved
    rows = [r for r in core.read_tsv(outs, "impl.tsv") if len(r) >= 7]
    # a shard whose generator died with an unrecoverable runtime error leaves its progress marker
    import os
    for o in outs:
        pf = os.path.join(o, "progress")
        if os.path.exists(pf):
            f = open(pf).read().split("\t")
            err = ""
            try:
                err = open(os.path.join(o, "stderr.txt")).read()
            except OSError:
                pass
            first = next((l for l in err.split("\n") if l.startswith("fatal error") or l.startswith("panic:")), err[-300:])
            if len(f) >= 3 and not any(v.get("kind", "").startswith("the generator process died") for v in ctx.violations):
                ctx.violations.append({"kind": "the generator process died (unrecoverable runtime error) while generating this spec repeatedly: the outcome is not a function of the inputs",
                                       "spec_name": f[0], "spec_kind": f[1], "runtime_error": first[:400], "spec": bytes.fromhex(f[2]).decode("utf-8", "replace"),
                                       "how": "vh determ: repeated in-process runs of goag.Generator.GenerateFile on this spec"})
    return rows, core.merge_meta(outs)


def check(ctx):
    audit = core.proof_audit(ctx, ["GoagModel.Props.C12"], THEOREMS)
    vh = core.build_harness(ctx)
    sites, unclassified = [], None
    rows, meta = [], {}
    ob_ok = None
    if vh:
        res = sites_obligation(ctx, vh)
        ob_ok, sites = res[0], res[1]
        lean_out = res[2] if len(res) > 2 else ""
        audit["obligations"] = audit.get("obligations", 0) + 1
        if ob_ok:
            audit["discharged"] = audit.get("discharged", 0) + 1
        rows, meta = run_search(ctx, vh)
        if ob_ok is False:
            # escalate the search before reporting an obligation without a failing input
            for k in (1, 2, 3):
                r2, _ = run_search(ctx, vh, seed_offset=1000 * k, tag="determ%d" % k)
                rows += r2
            ctx.broken.append({"kind": "regenerated-obligation", "theorem": "all_sites_classified (Sites.lean regenerated from /repo by vh mapranges)",
                               "detail": "a range over a map / environment read of the current tree is not in the reviewed table Goag.C12.reviewed and has no order-insensitive syntactic shape",
                               "lean_output": lean_out[-1500:], "sites": sites})
    n = len(rows)
    verdicts = {}
    kinds = {}
    samples = []
    for r in rows:
        verdicts[r[2]] = verdicts.get(r[2], 0) + 1
        kinds[r[1]] = kinds.get(r[1], 0) + 1
        if r[2] == "DIFFERENT":
            ctx.violations.append({"kind": "two runs of the generator on the same spec and flags wrote different bytes",
                                   "spec_name": r[0], "spec_kind": r[1], "runs_compared": int(r[3]), "files_that_differ": r[4],
                                   "spec": bytes.fromhex(r[6]).decode("utf-8", "replace"),
                                   "how": "vh determ: N in-process runs + fresh-process runs, sha256 per file"})
        elif len(samples) < 3 and r[1] not in [s["kind"] for s in samples]:
            samples.append({"spec": r[0], "kind": r[1], "verdict": r[2], "runs_compared": int(r[3])})
    cov = dict(audit)
    cov.update({
        "trusted_base": TRUSTED,
        "evaluations": n, "distinct_nontrivial": sum(v for k, v in kinds.items() if k != "fixture") + kinds.get("fixture", 0),
        "rule": "specs = map-fat specs (>=4 entries in paths, schemas, properties, responses, headers, parameters, security schemes, scheme sets of one requirement, discriminator mapping, server variables, media types, scopes), the 42 fixture specs, random routing/parameter/security specs; a spec with custom Go types named without an import path; each generated 6 (quick) / 24 (thorough) times in one process - every other run into a directory that already holds a hand-written file importing a same-named package, with a failing run and a run under other options in between, every third run over the output of a run with another package name / base path / header option on the same, older spec file - plus 2 / 4 fresh processes, the last of them with another HOME (holding a .goag.yaml), locale, time zone and working directory (specs with custom Go types excepted); a shard whose generator dies leaves a marker naming the spec; sha256 per file; every spec is non-trivial (a generator run reaches every map-range site)",
        "samples": samples, "verdicts": verdicts, "spec_kinds": kinds, "harness_stats": meta.get("stats", {}),
        "regenerated_sites": sites, "regenerated_obligation_ok": ob_ok,
        "explanation": "the quantifier over iteration orders is discharged by the regenerated obligation (every map-range / environment-read site of the current source has a shape with a permutation-invariance lemma); the repeated-run comparison is the failing-input search",
    })
    return core.finish(ctx, "proof", cov, ["TEMPLATE_DEBUG unset", "only standard-library imports in generated code (imports.Process does not consult GOPATH or the module cache)"])
