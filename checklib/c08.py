"""C08 — JSON codec (see jsonfam.py and DESIGN.md §4.6-4.8)."""
from . import jsonfam

THEOREMS = ["Goag.JsonM.decodeFields_ok_required_present", "Goag.JsonM.decodeFields_never_unnamed_type", "Goag.JsonM.decodeFields_missing_origin", "Goag.JsonM.decode_encode_is_prune", "Goag.JsonM.conforming_decodes", "Goag.JsonM.valid_document_cycle", "Goag.JsonM.bad_shape_rejected"]
RULE = "specs = random component sets: objects (1-4 properties of primitive / nullable primitive / $ref / inline array / inline object / untyped kind, required or optional, additionalProperties absent / true / schema), array components, allOf in every ref/inline member order, oneOf with discriminator (+mapping) and without; values = reflect-built from the schema (every optional subset, nulls where allowed, empty and nil collections, strings needing escapes, extreme numbers, zoned times, additional keys with quotes / backslashes / newlines / non-ASCII); documents = generated from the schema independently of goag (optional subsets, null where allowed, extra keys) + single-fault mutants (drop a required key, swap a value kind); distinct by (package, type, canonical JSON)"
EXPLANATION = "theorems valid_document_cycle / bad_shape_rejected: for leaf / array / object schemas of any depth, a conforming document whose leaves the library accepts decodes and re-encodes to the reference prune, and whatever decodes has every required property and the declared structural kinds at every depth (inside_proved_fragment counts the run's documents under each theorem); decode: every generated document and single-fault mutant is decoded by the generated UnmarshalJSON; result (value dump or error kind + key) and canonical re-encoding are compared with the Lean model decode / toJ and with the reference (valid => accepted and re-encoded to the document up to keys the schema does not allow; dropped required key / wrong JSON kind => error naming the property)"
ASSUMPTIONS = ["schemas non-recursive; property names free of quote / backslash / control characters", "oneOf without discriminator: every alternative has a required property of its own (unambiguous probing)",
               "nil slices only where goag converts them (object property, array component); not under Nullable, not nested in arrays or maps",
               "allOf members by reference do not declare additionalProperties (KF-C06-embeddedAddl) and do not share property names"]


def check(ctx):
    return jsonfam.check(ctx, "C08", ["GoagModel.Props.C08", "GoagModel.Props.C08b"], THEOREMS, RULE, EXPLANATION, ASSUMPTIONS, level="translation_validation")
