"""C07 — JSON codec (see jsonfam.py and DESIGN.md §4.6-4.8)."""
from . import jsonfam

THEOREMS = ["Goag.JsonM.toJFields_names_declared", "Goag.JsonM.toJFields_required_present", "Goag.JsonM.toJFields_unset_omitted", "Goag.JsonM.toJFields_required_unset_fails", "Goag.JsonM.toJ_conforms", "Goag.JsonM.conf_all", "Goag.JsonM.toJ_null_only_if_nullable", "Goag.JsonM.toJ_conforms_oneOf"]
RULE = "specs = random component sets: objects (1-4 properties of primitive / nullable primitive / $ref / inline array / inline object / untyped kind, required or optional, additionalProperties absent / true / schema), array components, allOf in every ref/inline member order, oneOf with discriminator (+mapping) and without; values = reflect-built from the schema (every optional subset, nulls where allowed, empty and nil collections, strings needing escapes, extreme numbers, zoned times, additional keys with quotes / backslashes / newlines / non-ASCII); documents = generated from the schema independently of goag (optional subsets, null where allowed, extra keys) + single-fault mutants (drop a required key, swap a value kind); distinct by (package, type, canonical JSON)"
EXPLANATION = "theorem toJ_conforms: for leaf / array / object / map / allOf-of-plain-objects schemas of any depth, what the encoder model writes for a well-formed value satisfies the reference conforms (inside_proved_fragment counts the run's values in that fragment); encode: the canonical JSON tree of the generated MarshalJSON output is compared with the Lean model toJ and judged by the independent reference conforms (required present, unset optional omitted, null only where nullable, exactly the declared names unless additionalProperties, declared JSON kinds, allOf merged, map entries under their own keys); outputs that differ from the model are judged by the reference directly"
ASSUMPTIONS = ["schemas non-recursive; property names free of quote / backslash / control characters", "oneOf without discriminator: every alternative has a required property of its own (unambiguous probing)",
               "nil slices only where goag converts them (object property, array component); not under Nullable, not nested in arrays or maps",
               "allOf members by reference do not declare additionalProperties (KF-C06-embeddedAddl) and do not share property names"]


def check(ctx):
    return jsonfam.check(ctx, "C07", ["GoagModel.Props.C07", "GoagModel.Props.C07b"], THEOREMS, RULE, EXPLANATION, ASSUMPTIONS, level="translation_validation")
