"""C04 — parameter parsing rejects exactly the malformed requests, never invents values."""
from . import servefam
from .c03 import TRUSTED

THEOREMS = ["Goag.Serve.parseBlock_ok_iff", "Goag.Serve.parseBlock_values", "Goag.Serve.parseBlock_error", "Goag.Serve.parseValues_ok_iff"]
FACETS = [("route", ["-params"], "params")]
RULE = "specs = C03 corpus with query/header parameter declarations: type in {string, integer, int32, int64, boolean, number, float, date-time} x {scalar, array} x {query, header} x required/optional x {inline, schema $ref, component-parameter $ref} x {path-item level, operation level, overridden}; requests = routed paths with values drawn from per-type lexeme classes (canonical, boundary, out-of-range, garbage, empty) x cardinality {absent, one, many}; non-trivial = at least one declared parameter supplied; distinct by (package, method, path, query, headers, observation)"
EXPLANATION = "inside every dispatched handler Parse() is called; the dumped Params (positional, canonical; floats by bits, times as instants) or the error (location, name, kind in {required, multiple, lexical}) is compared with the Lean model of new<Op>Params (parseBlock/parseValues over the merged declaration list) and with the reference (malformed iff required-and-absent, scalar-supplied-more-than-once, or a supplied value outside the type's lexical space; otherwise every field is the typed value of the supplied text and absent optionals are unset)"
ASSUMPTIONS = ["lexical space of a type = language of the Go parser it is bound to (strconv.ParseInt/ParseFloat/ParseBool, time.Parse RFC3339Nano), DESIGN.md §11",
               "float and time leaves: the Go library's verdict is supplied to the model as a table measured on this run; integer and boolean leaves have closed-form Lean models",
               "request = parsed multimap view (url.Values, http.Header)"]


def check(ctx):
    return servefam.check_prop(ctx, "C04", ["GoagModel.Props.C04"], THEOREMS, FACETS, TRUSTED, rule=RULE,
                               explanation=EXPLANATION, assumptions=ASSUMPTIONS, level="proof")
