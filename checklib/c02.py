"""C02 — handlers can only return documented responses, written as documented."""
from . import respfam

THEOREMS = ["Goag.Resp.implementers_eq_documented", "Goag.Resp.root_mem",
            "Goag.Resp.written_only_documented", "Goag.Resp.inline_written", "Goag.Resp.comp_written", "Goag.Resp.root_def_unique"]


def check(ctx):
    return respfam.check(ctx, "C02", ["GoagModel.Props.C02", "GoagModel.Props.C02w"], THEOREMS,
                         rule="specs = 3-5 operations over 7 path templates x {get,post,put,delete}: typed path / query (scalar and array) / header parameters, JSON or raw request bodies, response sets drawn from {200,201,204,400,404,default} with inline responses, shared component responses (used by several operations and statuses) and alias chains, 0-2 declared headers (required / optional, six types), JSON / raw / empty bodies; optional server base path; generated with --client; per operation: the implementer set of its response interface computed by go/types over the whole generated package (not sampled) and every constructible response written once; distinct by (package, interface, implementer set, written facts)",
                         explanation="implementers of every <Op>Response interface (types.Implements over all named types of the package) are compared with the Lean model (emitted types with their write<Op> method sets) and with the documented set read from the spec; every constructor's value is written through the handler path and status / Content-Type / header names / body kind / exactly-one WriteHeader are compared with the spec",
                         assumptions=["operation names distinct (else KF-C01-nameCollision)", "header values / bodies: presence and kind are compared here; their encoding is C06-C10's matter"],
                         level="proof")
