"""C13 — the embedded (and served) spec is the input spec, byte for byte."""
from . import core, servefam

THEOREMS = ["Goag.Embed.embed_roundtrip", "Goag.Serve.spec_served", "Goag.Serve.spec_only_when_installed"]
TRUSTED = [
    "Lean 4.33.0 kernel; axioms propext, Classical.choice, Quot.sound only (audited by #print axioms)",
    "hand-written model Goag.Embed.encodeRaw of generator/files.go:encodeRawFileAsString, tied on every run by comparing the literal chain text and the go/constant value of the written spec_file.go with the model's output",
    "hand-written model Goag.Embed.goEval of Go's string-literal lexing/constant evaluation (raw + interpreted literals, \\u escapes; \\x, octal, \\U not modelled), tied against go/parser+go/types on every observed file",
    "go/parser, go/types, go/constant as the judge of what the emitted constant evaluates to",
    "kin-openapi loader decides which contents are spec files (NUL and invalid UTF-8 observed rejected on every run)",
]


def unhex(h):
    return bytes.fromhex(h)


def check(ctx):
    audit = core.proof_audit(ctx, ["GoagModel.Props.C13"], THEOREMS)
    vh = core.build_harness(ctx)
    stats = {"evaluations": 0, "agree_model": 0, "agree_ref": 0, "loader_rejected": 0, "kinds": {}}
    samples = []
    distinct = set()
    if vh:
        outs = core.run_sharded(ctx, vh, "embed")
        impl = core.read_tsv(outs, "impl.tsv")
        cases = core.read_lines(outs, "cases.tsv")
        model = {}
        for line in core.run_driver([c for c in cases if c.startswith("embed\t")], ctx):
            f = line.split("\t")
            if len(f) == 3:
                model[f[0]] = (f[1], f[2])
            else:
                model[f[0]] = ("", "bad:" + "|".join(f[1:]))
        for row in impl:
            cid, kind, content, expr, out = row
            stats["evaluations"] += 1
            stats["kinds"][kind] = stats["kinds"].get(kind, 0) + 1
            ref = "v:" + content
            if out == "err:load":
                # the loader did not accept this content as a spec file: outside the property's domain
                stats["loader_rejected"] += 1
                if kind != "malformed" and cid in model and kind.startswith("fixture"):
                    # informational: a well-formed fixture variant rejected by the loader (e.g. BOM) is not a C13 matter
                    stats.setdefault("loader_rejected_kinds", {}).setdefault(kind, 0)
                    stats["loader_rejected_kinds"][kind] += 1
                continue
            m = model.get(cid)
            okref = out == ref
            okmodel = m is not None and m[1] == out and (expr == "" or m[0] == expr)
            if okref:
                stats["agree_ref"] += 1
            if okmodel:
                stats["agree_model"] += 1
            if len(content) > 2 and any(c in unhex(content) for c in b'`"\\\r\n') :
                distinct.add(content)
            if len(samples) < 4 and kind in ("short", "fixture-crlf", "random", "fixture-json-esc") and not any(s["kind"] == kind for s in samples):
                samples.append({"id": cid, "kind": kind, "content_hex": content[:160], "impl": out[:160], "model": (m[1][:160] if m else None), "reference": ref[:160]})
            if not okref:
                # the property fails on the implementation at this input
                ctx.violations.append({"kind": "embedded constant differs from input", "case": cid, "case_kind": kind,
                                       "content_hex": content, "impl": out, "impl_expr_hex": expr,
                                       "model": m, "reference": ref,
                                       "theorem": "Goag.Embed.embed_roundtrip",
                                       "how": "write content to a spec file, run goag, read const SpecFile from spec_file.go; direct cases (Generate with a fixed parsed spec) whose id ends in an even digit are generated into a directory that already holds the output of a run on the white-space variant of the content (blanks -> tabs, every newline doubled, one newline appended)"})
            elif not okmodel:
                ctx.broken.append({"kind": "correspondence", "detail": "model and implementation differ on %s (%s): impl=%s/%s model=%s" % (cid, kind, expr[:80], out[:80], m)})
        stats["distinct_nontrivial"] = len(distinct)
    # served half: GET <base>/<spec name> through the generated API (route facet)
    rows, gens, meta, plans = servefam.run_facets(ctx, [("route", [], "route")])
    sst = servefam.decide(ctx, "C13", rows, gens, plans, set())
    spec_hits = sst["classes"].get("spec", 0)
    cov = dict(audit)
    cov.update({
        "served_half": {"requests": sst["evaluations"], "spec_handler_answers": spec_hits, "agree_with_model": sst["agree_model"],
                        "agree_with_reference": sst["agree_ref"], "packages": len([g for g in gens if g[1] == "ok"])},
        "trusted_base": TRUSTED,
        "evaluations": stats["evaluations"] + sst["evaluations"],
        "distinct_nontrivial": stats.get("distinct_nontrivial", 0),
        "rule": "contents = exhaustive strings over {`,\",\\,LF,CR,$,a,U+FEFF} up to length 3 (quick) / 4 (thorough) + seeded longer samples, fixture specs as YAML / CRLF / no trailing newline / BOM / one-line JSON (+ backslash-laden description), random UTF-8 text, malformed stream; non-trivial = longer than 2 bytes and containing a quoting-relevant byte; distinct by content",
        "samples": samples,
        "agree_with_model": stats["agree_model"],
        "agree_with_reference": stats["agree_ref"],
        "loader_rejected": stats["loader_rejected"],
        "input_kinds": stats["kinds"],
        "exhaustive": False,
        "explanation": "theorem embed_roundtrip proves goEval(encodeRaw s) = s for every NUL-free content; the run ties encodeRaw/goEval to the code on the listed contents (expression text and constant value)",
    })
    return core.finish(ctx, "proof", cov, [
        "content is what the loader accepted as a spec file: valid UTF-8 without NUL (loader rejections counted, not assumed)",
        "imports.Process (gofmt) does not change string literal contents",
    ])
