"""C16 — decided over the serve protocol (see servefam.py and DESIGN.md)."""
from . import servefam
from .c03 import TRUSTED

THEOREMS = ['Goag.Serve.wrapLoop_eq_foldr', 'Goag.Serve.middleware_trace', 'Goag.Serve.secured_no_mw', 'Goag.Serve.serve_routed', 'Goag.Serve.serve_unrouted_bypass', 'Goag.Serve.each_middleware_once']
FACETS = [("route", [], "route")]
RULE = "same corpus as C03 (random well-formed template sets x methods x base forms x typed path parameters x cors x single-scheme security; enumerated + template-directed + near-miss request paths, random handler/middleware/authenticator configuration); non-trivial = not answered by the plain not-found path; distinct by (package, method, path, projected observation)"

EXPLANATION = 'logging middlewares (0-4) record enter/leave and what SchemaPath reports; the trace shape (each middleware once, first-declared outermost, authenticator and handler events strictly inside, no middleware event for spec / not-found / CORS requests) is compared with the Lean model of ServeHTTP and with the reference shape'
ASSUMPTIONS = ["middlewares are the harness's logging middlewares (call next exactly once)"]


def check(ctx):
    return servefam.check_prop(ctx, "C16", ["GoagModel.Props.C16"], THEOREMS, FACETS, TRUSTED, rule=RULE,
                               explanation=EXPLANATION, assumptions=ASSUMPTIONS)
