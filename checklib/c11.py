"""C11 — decided over the serve protocol (see servefam.py and DESIGN.md)."""
from . import servefam
from .c03 import TRUSTED

THEOREMS = ['Goag.Serve.auth_sound', 'Goag.Serve.auth_complete', 'Goag.Serve.public_reachable', 'Goag.Serve.denied_is_401', 'Goag.Serve.handler_sees_returned_request', 'Goag.Serve.and_becomes_single', 'Goag.Serve.unsupported_is_public', 'Goag.Serve.authExactFull_false', 'Goag.Serve.authOr_sound', 'Goag.Serve.authOr_complete']
FACETS = [("route", ["-sec"], "sec")]
RULE = "same corpus as C03 (random well-formed template sets x methods x base forms x typed path parameters x cors x single-scheme security; enumerated + template-directed + near-miss request paths, random handler/middleware/authenticator configuration); non-trivial = not answered by the plain not-found path; distinct by (package, method, path, projected observation)"

EXPLANATION = "tagging authenticators (installed / nil / rejecting) and every combination of valid / invalid / absent credentials; observed: which authenticators were consulted with which token, whether the handler ran, the status, and the context tag the handler sees; compared with the Lean model (authOr over NewRouter's wrapper) and with the reference refAuth (one alternative of the operation's own effective requirement accepted)"
ASSUMPTIONS = ['authenticators are pure functions of (request, token)', 'requirement alternatives name exactly one scheme of a supported kind (KF-C11-arity, KF-C11-unsupported otherwise)', 'at most one http-bearer scheme per API (single SecurityBearerAuth slot)']


def check(ctx):
    return servefam.check_prop(ctx, "C11", ["GoagModel.Props.C11", "GoagModel.AuthLemmas"], THEOREMS, FACETS, TRUSTED, rule=RULE,
                               explanation=EXPLANATION, assumptions=ASSUMPTIONS)
