"""C14 — decided over the serve protocol (see servefam.py and DESIGN.md)."""
from . import servefam
from .c03 import TRUSTED

THEOREMS = []
FACETS = [("route", [], "route")]
RULE = "same corpus as C03 (random well-formed template sets x methods x base forms x typed path parameters x cors x single-scheme security; enumerated + template-directed + near-miss request paths, random handler/middleware/authenticator configuration); non-trivial = not answered by the plain not-found path; distinct by (package, method, path, projected observation)"

EXPLANATION = "every ServeHTTP and every Parse() runs under recover; a counting ResponseWriter records WriteHeader calls; the run requires no panic and exactly one response for every request of the corpus, including base-path near-misses, truncated / doubled-slash paths, paths not starting with '/', nil and unaccepting authenticators"
ASSUMPTIONS = ['handlers installed for every operation; user handlers return well-formed response values', 'panics inside net/http or encoding/json internals are outside the model']


def check(ctx):
    return servefam.check_prop(ctx, "C14", ["GoagModel.Props.C14"], THEOREMS, FACETS, TRUSTED, rule=RULE,
                               explanation=EXPLANATION, assumptions=ASSUMPTIONS, level="other")
