"""C14 — decided over the serve protocol (see servefam.py and DESIGN.md)."""
from . import servefam
from .c03 import TRUSTED

THEOREMS = ["Goag.Serve.serve_exactly_one_response", "Goag.Serve.secured_one_final", "Goag.Serve.opHandler_one_final", "Goag.Serve.runProgC_eq", "Goag.Serve.runProgC_never_panics", "Goag.Serve.stripBaseC_safe", "Goag.Serve.splitPathC_safe", "Goag.Serve.splitPathC_parts", "Goag.Serve.splitPathC_spec", "Goag.Serve.splitSlashAux_step", "Goag.Serve.peel_eq_split"]
FACETS = [("route", [], "route")]
RULE = "same corpus as C03 (random well-formed template sets x methods x base forms x typed path parameters x cors x single-scheme security; enumerated + template-directed + near-miss request paths, random handler/middleware/authenticator configuration); non-trivial = not answered by the plain not-found path; distinct by (package, method, path, projected observation)"

EXPLANATION = "every ServeHTTP and every Parse() runs under recover; a counting ResponseWriter records WriteHeader calls; the run requires no panic and exactly one response for every request of the corpus, including base-path near-misses, request-body documents of the JSON corpus (valid and single-fault) decoded by the generated UnmarshalJSON, raw requests with valid / truncated / empty / deeply nested bodies and declared or unknown Content-Length into operations with request bodies, truncated / doubled-slash paths, paths not starting with '/', nil and unaccepting authenticators"
ASSUMPTIONS = ['handlers installed for every operation; user handlers return well-formed response values', 'panics inside net/http or encoding/json internals are outside the model']


def scan_body_decoding(ctx):
    """request-body decoding is part of Parse(): every document of the JSON corpus (valid, single-fault) through the generated UnmarshalJSON under recover"""
    from . import jsonfam
    res = jsonfam.run(ctx, "C14")
    n = p = 0
    if res:
        rows, gens, _ = res
        seen = set()
        for r in rows:
            if r["op"] != "jsondec":
                continue
            n += 1
            if "PANIC" in r["impl"] or r["impl"].startswith("FATAL:"):
                p += 1
                key = (r["id"].split("#")[0], r["type"])
                if key in seen:
                    continue
                seen.add(key)
                m = r["impl"].split("PANIC:")[-1].split(" ")[0]
                try:
                    m = bytes.fromhex(m).decode("utf-8", "replace")
                except ValueError:
                    pass
                if r["impl"].startswith("FATAL:"):
                    from . import core
                    m = "the process died (not recoverable): " + core.fatal_text(r["impl"])
                ctx.violations.append({"kind": "decoding a JSON document into a generated type panicked (this is what Parse() does with a request body)",
                                       "case": r["id"], "type": r["type"], "panic": m[:600], "document(J form)": r["case"][4] if len(r["case"]) > 4 else None,
                                       "spec": jsonfam.spec_of(gens, r["id"])})
    ctx.extra_cov = {"body_decoding": {"documents_decoded_under_recover": n, "panics": p}}


def scan_request_bodies(ctx):
    """raw requests with bodies into ServeHTTP of the response/client corpus: valid, truncated, empty, deeply nested documents, each with a declared and with an unknown (-1) Content-Length"""
    from . import respfam
    res = respfam.run(ctx)
    n = bad = 0
    if res:
        impl, _, _, gens, _ = res
        specs = {g[0]: g[4] for g in gens if len(g) > 4}
        seen = set()
        for cid, o in impl.items():
            if "#b" not in cid:
                continue
            n += 1
            panic = "PANIC" in o or o.startswith("FATAL:")
            once = " W:1 " in o + " "
            if panic or not once:
                bad += 1
                pkg = cid.split("#")[0]
                if pkg in seen or len(seen) >= 3:
                    continue
                seen.add(pkg)
                ctx.violations.append({"kind": "serving a request with a body " + ("panicked" if panic else "did not write exactly one response"),
                                       "case": cid, "observation": o[:1500],
                                       "how": "case id b<op>.<body>.<cl>: body index into [valid pet, valid error, valid list, truncated, empty, null, [], string, wrong kinds, 2000 x '['], cl 0 = declared length, 1 = Content-Length -1",
                                       "spec": bytes.fromhex(specs.get(pkg, "")).decode("utf-8", "replace")})
    ctx.extra_cov["request_bodies"] = {"requests_with_body_served_under_recover": n, "panics_or_multiple_responses": bad}


def check(ctx):
    scan_body_decoding(ctx)
    scan_request_bodies(ctx)
    return servefam.check_prop(ctx, "C14", ["GoagModel.Props.C14", "GoagModel.Props.C14b"], THEOREMS, FACETS, TRUSTED, rule=RULE,
                               explanation=EXPLANATION, assumptions=ASSUMPTIONS, level="exploration")
