"""Core plumbing shared by every property check: build, proof audit, sharded harness runs,
Lean driver, evidence and replay files, known-findings handling."""
import fcntl
import json
import os
import re
import shutil
import subprocess
import sys
import tempfile
import time

VERIF = os.path.dirname(os.path.dirname(os.path.abspath(__file__)))
LEAN = os.path.join(VERIF, "lean")
HARNESS = os.path.join(VERIF, "harness")
REPO = "/repo"
DRIVER = os.path.join(LEAN, ".lake", "build", "bin", "driver")
ALLOWED_AXIOMS = {"propext", "Classical.choice", "Quot.sound"}
FORBIDDEN = re.compile(r"\b(sorry|admit|native_decide|bv_decide|implemented_by|unsafe)\b|^\s*axiom\s|maxHeartbeats\s+0")

GOENV = dict(os.environ)
GOENV.update({"GOFLAGS": "-mod=mod", "GOPROXY": "off", "GOSUMDB": "off", "GOTOOLCHAIN": "local"})
GOENV.pop("TEMPLATE_DEBUG", None)
# Generated packages are compiled at unique scratch paths, so every run adds ~1 GB of entries that
# can never be hit again to the Go build cache. They go to a cache of their own, which is emptied
# (when nobody is using it) once it is large or the disk is short; it refills by itself.
BATCH_CACHE = os.environ.get("VH_BATCH_GOCACHE", "/tmp/goagverif-gocache")
GOENV["VH_BATCH_GOCACHE"] = BATCH_CACHE
BATCH_CACHE_MAX = 12 << 30
DISK_FREE_MIN = 15 << 30

NSHARDS = int(os.environ.get("VERIF_SHARDS", "16"))


def log(*a):
    print(*a, file=sys.stderr, flush=True)


class Ctx:
    """One check run: property id, tier, seed, scratch dir, accumulated results."""

    def __init__(self, prop, tier, seed):
        self.prop = prop
        self.tier = tier
        self.seed = seed
        self.t0 = time.time()
        self.scratch = tempfile.mkdtemp(prefix="goagverif-%s-" % prop)
        self.violations = []     # list of dict(replay=path, note=str)
        self.known = []          # KNOWN-FINDING lines
        self.coverage = {}
        self.assumptions = []
        self.broken = []         # broken obligations / correspondences without failing input (so far)
        self._cache_lock = prepare_batch_cache()

    def cleanup(self):
        shutil.rmtree(self.scratch, ignore_errors=True)

    def sub(self, name):
        d = os.path.join(self.scratch, name)
        os.makedirs(d, exist_ok=True)
        return d


def prepare_batch_cache():
    """Trim the batch build cache if no other check is using it; then hold a shared lock for this run."""
    import fcntl
    os.makedirs(BATCH_CACHE, exist_ok=True)
    lockf = open(BATCH_CACHE + ".lock", "w")
    try:
        fcntl.flock(lockf, fcntl.LOCK_EX | fcntl.LOCK_NB)
        try:
            free = shutil.disk_usage(BATCH_CACHE).free
            out = subprocess.run(["du", "-sb", BATCH_CACHE], stdout=subprocess.PIPE, stderr=subprocess.DEVNULL, text=True).stdout
            size = int(out.split()[0]) if out.split() else 0
            if size > BATCH_CACHE_MAX or free < DISK_FREE_MIN:
                shutil.rmtree(BATCH_CACHE, ignore_errors=True)
                os.makedirs(BATCH_CACHE, exist_ok=True)
        finally:
            fcntl.flock(lockf, fcntl.LOCK_UN)
    except BlockingIOError:
        pass
    fcntl.flock(lockf, fcntl.LOCK_SH)
    return lockf


def run(cmd, cwd=None, env=None, timeout=None, stdin=None, capture=True):
    p = subprocess.run(cmd, cwd=cwd, env=env, timeout=timeout, stdin=stdin,
                       stdout=subprocess.PIPE if capture else None,
                       stderr=subprocess.STDOUT if capture else None, text=True)
    return p.returncode, (p.stdout or "")


# ---------------------------------------------------------------- Lean side

def lake_build():
    """lake build under a lock. Returns (ok, output)."""
    os.makedirs(os.path.join(LEAN, ".lake"), exist_ok=True)
    with open(os.path.join(LEAN, ".lake", "verif.lock"), "w") as lk:
        fcntl.flock(lk, fcntl.LOCK_EX)
        rc, out = run(["lake", "build", "GoagModel", "driver"], cwd=LEAN, timeout=3600)
        fcntl.flock(lk, fcntl.LOCK_UN)
    return rc == 0, out


def lean_sources():
    for root, _, files in os.walk(LEAN):
        if ".lake" in root:
            continue
        for f in files:
            if f.endswith(".lean"):
                yield os.path.join(root, f)


def strip_comments(text):
    # remove /- ... -/ (nested) and -- line comments
    out = []
    i, depth, n = 0, 0, len(text)
    while i < n:
        if text.startswith("/-", i):
            depth += 1
            i += 2
        elif depth and text.startswith("-/", i):
            depth -= 1
            i += 2
        elif depth:
            if text[i] == "\n":
                out.append("\n")
            i += 1
        elif text.startswith("--", i):
            while i < n and text[i] != "\n":
                i += 1
        else:
            out.append(text[i])
            i += 1
    return "".join(out)


def forbidden_scan():
    hits = []
    for path in lean_sources():
        code = strip_comments(open(path).read())
        # string literals may legitimately contain words; drop them
        code = re.sub(r'"(\\.|[^"\\])*"', '""', code)
        for ln, line in enumerate(code.split("\n"), 1):
            if FORBIDDEN.search(line):
                hits.append("%s:%d: %s" % (os.path.relpath(path, LEAN), ln, line.strip()))
    return hits


def theorems_in(path):
    """Fully qualified names of the theorems declared in a Props file (namespace-aware)."""
    code = strip_comments(open(path).read())
    ns, names = [], []
    for line in code.split("\n"):
        m = re.match(r"\s*namespace\s+(\S+)", line)
        if m:
            ns.append(m.group(1))
            continue
        m = re.match(r"\s*end\s+(\S+)", line)
        if m and ns and ns[-1] == m.group(1):
            ns.pop()
            continue
        m = re.match(r"\s*(?:@\[[^\]]*\]\s*)?(?:private\s+|protected\s+)?theorem\s+(\S+)", line)
        if m:
            names.append(".".join(ns + [m.group(1)]))
    return names


def proof_audit(ctx, modules, required):
    """Builds, scans, and `#print axioms` every theorem of the given Props modules.
    `required` theorem names must be among them. Returns dict for evidence; records
    broken obligations in ctx.broken."""
    ok, out = lake_build()
    res = {"obligations": 0, "discharged": 0, "theorems": [], "required": required}
    if not ok:
        ctx.broken.append({"kind": "lake-build", "detail": out[-3000:]})
        res["build_error"] = out[-1500:]
        return res
    hits = forbidden_scan()
    if hits:
        ctx.broken.append({"kind": "forbidden-token", "detail": hits})
    names = []
    for m in modules:
        path = os.path.join(LEAN, m.replace(".", "/") + ".lean")
        if not os.path.exists(path):
            ctx.broken.append({"kind": "missing-module", "detail": m})
            continue
        names += theorems_in(path)
    for r in required:
        if r not in names:
            ctx.broken.append({"kind": "missing-theorem", "detail": r})
    audit = os.path.join(ctx.scratch, "Audit.lean")
    with open(audit, "w") as f:
        for m in modules:
            f.write("import %s\n" % m)
        for n in names:
            f.write("#print axioms %s\n" % n)
    rc, out = run(["lake", "env", "lean", audit], cwd=LEAN, timeout=1800)
    axioms = {}
    for m in re.finditer(r"'([^']+)' depends on axioms: \[([^\]]*)\]", out.replace("\n", " ")):
        axioms[m.group(1)] = [a.strip() for a in m.group(2).split(",") if a.strip()]
    for m in re.finditer(r"'([^']+)' does not depend on any axioms", out):
        axioms[m.group(1)] = []
    res["obligations"] = len(names)
    for n in names:
        if n not in axioms:
            ctx.broken.append({"kind": "audit-missing", "detail": n, "out": out[-800:]})
            continue
        bad = [a for a in axioms[n] if a not in ALLOWED_AXIOMS]
        if bad:
            ctx.broken.append({"kind": "axiom", "detail": "%s uses %s" % (n, bad)})
            continue
        res["discharged"] += 1
        res["theorems"].append({"name": n, "axioms": axioms[n]})
    if ctx.tier == "thorough":
        for m in modules:
            rc, o = run(["lake", "env", "leanchecker", m], cwd=LEAN, timeout=3600)
            res.setdefault("leanchecker", {})[m] = "ok" if rc == 0 else o[-500:]
            if rc != 0:
                ctx.broken.append({"kind": "leanchecker", "detail": m + ": " + o[-500:]})
    res["checker_cmd"] = "cd /verif/lean && lake build GoagModel driver && lake env lean <Audit.lean: #print axioms of every theorem in %s>" % ",".join(modules)
    return res


def run_driver(lines, ctx, name="model"):
    """Pipe request lines to the compiled Lean driver; returns list of answer lines."""
    inp = os.path.join(ctx.scratch, name + ".in")
    with open(inp, "w") as f:
        f.write("".join(l if l.endswith("\n") else l + "\n" for l in lines))
    with open(inp) as fin:
        p = subprocess.run([DRIVER], stdin=fin, stdout=subprocess.PIPE, stderr=subprocess.PIPE, text=True, timeout=3600)
    if p.returncode != 0:
        raise RuntimeError("lean driver failed: " + p.stderr[-2000:])
    return p.stdout.split("\n")[:-1] if p.stdout.endswith("\n") else p.stdout.split("\n")


# ---------------------------------------------------------------- Go side

def build_harness(ctx):
    """go build -tags verif the harness against /repo's working tree. Returns path or None."""
    binp = os.path.join(ctx.scratch, "vh")
    rc, out = run(["go", "build", "-tags", "verif", "-o", binp, "./cmd/vh"], cwd=HARNESS, env=GOENV, timeout=1800)
    if rc != 0:
        ctx.broken.append({"kind": "harness-build", "detail": out[-3000:]})
        return None
    return binp


def run_sharded(ctx, vh, facet, extra=(), nshards=None, timeout=3600, tag=None):
    """Run `vh <facet>` in nshards processes; returns list of shard output dirs."""
    nshards = nshards or NSHARDS
    procs = []
    for k in range(nshards):
        out = ctx.sub("%s-out-%d" % (tag or facet, k))
        work = ctx.sub("%s-work-%d" % (tag or facet, k))
        cmd = [vh, facet, "-seed", str(ctx.seed), "-tier", ctx.tier, "-out", out, "-work", work,
               "-shard", str(k), "-nshards", str(nshards)] + list(extra)
        errf = open(os.path.join(out, "stderr.txt"), "w")
        procs.append((subprocess.Popen(cmd, cwd=HARNESS, env=GOENV, stdout=errf, stderr=errf), out, errf))
    outs = []
    for p, out, errf in procs:
        try:
            rc = p.wait(timeout=timeout)
        except subprocess.TimeoutExpired:
            p.kill()
            rc = -9
        errf.close()
        if rc != 0:
            tail = open(os.path.join(out, "stderr.txt")).read()[-2000:]
            ctx.broken.append({"kind": "harness-run", "detail": "%s shard exit %s: %s" % (facet, rc, tail)})
        outs.append(out)
    return outs


def flag_broken_packages(ctx, gens, what):
    """A package of the corpus that goag reported as written but that does not compile / parse cannot
    satisfy any property about generated code: reported (with the spec as replay) instead of skipped."""
    n = 0
    for g in gens:
        if len(g) > 4 and g[1] == "ok" and g[3]:
            n += 1
            if n <= 2:
                ctx.violations.append({"kind": "goag reported success but the generated package does not compile, so " + what,
                                       "package": g[0], "diagnostic": bytes.fromhex(g[3]).decode("utf-8", "replace")[:800],
                                       "spec": bytes.fromhex(g[4]).decode("utf-8", "replace"),
                                       "how": "write the spec to a file, run goag on it (with --client where the diagnostic names client.go), go build the output"})
                if len(g) > 5 and g[5]:
                    extra = json.loads(bytes.fromhex(g[5]).decode("utf-8", "replace"))
                    if "spec" in extra:
                        ctx.violations[-1]["generated_over_earlier_revision"] = extra
                        ctx.violations[-1]["how"] = "run goag on the earlier revision (its spec, --donotedit as recorded) and then on the spec into the same directory, go build the output"
                    else:
                        ctx.violations[-1]["invocation"] = extra
    return n


def read_tsv(outs, name):
    rows = []
    for o in outs:
        p = os.path.join(o, name)
        if os.path.exists(p):
            with open(p) as f:
                for line in f:
                    rows.append(line.rstrip("\n").split("\t"))
    return rows


def read_lines(outs, name):
    lines = []
    for o in outs:
        p = os.path.join(o, name)
        if os.path.exists(p):
            with open(p) as f:
                lines += [l.rstrip("\n") for l in f]
    return lines


def merge_meta(outs):
    tot = {}
    for o in outs:
        p = os.path.join(o, "meta.json")
        if not os.path.exists(p):
            continue
        m = json.load(open(p))
        for k, v in m.items():
            if isinstance(v, dict):
                d = tot.setdefault(k, {})
                for kk, vv in v.items():
                    if isinstance(vv, (int, float)):
                        d[kk] = d.get(kk, 0) + vv
                    else:
                        d[kk] = vv
            elif isinstance(v, (int, float)) and k != "cases":
                tot[k] = tot.get(k, 0) + v
            else:
                tot[k] = v
    return tot


# ---------------------------------------------------------------- results

def known_findings():
    p = os.path.join(VERIF, "known_findings.json")
    if not os.path.exists(p):
        return {"open": [], "fixed": []}
    return json.load(open(p))


def write_replay(ctx, n, payload):
    d = os.path.join(VERIF, "replays")
    os.makedirs(d, exist_ok=True)
    path = os.path.join(d, "%s-%s-%d-%d.json" % (ctx.prop, ctx.tier, ctx.seed, n))
    payload = dict(payload)
    payload.setdefault("property", ctx.prop)
    payload.setdefault("seed", ctx.seed)
    payload.setdefault("tier", ctx.tier)
    payload.setdefault("replay_cmd", "./check replay %s" % path)
    with open(path, "w") as f:
        json.dump(payload, f, indent=1, sort_keys=True)
    return path


def finish(ctx, level, coverage, assumptions):
    """Decide, write evidence, print lines, return exit code."""
    out_lines = []
    nviol = 0
    # replay files of an earlier run with the same property / tier / seed would be mistaken for this run's
    import glob as _glob
    for old in _glob.glob(os.path.join(VERIF, "replays", "%s-%s-%d-*.json" % (ctx.prop, ctx.tier, ctx.seed))):
        try:
            os.remove(old)
        except OSError:
            pass
    for i, v in enumerate(ctx.violations[:5]):
        path = write_replay(ctx, i, v)
        out_lines.append("VIOLATION property=%s replay=%s" % (ctx.prop, path))
        nviol += 1
    if not ctx.violations and ctx.broken:
        path = write_replay(ctx, 0, {"kind": "no-failing-input-found", "broken": ctx.broken,
                                     "note": "a proof obligation or correspondence no longer checks; the search found no input on which the implementation contradicts the property"})
        out_lines.append("VIOLATION property=%s replay=%s no-failing-input-found" % (ctx.prop, path))
        nviol += 1
    for k in ctx.known:
        out_lines.append("KNOWN-FINDING: property=%s %s" % (ctx.prop, k))
    ev = {
        "property_id": ctx.prop,
        "tier": ctx.tier,
        "seed": ctx.seed,
        "level": level,
        "coverage": coverage,
        "assumptions": assumptions,
        "wall_s": round(time.time() - ctx.t0, 2),
        "violations": nviol,
    }
    os.makedirs(os.path.join(VERIF, "evidence"), exist_ok=True)
    with open(os.path.join(VERIF, "evidence", ctx.prop + ".json"), "w") as f:
        json.dump(ev, f, indent=1, sort_keys=True)
    for l in out_lines:
        print(l, flush=True)
    if nviol == 0:
        print("OK property=%s tier=%s seed=%d wall=%.1fs" % (ctx.prop, ctx.tier, ctx.seed, time.time() - ctx.t0), flush=True)
    return 1 if nviol else 0


def fatal_text(obs):
    """FATAL:<hex> (the batch process died on this case with an unrecoverable runtime error)"""
    try:
        return bytes.fromhex(obs[6:]).decode("utf-8", "replace")
    except ValueError:
        return obs[6:]
