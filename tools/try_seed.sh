#!/bin/bash
# try_seed.sh <patch.diff> <Cxx> [<Cyy>...]: apply a seeded change to /repo, run the quick checks, undo.
PATCH=$1; shift
cd /verif
git -C /repo apply $PATCH || exit 2
for P in "$@"; do
  OUT=$(./check $P quick 2>&1 | grep -E "^(VIOLATION|OK|KNOWN)" | head -2 | tr '\n' ' ')
  echo "$P: $OUT"
done
git -C /repo checkout -- .
git -C /repo status --short | head -2
