#!/bin/bash
# confirm_seed.sh <PROP> <mK> [stored-name]  (MUTROOT=/tmp/mut2 for the second round): confirm a seeded change from /tmp/mut/<PROP>/out/<mK> in a scratch
# worktree (builds, existing tests pass, demo passes on clean tree and fails with the change),
# then store it under /verif/seeded/<PROP>-<mK>/.
set -u
P=$1; M=$2
SRC=${MUTROOT:-/tmp/mut}/$P/out/$M
NAME=${3:-$M}
export GOFLAGS=-mod=mod GOPROXY=off GOSUMDB=off GOTOOLCHAIN=local
WT=$(mktemp -d /tmp/seedwt-XXXXXX)
rmdir $WT
git -C /repo worktree add -q $WT HEAD || exit 2
LOG=$(mktemp)
res() { echo "$1" | tee -a $LOG; }
(cd $WT && bash $SRC/demo/run.sh $WT >/dev/null 2>&1); CLEAN=$?
res "demo on clean tree: exit $CLEAN"
(cd $WT && git apply $SRC/patch.diff) || { res "patch does not apply"; git -C /repo worktree remove --force $WT; exit 3; }
(cd $WT && go build ./... ) >/dev/null 2>&1; BUILD=$?
res "go build with change: exit $BUILD"
(cd $WT && go test -vet=off -count=1 ./... ) >/dev/null 2>&1; TEST=$?
res "existing tests with change (committed fixtures): exit $TEST"
(cd $WT && go run ./cmd/goag --dir ./tests --package test --client=true --donotedit=false >/dev/null 2>&1 && go test -vet=off -count=1 ./... ) >/dev/null 2>&1; TEST2=$?
res "existing tests with change (regenerated fixtures): exit $TEST2"
(cd $WT && git checkout -q -- tests examples 2>/dev/null; git clean -fdq tests examples 2>/dev/null)
(cd $WT && bash $SRC/demo/run.sh $WT >/dev/null 2>&1); CHANGED=$?
res "demo with change: exit $CHANGED"
git -C /repo worktree remove --force $WT
git -C /repo worktree prune
if [ $CLEAN -eq 0 ] && [ $BUILD -eq 0 ] && [ $TEST -eq 0 ] && [ $TEST2 -eq 0 ] && [ $CHANGED -ne 0 ]; then
  D=/verif/seeded/$P-$NAME
  rm -rf $D; mkdir -p $D
  cp $SRC/patch.diff $D/patch.diff
  cp -r $SRC/demo $D/demo
  python3 - "$SRC/meta.json" "$D/meta.json" "$LOG" <<'PY'
import json,sys
m=json.load(open(sys.argv[1]))
m["confirmed_by_me"]=open(sys.argv[3]).read().strip().split("\n")
json.dump(m,open(sys.argv[2],"w"),indent=1)
PY
  echo "CONFIRMED $P-$NAME"
else
  echo "REJECTED $P-$NAME"
fi
rm -f $LOG
