#!/bin/bash
# thorough_all.sh [seed]: thorough tier of every registered check on the current tree.
cd /verif
S=${1:-1}
for P in C01 C02 C03 C04 C05 C06 C07 C08 C09 C10 C11 C12 C13 C14 C15 C16 C17 C18 C19 C20; do
  T0=$(date +%s)
  R=$(VERIF_SEED=$S ./check $P thorough 2>&1 | grep -E "^(VIOLATION|OK)" | head -3 | tr '\n' ' ')
  echo "$P seed=$S $(( $(date +%s) - T0 ))s: $R"
  case "$R" in OK*) ;; *) cp evidence/$P.json /tmp/bad-thorough-$P.json;; esac
done
