#!/bin/bash
# sweep.sh "<seeds>" <Cxx>...: run the quick tier for several seeds on the current tree; print only non-OK results.
SEEDS=$1; shift
cd /verif
for S in $SEEDS; do for P in "$@"; do
  R=$(VERIF_SEED=$S ./check $P quick 2>&1 | grep -E "^(VIOLATION|OK)" | head -3 | tr '\n' ' ')
  case "$R" in OK*) echo "ok $P seed=$S";; *) echo "BAD $P seed=$S: $R"; cp /verif/evidence/$P.json /tmp/bad-$P-$S.json;; esac
done; done
