#!/bin/bash
# matrix.sh [seed-dir...]: apply each stored seeded change to /repo, run the quick tier of its own
# property's check and of related checks, undo; writes /verif/seeded/MATRIX.tsv (seed, check, verdict).
cd /verif
declare -A REL=( [C01]="C02" [C02]="C01 C10" [C03]="C05 C14" [C04]="C05 C09" [C05]="C03 C04" [C06]="C07 C08" [C07]="C06 C08" [C08]="C06 C14"
 [C09]="C04 C10" [C10]="C09 C02" [C11]="C17 C14" [C12]="" [C13]="" [C14]="C08 C03 C04" [C15]="" [C16]="C11" [C17]="C11" [C18]="C04 C06" [C19]="" [C20]="" )
OUT=/verif/seeded/MATRIX.tsv
[ $# -eq 0 ] && : > $OUT
SEEDS=${@:-$(ls -d seeded/C*-m* | sort)}
for D in $SEEDS; do
  S=$(basename $D); P=${S%%-*}
  if ! git -C /repo apply --check /verif/seeded/$S/patch.diff 2>/dev/null; then echo -e "$S\t-\tPATCH-DOES-NOT-APPLY" | tee -a $OUT; continue; fi
  git -C /repo apply /verif/seeded/$S/patch.diff
  CL="$P ${REL[$P]}"; [ -n "$OWN_ONLY" ] && CL="$P"
  for C in $CL; do
    R=$(./check $C quick 2>&1 | grep -E "^(VIOLATION|OK)" | head -1)
    case "$R" in
      OK*) V=missed;;
      *no-failing-input-found*) V=caught-no-input;;
      VIOLATION*) V=caught;;
      *) V=error;;
    esac
    echo -e "$S\t$C\t$V" | tee -a $OUT
  done
  git -C /repo checkout -- .
done
git -C /repo status --short | head -3
