#!/usr/bin/env python3
"""Dedupes seeded/MATRIX.tsv (last verdict per seed x check wins) and rewrites the table in DESIGN.md §0.7."""
import collections, json, os, re
V = "/verif"
rows = [l.rstrip("\n").split("\t") for l in open(V + "/seeded/MATRIX.tsv") if l.strip()]
last, order = {}, []
for s, c, v in rows:
    if v == "PATCH-DOES-NOT-APPLY":
        continue
    if (s, c) not in last:
        order.append((s, c))
    last[(s, c)] = v
order.sort()
open(V + "/seeded/MATRIX.tsv", "w").write("".join("%s\t%s\t%s\n" % (s, c, last[(s, c)]) for s, c in order))
by = collections.OrderedDict()
for s, c in order:
    by.setdefault(s, []).append((c, last[(s, c)]))
lines = ["| seeded change | what it breaks (one line) | own check | other checks run against it |", "|---|---|---|---|"]
own_bad = []
for s, l in by.items():
    meta = json.load(open("%s/seeded/%s/meta.json" % (V, s)))
    summ = meta.get("summary", "").replace("\n", " ").replace("|", "/")
    summ = summ[:150] + ("…" if len(summ) > 150 else "")
    p = s.split("-")[0]
    own = [v for c, v in l if c == p]
    own = own[0] if own else "not run"
    if own != "caught":
        own_bad.append((s, own))
    oth = ", ".join("%s %s" % (c, v) for c, v in l if c != p) or "—"
    lines.append("| %s | %s | %s | %s |" % (s, summ, own, oth))
table = "\n".join(lines) + "\n"
d = open(V + "/DESIGN.md").read()
b, e = "<!-- MATRIX-BEGIN -->\n", "<!-- MATRIX-END -->\n"
if b in d:
    d = d[:d.index(b) + len(b)] + table + d[d.index(e):]
else:
    i = d.index("| seeded change | what it breaks (one line) |")
    j = d.index("\n\n", i)
    d = d[:i] + b + table + e + d[j + 1:]
open(V + "/DESIGN.md", "w").write(d)
print(len(by), "seeds;", "not caught by own check:", own_bad)
