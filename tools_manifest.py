#!/usr/bin/env python3
"""Regenerates MANIFEST.json from the per-property table below (keeps it valid at all times)."""
import json, os
HERE = os.path.dirname(os.path.abspath(__file__))
ALL = ["C%02d" % i for i in range(1, 21)]

CHECKS = {
 "C13": dict(
   category="proof",
   text="Lean theorem Goag.Embed.embed_roundtrip: for every NUL-free content s, the Go constant expression goag writes (model encodeRaw of generator/files.go) evaluates (model goEval of Go string-literal lexing) to exactly s. The model is tied to the code on every run: the literal chain text and the go/constant value read back from the real spec_file.go must equal the model's output on exhaustive short strings over the quoting-relevant alphabet, fixture specs in five byte forms, and random text. The served half (GET <base>/<name>) is covered by the routing facet.",
   design_ref="DESIGN.md §4.13",
   note="Trusted: Lean kernel (+propext, Classical.choice, Quot.sound), hand-written models encodeRaw/goEval (tied by differential correspondence, not verified), go/parser+go/types as judge of the constant value, kin-openapi loader as the definition of 'spec file content'.",
   technique="Lean 4 proof by induction over the content + differential correspondence of the encoder/lexer model with the real generator output"),
}

REASONS_PENDING = "check not built yet in this round of work (see DESIGN.md §12 order); nothing is claimed for it"

def main():
    checks = []
    for pid in ALL:
        if pid not in CHECKS:
            continue
        c = CHECKS[pid]
        checks.append({
            "property_id": pid,
            "quick_cmd": "./check %s quick" % pid,
            "thorough_cmd": "./check %s thorough" % pid,
            "evidence_file": "/verif/evidence/%s.json" % pid,
            "replay_cmd_template": "./check replay {path}",
            "engine": "lean-model+go-harness",
            "level_claimed": {"category": c["category"], "text": c["text"], "design_ref": c["design_ref"]},
            "level_note": c["note"],
            "technique": c["technique"],
        })
    m = {
        "version": 1,
        "setup_cmd": "./check setup",
        "hooks": {
            "guard": "verif",
            "enable": "go build -tags verif (the harness under /verif/harness is built with -tags verif against /repo via a replace directive)",
            "baseline_off_cmd": "cd /repo && GOFLAGS=-mod=mod GOPROXY=off GOSUMDB=off GOTOOLCHAIN=local go test -vet=off -count=1 ./...",
            "source_commits": ["b21b0a6"],
            "add_only": True,
        },
        "engines": [
            {"name": "lean-model", "path": "/verif/lean", "serves_properties": sorted(CHECKS), "kind_free_text": "Lean 4 library GoagModel (models, property theorems, compiled line-protocol driver)"},
            {"name": "go-harness", "path": "/verif/harness", "serves_properties": sorted(CHECKS), "kind_free_text": "Go correspondence harness linking /repo in-process; generates corpora, runs goag and the generated packages, writes canonical observations"},
        ],
        "checks": checks,
        "notes": "Every check rebuilds the harness from /repo's working tree, re-audits the Lean theorems (#print axioms) and diffs model predictions against the implementation; see DESIGN.md.",
        "not_applicable": [{"property_id": p, "reason": REASONS_PENDING} for p in ALL if p not in CHECKS],
    }
    with open(os.path.join(HERE, "MANIFEST.json"), "w") as f:
        json.dump(m, f, indent=1)
    print("MANIFEST.json:", len(checks), "checks")

if __name__ == "__main__":
    main()
