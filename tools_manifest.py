#!/usr/bin/env python3
"""Regenerates MANIFEST.json from the per-property table below (keeps it valid at all times)."""
import json, os
HERE = os.path.dirname(os.path.abspath(__file__))
ALL = ["C%02d" % i for i in range(1, 21)]

SERVE_NOTE = ("Trusted: Lean kernel (+propext, Classical.choice, Quot.sound, audited per run with #print axioms); the hand-written Lean models "
              "(Goag.Router, Goag.Serve plan/serve, Goag.Spec JSON reader) are modelled, not verified: they are tied to /repo on every run by differential "
              "correspondence (real goag in-process -> generated packages compiled and driven by reflection -> canonical traces diffed against the model, "
              "both reading the same OpenAPI JSON file); Go's net/http, net/url, strconv, time as library hypotheses (float/time leaves supplied as a measured table); "
              "the reflection driver /verif/harness/rt.")

CHECKS = {
 "C03": dict(category="proof",
   text="Lean theorem Goag.Router.route_refines_spec: for every well-formed (pairwise non-equivalent) template set, every base path, every request path string and every method selection, the model of the emitted router (route tree built by Route.add + route<Node> functions) returns exactly the literal-first maximal OpenAPI match (not-found iff nothing matches; the reported template is the matched item's). Proved by induction over the nested route tree (build_has: what Route.add stores; eval_sound/eval_none: what the emitted switch cascade finds). The model is tied to the code by ~2x10^5 requests per quick run over ~160 freshly generated packages.",
   design_ref="DESIGN.md §4.3", note=SERVE_NOTE,
   technique="Lean 4 refinement proof (emitted router = literal-first OpenAPI matcher) + differential correspondence of model and generated code"),
 "C04": dict(category="proof",
   text="Lean theorems Goag.Serve.parseBlock_ok_iff / parseBlock_values / parseBlock_error (for every leaf-parser table, every declared parameter list and every supplied value assignment): the model of the query/header block of new<Op>Params succeeds IFF no declared parameter is malformed in the property's own words (required and absent, scalar supplied more than once, a supplied value outside the lexical space of its type); on success every field is the typed value of the supplied text and an absent optional parameter is unset; a failure names a declared parameter with a fault that really applies to it. The model (closed-form strconv.ParseInt/ParseBool, measured table for float/time leaves) is tied to the generated parsers on every run: every type x location x required x ref-form x level combination with lexeme-class x cardinality requests, Parse() result vs model vs reference.",
   design_ref="DESIGN.md §4.4", note=SERVE_NOTE,
   technique="Lean 4 proof (iff by induction over the declaration list) + differential correspondence of the parser model with the generated Parse()"),
 "C05": dict(category="proof",
   text="Lean theorem Goag.Serve.runProg_progOf: for EVERY path template (any mix of literal and variable segments), every request path dispatched to it (same number of '/'-free segments, literal positions equal - what C03's router establishes), every pending constant and accumulator, running the alternating constant-prefix / variable-extractor program that NewOperation / NewHandler compile from the template (model progOf / runProg of the emitted new<Op>Params path block) gives each variable, in template order, the typed value of the segment AT ITS OWN POSITION; the first variable whose segment is empty ('required') or outside its type's lexical space ('lexical') is the one the error names; no other segment is consulted (refRun_ok_values). The model is tied on every run: Parse() of every dispatched request of the routing / parameter corpora vs pathParse(progOf template) vs the independent reference refPathParams.",
   design_ref="DESIGN.md §0.2, §4.5", note=SERVE_NOTE + " Template text -> segment list (splitOn, brace detection) and base-path stripping are String code, tied by the correspondence only.",
   technique="Lean 4 proof by induction over the template (list-of-characters model of the compiled path program) + differential correspondence with the generated Parse()"),
 "C11": dict(category="proof",
   text="Lean theorems auth_sound / auth_complete: for every requirement list in the implemented fragment (one supported scheme per alternative, one bearer slot), every installed-authenticator configuration and every request, the emitted authMiddlewareOr wrapper (model authOr over NewRouter's argument list, after NewSecurityRequirements) lets the handler run iff some alternative of the operation's own effective requirement is accepted, with the request that authenticator returned; denied => 401 and no handler; empty list => public. The full statement is proved FALSE (authExactFull_false) with the two recorded finding classes as witnesses (KF-C11-arity, KF-C11-unsupported), replayed against the real code on every run.",
   design_ref="DESIGN.md §4.11", note=SERVE_NOTE + " Partial: requirement alternatives with !=1 scheme or unsupported scheme kinds are recorded known findings.",
   technique="Lean 4 proof over authMiddlewareOr + requirement reduction (partial, with machine-checked negation of the full statement) + differential correspondence"),
 "C13": dict(category="proof",
   text="Lean theorem Goag.Embed.embed_roundtrip: for every NUL-free content s, the Go constant expression goag writes (model encodeRaw of generator/files.go) evaluates (model goEval of Go string-literal lexing) to exactly s; theorems spec_served / spec_only_when_installed: the spec body is served for exactly <base>/<name> when the handler is installed, bypassing routes and middlewares. Tied on every run: literal chain text + go/constant value of the real spec_file.go vs the model on exhaustive short strings over the quoting alphabet, fixtures in five byte forms, random text; served half through the routing corpus.",
   design_ref="DESIGN.md §4.13",
   note="Trusted: Lean kernel (+propext, Classical.choice, Quot.sound), hand-written models encodeRaw/goEval/serve (tied by differential correspondence, not verified), go/parser+go/types as judge of the constant value, kin-openapi loader as the definition of 'spec file content'.",
   technique="Lean 4 proof by induction over the content + differential correspondence of the encoder/lexer model with the real generator output"),
 "C14": dict(category="exploration",
   text="Lean theorem Goag.Serve.serve_exactly_one_response: for every api plan, configuration (any number of middlewares, any authenticator table, with or without not-found / spec / CORS handlers) and request, the modelled ServeHTTP pipeline emits exactly one response event (the model is total, so it has no panicking path; it is tied to the generated code by the corpora below). Absence of panics in the generated Go code itself is explored, not proved: every ServeHTTP and Parse() of the routing / security / parameter corpora (~2x10^5 requests per run incl. near-miss paths, paths without leading slash, nil / rejecting authenticators, repeated credentials), every document of the JSON corpus (valid, single-fault, discriminator absent / null / of every wrong kind) through the generated UnmarshalJSON, and raw requests with valid / truncated / empty / deeply nested bodies under declared and unknown Content-Length run under recover with a counting ResponseWriter: no panic, exactly one WriteHeader.",
   design_ref="DESIGN.md §0.2, §4.14", note=SERVE_NOTE + " Not covered: panics inside net/http / encoding/json internals, nil handler fields, malformed user response values; the checked-slicing fault model of the design was not built.",
   technique="Lean 4 proof of one-response on the total serve model + recover-wrapped differential runs over routing, JSON and request-body corpora"),
 "C16": dict(category="proof",
   text="Lean theorems middleware_trace / serve_routed / serve_unrouted_bypass / each_middleware_once: for middleware stacks of ANY length the model of ServeHTTP wraps the (security-wrapped) operation handler so that each middleware is entered exactly once, first-declared outermost, all authenticator and handler events strictly inside, with the matched template visible; spec-file, not-found and CORS requests produce no middleware event. Tied by traces of logging middlewares (0-4) on the routing corpus, including multi-request sessions on one API value.",
   design_ref="DESIGN.md §4.16", note=SERVE_NOTE,
   technique="Lean 4 proof (reverse wrap loop = right fold; trace shape) + differential correspondence of event traces"),
 "C17": dict(category="proof",
   text="Lean theorems cors_arm_exact / options_not_shadowed / cors_off / cors_requires_handler / dedupKeep_spec / sec_headers_fragment: the synthetic preflight arm exists exactly for path items without OPTIONS when CORS is on, carries exactly the declared methods and the de-duplicated canonical header list, never shadows a declared OPTIONS, and is inert without a handler. Tied by the (methods, headers) actually received by API.CORSHandler on routing / parameter / security corpora (case-variant header spellings, security headers).",
   design_ref="DESIGN.md §4.17", note=SERVE_NOTE + " Partial where a requirement names several schemes (KF-C11-arity: only the first scheme's header is advertised).",
   technique="Lean 4 proof over the NewRouter accumulation model + differential correspondence of CORSHandler arguments"),
}

CHECKS["C12"] = dict(category="proof",
   text="The quantifier over the runtime's map iteration orders is discharged by a regenerated obligation: on every run a go/types translator lists every range over a map, maps.Keys/Values call, environment read and go/select statement of goag's four packages; Lean re-checks (decide) that every site of the CURRENT source has a shape with a permutation-invariance lemma (sorted_perm_eq for collect-then-sort, insertDistinct_perm for distinct-key inserts) or a hash-pinned reviewed entry. A new or edited site fails the obligation. The failing-input search generates map-fat specs (>=4 entries and case-variant sibling keys in every map-typed construct), the fixtures and random specs 8 (quick) / 28 (thorough) times in-process and in fresh processes and compares sha256 per file.",
   design_ref="DESIGN.md §4.12",
   note="Trusted: Lean kernel (+propext, Classical.choice, Quot.sound); the translator's syntactic shape detection (fails closed); the 4 hand-reviewed sites pinned by statement hash; library code called by the generator (kin-openapi, text/template, x/tools/imports, encoding/json) assumed order-insensitive and sampled by the repeated-run search; TEMPLATE_DEBUG unset.",
   technique="regenerated Lean obligation over a source-extracted site table + permutation-invariance lemmas; repeated-run hash comparison as failing-input search")
CHECKS["C19"] = dict(category="proof",
   text="Lean theorem Goag.Dir.history_last_wins: for histories of ANY length and any initial directory, the goag-owned files after the history equal what the last invocation alone produces in an empty directory, and foreign files are untouched (plus rerun_idempotent). The step model stepDir (write/remove per owned file, O_TRUNC) is validated EXHAUSTIVELY on every run: all 2^5 stale-file patterns x user file x 24 invocations (spec with / without components / without operations x donotedit x client x api-handler: 1536 single steps) against the real generator, plus all 600 histories of length <= 2, sampled histories of length 3 and random longer ones run in one process while each single-run reference is generated in a fresh process, with a stale marker longer than any generated file and a user file that imports same-named non-stdlib packages.",
   design_ref="DESIGN.md §4.19",
   note="Trusted: Lean kernel (+propext, Classical.choice, Quot.sound); hand-written stepDir tied exhaustively on single steps; sha256 equality with a fresh-directory run as the meaning of 'what a single run produces'; the filesystem; runs that return success.",
   technique="Lean 4 proof over an exhaustively validated one-step model of Generate's file logic")

JSON_NOTE = ("Trusted: Lean kernel (+propext, Classical.choice, Quot.sound, audited per run); the hand-written Lean JSON codec model (Goag.JsonM toJ / decode / dumpVal, schema reader) "
             "is modelled, not verified: it is tied to /repo on every run by differential correspondence (goag in-process -> generated types compiled -> values built and dumped by reflection, "
             "canonical JSON compared with the model); encoding/json, strconv, time are library hypotheses whose leaf behaviour (string escaping, float and time text) is supplied as a measured table; "
             "schemas non-recursive; domain restrictions listed in the evidence assumptions; KF-C06-embeddedAddl is a recorded finding exercised by a fixed witness.")
RESP_NOTE = ("Trusted: Lean kernel (+propext, Classical.choice, Quot.sound, audited per run); the hand-written Lean models Goag.Resp (emitted response types, write<Op> method sets, written facts, client status switch) "
             "and Goag.Naming are modelled, not verified, and tied on every run by differential correspondence: go/types method sets of the real generated package, ResponseRecorder output of every constructor, "
             "round trips through the API's LocalClient; net/http, encoding/json as library hypotheses; the reflection driver /verif/harness/rt with seeded value generation.")
CHECKS["C02"] = dict(category="proof",
   text="Partial. Lean theorem Goag.Resp.implementers_eq_documented: for every document whose operation names are distinct, the set of emitted response types that carry an operation's unexported write<Op> method (hence satisfy its one-method response interface - inline responses of that operation, shared component responses through any alias) is exactly the set of responses the spec documents for it. The second sentence of the property (what Write emits) is validated, not proved. Tie, per generated program: the implementer set of every <Op>Response interface is computed by go/types over ALL named types of the generated package (complete for that program, not sampled) and must equal both the Lean model's emitted-type/method-set prediction (Goag.Resp.implementers) and the documented set read from the spec (inline, shared, aliases); every constructible response value is written and status / Content-Type / header names / body kind / exactly one WriteHeader compared with Goag.Resp.expectedWritten; specs that share a response as default and numbered, or twice in one operation, must be rejected. ",
   design_ref="DESIGN.md §0.2, §4.2", note=RESP_NOTE,
   technique="Lean 4 proof (implementers = documented on the emitted-type model) + complete go/types method-set comparison per generated program + per-constructor write validation")
CHECKS["C06"] = dict(category="translation_validation",
   text="Lean theorem rt_roundtrip (module Props.C06b): for the fragment of schemas made of primitive leaves, arrays and objects without additionalProperties (nullable or not, nested to any depth) and every value whose leaves the library round-trips and whose objects have distinct property names, decode (toJ v) = v - unset optionals stay unset, nulls stay null, every element and property preserved (induction on a size bound over the mutually recursive codec model; leaf behaviour is the measured table). Also fields_roundtrip (object level of the round trip: for every property list with distinct names, decodeFields (toJFields vs) = vs with nothing left in the key map, given the same statement for each property's own value) and encode_members_wellformed / writeItems_inv: for every item list (any number of plain and embedded members, empty ones included) the modelled member writer emits a comma-separated member sequence without leading, trailing or doubled commas that parses back to exactly the flattened members (and old_writer_* prove the pre-fix writer did not). The round trip itself (decode (encode v) = v) is checked per generated program: values built by reflection from the schema, MarshalJSON output must be valid, duplicate-free JSON, decode back to an equal value, and agree with the model toJ / dumpVal. Outside that fragment (maps, allOf, oneOf, untyped values, nil slices) the round trip is validated, so the claim stays translation validation with a proved fragment.",
   design_ref="DESIGN.md §4.6", note=JSON_NOTE,
   technique="Lean 4 proof of the comma/flattening discipline of the emitted writer + executable codec model, differential round trips per generated type")
CHECKS["C07"] = dict(category="translation_validation",
   text="Lean theorems toJFields_names_declared / toJFields_required_present / toJFields_unset_omitted / toJFields_required_unset_fails (every property list and value list): the modelled property writer emits only declared names, in declaration order, every required one, none for an unset optional, and refuses an unset required property. Conformance of nested values is validated per generated program: the canonical JSON tree of every encoded value (MarshalJSON, response bodies, client request bodies) equals the Lean model toJ and is judged by the independent executable reference Goag.JsonM.conforms written from the property text (required present, unset optional omitted, null only where nullable, declared names only unless additionalProperties, declared kinds, allOf merged, map entries under their own keys). toJ-conforms is not yet proved in general.",
   design_ref="DESIGN.md §4.7", note=JSON_NOTE,
   technique="executable Lean codec model + schema-conformance reference, differential validation per generated type")
CHECKS["C08"] = dict(category="translation_validation",
   text="Lean theorems decodeFields_ok_required_present / decodeFields_never_unnamed_type / decodeFields_missing_origin: in the model of unmarshalJSONInnerBody a successful decode implies every required key was present, a missing-key error names a declared required property that is really absent, and type errors of declared properties always carry the property name. Per generated program, schema-valid documents (generated independently of goag) and single-fault mutants are decoded by the real UnmarshalJSON and compared with the model decode and the reference prune (re-encoding equals the document up to keys the schema does not allow). Losslessness on all valid documents is validated, not proved.",
   design_ref="DESIGN.md §4.8", note=JSON_NOTE,
   technique="Lean 4 proofs over the modelled per-property decode loop + executable codec model, differential validation incl. single-fault mutants")
CHECKS["C09"] = dict(category="translation_validation",
   text="Lean theorems parseInt_formatInt / parseInts_formatInts / parseBool_formatBool / parseBools_formatBools: for the closed-form leaves (decimal integers of the three widths, booleans) what the client formats the server parses back to the same value, for every value in range; floats, times, URL escaping and header canonicalisation are library behaviour and validated. Per generated program with --client: seeded parameter structs (path, query scalar/array, header, JSON or raw body; optionals set and unset) are sent through the API's own LocalClient to the generated server in-process; the canonical dump of what the handler's Parse() returns must equal the dump of what was sent, and the recorded wire request must be accepted by the independent Lean reference for C04/C05 (typed value of the text on the wire). One call in six goes through a real loopback HTTP server and net/http's client.",
   design_ref="DESIGN.md §4.9", note=RESP_NOTE,
   technique="client->server round trips per generated program, compared by canonical dumps; Lean reference for the wire request")
CHECKS["C10"] = dict(category="translation_validation",
   text="Lean theorems documented_arm_exact / documented_reaches_arm / undocumented_to_default / undocumented_is_error: in the model of the emitted status switch a documented arm is chosen only for its own, documented status code; an undocumented code goes to the default arm when one is declared and to the not-implemented error otherwise - never to a wrong documented response (the property's second sentence, for every status list and code). The first sentence (value round trip) is validated, not proved. Per generated program with --client: every constructible response value (status, seeded header values, JSON or raw body) returned by a handler is compared with the value Client.<Op> returns (same kind, code, headers, body), and 11 injected status codes per operation are compared with the Lean model Goag.Resp.clientArm (numbered arm, else default arm, else not-implemented error).",
   design_ref="DESIGN.md §4.10", note=RESP_NOTE,
   technique="server->client round trips per generated program + executable Lean model of the client status switch")
CHECKS["C18"] = dict(category="translation_validation",
   text="Lean theorems allOf_ref_encodes_like_inline / allOf_ref_decodes_like_inline (codec model, every member schema without additionalProperties, every list of further members, every value / document): an allOf member by reference (an embedded struct in the generated type) and its inline copy (flattened fields) encode to the same JSON members and decode the same documents with the same errors and left-over keys, values corresponding by flattening. Everything else is a relation between two generated programs, validated: every base spec of the parameter, JSON and response corpora is generated as written ($ref to schemas, parameters, responses, alias chains, allOf/oneOf members, a trailing allOf member with additionalProperties) and with every reference replaced by an inline copy of its target; both packages are driven with identical raw requests, JSON documents (valid and single-fault) and status codes, and their wire-level projections (dispatch, accept/reject with error class, re-encoded canonical JSON, written status / content type / header names / body kind, client arm) must be equal. Beyond the allOf theorems the property relates two outputs of the generator, which is not modelled as a whole.",
   design_ref="DESIGN.md §4.18",
   note="Trusted: the harness's inlining transformation as the meaning of 'inline copy'; the reflection driver; wire-level projections. Members of a discriminated oneOf stay references (their names are the discriminator values). Anonymous bodies whose helper types collide or are not identifiers are recorded findings (KF-C01-nameCollision, KF-C01-hoistedRawName) with fixed witnesses.",
   technique="differential validation of reference form vs inlined form of the same spec (two generated packages, identical inputs)")

CHECKS["C20"] = dict(category="proof",
   text="Partial. Lean theorems Goag.Sched.isolation / interleaving_eq_alone / schedule_independent / independent_of_others: in a system whose steps read a shared environment and write only their own request's local state, after ANY schedule (any number of requests, any interleaving, any length) request i holds exactly what its own steps alone make of its own initial state; shared_write_breaks_isolation proves the statement false once a step may write a shared cell. The generated code is tied to that shape on every run by a regenerated obligation: a go/types translator lists every write to / address-of a package-level variable, every reference-typed package-level variable handed to a call, every assignment through the receiver of API / Client / ServeHTTP types and every go / select statement in the packages generated during the run, and Lean re-checks (decide) that the table contains only reads and the two reviewed read-only uses. What the model cannot exhibit - real interleavings, the memory model, aliasing and library internals - is explored, not proved: one API value / one client serve thousands of distinct tagged requests from 8-16 goroutines in binaries built with -race; each observation must equal the request served alone and the race detector must stay silent.",
   design_ref="DESIGN.md §4.20",
   note="Trusted: Lean kernel (+propext, Classical.choice, Quot.sound); the abstraction step from generated Go code to Goag.Sched (argued in DESIGN.md, supported by the regenerated site table, not mechanised); the translator's syntactic notion of a shared access (fails closed on new kinds of sites); Go's race detector; the driver's own handlers / transports share nothing.",
   technique="Lean 4 proof of schedule-independence for share-nothing systems + regenerated Lean obligation over a source-extracted shared-access table + race-detector differential search")

CHECKS["C01"] = dict(category="translation_validation",
   text="No formal Go type system is modelled, so 'every successful run type-checks' is decided per generated package, not proved for all specs: every package goag reports as written - fixtures under their own and a drawn configuration, random routing / security / parameter / JSON / response+client / map-fat specs, name-stress specs, specs goag has to refuse - under drawn combinations of client x api-handler x donotedit x cors x basepath x spec-handler-name is parsed, checked for gofmt stability and compiled; errors are accepted outcomes except for the repository's own fixtures; the verif hook reports which templates the corpus executed. What Lean carries: the identifier derivation (Goag.Naming, tied to generator.PublicFieldName / Title / PrivateFieldName on ~58000 names per run) with theorem publicFieldName_alnum (for every input the derived name consists of letters and digits only) and handler_client_field_disagree (the pre-fix handler/client field-name mismatch, as a machine-checked witness).",
   design_ref="DESIGN.md §4.1",
   note="Trusted: the Go toolchain (go/parser, go/format, go build) as the judge; Lean kernel (+propext, Classical.choice, Quot.sound) for the naming theorems; the naming model is modelled and tied by differential correspondence. Recorded finding classes: KF-C01-nameCollision (distinct spec names deriving one Go identifier; accepted only on name-stress and map-fat specs), KF-C01-noApiHandler (--api-handler=false output refers to handler.go).",
   technique="per-program validation by the Go compiler over a flag x spec corpus + Lean 4 theorems on the identifier derivation tied by differential correspondence")

CHECKS["C15"] = dict(category="fault_enumeration",
   text="Mostly exploration, with a proved core. Lean theorems Goag.Alias.exhausted_is_cycle / accepted_resolves / walk_found_mono (every component map, any size): the repaired bounded alias walk reports 'reference cycle' only for chains that never end (pigeonhole over the visited names), and every map it accepts resolves each component to a definition within len+2 names, so the unbounded walks that follow terminate; the model is tied on every run by all 64 functional graphs on three names plus random graphs on up to five, for five component kinds. The rest of the property - no panic anywhere in the generator for any document the loader accepts, located errors, non-zero exit - quantifies over code that is not modelled and is explored by enumeration: for every JSON position of 51 base documents delete / null / type-swap (quick: 12 seeded positions per base; thorough: all) plus targeted faults, generator under recover, CLI exit status.",
   design_ref="DESIGN.md §0.5, §4.15",
   note="Trusted: kin-openapi as the definition of 'document the loader accepts' (its own crashes are counted, not judged); recover() in-process and the CLI exit status as observations; Lean kernel (+propext, Classical.choice, Quot.sound) for the alias theorems; Goag.Alias is modelled and tied by differential correspondence.",
   technique="single-fault enumeration over corpus documents + Lean 4 termination / exactness proof of the alias-chain check tied by exhaustive small graphs")

REASONS_PENDING = "check not built yet in this round of work (see DESIGN.md §12 order); nothing is claimed for it"

def main():
    checks = []
    for pid in ALL:
        if pid not in CHECKS:
            continue
        c = CHECKS[pid]
        checks.append({
            "property_id": pid,
            "quick_cmd": "./check %s quick" % pid,
            "thorough_cmd": "./check %s thorough" % pid,
            "evidence_file": "/verif/evidence/%s.json" % pid,
            "replay_cmd_template": "./check replay {path}",
            "engine": "lean-model+go-harness",
            "level_claimed": {"category": c["category"], "text": c["text"], "design_ref": c["design_ref"]},
            "level_note": c["note"],
            "technique": c["technique"],
        })
    m = {
        "version": 1,
        "setup_cmd": "./check setup",
        "hooks": {
            "guard": "verif",
            "enable": "go build -tags verif (the harness under /verif/harness is built with -tags verif against /repo via a replace directive)",
            "baseline_off_cmd": "cd /repo && GOFLAGS=-mod=mod GOPROXY=off GOSUMDB=off GOTOOLCHAIN=local go test -vet=off -count=1 ./...",
            "source_commits": ["b21b0a6"],
            "add_only": True,
        },
        "engines": [
            {"name": "lean-model", "path": "/verif/lean", "serves_properties": sorted(CHECKS), "kind_free_text": "Lean 4 library GoagModel (models, property theorems, compiled line-protocol driver)"},
            {"name": "go-harness", "path": "/verif/harness", "serves_properties": sorted(CHECKS), "kind_free_text": "Go correspondence harness linking /repo in-process; generates corpora, runs goag and the generated packages, writes canonical observations"},
        ],
        "checks": checks,
        "notes": "Every check rebuilds the harness from /repo's working tree, re-audits the Lean theorems (#print axioms) and diffs model predictions against the implementation; see DESIGN.md.",
        "not_applicable": [{"property_id": p, "reason": REASONS_PENDING} for p in ALL if p not in CHECKS],
    }
    with open(os.path.join(HERE, "MANIFEST.json"), "w") as f:
        json.dump(m, f, indent=1)
    print("MANIFEST.json:", len(checks), "checks")

if __name__ == "__main__":
    main()
