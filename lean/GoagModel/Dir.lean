import GoagModel.Basic
/-
  C19: the file logic of `goag.Generator.Generate` (goag.go) as a step function over an
  output directory.  Owned names: components.go, handler.go, router.go, spec_file.go,
  client.go; everything else is foreign.
-/
namespace Goag.Dir

inductive Name where
  | components | handler | router | specFile | client
  | foreign (n : Nat)
deriving DecidableEq, Repr

def Name.owned : Name → Bool
  | .foreign _ => false
  | _ => true

/-- an invocation: whether the spec yields components to render, the two flags, and a tag
    standing for (spec, config, remaining flags) that determines generated content -/
structure Inv where
  hasComponents : Bool
  client : Bool
  api : Bool
  tag : Nat
deriving DecidableEq, Repr

inductive Content where
  | gen (tag : Nat) (f : Name)   -- what invocation `tag` generates for file `f`
  | other (k : Nat)              -- anything else (stale leftovers, user files)
deriving DecidableEq, Repr

abbrev Dir := Name → Option Content

def emptyDir : Dir := fun _ => none

/-- `Generate`: components.go written or removed; handler.go / router.go / spec_file.go written
    or removed; client.go removed, then written when requested; every write is a full rewrite
    (O_TRUNC); no other name is touched -/
def stepDir (d : Dir) (inv : Inv) : Dir := fun f =>
  match f with
  | .components => if inv.hasComponents then some (.gen inv.tag .components) else none
  | .handler => if inv.api then some (.gen inv.tag .handler) else none
  | .router => if inv.api then some (.gen inv.tag .router) else none
  | .specFile => if inv.api then some (.gen inv.tag .specFile) else none
  | .client => if inv.client then some (.gen inv.tag .client) else none
  | .foreign n => d (.foreign n)

def run (d : Dir) (h : List Inv) : Dir := h.foldl stepDir d

end Goag.Dir
