import GoagModel.Props.C07
/-
  Helper lemmas about the encoder model shared by the C06 / C07 / C18 proofs (no property
  statements here): how many values the property writer consumes, and what encoding an object
  without additionalProperties amounts to.
-/
namespace Goag.JsonM

/-- the property writer leaves exactly the values beyond the declared properties -/
theorem toJFields_rest (fields : List (String × Bool × Schema)) (vs : List Val) (ms : List (String × J)) (rest : List Val)
    (h : toJFields fields vs = .ok (ms, rest)) : rest = vs.drop fields.length := by
  induction fields generalizing vs ms rest with
  | nil =>
    rw [toJFields] at h
    simp only [Except.ok.injEq, Prod.mk.injEq] at h
    simp [h.2]
  | cons f fs ih =>
    obtain ⟨name, req, s⟩ := f
    cases vs with
    | nil => rw [toJFields] at h; simp at h
    | cons v vt =>
      by_cases hv : v = .unset
      · subst hv
        rw [toJFields_cons_unset] at h
        by_cases hreq : req = true
        · simp [hreq] at h
        · simp only [hreq, Bool.false_eq_true, if_false] at h
          simpa using ih vt ms rest h
      · rw [toJFields_cons_set _ _ _ _ _ _ hv] at h
        cases hj : toJ s v with
        | error e => simp [hj] at h
        | ok j =>
          cases hr : toJFields fs vt with
          | error e => simp [hj, hr] at h
          | ok p =>
            obtain ⟨pm, pr⟩ := p
            simp only [hj, hr, Except.ok.injEq, Prod.mk.injEq] at h
            rw [← h.2]
            simpa using ih vt pm pr hr

theorem toJ_obj_none (fields : List (String × Bool × Schema)) (nl : Bool) (fs : List Val) (j : J)
    (h : toJ (.obj fields none nl) (.obj fs none) = .ok j) : ∃ mm, j = .obj mm ∧ toJFields fields fs = .ok (mm, []) := by
  simp only [toJ] at h
  cases hf : toJFields fields fs with
  | error e => simp [hf] at h
  | ok p =>
    obtain ⟨ms, rest⟩ := p
    simp only [hf] at h
    cases hr : rest.isEmpty with
    | false => simp [hr] at h
    | true =>
      have hrest : rest = [] := by cases rest <;> simp_all
      subst hrest
      simp only [List.isEmpty_nil, Bool.not_true, Bool.false_eq_true, if_false, Except.ok.injEq] at h
      exact ⟨ms, h.symm, rfl⟩

/-- … and they are the first `fields.length` ones -/
theorem toJFields_take (fields : List (String × Bool × Schema)) (vs : List Val) (ms : List (String × J)) (rest : List Val)
    (h : toJFields fields vs = .ok (ms, rest)) : toJFields fields (vs.take fields.length) = .ok (ms, []) := by
  induction fields generalizing vs ms rest with
  | nil =>
    rw [toJFields] at h
    simp only [Except.ok.injEq, Prod.mk.injEq] at h
    simp [toJFields, h.1]
  | cons f fs ih =>
    obtain ⟨name, req, s⟩ := f
    cases vs with
    | nil => rw [toJFields] at h; simp at h
    | cons v vt =>
      simp only [List.length_cons, List.take_succ_cons]
      by_cases hv : v = .unset
      · subst hv
        rw [toJFields_cons_unset] at h
        rw [toJFields_cons_unset]
        by_cases hreq : req = true
        · simp [hreq] at h
        · simp only [hreq, Bool.false_eq_true, if_false] at h ⊢
          exact ih vt ms rest h
      · rw [toJFields_cons_set _ _ _ _ _ _ hv] at h
        rw [toJFields_cons_set _ _ _ _ _ _ hv]
        cases hj : toJ s v with
        | error e => simp [hj] at h
        | ok j =>
          cases hr : toJFields fs vt with
          | error e => simp [hj, hr] at h
          | ok p =>
            obtain ⟨pm, pr⟩ := p
            simp only [hj, hr, Except.ok.injEq, Prod.mk.injEq] at h
            rw [ih vt pm pr hr, ← h.1]

theorem toJFields_length (fields : List (String × Bool × Schema)) (vs : List Val) (ms : List (String × J)) (rest : List Val)
    (h : toJFields fields vs = .ok (ms, rest)) : fields.length ≤ vs.length := by
  induction fields generalizing vs ms rest with
  | nil => simp
  | cons f fs ih =>
    obtain ⟨name, req, s⟩ := f
    cases vs with
    | nil => rw [toJFields] at h; simp at h
    | cons v vt =>
      simp only [List.length_cons, Nat.add_le_add_iff_right]
      by_cases hv : v = .unset
      · subst hv
        rw [toJFields_cons_unset] at h
        by_cases hreq : req = true
        · simp [hreq] at h
        · simp only [hreq, Bool.false_eq_true, if_false] at h
          exact ih vt ms rest h
      · rw [toJFields_cons_set _ _ _ _ _ _ hv] at h
        cases hj : toJ s v with
        | error e => simp [hj] at h
        | ok j =>
          cases hr : toJFields fs vt with
          | error e => simp [hj, hr] at h
          | ok p =>
            obtain ⟨pm, pr⟩ := p
            exact ih vt pm pr hr

end Goag.JsonM
