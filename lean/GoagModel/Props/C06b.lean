import GoagModel.Props.C06
import GoagModel.JsonLemmas
/-
  C06 — the round trip through the whole schema tree, for the fragment of schemas made of
  primitive leaves (nullable or not), arrays (nullable or not) and objects with or without
  additionalProperties (nullable or not), nested to ANY depth ("map entries are preserved": a
  non-empty map whose keys are distinct and are not declared property names comes back with the
  same entries in the same order; an empty map is outside the fragment because it decodes to the
  nil map).

  `rt tbl s v` says that `v` is a value of schema `s` in that fragment whose leaves the library
  round-trips (the leaf table maps the leaf's canonical text back to the same dump and text;
  the table is measured from the Go library on every run) and whose objects have distinct
  property names.  Then decoding what the encoder wrote gives back exactly `v`: unset optionals
  stay unset, nulls stay null, every element and property is preserved.

  Outside the fragment (allOf, oneOf, untyped values, nil slices and empty maps, which need a
  normal form for "equal") the round trip is validated per generated type, not proved.
-/
namespace Goag.JsonM

def isUnset : Val → Bool
  | .unset => true
  | _ => false

theorem isUnset_iff (v : Val) : isUnset v = true ↔ v = .unset := by
  cases v <;> simp [isUnset]

mutual
def rt (tbl : LeafDec) : Schema → Val → Bool
  | .prim k _, .leaf c d =>
    (match tbl.find? (fun e => e.1 == (k.tag, c)) with
     | some (_, some (d', rc)) => d' == d && rc == c
     | _ => false)
  | .prim _ nl, .null => nl
  | .arr items _, .arr vs => rtList tbl items vs
  | .arr _ nl, .null => nl
  | .obj fields _ _, .obj fs none => rtFields tbl fields fs && decide ((fields.map (·.1)).Nodup)
  | .obj fields (some a) _, .obj fs (some xs) =>
    rtFields tbl fields fs && decide ((fields.map (·.1)).Nodup) && rtAddl tbl a xs && !xs.isEmpty &&
      decide ((xs.map (·.1)).Nodup) && decide (∀ k ∈ xs.map (·.1), k ∉ fields.map (·.1))
  | .obj _ _ nl, .null => nl
  | .allOf members, .obj fs none => rtMembers tbl members fs && decide ((declaredNames members).Nodup)
  | _, _ => false
def rtList (tbl : LeafDec) : Schema → List Val → Bool
  | _, [] => true
  | s, v :: vs => rt tbl s v && rtList tbl s vs
def rtFields (tbl : LeafDec) : List (String × Bool × Schema) → List Val → Bool
  | [], [] => true
  | (_, req, s) :: fs, v :: vs =>
    (if isUnset v then !req else rt tbl s v) && rtFields tbl fs vs
  | _, _ => false
def rtAddl (tbl : LeafDec) : Schema → List (String × Val) → Bool
  | _, [] => true
  | s, (_, v) :: xs => rt tbl s v && rtAddl tbl s xs
/-- allOf of objects without additionalProperties: a member given by reference is one embedded
    struct value, the properties of an inline member are the next fields of the outer struct -/
def rtMembers (tbl : LeafDec) : List (Bool × Schema) → List Val → Bool
  | [], [] => true
  | (true, .obj fields none _) :: ms, (.obj fs none) :: vs => rtFields tbl fields fs && rtMembers tbl ms vs
  | (false, .obj fields none _) :: ms, vs =>
    rtFields tbl fields (vs.take fields.length) && rtMembers tbl ms (vs.drop fields.length)
  | _, _ => false
end

/-- arrays: if every element round-trips, the list does -/
theorem list_roundtrip (tbl : LeafDec) (s : Schema)
    (hS : ∀ v j, rt tbl s v = true → toJ s v = .ok j → decode tbl s j = .ok v) :
    ∀ (vs : List Val) (js : List J), rtList tbl s vs = true → toJList s vs = .ok js → decodeList tbl s js = .ok vs := by
  intro vs
  induction vs with
  | nil =>
    intro js _ hj
    simp only [toJList, Except.ok.injEq] at hj
    subst hj
    simp [decodeList]
  | cons v vt ih =>
    intro js h hj
    simp only [rtList, Bool.and_eq_true] at h
    simp only [toJList] at hj
    cases hv : toJ s v with
    | error e => simp [hv] at hj
    | ok j =>
      cases hl : toJList s vt with
      | error e => simp [hv, hl] at hj
      | ok js' =>
        simp only [hv, hl, Except.ok.injEq] at hj
        subst hj
        simp only [decodeList, hS v j h.1 hv, ih js' h.2 hl]

/-- maps: if every value round-trips, the entries do, keys and order included -/
theorem addl_roundtrip (tbl : LeafDec) (s : Schema)
    (hS : ∀ v j, rt tbl s v = true → toJ s v = .ok j → decode tbl s j = .ok v) :
    ∀ (xs : List (String × Val)) (xm : List (String × J)), rtAddl tbl s xs = true → toJAddl s xs = .ok xm →
      decodeAddl tbl s xm = .ok xs ∧ xm.map (·.1) = xs.map (·.1) := by
  intro xs
  induction xs with
  | nil =>
    intro xm _ hj
    simp only [toJAddl, Except.ok.injEq] at hj
    subst hj
    simp [decodeAddl]
  | cons x xt ih =>
    obtain ⟨k, v⟩ := x
    intro xm h hj
    simp only [rtAddl, Bool.and_eq_true] at h
    simp only [toJAddl] at hj
    cases hv : toJ s v with
    | error e => simp [hv] at hj
    | ok j =>
      cases hl : toJAddl s xt with
      | error e => simp [hv, hl] at hj
      | ok xm' =>
        simp only [hv, hl, Except.ok.injEq] at hj
        subst hj
        obtain ⟨hd, hk⟩ := ih xm' h.2 hl
        simp only [decodeAddl, hS v j h.1 hv, hd, List.map_cons, hk, and_self]

/-- what the composite writes carries declared names only, in declaration order -/
theorem toJMembers_names_declared (tbl : LeafDec) (members : List (Bool × Schema)) :
    ∀ (vs : List Val) (ms : List (String × J)), rtMembers tbl members vs = true → toJMembers members vs = .ok ms →
      (ms.map (·.1)).Sublist (declaredNames members) := by
  induction members with
  | nil =>
    intro vs ms h hj
    cases vs with
    | nil => simp only [toJMembers, Except.ok.injEq] at hj; subst hj; simp [declaredNames]
    | cons _ _ => simp [rtMembers] at h
  | cons m rest ih =>
    obtain ⟨b, s⟩ := m
    intro vs ms h hj
    cases s with
    | obj fields a nl =>
      simp only [declaredNames]
      cases a with
      | some _ => cases b <;> cases vs <;> simp [rtMembers] at h
      | none =>
        cases b with
        | true =>
          cases vs with
          | nil => simp [rtMembers] at h
          | cons v vt =>
            cases v with
            | obj fs ax =>
              cases ax with
              | some _ => simp [rtMembers] at h
              | none =>
                simp only [rtMembers, Bool.and_eq_true] at h
                simp only [toJMembers] at hj
                cases hjv : toJ (.obj fields none nl) (.obj fs none) with
                | error e => simp [hjv] at hj
                | ok j =>
                  obtain ⟨mm, hjm, hf⟩ := toJ_obj_none fields nl fs j hjv
                  subst hjm
                  cases hr : toJMembers rest vt with
                  | error e => simp [hjv, hr] at hj
                  | ok more =>
                    simp only [hjv, hr, Except.ok.injEq] at hj
                    subst hj
                    rw [List.map_append]
                    exact (toJFields_names_declared fields fs mm [] hf).append (ih vt more h.2 hr)
            | leaf _ _ => simp [rtMembers] at h
            | null => simp [rtMembers] at h
            | unset => simp [rtMembers] at h
            | arr _ => simp [rtMembers] at h
            | nilarr => simp [rtMembers] at h
            | alt _ _ => simp [rtMembers] at h
        | false =>
          simp only [rtMembers, Bool.and_eq_true] at h
          simp only [toJMembers] at hj
          cases hf : toJFields fields vs with
          | error e => simp [hf] at hj
          | ok p =>
            obtain ⟨mm, restv⟩ := p
            simp only [hf] at hj
            have hrestv := toJFields_rest fields vs mm restv hf
            cases hr : toJMembers rest restv with
            | error e => simp [hr] at hj
            | ok more =>
              simp only [hr, Except.ok.injEq] at hj
              subst hj
              rw [hrestv] at hr
              rw [List.map_append]
              exact (toJFields_names_declared fields vs mm restv hf).append (ih _ more h.2 hr)
    | prim _ _ => cases b <;> cases vs <;> simp [rtMembers] at h
    | any => cases b <;> cases vs <;> simp [rtMembers] at h
    | arr _ _ => cases b <;> cases vs <;> simp [rtMembers] at h
    | allOf _ => cases b <;> cases vs <;> simp [rtMembers] at h
    | oneOf _ _ => cases b <;> cases vs <;> simp [rtMembers] at h

theorem laterAddl_false_of_rt (tbl : LeafDec) (members : List (Bool × Schema)) :
    ∀ vs, rtMembers tbl members vs = true → laterAddl members = false := by
  induction members with
  | nil => intro _ _; rfl
  | cons m rest ih =>
    obtain ⟨b, s⟩ := m
    intro vs h
    cases s with
    | obj fields a nl =>
      cases a with
      | some _ => cases b <;> cases vs <;> simp [rtMembers] at h
      | none =>
        cases b with
        | true =>
          cases vs with
          | nil => simp [rtMembers] at h
          | cons v vt =>
            cases v with
            | obj fs ax =>
              cases ax with
              | none =>
                simp only [rtMembers, Bool.and_eq_true] at h
                simp only [laterAddl]
                exact ih vt h.2
              | some _ => simp [rtMembers] at h
            | leaf _ _ => simp [rtMembers] at h
            | null => simp [rtMembers] at h
            | unset => simp [rtMembers] at h
            | arr _ => simp [rtMembers] at h
            | nilarr => simp [rtMembers] at h
            | alt _ _ => simp [rtMembers] at h
        | false =>
          simp only [rtMembers, Bool.and_eq_true] at h
          simp only [laterAddl]
          exact ih _ h.2
    | prim _ _ => cases b <;> cases vs <;> simp [rtMembers] at h
    | any => cases b <;> cases vs <;> simp [rtMembers] at h
    | arr _ _ => cases b <;> cases vs <;> simp [rtMembers] at h
    | allOf _ => cases b <;> cases vs <;> simp [rtMembers] at h
    | oneOf _ _ => cases b <;> cases vs <;> simp [rtMembers] at h

/-- the three statements, for all schemas / property lists / member lists up to a size bound (plain induction on the
    bound; Lean's mutual well-founded recursion is not used) -/
theorem rt_all (tbl : LeafDec) : ∀ n : Nat,
    (∀ (s : Schema) (v : Val) (j : J), sizeOf s ≤ n → rt tbl s v = true → toJ s v = .ok j → decode tbl s j = .ok v) ∧
    (∀ (fields : List (String × Bool × Schema)) (vs : List Val) (ms xm : List (String × J)), sizeOf fields ≤ n →
      rtFields tbl fields vs = true → (fields.map (·.1)).Nodup → (∀ k ∈ xm.map (·.1), k ∉ fields.map (·.1)) →
      toJFields fields vs = .ok (ms, []) → decodeFields tbl fields (ms ++ xm) = .ok (vs, xm)) ∧
    (∀ (members : List (Bool × Schema)) (vs : List Val) (ms : List (String × J)), sizeOf members ≤ n →
      rtMembers tbl members vs = true → (declaredNames members).Nodup →
      toJMembers members vs = .ok ms → decodeMembers tbl members ms = .ok (vs, [])) := by
  intro n
  induction n with
  | zero =>
    refine ⟨?_, ?_, ?_⟩
    · intro s v j hle
      cases s <;> simp at hle
    · intro fields vs ms xm hle
      cases fields <;> simp at hle
    · intro members vs ms hle
      cases members <;> simp at hle
  | succ n ih =>
    obtain ⟨ihS, ihF, ihM⟩ := ih
    refine ⟨?_, ?_, ?_⟩
    · intro s v j hle h hj
      cases s with
      | prim k nl =>
        cases v with
        | leaf c d =>
          simp only [toJ, Except.ok.injEq] at hj
          subst hj
          simp only [rt] at h
          simp only [decode]
          cases hf : tbl.find? (fun e => e.1 == (k.tag, c)) with
          | none => simp [hf] at h
          | some e =>
            obtain ⟨key, val⟩ := e
            cases val with
            | none => simp [hf] at h
            | some p =>
              obtain ⟨d', rc⟩ := p
              simp only [hf, Bool.and_eq_true, beq_iff_eq] at h
              simp [h.1, h.2]
        | null =>
          simp only [rt] at h
          simp only [toJ, h, if_true, Except.ok.injEq] at hj
          subst hj
          simp [decode, h]
        | unset => simp [rt] at h
        | arr _ => simp [rt] at h
        | nilarr => simp [rt] at h
        | obj _ _ => simp [rt] at h
        | alt _ _ => simp [rt] at h
      | any => cases v <;> simp [rt] at h
      | arr items nl =>
        have hsz : sizeOf items ≤ n := by simp at hle; omega
        cases v with
        | arr vs =>
          simp only [rt] at h
          simp only [toJ] at hj
          cases hl : toJList items vs with
          | error e => simp [hl, Except.map] at hj
          | ok js =>
            simp only [hl, Except.map, Except.ok.injEq] at hj
            subst hj
            have := list_roundtrip tbl items (fun v j => ihS items v j hsz) vs js h hl
            simp only [decode, this, Except.map]
        | null =>
          simp only [rt] at h
          simp only [toJ, h, if_true, Except.ok.injEq] at hj
          subst hj
          simp [decode, h]
        | leaf _ _ => simp [rt] at h
        | unset => simp [rt] at h
        | nilarr => simp [rt] at h
        | obj _ _ => simp [rt] at h
        | alt _ _ => simp [rt] at h
      | obj fields addl nl =>
        have hsz : sizeOf fields ≤ n := by simp at hle; omega
        cases v with
        | obj fs ax =>
          have hcommon : rtFields tbl fields fs = true ∧ (fields.map (·.1)).Nodup := by
            cases ax with
            | none => simpa [rt] using h
            | some xs =>
              cases addl with
              | none => simp [rt] at h
              | some a =>
                simp only [rt, Bool.and_eq_true, decide_eq_true_eq] at h
                exact ⟨h.1.1.1.1.1, h.1.1.1.1.2⟩
          simp only [toJ] at hj
          cases hf : toJFields fields fs with
          | error e => simp [hf] at hj
          | ok p =>
            obtain ⟨ms, rest⟩ := p
            simp only [hf] at hj
            cases hr : rest.isEmpty with
            | false => simp [hr] at hj
            | true =>
              have hrest : rest = [] := by cases rest <;> simp_all
              subst hrest
              simp only [List.isEmpty_nil, Bool.not_true, Bool.false_eq_true, if_false] at hj
              cases ax with
              | none =>
                have hms : j = .obj ms := by
                  cases addl <;> simp_all
                subst hms
                have hdec := ihF fields fs ms [] hsz hcommon.1 hcommon.2 (by simp) hf
                rw [List.append_nil] at hdec
                cases addl with
                | none => simp only [decode, hdec]
                | some a => simp only [decode, hdec, decodeAddl]
              | some xs =>
                cases addl with
                | none => simp [rt] at h
                | some a =>
                  have ha : sizeOf a ≤ n := by simp at hle; omega
                  simp only [rt, Bool.and_eq_true, decide_eq_true_eq, Bool.not_eq_true'] at h
                  obtain ⟨⟨⟨⟨_, hra⟩, hne⟩, _⟩, hdis⟩ := h
                  cases hx : toJAddl a xs with
                  | error e => simp [hx, Except.map] at hj
                  | ok xm =>
                    simp only [hx, Except.map, Except.ok.injEq] at hj
                    subst hj
                    obtain ⟨hda, hkeys⟩ := addl_roundtrip tbl a (fun v j => ihS a v j ha) xs xm hra hx
                    have hdis' : ∀ k ∈ xm.map (·.1), k ∉ fields.map (·.1) := by rw [hkeys]; exact hdis
                    have hdec := ihF fields fs ms xm hsz hcommon.1 hcommon.2 hdis' hf
                    simp only [decode, hdec, hda]
                    cases xs with
                    | nil => simp at hne
                    | cons x xt => rfl
        | null =>
          simp only [rt] at h
          simp only [toJ, h, if_true, Except.ok.injEq] at hj
          subst hj
          simp [decode, h]
        | leaf _ _ => cases addl <;> simp [rt] at h
        | unset => cases addl <;> simp [rt] at h
        | arr _ => cases addl <;> simp [rt] at h
        | nilarr => cases addl <;> simp [rt] at h
        | alt _ _ => cases addl <;> simp [rt] at h
      | allOf members =>
        have hsz : sizeOf members ≤ n := by simp at hle; omega
        cases v with
        | obj fs ax =>
          cases ax with
          | some _ => simp [rt] at h
          | none =>
            simp only [rt, Bool.and_eq_true, decide_eq_true_eq] at h
            simp only [toJ] at hj
            cases hm : toJMembers members fs with
            | error e => simp [hm] at hj
            | ok ms =>
              simp only [hm, Except.ok.injEq] at hj
              subst hj
              simp only [decode, ihM members fs ms hsz h.1 h.2 hm, laterAddl_false_of_rt tbl members fs h.1]
              rfl
        | null => simp [rt] at h
        | leaf _ _ => simp [rt] at h
        | unset => simp [rt] at h
        | arr _ => simp [rt] at h
        | nilarr => simp [rt] at h
        | alt _ _ => simp [rt] at h
      | oneOf alts d => cases v <;> simp [rt] at h
    · intro fields vs ms xm hle h hnd hdis hj
      cases fields with
      | nil =>
        cases vs with
        | nil =>
          simp only [toJFields, Except.ok.injEq, Prod.mk.injEq] at hj
          rw [← hj.1, decodeFields]
          rfl
        | cons _ _ => simp [rtFields] at h
      | cons f fs =>
        obtain ⟨name, req, s⟩ := f
        have hs : sizeOf s ≤ n := by simp at hle; omega
        have hfs : sizeOf fs ≤ n := by simp at hle; omega
        have hnx : name ∉ xm.map (·.1) := fun hm => (hdis name hm) (by simp)
        have hdis' : ∀ k ∈ xm.map (·.1), k ∉ fs.map (·.1) := fun k hk hm => (hdis k hk) (by simp [hm])
        cases vs with
        | nil => simp [rtFields] at h
        | cons v vt =>
          simp only [List.map_cons, List.nodup_cons] at hnd
          obtain ⟨hname, hnd'⟩ := hnd
          simp only [rtFields, Bool.and_eq_true] at h
          by_cases hv : v = .unset
          · subst hv
            rw [toJFields_cons_unset] at hj
            simp only [isUnset, if_true, Bool.not_eq_true'] at h
            simp only [h.1, Bool.false_eq_true, if_false] at hj
            have hsub := toJFields_names_declared fs vt ms [] hj
            have habs : name ∉ (ms ++ xm).map (·.1) := by
              rw [List.map_append, List.mem_append]
              exact fun hm => hm.elim (fun hm => hname (hsub.subset hm)) hnx
            rw [decodeFields, lookupAssoc_absent (ms ++ xm) name habs]
            simp only [h.1, Bool.false_eq_true, if_false]
            rw [ihF fs vt ms xm hfs h.2 hnd' hdis' hj]
          · rw [toJFields_cons_set _ _ _ _ _ _ hv] at hj
            have hnu : isUnset v = false := by
              cases hu : isUnset v with
              | false => rfl
              | true => exact absurd ((isUnset_iff v).mp hu) hv
            have hrt : rt tbl s v = true := by
              have h1 := h.1
              simpa [hnu] using h1
            cases hjv : toJ s v with
            | error e => simp [hjv] at hj
            | ok j =>
              cases hr : toJFields fs vt with
              | error e => simp [hjv, hr] at hj
              | ok p =>
                obtain ⟨pm, pr⟩ := p
                simp only [hjv, hr, Except.ok.injEq, Prod.mk.injEq] at hj
                obtain ⟨hms, hpr⟩ := hj
                subst hpr
                subst hms
                have hsub := toJFields_names_declared fs vt pm [] hr
                have habs : name ∉ (pm ++ xm).map (·.1) := by
                  rw [List.map_append, List.mem_append]
                  exact fun hm => hm.elim (fun hm => hname (hsub.subset hm)) hnx
                have hdec := ihS s v j hs hrt hjv
                rw [List.cons_append, decodeFields, lookupAssoc_head (pm ++ xm) name j habs]
                simp only [hdec, eraseKey_head (pm ++ xm) name j habs]
                rw [ihF fs vt pm xm hfs h.2 hnd' hdis' hr]

    · intro members vs ms hle h hnd hj
      cases members with
      | nil =>
        cases vs with
        | nil =>
          simp only [toJMembers, Except.ok.injEq] at hj
          subst hj
          simp [decodeMembers]
        | cons _ _ => simp [rtMembers] at h
      | cons m rest =>
        obtain ⟨b, s⟩ := m
        have hrest : sizeOf rest ≤ n := by simp at hle; omega
        cases s with
        | obj fields a nl =>
          have hfs : sizeOf fields ≤ n := by simp at hle; omega
          simp only [declaredNames] at hnd
          rw [List.nodup_append] at hnd
          obtain ⟨hndF, hndR, hdisj⟩ := hnd
          cases a with
          | some _ => cases b <;> cases vs <;> simp [rtMembers] at h
          | none =>
            cases b with
            | true =>
              cases vs with
              | nil => simp [rtMembers] at h
              | cons v vt =>
                cases v with
                | obj fs ax =>
                  cases ax with
                  | some _ => simp [rtMembers] at h
                  | none =>
                    simp only [rtMembers, Bool.and_eq_true] at h
                    simp only [toJMembers] at hj
                    cases hjv : toJ (.obj fields none nl) (.obj fs none) with
                    | error e => simp [hjv] at hj
                    | ok j =>
                      obtain ⟨mm, hjm, hf⟩ := toJ_obj_none fields nl fs j hjv
                      subst hjm
                      cases hr : toJMembers rest vt with
                      | error e => simp [hjv, hr] at hj
                      | ok more =>
                        simp only [hjv, hr, Except.ok.injEq] at hj
                        subst hj
                        have hsubR := toJMembers_names_declared tbl rest vt more h.2 hr
                        have hdis : ∀ k ∈ more.map (·.1), k ∉ fields.map (·.1) :=
                          fun k hk hm => hdisj k hm k (hsubR.subset hk) rfl
                        simp only [decodeMembers, ihF fields fs mm more hfs h.1 hndF hdis hf,
                          ihM rest vt more hrest h.2 hndR hr]
                | leaf _ _ => simp [rtMembers] at h
                | null => simp [rtMembers] at h
                | unset => simp [rtMembers] at h
                | arr _ => simp [rtMembers] at h
                | nilarr => simp [rtMembers] at h
                | alt _ _ => simp [rtMembers] at h
            | false =>
              simp only [rtMembers, Bool.and_eq_true] at h
              simp only [toJMembers] at hj
              cases hf : toJFields fields vs with
              | error e => simp [hf] at hj
              | ok p =>
                obtain ⟨mm, restv⟩ := p
                simp only [hf] at hj
                have hrestv := toJFields_rest fields vs mm restv hf
                have htake := toJFields_take fields vs mm restv hf
                cases hr : toJMembers rest restv with
                | error e => simp [hr] at hj
                | ok more =>
                  simp only [hr, Except.ok.injEq] at hj
                  subst hj
                  rw [hrestv] at hr
                  have hsubR := toJMembers_names_declared tbl rest _ more h.2 hr
                  have hdis : ∀ k ∈ more.map (·.1), k ∉ fields.map (·.1) :=
                    fun k hk hm => hdisj k hm k (hsubR.subset hk) rfl
                  simp only [decodeMembers, ihF fields _ mm more hfs h.1 hndF hdis htake,
                    ihM rest _ more hrest h.2 hndR hr, List.take_append_drop]
        | prim _ _ => cases b <;> cases vs <;> simp [rtMembers] at h
        | any => cases b <;> cases vs <;> simp [rtMembers] at h
        | arr _ _ => cases b <;> cases vs <;> simp [rtMembers] at h
        | allOf _ => cases b <;> cases vs <;> simp [rtMembers] at h
        | oneOf _ _ => cases b <;> cases vs <;> simp [rtMembers] at h

/-- **C06, round trip through the schema tree** (leaf / array / object / map / allOf fragment, any depth). -/
theorem rt_roundtrip (tbl : LeafDec) (s : Schema) (v : Val) (j : J)
    (h : rt tbl s v = true) (hj : toJ s v = .ok j) : decode tbl s j = .ok v :=
  (rt_all tbl (sizeOf s)).1 s v j (Nat.le_refl _) h hj

end Goag.JsonM

namespace Goag.JsonM

/-- non-vacuity: a nested object with an unset optional array and a set one -/
def exTbl : LeafDec := [(("int", "7"), some ("i:7", "7")), (("str", "\"a\""), some ("s:61", "\"a\""))]
def exSchema : Schema :=
  .obj [("id", true, .prim .int false), ("tags", false, .arr (.prim .str false) false),
        ("owner", false, .obj [("name", true, .prim .str true)] none true)] none false
def exVal1 : Val := .obj [.leaf "7" "i:7", .unset, .obj [.null] none] none
def exVal2 : Val := .obj [.leaf "7" "i:7", .arr [.leaf "\"a\"" "s:61", .leaf "\"a\"" "s:61"], .null] none

example : rt exTbl exSchema exVal1 = true := by
  simp [rt, rtFields, isUnset, exTbl, exSchema, exVal1, Kind.tag, List.find?]
example : rt exTbl exSchema exVal2 = true := by
  simp [rt, rtFields, rtList, isUnset, exTbl, exSchema, exVal2, Kind.tag, List.find?]
  all_goals decide

/-- … and a non-empty map with a null entry next to a declared property -/
def exSchemaM : Schema := .obj [("id", true, .prim .int false)] (some (.prim .str true)) false
def exValM : Val := .obj [.leaf "7" "i:7"] (some [("k1", .leaf "\"a\"" "s:61"), ("k2", .null)])
example : rt exTbl exSchemaM exValM = true := by
  simp [rt, rtFields, rtAddl, isUnset, exTbl, exSchemaM, exValM, Kind.tag, List.find?]
  all_goals decide

/-- … and a composition: one member by reference (an embedded struct), one inline (flattened) -/
def exSchemaA2 : Schema :=
  .allOf [(true, .obj [("id", true, .prim .int false)] none false), (false, .obj [("name", false, .prim .str false), ("n", false, .prim .int true)] none false)]
def exValA2 : Val := .obj [.obj [.leaf "7" "i:7"] none, .leaf "\"a\"" "s:61", .unset] none
example : rt exTbl exSchemaA2 exValA2 = true := by
  simp [rt, rtMembers, rtFields, isUnset, exTbl, exSchemaA2, exValA2, Kind.tag, List.find?, declaredNames]
  all_goals decide
example : ∃ j, toJ exSchemaA2 exValA2 = .ok j := by
  simp [toJ, toJMembers, toJFields, exSchemaA2, exValA2]

end Goag.JsonM
