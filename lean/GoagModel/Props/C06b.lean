import GoagModel.Props.C06
/-
  C06 — the round trip through the whole schema tree, for the fragment of schemas made of
  primitive leaves (nullable or not), arrays (nullable or not) and objects without
  additionalProperties (nullable or not), nested to ANY depth.

  `rt tbl s v` says that `v` is a value of schema `s` in that fragment whose leaves the library
  round-trips (the leaf table maps the leaf's canonical text back to the same dump and text;
  the table is measured from the Go library on every run) and whose objects have distinct
  property names.  Then decoding what the encoder wrote gives back exactly `v`: unset optionals
  stay unset, nulls stay null, every element and property is preserved.

  Outside the fragment (maps, allOf, oneOf, untyped values, nil slices, which need a normal form
  for "equal") the round trip is validated per generated type, not proved.
-/
namespace Goag.JsonM

def isUnset : Val → Bool
  | .unset => true
  | _ => false

theorem isUnset_iff (v : Val) : isUnset v = true ↔ v = .unset := by
  cases v <;> simp [isUnset]

mutual
def rt (tbl : LeafDec) : Schema → Val → Bool
  | .prim k _, .leaf c d =>
    (match tbl.find? (fun e => e.1 == (k.tag, c)) with
     | some (_, some (d', rc)) => d' == d && rc == c
     | _ => false)
  | .prim _ nl, .null => nl
  | .arr items _, .arr vs => rtList tbl items vs
  | .arr _ nl, .null => nl
  | .obj fields none _, .obj fs none => rtFields tbl fields fs && decide ((fields.map (·.1)).Nodup)
  | .obj _ none nl, .null => nl
  | _, _ => false
def rtList (tbl : LeafDec) : Schema → List Val → Bool
  | _, [] => true
  | s, v :: vs => rt tbl s v && rtList tbl s vs
def rtFields (tbl : LeafDec) : List (String × Bool × Schema) → List Val → Bool
  | [], [] => true
  | (_, req, s) :: fs, v :: vs =>
    (if isUnset v then !req else rt tbl s v) && rtFields tbl fs vs
  | _, _ => false
end

/-- arrays: if every element round-trips, the list does -/
theorem list_roundtrip (tbl : LeafDec) (s : Schema)
    (hS : ∀ v j, rt tbl s v = true → toJ s v = .ok j → decode tbl s j = .ok v) :
    ∀ (vs : List Val) (js : List J), rtList tbl s vs = true → toJList s vs = .ok js → decodeList tbl s js = .ok vs := by
  intro vs
  induction vs with
  | nil =>
    intro js _ hj
    simp only [toJList, Except.ok.injEq] at hj
    subst hj
    simp [decodeList]
  | cons v vt ih =>
    intro js h hj
    simp only [rtList, Bool.and_eq_true] at h
    simp only [toJList] at hj
    cases hv : toJ s v with
    | error e => simp [hv] at hj
    | ok j =>
      cases hl : toJList s vt with
      | error e => simp [hv, hl] at hj
      | ok js' =>
        simp only [hv, hl, Except.ok.injEq] at hj
        subst hj
        simp only [decodeList, hS v j h.1 hv, ih js' h.2 hl]

/-- the two statements, for all schemas / property lists up to a size bound (plain induction on the
    bound; Lean's mutual well-founded recursion is not used) -/
theorem rt_all (tbl : LeafDec) : ∀ n : Nat,
    (∀ (s : Schema) (v : Val) (j : J), sizeOf s ≤ n → rt tbl s v = true → toJ s v = .ok j → decode tbl s j = .ok v) ∧
    (∀ (fields : List (String × Bool × Schema)) (vs : List Val) (ms : List (String × J)), sizeOf fields ≤ n →
      rtFields tbl fields vs = true → (fields.map (·.1)).Nodup →
      toJFields fields vs = .ok (ms, []) → decodeFields tbl fields ms = .ok (vs, [])) := by
  intro n
  induction n with
  | zero =>
    constructor
    · intro s v j hle
      cases s <;> simp at hle
    · intro fields vs ms hle
      cases fields <;> simp at hle
  | succ n ih =>
    obtain ⟨ihS, ihF⟩ := ih
    constructor
    · intro s v j hle h hj
      cases s with
      | prim k nl =>
        cases v with
        | leaf c d =>
          simp only [toJ, Except.ok.injEq] at hj
          subst hj
          simp only [rt] at h
          simp only [decode]
          cases hf : tbl.find? (fun e => e.1 == (k.tag, c)) with
          | none => simp [hf] at h
          | some e =>
            obtain ⟨key, val⟩ := e
            cases val with
            | none => simp [hf] at h
            | some p =>
              obtain ⟨d', rc⟩ := p
              simp only [hf, Bool.and_eq_true, beq_iff_eq] at h
              simp [h.1, h.2]
        | null =>
          simp only [rt] at h
          simp only [toJ, h, if_true, Except.ok.injEq] at hj
          subst hj
          simp [decode, h]
        | unset => simp [rt] at h
        | arr _ => simp [rt] at h
        | nilarr => simp [rt] at h
        | obj _ _ => simp [rt] at h
        | alt _ _ => simp [rt] at h
      | any => cases v <;> simp [rt] at h
      | arr items nl =>
        have hsz : sizeOf items ≤ n := by simp at hle; omega
        cases v with
        | arr vs =>
          simp only [rt] at h
          simp only [toJ] at hj
          cases hl : toJList items vs with
          | error e => simp [hl, Except.map] at hj
          | ok js =>
            simp only [hl, Except.map, Except.ok.injEq] at hj
            subst hj
            have := list_roundtrip tbl items (fun v j => ihS items v j hsz) vs js h hl
            simp only [decode, this, Except.map]
        | null =>
          simp only [rt] at h
          simp only [toJ, h, if_true, Except.ok.injEq] at hj
          subst hj
          simp [decode, h]
        | leaf _ _ => simp [rt] at h
        | unset => simp [rt] at h
        | nilarr => simp [rt] at h
        | obj _ _ => simp [rt] at h
        | alt _ _ => simp [rt] at h
      | obj fields addl nl =>
        have hsz : sizeOf fields ≤ n := by simp at hle; omega
        cases addl with
        | some a => cases v <;> simp [rt] at h
        | none =>
          cases v with
          | obj fs ax =>
            cases ax with
            | some xs => simp [rt] at h
            | none =>
              simp only [rt, Bool.and_eq_true, decide_eq_true_eq] at h
              simp only [toJ] at hj
              cases hf : toJFields fields fs with
              | error e => simp [hf] at hj
              | ok p =>
                obtain ⟨ms, rest⟩ := p
                simp only [hf] at hj
                cases hr : rest.isEmpty with
                | false => simp [hr] at hj
                | true =>
                  have hrest : rest = [] := by cases rest <;> simp_all
                  subst hrest
                  simp only [List.isEmpty_nil, Bool.not_true, Bool.false_eq_true, if_false, Except.ok.injEq] at hj
                  subst hj
                  simp only [decode, ihF fields fs ms hsz h.1 h.2 hf]
          | null =>
            simp only [rt] at h
            simp only [toJ, h, if_true, Except.ok.injEq] at hj
            subst hj
            simp [decode, h]
          | leaf _ _ => simp [rt] at h
          | unset => simp [rt] at h
          | arr _ => simp [rt] at h
          | nilarr => simp [rt] at h
          | alt _ _ => simp [rt] at h
      | allOf ms => cases v <;> simp [rt] at h
      | oneOf alts d => cases v <;> simp [rt] at h
    · intro fields vs ms hle h hnd hj
      cases fields with
      | nil =>
        cases vs with
        | nil =>
          simp only [toJFields, Except.ok.injEq, Prod.mk.injEq] at hj
          rw [← hj.1, decodeFields]
        | cons _ _ => simp [rtFields] at h
      | cons f fs =>
        obtain ⟨name, req, s⟩ := f
        have hs : sizeOf s ≤ n := by simp at hle; omega
        have hfs : sizeOf fs ≤ n := by simp at hle; omega
        cases vs with
        | nil => simp [rtFields] at h
        | cons v vt =>
          simp only [List.map_cons, List.nodup_cons] at hnd
          obtain ⟨hname, hnd'⟩ := hnd
          simp only [rtFields, Bool.and_eq_true] at h
          by_cases hv : v = .unset
          · subst hv
            rw [toJFields_cons_unset] at hj
            simp only [isUnset, if_true, Bool.not_eq_true'] at h
            simp only [h.1, Bool.false_eq_true, if_false] at hj
            have hsub := toJFields_names_declared fs vt ms [] hj
            have habs : name ∉ ms.map (·.1) := fun hm => hname (hsub.subset hm)
            rw [decodeFields, lookupAssoc_absent ms name habs]
            simp only [h.1, Bool.false_eq_true, if_false]
            rw [ihF fs vt ms hfs h.2 hnd' hj]
          · rw [toJFields_cons_set _ _ _ _ _ _ hv] at hj
            have hnu : isUnset v = false := by
              cases hu : isUnset v with
              | false => rfl
              | true => exact absurd ((isUnset_iff v).mp hu) hv
            have hrt : rt tbl s v = true := by
              have h1 := h.1
              simpa [hnu] using h1
            cases hjv : toJ s v with
            | error e => simp [hjv] at hj
            | ok j =>
              cases hr : toJFields fs vt with
              | error e => simp [hjv, hr] at hj
              | ok p =>
                obtain ⟨pm, pr⟩ := p
                simp only [hjv, hr, Except.ok.injEq, Prod.mk.injEq] at hj
                obtain ⟨hms, hpr⟩ := hj
                subst hpr
                subst hms
                have hsub := toJFields_names_declared fs vt pm [] hr
                have habs : name ∉ pm.map (·.1) := fun hm => hname (hsub.subset hm)
                have hdec := ihS s v j hs hrt hjv
                rw [decodeFields, lookupAssoc_head pm name j habs]
                simp only [hdec, eraseKey_head pm name j habs]
                rw [ihF fs vt pm hfs h.2 hnd' hr]

/-- **C06, round trip through the schema tree** (leaf / array / object fragment, any depth). -/
theorem rt_roundtrip (tbl : LeafDec) (s : Schema) (v : Val) (j : J)
    (h : rt tbl s v = true) (hj : toJ s v = .ok j) : decode tbl s j = .ok v :=
  (rt_all tbl (sizeOf s)).1 s v j (Nat.le_refl _) h hj

end Goag.JsonM

namespace Goag.JsonM

/-- non-vacuity: a nested object with an unset optional array and a set one -/
def exTbl : LeafDec := [(("int", "7"), some ("i:7", "7")), (("str", "\"a\""), some ("s:61", "\"a\""))]
def exSchema : Schema :=
  .obj [("id", true, .prim .int false), ("tags", false, .arr (.prim .str false) false),
        ("owner", false, .obj [("name", true, .prim .str true)] none true)] none false
def exVal1 : Val := .obj [.leaf "7" "i:7", .unset, .obj [.null] none] none
def exVal2 : Val := .obj [.leaf "7" "i:7", .arr [.leaf "\"a\"" "s:61", .leaf "\"a\"" "s:61"], .null] none

example : rt exTbl exSchema exVal1 = true := by decide
example : rt exTbl exSchema exVal2 = true := by decide

end Goag.JsonM
