import GoagModel.Embed
import GoagModel.Serve
/-
  C13, embedding half: the constant compiled into the generated package equals the input.
  Property theorems only; helper lemmas are the two step lemmas below (kept here because
  they are the whole proof).
-/
namespace Goag.Embed

theorem rep_cons (f : Char → Option Str) (c : Char) (s : Str) :
    rep f (c :: s) = (f c).getD [c] ++ rep f s := by
  simp [rep]

theorem raw_step (s : Str) (h0 : Char.ofNat 0 ∉ s) (acc tail : Str) :
    go .raw acc (rep fRaw s ++ tail) = go .raw (s.reverse ++ acc) tail := by
  induction s generalizing acc with
  | nil => simp [rep]
  | cons c s ih =>
    have h0' : Char.ofNat 0 ∉ s := fun h => h0 (List.mem_cons_of_mem _ h)
    have hc0 : c ≠ Char.ofNat 0 := fun h => h0 (by simp [h])
    rw [rep_cons, List.append_assoc]
    by_cases h1 : c = '`'
    · subst h1
      simp [fRaw, go, illegal, simpleEsc, bom, ih h0']
    · by_cases h2 : c = '\r'
      · subst h2
        simp [fRaw, go, illegal, simpleEsc, bom, ih h0']
      · by_cases h3 : c = bom
        · subst h3
          simp [fRaw, go, illegal, simpleEsc, hexVal, bom, Nat.isValidChar, ih h0']
        · simp [fRaw, h1, h2, h3, go, illegal, hc0, ih h0']

theorem str_step (s : Str) (h0 : Char.ofNat 0 ∉ s) (hn : '\n' ∉ s) (acc tail : Str) :
    go .str acc (rep fStr s ++ tail) = go .str (s.reverse ++ acc) tail := by
  induction s generalizing acc with
  | nil => simp [rep]
  | cons c s ih =>
    have h0' : Char.ofNat 0 ∉ s := fun h => h0 (List.mem_cons_of_mem _ h)
    have hn' : '\n' ∉ s := fun h => hn (List.mem_cons_of_mem _ h)
    have hc0 : c ≠ Char.ofNat 0 := fun h => h0 (by simp [h])
    have hcn : c ≠ '\n' := fun h => hn (by simp [h])
    rw [rep_cons, List.append_assoc]
    by_cases h1 : c = '\\'
    · subst h1
      simp [fStr, go, illegal, simpleEsc, bom, ih h0' hn']
    · by_cases h2 : c = '"'
      · subst h2
        simp [fStr, go, illegal, simpleEsc, bom, ih h0' hn']
      · by_cases h3 : c = bom
        · subst h3
          simp [fStr, go, illegal, simpleEsc, hexVal, bom, Nat.isValidChar, ih h0' hn']
        · simp [fStr, h1, h2, h3, go, illegal, hc0, hcn, ih h0' hn']

/-- **C13 (embedding)**: for every NUL-free content, the Go constant expression written
    into `spec_file.go` evaluates to exactly that content. -/
theorem embed_roundtrip (s : Str) (h0 : Char.ofNat 0 ∉ s) : goEval (encodeRaw s) = some s := by
  unfold encodeRaw
  by_cases hn : '\n' ∈ s
  · simp only [hn, if_true, goEval]
    have := raw_step s h0 [] ['`']
    simp [go, illegal, bom] at this ⊢
    rw [this]
  · simp only [hn, if_false, goEval]
    have := str_step s h0 hn [] ['"']
    simp [go, illegal, bom] at this ⊢
    rw [this]

/-- non-vacuity: a content with every special character satisfies the hypothesis -/
example : Char.ofNat 0 ∉ (bom :: "a\r\n\\b\"`c$".toList) := by decide

/-! Negative results for the encoder of the pinned commit (witnesses replayed on the real
    code before the `fix:` commit; see known_findings.json). -/

theorem old_backslash_oneline_differs :
    goEval (encodeOld "a\\\\b".toList) = some "a\\b".toList := by decide
theorem old_bad_escape_oneline : goEval (encodeOld "\\d".toList) = none := by decide
theorem old_crlf_drops_cr : goEval (encodeOld "a\r\nb".toList) = some "a\nb".toList := by decide
theorem old_bom_breaks : goEval (encodeOld (bom :: "a\nb".toList)) = none := by decide

end Goag.Embed

/-! ## served half: `GET <base>/<spec name>` -/
namespace Goag.Serve
open Goag.Spec Goag.Router

def isSpecFinal : Ev → Bool
  | .final _ _ "SPECFILE" => true
  | _ => false

/-- **C13 (served)**: with the spec-file handler installed, a request for
    `<base path>/<spec name>` is answered by that handler alone — whatever the method, the
    routes and the middlewares installed (no other event occurs) -/
theorem spec_served (leaf : LeafTable) (api : ApiM) (cfg : Cfg) (req : Req)
    (hi : cfg.spec = true) (hp : req.path = api.base ++ "/" ++ api.specName) :
    serve leaf api cfg req = [Ev.final 200 ("application/" ++ specExt api.specName) "SPECFILE"] := by
  unfold serve
  simp [hi, hp]

theorem opHandler_no_spec (leaf : LeafTable) (api : ApiM) (cfg : Cfg) (o : OpM) (r : RCtx) :
    ∀ e ∈ opHandler leaf api cfg o r, isSpecFinal e = false := by
  intro e he
  unfold opHandler at he
  simp only [List.mem_append, List.mem_cons, List.not_mem_nil, or_false] at he
  rcases he with ((rfl | he) | he) | rfl
  · rfl
  · split at he <;> simp at he; subst he; rfl
  · split at he <;> simp at he; subst he; rfl
  · decide

theorem authOr_no_spec (refs : List AuthRef) (cfg : Cfg) (req : Req) :
    ∀ e ∈ (authOr refs cfg req).1, isSpecFinal e = false := by
  induction refs with
  | nil => simp [authOr]
  | cons r rs ih =>
    intro e he
    unfold authOr at he
    split at he
    · exact ih e he
    · split at he
      · exact ih e he
      · split at he
        · simp at he; subst he; rfl
        · simp only [List.mem_cons] at he
          rcases he with rfl | he
          · rfl
          · exact ih e he

theorem secured_no_spec (leaf : LeafTable) (api : ApiM) (cfg : Cfg) (o : OpM) (r : RCtx) :
    ∀ e ∈ secured leaf api cfg o r, isSpecFinal e = false := by
  intro e he
  unfold secured at he
  split at he
  · exact opHandler_no_spec _ _ _ _ _ e he
  · split at he
    · rename_i evs s t heq
      simp only [List.mem_append] at he
      rcases he with he | he
      · have := authOr_no_spec o.auth cfg r.req e; rw [heq] at this; exact this he
      · exact opHandler_no_spec _ _ _ _ _ e he
    · rename_i evs heq
      simp only [List.mem_append, List.mem_cons, List.not_mem_nil, or_false] at he
      rcases he with he | rfl
      · have := authOr_no_spec o.auth cfg r.req e; rw [heq] at this; exact this he
      · decide

/-- **C13 (served, only when installed)**: the spec body is served for no other request and
    never without the handler installed -/
theorem spec_only_when_installed (leaf : LeafTable) (api : ApiM) (cfg : Cfg) (req : Req)
    (h : (cfg.spec && req.path == api.base ++ "/" ++ api.specName) = false) :
    ∀ e ∈ serve leaf api cfg req, isSpecFinal e = false := by
  intro e he
  unfold serve at he
  simp only [h, Bool.false_eq_true, if_false] at he
  split at he
  · unfold notFound at he
    split at he <;> simp at he
    · rcases he with rfl | rfl <;> decide
    · subst he; decide
  · simp at he
    rcases he with rfl | rfl | rfl
    · rfl
    · rfl
    · decide
  · rename_i o _
    unfold wrapLoop at he
    rw [List.foldl_reverse] at he
    -- every event of the wrapped handler is an enter/leave or an event of `secured`
    have key : ∀ (is : List Nat) (r : RCtx), ∀ e ∈ (is.map logMw).foldr (fun m acc => m acc) (secured leaf api cfg o) r,
        isSpecFinal e = false := by
      intro is
      induction is with
      | nil => intro r e he; exact secured_no_spec _ _ _ _ _ e he
      | cons i tl ih =>
        intro r e he
        simp only [List.map_cons, List.foldr_cons, logMw, List.mem_append, List.mem_cons, List.not_mem_nil, or_false] at he
        rcases he with (rfl | he) | rfl
        · rfl
        · exact ih r e he
        · rfl
    exact key _ _ e he

end Goag.Serve
