import GoagModel.Embed
/-
  C13, embedding half: the constant compiled into the generated package equals the input.
  Property theorems only; helper lemmas are the two step lemmas below (kept here because
  they are the whole proof).
-/
namespace Goag.Embed

theorem rep_cons (f : Char → Option Str) (c : Char) (s : Str) :
    rep f (c :: s) = (f c).getD [c] ++ rep f s := by
  simp [rep]

theorem raw_step (s : Str) (h0 : Char.ofNat 0 ∉ s) (acc tail : Str) :
    go .raw acc (rep fRaw s ++ tail) = go .raw (s.reverse ++ acc) tail := by
  induction s generalizing acc with
  | nil => simp [rep]
  | cons c s ih =>
    have h0' : Char.ofNat 0 ∉ s := fun h => h0 (List.mem_cons_of_mem _ h)
    have hc0 : c ≠ Char.ofNat 0 := fun h => h0 (by simp [h])
    rw [rep_cons, List.append_assoc]
    by_cases h1 : c = '`'
    · subst h1
      simp [fRaw, go, illegal, simpleEsc, bom, ih h0']
    · by_cases h2 : c = '\r'
      · subst h2
        simp [fRaw, go, illegal, simpleEsc, bom, ih h0']
      · by_cases h3 : c = bom
        · subst h3
          simp [fRaw, go, illegal, simpleEsc, hexVal, bom, Nat.isValidChar, ih h0']
        · simp [fRaw, h1, h2, h3, go, illegal, hc0, ih h0']

theorem str_step (s : Str) (h0 : Char.ofNat 0 ∉ s) (hn : '\n' ∉ s) (acc tail : Str) :
    go .str acc (rep fStr s ++ tail) = go .str (s.reverse ++ acc) tail := by
  induction s generalizing acc with
  | nil => simp [rep]
  | cons c s ih =>
    have h0' : Char.ofNat 0 ∉ s := fun h => h0 (List.mem_cons_of_mem _ h)
    have hn' : '\n' ∉ s := fun h => hn (List.mem_cons_of_mem _ h)
    have hc0 : c ≠ Char.ofNat 0 := fun h => h0 (by simp [h])
    have hcn : c ≠ '\n' := fun h => hn (by simp [h])
    rw [rep_cons, List.append_assoc]
    by_cases h1 : c = '\\'
    · subst h1
      simp [fStr, go, illegal, simpleEsc, bom, ih h0' hn']
    · by_cases h2 : c = '"'
      · subst h2
        simp [fStr, go, illegal, simpleEsc, bom, ih h0' hn']
      · by_cases h3 : c = bom
        · subst h3
          simp [fStr, go, illegal, simpleEsc, hexVal, bom, Nat.isValidChar, ih h0' hn']
        · simp [fStr, h1, h2, h3, go, illegal, hc0, hcn, ih h0' hn']

/-- **C13 (embedding)**: for every NUL-free content, the Go constant expression written
    into `spec_file.go` evaluates to exactly that content. -/
theorem embed_roundtrip (s : Str) (h0 : Char.ofNat 0 ∉ s) : goEval (encodeRaw s) = some s := by
  unfold encodeRaw
  by_cases hn : '\n' ∈ s
  · simp only [hn, if_true, goEval]
    have := raw_step s h0 [] ['`']
    simp [go, illegal, bom] at this ⊢
    rw [this]
  · simp only [hn, if_false, goEval]
    have := str_step s h0 hn [] ['"']
    simp [go, illegal, bom] at this ⊢
    rw [this]

/-- non-vacuity: a content with every special character satisfies the hypothesis -/
example : Char.ofNat 0 ∉ (bom :: "a\r\n\\b\"`c$".toList) := by decide

/-! Negative results for the encoder of the pinned commit (witnesses replayed on the real
    code before the `fix:` commit; see known_findings.json). -/

theorem old_backslash_oneline_differs :
    goEval (encodeOld "a\\\\b".toList) = some "a\\b".toList := by decide
theorem old_bad_escape_oneline : goEval (encodeOld "\\d".toList) = none := by decide
theorem old_crlf_drops_cr : goEval (encodeOld "a\r\nb".toList) = some "a\nb".toList := by decide
theorem old_bom_breaks : goEval (encodeOld (bom :: "a\nb".toList)) = none := by decide

end Goag.Embed
