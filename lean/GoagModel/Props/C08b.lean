import GoagModel.Props.C07b
import GoagModel.Props.C08
import GoagModel.Props.C18
/-
  C08 — "every JSON document that is valid for a schema decodes without error into the schema's Go
  type and re-encodes to an equivalent JSON value", through the whole schema tree, for the
  fragment of schemas made of primitive leaves, arrays, objects with or without
  additionalProperties (each nullable or not, property names distinct) and allOf compositions of
  objects without additionalProperties (declared names distinct), nested to ANY depth
  ("keeping additional properties where the schema allows them": the members under undeclared names
  come back after the declared ones, each re-encoded by the map's value schema).

  `decode_encode_is_prune`: for every document `j` that conforms to the schema (`conforms`, the
  reference read from the spec alone) and that the decoder accepts, encoding the decoded value
  succeeds and gives exactly `prune tbl s j`: the same document with leaves in the library's
  canonical form, declared properties in declaration order and nothing else — the reference
  the check applies to every generated type ("equivalent JSON value").
  `conforming_decodes`: … and the decoder does accept it, given that the library accepts every
  leaf text of the document (the leaf table is measured from the Go library on every run; a
  lexically valid integer can still be out of range).

  Together: valid documents are never rejected and never change under a decode/encode cycle.
  `bad_shape_rejected`: in the other direction, whatever the decoder accepts has the declared shape at
  every depth (`shapeOk`), so a document with a required property missing or a value of the wrong
  structural kind anywhere below a declared property is rejected (which error names which property
  is the object-level statement of `Props/C08.lean`).
  Outside the fragment (oneOf, untyped values, allOf members with additionalProperties) this is
  validated per generated type.
-/
namespace Goag.JsonM

/-! ### the schemas of the fragment -/

mutual
def frag : Schema → Bool
  | .prim _ _ => true
  | .arr items _ => frag items
  | .obj fields none _ => fragFields fields && decide ((fields.map (·.1)).Nodup)
  | .obj fields (some a) _ => fragFields fields && decide ((fields.map (·.1)).Nodup) && frag a
  | .allOf members => fragMembers members && decide ((declaredNames members).Nodup)
  | _ => false
def fragFields : List (String × Bool × Schema) → Bool
  | [] => true
  | (_, _, s) :: fs => frag s && fragFields fs
/-- allOf of objects without additionalProperties (by reference or inline) -/
def fragMembers : List (Bool × Schema) → Bool
  | [] => true
  | (_, .obj fields none _) :: ms => fragFields fields && fragMembers ms
  | _ => false
end

/-! ### key maps -/

theorem eraseDups_length_nodup : ∀ (n : Nat) (l : List String), l.length ≤ n →
    l.eraseDups.length ≤ l.length ∧ (l.eraseDups.length = l.length → l.Nodup) := by
  intro n
  induction n with
  | zero =>
    intro l hl
    have : l = [] := by cases l <;> simp_all
    subst this
    simp
  | succ n ih =>
    intro l hl
    cases l with
    | nil => simp
    | cons a as =>
      have hlen : (as.filter fun b => !b == a).length ≤ n := by
        have := List.length_filter_le (fun b => !b == a) as
        simp only [List.length_cons] at hl
        omega
      obtain ⟨hle, hnd⟩ := ih (as.filter fun b => !b == a) hlen
      have hfl := List.length_filter_le (fun b => !b == a) as
      rw [List.eraseDups_cons]
      simp only [List.length_cons]
      constructor
      · omega
      · intro heq
        have h1 : (as.filter fun b => !b == a).length = as.length := by omega
        have h2 : (as.filter fun b => !b == a).eraseDups.length = (as.filter fun b => !b == a).length := by omega
        have hfe : (as.filter fun b => !b == a) = as := List.filter_eq_self.mpr (by
          have := List.length_filter_eq_length_iff.mp h1
          exact this)
        rw [hfe] at hnd h2
        have hna : a ∉ as := by
          intro hm
          have := (List.filter_eq_self.mp hfe) a hm
          simp at this
        exact List.nodup_cons.mpr ⟨hna, hnd h2⟩

theorem nodup_of_keysNodup (ms : List (String × J)) (h : keysNodup ms = true) : (ms.map (·.1)).Nodup := by
  unfold keysNodup at h
  have := (eraseDups_length_nodup (ms.map (·.1)).length (ms.map (·.1)) (Nat.le_refl _)).2
  apply this
  simpa using h

theorem lookupAssoc_cons (k' : String) (j' : J) (ms : List (String × J)) (k : String) :
    lookupAssoc ((k', j') :: ms) k =
      (match lookupAssoc ms k with
       | some j => some j
       | none => if k' == k then some j' else none) := by
  unfold lookupAssoc
  simp only [List.reverse_cons, List.find?_append]
  cases h : ms.reverse.find? (·.1 == k) with
  | some x => simp
  | none =>
    by_cases hk : (k' == k) = true
    · simp [List.find?, hk]
    · simp [List.find?, hk]

theorem lookupAssoc_none_absent (ms : List (String × J)) (k : String) (h : lookupAssoc ms k = none) : k ∉ ms.map (·.1) := by
  induction ms with
  | nil => simp
  | cons m rest ih =>
    obtain ⟨k', j'⟩ := m
    rw [lookupAssoc_cons] at h
    cases hr : lookupAssoc rest k with
    | some j => simp [hr] at h
    | none =>
      simp only [hr] at h
      have hne : (k' == k) = false := by
        cases hk : k' == k with
        | false => rfl
        | true => simp [hk] at h
      simp only [List.map_cons, List.mem_cons, not_or]
      exact ⟨fun e => by simp [e] at hne, ih hr⟩

theorem lookupFirst_eq_lookupAssoc (ms : List (String × J)) (k : String) (h : (ms.map (·.1)).Nodup) :
    lookupFirst ms k = lookupAssoc ms k := by
  induction ms with
  | nil => rfl
  | cons m rest ih =>
    obtain ⟨k', j'⟩ := m
    simp only [List.map_cons, List.nodup_cons] at h
    rw [lookupAssoc_cons]
    by_cases hk : k' = k
    · subst hk
      rw [lookupFirst_head, lookupAssoc_absent rest k' h.1]
      simp
    · rw [lookupFirst_cons_ne _ _ _ _ hk, ih h.2]
      have hne : (k' == k) = false := by
        cases hb : k' == k with
        | false => rfl
        | true => exact absurd (beq_iff_eq.mp hb) hk
      cases lookupAssoc rest k <;> simp [hne]

theorem eraseKey_cons (k' : String) (j' : J) (ms : List (String × J)) (name : String) :
    eraseKey ((k', j') :: ms) name = if k' != name then (k', j') :: eraseKey ms name else eraseKey ms name := by
  unfold eraseKey
  simp [List.filter_cons]

theorem lookupAssoc_eraseKey_ne (ms : List (String × J)) (name k : String) (h : k ≠ name) :
    lookupAssoc (eraseKey ms name) k = lookupAssoc ms k := by
  induction ms with
  | nil => rfl
  | cons m rest ih =>
    obtain ⟨k', j'⟩ := m
    rw [eraseKey_cons, lookupAssoc_cons]
    by_cases hk : k' = name
    · subst hk
      have hne : (k' == k) = false := by
        cases hb : k' == k with
        | false => rfl
        | true => exact absurd (beq_iff_eq.mp hb).symm h
      simp only [bne_self_eq_false, Bool.false_eq_true, if_false, ih, hne]
      cases lookupAssoc rest k <;> rfl
    · have : (k' != name) = true := by simp [bne_iff_ne, hk]
      simp only [this, if_true]
      rw [lookupAssoc_cons, ih]

theorem eraseKey_keys_sublist (ms : List (String × J)) (name : String) :
    ((eraseKey ms name).map (·.1)).Sublist (ms.map (·.1)) := by
  unfold eraseKey
  exact (List.filter_sublist).map _

theorem pruneFields_eraseKey (tbl : LeafDec) (fs : List (String × Bool × Schema)) (ms : List (String × J)) (name : String)
    (h : name ∉ fs.map (·.1)) : pruneFields tbl fs (eraseKey ms name) = pruneFields tbl fs ms := by
  induction fs with
  | nil => simp [pruneFields]
  | cons f rest ih =>
    obtain ⟨fname, req, s⟩ := f
    simp only [List.map_cons, List.mem_cons, not_or] at h
    simp only [pruneFields]
    rw [lookupAssoc_eraseKey_ne ms name fname (fun e => h.1 e.symm), ih h.2]

theorem fieldsConform_eraseKey (fs : List (String × Bool × Schema)) (ms : List (String × J)) (name : String)
    (h : name ∉ fs.map (·.1)) (hnd : (ms.map (·.1)).Nodup) :
    fieldsConform fs (eraseKey ms name) = fieldsConform fs ms := by
  have hnd' : ((eraseKey ms name).map (·.1)).Nodup := (eraseKey_keys_sublist ms name).nodup hnd
  induction fs with
  | nil => simp [fieldsConform]
  | cons f rest ih =>
    obtain ⟨fname, req, s⟩ := f
    simp only [List.map_cons, List.mem_cons, not_or] at h
    simp only [fieldsConform]
    rw [lookupFirst_eq_lookupAssoc _ _ hnd', lookupFirst_eq_lookupAssoc _ _ hnd,
      lookupAssoc_eraseKey_ne ms name fname (fun e => h.1 e.symm), ih h.2]

/-- the decoder never produces the "unset" marker for a key that is present -/
theorem decode_ne_unset (tbl : LeafDec) (s : Schema) (j : J) (v : Val) (h : decode tbl s j = .ok v) : v ≠ .unset := by
  intro hv
  subst hv
  cases s with
  | prim k nl =>
    cases j with
    | null => simp only [decode] at h; split at h <;> simp at h
    | raw c =>
      simp only [decode] at h
      split at h <;> simp at h
    | arr _ => simp [decode] at h
    | obj _ => simp [decode] at h
  | any => simp [decode] at h
  | arr items nl =>
    cases j with
    | null => simp only [decode] at h; split at h <;> simp at h
    | arr js => simp only [decode] at h; cases hd : decodeList tbl items js <;> simp [hd, Except.map] at h
    | raw _ => simp [decode] at h
    | obj _ => simp [decode] at h
  | obj fields addl nl =>
    cases j with
    | null => simp only [decode] at h; split at h <;> simp at h
    | obj ms =>
      simp only [decode] at h
      cases hd : decodeFields tbl fields ms with
      | error e => simp [hd] at h
      | ok p =>
        obtain ⟨vs, rest⟩ := p
        simp only [hd] at h
        cases addl with
        | none => simp at h
        | some a =>
          simp only at h
          cases ha : decodeAddl tbl a rest with
          | error e => simp [ha] at h
          | ok xs => cases xs <;> simp [ha] at h
    | raw _ => simp [decode] at h
    | arr _ => simp [decode] at h
  | allOf members =>
    cases j with
    | obj ms =>
      simp only [decode] at h
      cases hd : decodeMembers tbl members ms with
      | error e => simp [hd] at h
      | ok p =>
        obtain ⟨vs, rest⟩ := p
        simp only [hd] at h
        split at h
        · cases ha : decodeCompAddl tbl members rest with
          | error e => simp [ha] at h
          | ok xs => cases xs <;> simp [ha] at h
        · simp at h
    | null => simp [decode] at h
    | raw _ => simp [decode] at h
    | arr _ => simp [decode] at h
  | oneOf alts disc =>
    cases disc with
    | some d =>
      cases j with
      | obj ms =>
        simp only [decode] at h
        split at h
        · simp at h
        · rename_i kc _
          have : ∀ (alts : List (List String × Schema)) (i : Nat), decodeDisc tbl alts kc (.obj ms) i ≠ .ok .unset := by
            intro alts
            induction alts with
            | nil => intro i; simp [decodeDisc]
            | cons a rest ih =>
              obtain ⟨vals, sa⟩ := a
              intro i
              simp only [decodeDisc]
              split
              · cases decode tbl sa (.obj ms) <;> simp [Except.map]
              · exact ih (i + 1)
          exact this alts 0 h
      | null => simp [decode] at h
      | raw _ => simp [decode] at h
      | arr _ => simp [decode] at h
    | none =>
      simp only [decode] at h
      have : ∀ (alts : List (List String × Schema)) (i : Nat), decodeProbe tbl alts j i ≠ .ok .unset := by
        intro alts
        induction alts with
        | nil => intro i; simp [decodeProbe]
        | cons a rest ih =>
          obtain ⟨vals, sa⟩ := a
          intro i
          simp only [decodeProbe]
          split
          · simp
          · simp
          · exact ih (i + 1)
      exact this alts 0 h

/-- what the property decoder leaves in the key map are exactly the members under undeclared names -/
theorem decodeFields_rest_eq (tbl : LeafDec) (fields : List (String × Bool × Schema)) :
    ∀ (ms : List (String × J)) (vs : List Val) (rest : List (String × J)), decodeFields tbl fields ms = .ok (vs, rest) →
      rest = ms.filter (fun kv => !fields.any (·.1 == kv.1)) := by
  induction fields with
  | nil =>
    intro ms vs rest h
    simp only [decodeFields, Except.ok.injEq, Prod.mk.injEq] at h
    rw [← h.2]
    exact (List.filter_eq_self.mpr (fun kv _ => by simp)).symm
  | cons f fs ih =>
    obtain ⟨name, req, s⟩ := f
    intro ms vs rest h
    rw [decodeFields] at h
    cases hl : lookupAssoc ms name with
    | none =>
      simp only [hl] at h
      by_cases hreq : req = true
      · simp [hreq] at h
      · simp only [hreq, Bool.false_eq_true, if_false] at h
        cases hrec : decodeFields tbl fs ms with
        | error e => simp [hrec] at h
        | ok p =>
          obtain ⟨vs', rest'⟩ := p
          simp only [hrec, Except.ok.injEq, Prod.mk.injEq] at h
          rw [← h.2, ih ms vs' rest' hrec]
          apply List.filter_congr
          intro kv hkv
          have habs := lookupAssoc_none_absent ms name hl
          have hne : (name == kv.1) = false := by
            cases hb : name == kv.1 with
            | false => rfl
            | true => exact absurd (List.mem_map.mpr ⟨kv, hkv, (beq_iff_eq.mp hb).symm⟩) habs
          simp [List.any_cons, hne]
    | some j =>
      simp only [hl] at h
      cases hj : decode tbl s j with
      | error e => simp [hj] at h
      | ok v =>
        simp only [hj] at h
        cases hrec : decodeFields tbl fs (eraseKey ms name) with
        | error e => simp [hrec] at h
        | ok p =>
          obtain ⟨vs', rest'⟩ := p
          simp only [hrec, Except.ok.injEq, Prod.mk.injEq] at h
          rw [← h.2, ih _ vs' rest' hrec]
          unfold eraseKey
          rw [List.filter_filter]
          apply List.filter_congr
          intro kv _
          by_cases hk : name = kv.1
          · simp [List.any_cons, hk]
          · have h1 : (name == kv.1) = false := by
              cases hb : name == kv.1 with
              | false => rfl
              | true => exact absurd (beq_iff_eq.mp hb) hk
            have h2 : (kv.1 != name) = true := by
              simp only [bne_iff_ne, ne_eq]
              exact fun e => hk e.symm
            simp [List.any_cons, h1, h2]

theorem decodeAddl_nil_iff (tbl : LeafDec) (a : Schema) (rest : List (String × J)) (h : decodeAddl tbl a rest = .ok []) : rest = [] := by
  cases rest with
  | nil => rfl
  | cons x xt =>
    obtain ⟨k, j⟩ := x
    simp only [decodeAddl] at h
    cases hj : decode tbl a j with
    | error e => cases e <;> simp [hj] at h
    | ok v =>
      cases hr : decodeAddl tbl a xt with
      | error e => simp [hj, hr] at h
      | ok xs => simp [hj, hr] at h

theorem addl_decode_encode (tbl : LeafDec) (a : Schema)
    (hS : ∀ j v, conforms a j = true → decode tbl a j = .ok v → toJ a v = .ok (prune tbl a j)) :
    ∀ (rest : List (String × J)) (xs : List (String × Val)), conformsAll a (rest.map (·.2)) = true →
      decodeAddl tbl a rest = .ok xs → toJAddl a xs = .ok (pruneExtras tbl a rest) := by
  intro rest
  induction rest with
  | nil =>
    intro xs _ hd
    simp only [decodeAddl, Except.ok.injEq] at hd
    subst hd
    simp [toJAddl, pruneExtras]
  | cons x xt ih =>
    obtain ⟨k, j⟩ := x
    intro xs hc hd
    simp only [List.map_cons, conformsAll, Bool.and_eq_true] at hc
    simp only [decodeAddl] at hd
    cases hj : decode tbl a j with
    | error e => cases e <;> simp [hj] at hd
    | ok v =>
      cases hr : decodeAddl tbl a xt with
      | error e => simp [hj, hr] at hd
      | ok xs' =>
        simp only [hj, hr, Except.ok.injEq] at hd
        subst hd
        simp only [toJAddl, hS j v hc.1 hj, ih xs' hc.2 hr, pruneExtras]

/-! ### allOf: every member decodes from what the members before it left in the key map -/

theorem lookupAssoc_filter_undeclared (fields : List (String × Bool × Schema)) (ms : List (String × J)) (k : String)
    (h : k ∉ fields.map (·.1)) :
    lookupAssoc (ms.filter (fun kv => !fields.any (·.1 == kv.1))) k = lookupAssoc ms k := by
  induction ms with
  | nil => rfl
  | cons m rest ih =>
    obtain ⟨k', j'⟩ := m
    rw [List.filter_cons]
    by_cases hkeep : (!fields.any (·.1 == k')) = true
    · simp only [hkeep, if_true]
      rw [lookupAssoc_cons, lookupAssoc_cons, ih]
    · simp only [hkeep, Bool.false_eq_true, if_false]
      have hin : k' ∈ fields.map (·.1) := by
        simp only [Bool.not_eq_true', Bool.not_eq_false] at hkeep
        obtain ⟨f, hf, hfe⟩ := List.any_eq_true.mp hkeep
        exact List.mem_map.mpr ⟨f, hf, beq_iff_eq.mp hfe⟩
      have hne : (k' == k) = false := by
        cases hb : k' == k with
        | false => rfl
        | true => exact absurd (beq_iff_eq.mp hb ▸ hin) h
      rw [lookupAssoc_cons, ih, hne]
      cases lookupAssoc rest k <;> rfl

theorem pruneFields_filter (tbl : LeafDec) (fs fields : List (String × Bool × Schema)) (ms : List (String × J))
    (h : ∀ k ∈ fs.map (·.1), k ∉ fields.map (·.1)) :
    pruneFields tbl fs (ms.filter (fun kv => !fields.any (·.1 == kv.1))) = pruneFields tbl fs ms := by
  induction fs with
  | nil => simp [pruneFields]
  | cons f rest ih =>
    obtain ⟨fname, req, s⟩ := f
    simp only [pruneFields]
    rw [lookupAssoc_filter_undeclared fields ms fname (h fname (by simp)), ih (fun k hk => h k (by simp [hk]))]

theorem pruneMembers_filter (tbl : LeafDec) (members : List (Bool × Schema)) (fields : List (String × Bool × Schema))
    (ms : List (String × J)) (h : ∀ k ∈ declaredNames members, k ∉ fields.map (·.1)) :
    pruneMembers tbl members (ms.filter (fun kv => !fields.any (·.1 == kv.1))) = pruneMembers tbl members ms := by
  induction members with
  | nil => simp [pruneMembers]
  | cons m rest ih =>
    obtain ⟨b, s⟩ := m
    cases s with
    | obj fs a nl =>
      simp only [declaredNames, List.mem_append] at h
      simp only [pruneMembers]
      rw [pruneFields_filter tbl fs fields ms (fun k hk => h k (Or.inl hk)), ih (fun k hk => h k (Or.inr hk))]
    | prim _ _ => simp only [pruneMembers]; exact ih (fun k hk => h k (by simpa [declaredNames] using hk))
    | any => simp only [pruneMembers]; exact ih (fun k hk => h k (by simpa [declaredNames] using hk))
    | arr _ _ => simp only [pruneMembers]; exact ih (fun k hk => h k (by simpa [declaredNames] using hk))
    | allOf _ => simp only [pruneMembers]; exact ih (fun k hk => h k (by simpa [declaredNames] using hk))
    | oneOf _ _ => simp only [pruneMembers]; exact ih (fun k hk => h k (by simpa [declaredNames] using hk))

theorem filter_keys_nodup (fields : List (String × Bool × Schema)) (ms : List (String × J)) (h : (ms.map (·.1)).Nodup) :
    ((ms.filter (fun kv => !fields.any (·.1 == kv.1))).map (·.1)).Nodup :=
  ((List.filter_sublist).map _).nodup h

theorem fieldsConform_filter (fs fields : List (String × Bool × Schema)) (ms : List (String × J))
    (h : ∀ k ∈ fs.map (·.1), k ∉ fields.map (·.1)) (hnd : (ms.map (·.1)).Nodup) :
    fieldsConform fs (ms.filter (fun kv => !fields.any (·.1 == kv.1))) = fieldsConform fs ms := by
  have hnd' := filter_keys_nodup fields ms hnd
  induction fs with
  | nil => simp [fieldsConform]
  | cons f rest ih =>
    obtain ⟨fname, req, s⟩ := f
    simp only [fieldsConform]
    rw [lookupFirst_eq_lookupAssoc _ _ hnd', lookupFirst_eq_lookupAssoc _ _ hnd,
      lookupAssoc_filter_undeclared fields ms fname (h fname (by simp)), ih (fun k hk => h k (by simp [hk]))]

theorem allMembers_filter (members : List (Bool × Schema)) (fields : List (String × Bool × Schema)) (ms : List (String × J))
    (h : ∀ k ∈ declaredNames members, k ∉ fields.map (·.1)) (hnd : (ms.map (·.1)).Nodup) :
    allMembers members (ms.filter (fun kv => !fields.any (·.1 == kv.1))) = allMembers members ms := by
  induction members with
  | nil => simp [allMembers]
  | cons m rest ih =>
    obtain ⟨b, s⟩ := m
    cases s with
    | obj fs a nl =>
      simp only [declaredNames, List.mem_append] at h
      simp only [allMembers]
      rw [fieldsConform_filter fs fields ms (fun k hk => h k (Or.inl hk)) hnd, ih (fun k hk => h k (Or.inr hk))]
    | prim _ _ => simp [allMembers]
    | any => simp [allMembers]
    | arr _ _ => simp [allMembers]
    | allOf _ => simp [allMembers]
    | oneOf _ _ => simp [allMembers]

theorem decodeFields_length (tbl : LeafDec) (fields : List (String × Bool × Schema)) :
    ∀ (ms : List (String × J)) (vs : List Val) (rest : List (String × J)), decodeFields tbl fields ms = .ok (vs, rest) →
      vs.length = fields.length := by
  induction fields with
  | nil =>
    intro ms vs rest h
    simp only [decodeFields, Except.ok.injEq, Prod.mk.injEq] at h
    simp [← h.1]
  | cons f fs ih =>
    obtain ⟨name, req, s⟩ := f
    intro ms vs rest h
    rw [decodeFields] at h
    cases hl : lookupAssoc ms name with
    | none =>
      simp only [hl] at h
      by_cases hreq : req = true
      · simp [hreq] at h
      · simp only [hreq, Bool.false_eq_true, if_false] at h
        cases hrec : decodeFields tbl fs ms with
        | error e => simp [hrec] at h
        | ok p =>
          obtain ⟨vs', rest'⟩ := p
          simp only [hrec, Except.ok.injEq, Prod.mk.injEq] at h
          rw [← h.1]
          simp [ih ms vs' rest' hrec]
    | some j =>
      simp only [hl] at h
      cases hj : decode tbl s j with
      | error e => simp [hj] at h
      | ok v =>
        simp only [hj] at h
        cases hrec : decodeFields tbl fs (eraseKey ms name) with
        | error e => simp [hrec] at h
        | ok p =>
          obtain ⟨vs', rest'⟩ := p
          simp only [hrec, Except.ok.injEq, Prod.mk.injEq] at h
          rw [← h.1]
          simp [ih _ vs' rest' hrec]

theorem laterAddl_false_of_frag (members : List (Bool × Schema)) (h : fragMembers members = true) : laterAddl members = false := by
  induction members with
  | nil => rfl
  | cons m rest ih =>
    obtain ⟨b, s⟩ := m
    cases s with
    | obj fs a nl =>
      cases a with
      | none =>
        simp only [fragMembers, Bool.and_eq_true] at h
        cases b <;> simp [laterAddl, ih h.2]
      | some _ => simp [fragMembers] at h
    | prim _ _ => simp [fragMembers] at h
    | any => simp [fragMembers] at h
    | arr _ _ => simp [fragMembers] at h
    | allOf _ => simp [fragMembers] at h
    | oneOf _ _ => simp [fragMembers] at h

/-! ### arrays, given the statement for the element schema -/

theorem list_decode_encode (tbl : LeafDec) (s : Schema)
    (hS : ∀ j v, conforms s j = true → decode tbl s j = .ok v → toJ s v = .ok (prune tbl s j)) :
    ∀ (js : List J) (vs : List Val), conformsAll s js = true → decodeList tbl s js = .ok vs →
      toJList s vs = .ok (pruneList tbl s js) := by
  intro js
  induction js with
  | nil =>
    intro vs _ hd
    simp only [decodeList, Except.ok.injEq] at hd
    subst hd
    simp [toJList, pruneList]
  | cons j jt ih =>
    intro vs hc hd
    simp only [conformsAll, Bool.and_eq_true] at hc
    simp only [decodeList] at hd
    cases hj : decode tbl s j with
    | error e => simp [hj] at hd
    | ok v =>
      cases hl : decodeList tbl s jt with
      | error e => simp [hj, hl] at hd
      | ok vt =>
        simp only [hj, hl, Except.ok.injEq] at hd
        subst hd
        simp only [toJList, hS j v hc.1 hj, ih vt hc.2 hl, pruneList]

/-- the two statements, for all schemas / property lists up to a size bound -/
theorem dec_enc_all (tbl : LeafDec) : ∀ n : Nat,
    (∀ (s : Schema) (j : J) (v : Val), sizeOf s ≤ n → frag s = true → conforms s j = true →
      decode tbl s j = .ok v → toJ s v = .ok (prune tbl s j)) ∧
    (∀ (fields : List (String × Bool × Schema)) (ms : List (String × J)) (vs : List Val) (rest : List (String × J)),
      sizeOf fields ≤ n → fragFields fields = true → (fields.map (·.1)).Nodup → (ms.map (·.1)).Nodup →
      fieldsConform fields ms = true → decodeFields tbl fields ms = .ok (vs, rest) →
      toJFields fields vs = .ok (pruneFields tbl fields ms, [])) ∧
    (∀ (members : List (Bool × Schema)) (ms : List (String × J)) (vs : List Val) (rest : List (String × J)),
      sizeOf members ≤ n → fragMembers members = true → (declaredNames members).Nodup → (ms.map (·.1)).Nodup →
      allMembers members ms = true → decodeMembers tbl members ms = .ok (vs, rest) →
      toJMembers members vs = .ok (pruneMembers tbl members ms)) := by
  intro n
  induction n with
  | zero =>
    refine ⟨?_, ?_, ?_⟩
    · intro s j v hle
      cases s <;> simp at hle
    · intro fields ms vs rest hle
      cases fields <;> simp at hle
    · intro members ms vs rest hle
      cases members <;> simp at hle
  | succ n ih =>
    obtain ⟨ihS, ihF, ihM⟩ := ih
    refine ⟨?_, ?_, ?_⟩
    · intro s j v hle hfr hc hd
      cases s with
      | prim k nl =>
        cases j with
        | null =>
          simp only [conforms] at hc
          simp only [decode, hc, if_true, Except.ok.injEq] at hd
          subst hd
          simp [toJ, hc, prune]
        | raw c =>
          simp only [decode] at hd
          cases hf : tbl.find? (fun e => e.1 == (k.tag, c)) with
          | none => simp [hf] at hd
          | some e =>
            obtain ⟨key, val⟩ := e
            cases val with
            | none => simp [hf] at hd
            | some p =>
              obtain ⟨d, rc⟩ := p
              simp only [hf, Except.ok.injEq] at hd
              subst hd
              simp [toJ, prune, hf]
        | arr _ => simp [conforms] at hc
        | obj _ => simp [conforms] at hc
      | any => simp [frag] at hfr
      | arr items nl =>
        have hsz : sizeOf items ≤ n := by simp at hle; omega
        simp only [frag] at hfr
        cases j with
        | null =>
          simp only [conforms] at hc
          simp only [decode, hc, if_true, Except.ok.injEq] at hd
          subst hd
          simp [toJ, hc, prune]
        | arr js =>
          simp only [conforms] at hc
          simp only [decode] at hd
          cases hl : decodeList tbl items js with
          | error e => simp [hl, Except.map] at hd
          | ok vs =>
            simp only [hl, Except.map, Except.ok.injEq] at hd
            subst hd
            have := list_decode_encode tbl items (fun j v => ihS items j v hsz hfr) js vs hc hl
            simp [toJ, this, prune, Except.map]
        | raw _ => simp [conforms] at hc
        | obj _ => simp [conforms] at hc
      | obj fields addl nl =>
        have hsz : sizeOf fields ≤ n := by simp at hle; omega
        cases addl with
        | some a =>
          have ha : sizeOf a ≤ n := by simp at hle; omega
          simp only [frag, Bool.and_eq_true, decide_eq_true_eq] at hfr
          cases j with
          | null =>
            simp only [conforms] at hc
            simp only [decode, hc, if_true, Except.ok.injEq] at hd
            subst hd
            simp [toJ, hc, prune]
          | obj ms =>
            simp only [conforms, Bool.and_eq_true] at hc
            obtain ⟨⟨hkn, hfc⟩, hex⟩ := hc
            simp only [decode] at hd
            cases hdf : decodeFields tbl fields ms with
            | error e => simp [hdf] at hd
            | ok p =>
              obtain ⟨vs, rest⟩ := p
              simp only [hdf] at hd
              have hrest := decodeFields_rest_eq tbl fields ms vs rest hdf
              have hF := ihF fields ms vs rest hsz hfr.1.1 hfr.1.2 (nodup_of_keysNodup ms hkn) hfc hdf
              cases hda : decodeAddl tbl a rest with
              | error e => simp [hda] at hd
              | ok xs =>
                have hA := addl_decode_encode tbl a (fun j v => ihS a j v ha hfr.2) rest xs (by rw [hrest]; exact hex) hda
                cases xs with
                | nil =>
                  simp only [hda, Except.ok.injEq] at hd
                  subst hd
                  have hr0 := decodeAddl_nil_iff tbl a rest hda
                  simp [toJ, hF, prune, ← hrest, hr0, pruneExtras]
                | cons x xt =>
                  simp only [hda, Except.ok.injEq] at hd
                  subst hd
                  simp [toJ, hF, hA, prune, ← hrest, Except.map]
          | raw _ => simp [conforms] at hc
          | arr _ => simp [conforms] at hc
        | none =>
          simp only [frag, Bool.and_eq_true, decide_eq_true_eq] at hfr
          cases j with
          | null =>
            simp only [conforms] at hc
            simp only [decode, hc, if_true, Except.ok.injEq] at hd
            subst hd
            simp [toJ, hc, prune]
          | obj ms =>
            simp only [conforms, Bool.and_eq_true] at hc
            obtain ⟨⟨hkn, hfc⟩, _⟩ := hc
            simp only [decode] at hd
            cases hdf : decodeFields tbl fields ms with
            | error e => simp [hdf] at hd
            | ok p =>
              obtain ⟨vs, rest⟩ := p
              simp only [hdf, Except.ok.injEq] at hd
              subst hd
              have := ihF fields ms vs rest hsz hfr.1 hfr.2 (nodup_of_keysNodup ms hkn) hfc hdf
              simp [toJ, this, prune]
          | raw _ => simp [conforms] at hc
          | arr _ => simp [conforms] at hc
      | allOf members =>
        have hsz : sizeOf members ≤ n := by simp at hle; omega
        simp only [frag, Bool.and_eq_true, decide_eq_true_eq] at hfr
        have hla := laterAddl_false_of_frag members hfr.1
        cases j with
        | obj ms =>
          simp only [conforms, Bool.and_eq_true] at hc
          obtain ⟨⟨hkn, hall⟩, _⟩ := hc
          simp only [decode, hla, Bool.false_eq_true, if_false] at hd
          cases hdm : decodeMembers tbl members ms with
          | error e => simp [hdm] at hd
          | ok p =>
            obtain ⟨vs, rest⟩ := p
            simp only [hdm, Except.ok.injEq] at hd
            subst hd
            have := ihM members ms vs rest hsz hfr.1 hfr.2 (nodup_of_keysNodup ms hkn) hall hdm
            simp [toJ, this, prune, hla]
        | null => simp [conforms] at hc
        | raw _ => simp [conforms] at hc
        | arr _ => simp [conforms] at hc
      | oneOf _ _ => simp [frag] at hfr
    · intro fields ms vs rest hle hfr hnd hkn hfc hd
      cases fields with
      | nil =>
        simp only [decodeFields, Except.ok.injEq, Prod.mk.injEq] at hd
        rw [← hd.1]
        simp [toJFields, pruneFields]
      | cons f fs =>
        obtain ⟨name, req, s⟩ := f
        have hs : sizeOf s ≤ n := by simp at hle; omega
        have hfs : sizeOf fs ≤ n := by simp at hle; omega
        simp only [fragFields, Bool.and_eq_true] at hfr
        simp only [List.map_cons, List.nodup_cons] at hnd
        obtain ⟨hname, hnd'⟩ := hnd
        simp only [fieldsConform, Bool.and_eq_true] at hfc
        obtain ⟨hhead, htail⟩ := hfc
        rw [lookupFirst_eq_lookupAssoc ms name hkn] at hhead
        rw [decodeFields] at hd
        cases hl : lookupAssoc ms name with
        | none =>
          simp only [hl] at hd
          by_cases hreq : req = true
          · simp [hreq] at hd
          · simp only [hreq, Bool.false_eq_true, if_false] at hd
            cases hrec : decodeFields tbl fs ms with
            | error e => simp [hrec] at hd
            | ok p =>
              obtain ⟨vs', rest'⟩ := p
              simp only [hrec, Except.ok.injEq, Prod.mk.injEq] at hd
              rw [← hd.1, toJFields_cons_unset]
              simp only [hreq, Bool.false_eq_true, if_false, pruneFields, hl]
              exact ihF fs ms vs' rest' hfs hfr.2 hnd' hkn htail hrec
        | some j =>
          simp only [hl] at hd hhead
          cases hj : decode tbl s j with
          | error e => simp [hj] at hd
          | ok v =>
            simp only [hj] at hd
            cases hrec : decodeFields tbl fs (eraseKey ms name) with
            | error e => simp [hrec] at hd
            | ok p =>
              obtain ⟨vs', rest'⟩ := p
              simp only [hrec, Except.ok.injEq, Prod.mk.injEq] at hd
              rw [← hd.1]
              have hkn' : ((eraseKey ms name).map (·.1)).Nodup := (eraseKey_keys_sublist ms name).nodup hkn
              have htail' : fieldsConform fs (eraseKey ms name) = true := by
                rw [fieldsConform_eraseKey fs ms name hname hkn]; exact htail
              have hrest := ihF fs (eraseKey ms name) vs' rest' hfs hfr.2 hnd' hkn' htail' hrec
              rw [pruneFields_eraseKey tbl fs ms name hname] at hrest
              rw [toJFields_cons_set _ _ _ _ _ _ (decode_ne_unset tbl s j v hj)]
              simp only [ihS s j v hs hfr.1 hhead hj, hrest, pruneFields, hl]

    · intro members ms vs rest hle hfr hnd hkn hall hd
      cases members with
      | nil =>
        simp only [decodeMembers, Except.ok.injEq, Prod.mk.injEq] at hd
        rw [← hd.1]
        simp [toJMembers, pruneMembers]
      | cons m restM =>
        obtain ⟨b, s⟩ := m
        have hrestM : sizeOf restM ≤ n := by simp at hle; omega
        cases s with
        | obj fields a nl =>
          have hfs : sizeOf fields ≤ n := by simp at hle; omega
          cases a with
          | some _ => simp [fragMembers] at hfr
          | none =>
            simp only [fragMembers, Bool.and_eq_true] at hfr
            simp only [declaredNames] at hnd
            rw [List.nodup_append] at hnd
            obtain ⟨hndF, hndR, hdisj⟩ := hnd
            simp only [allMembers, Bool.and_eq_true] at hall
            have hdisR : ∀ k ∈ declaredNames restM, k ∉ fields.map (·.1) := fun k hk hm => hdisj k hm k hk rfl
            cases b with
            | true =>
              simp only [decodeMembers] at hd
              cases hdf : decodeFields tbl fields ms with
              | error e => simp [hdf] at hd
              | ok p =>
                obtain ⟨vs1, rest1⟩ := p
                simp only [hdf] at hd
                cases hdm : decodeMembers tbl restM rest1 with
                | error e => simp [hdm] at hd
                | ok q =>
                  obtain ⟨more, left⟩ := q
                  simp only [hdm, Except.ok.injEq, Prod.mk.injEq] at hd
                  rw [← hd.1]
                  have hF := ihF fields ms vs1 rest1 hfs hfr.1 hndF hkn hall.1 hdf
                  have hrest1 := decodeFields_rest_eq tbl fields ms vs1 rest1 hdf
                  have hkn1 : (rest1.map (·.1)).Nodup := by rw [hrest1]; exact filter_keys_nodup fields ms hkn
                  have hall1 : allMembers restM rest1 = true := by
                    rw [hrest1, allMembers_filter restM fields ms hdisR hkn]; exact hall.2
                  have hM := ihM restM rest1 more left hrestM hfr.2 hndR hkn1 hall1 hdm
                  rw [hrest1, pruneMembers_filter tbl restM fields ms hdisR] at hM
                  have hobj : toJ (.obj fields none nl) (.obj vs1 none) = .ok (.obj (pruneFields tbl fields ms)) := by
                    simp [toJ, hF]
                  simp only [toJMembers, hobj, hM, pruneMembers]
            | false =>
              simp only [decodeMembers] at hd
              cases hdf : decodeFields tbl fields ms with
              | error e => simp [hdf] at hd
              | ok p =>
                obtain ⟨vs1, rest1⟩ := p
                simp only [hdf] at hd
                cases hdm : decodeMembers tbl restM rest1 with
                | error e => simp [hdm] at hd
                | ok q =>
                  obtain ⟨more, left⟩ := q
                  simp only [hdm, Except.ok.injEq, Prod.mk.injEq] at hd
                  rw [← hd.1]
                  have hF := ihF fields ms vs1 rest1 hfs hfr.1 hndF hkn hall.1 hdf
                  have hrest1 := decodeFields_rest_eq tbl fields ms vs1 rest1 hdf
                  have hkn1 : (rest1.map (·.1)).Nodup := by rw [hrest1]; exact filter_keys_nodup fields ms hkn
                  have hall1 : allMembers restM rest1 = true := by
                    rw [hrest1, allMembers_filter restM fields ms hdisR hkn]; exact hall.2
                  have hM := ihM restM rest1 more left hrestM hfr.2 hndR hkn1 hall1 hdm
                  rw [hrest1, pruneMembers_filter tbl restM fields ms hdisR] at hM
                  have hlen := decodeFields_length tbl fields ms vs1 rest1 hdf
                  simp only [toJMembers, toJFields_append fields vs1 more hlen, hF, hM, pruneMembers]
        | prim _ _ => simp [fragMembers] at hfr
        | any => simp [fragMembers] at hfr
        | arr _ _ => simp [fragMembers] at hfr
        | allOf _ => simp [fragMembers] at hfr
        | oneOf _ _ => simp [fragMembers] at hfr

/-- **C08, valid documents re-encode to an equivalent JSON value** (leaf / array / object fragment,
    any depth): what the decoder accepts of a conforming document encodes to the reference `prune`. -/
theorem decode_encode_is_prune (tbl : LeafDec) (s : Schema) (j : J) (v : Val)
    (hfr : frag s = true) (hc : conforms s j = true) (hd : decode tbl s j = .ok v) :
    toJ s v = .ok (prune tbl s j) :=
  (dec_enc_all tbl (sizeOf s)).1 s j v (Nat.le_refl _) hfr hc hd


/-! ### … and the decoder does accept every conforming document whose leaves the library accepts -/

mutual
/-- every leaf text the decoder will look at is one the library accepts for its kind -/
def leavesOk (tbl : LeafDec) : Schema → J → Bool
  | .prim k _, .raw c =>
    (match tbl.find? (fun e => e.1 == (k.tag, c)) with
     | some (_, some _) => true
     | _ => false)
  | .arr items _, .arr js => leavesOkList tbl items js
  | .obj fields none _, .obj ms => leavesOkFields tbl fields ms
  | .obj fields (some a) _, .obj ms =>
    leavesOkFields tbl fields ms && leavesOkList tbl a ((ms.filter (fun kv => !fields.any (·.1 == kv.1))).map (·.2))
  | .allOf members, .obj ms => leavesOkMembers tbl members ms
  | _, _ => true
def leavesOkList (tbl : LeafDec) : Schema → List J → Bool
  | _, [] => true
  | s, j :: js => leavesOk tbl s j && leavesOkList tbl s js
def leavesOkFields (tbl : LeafDec) : List (String × Bool × Schema) → List (String × J) → Bool
  | [], _ => true
  | (name, _, s) :: fs, ms =>
    (match lookupAssoc ms name with
     | some j => leavesOk tbl s j
     | none => true) && leavesOkFields tbl fs ms
def leavesOkMembers (tbl : LeafDec) : List (Bool × Schema) → List (String × J) → Bool
  | [], _ => true
  | (_, .obj fields _ _) :: rest, ms => leavesOkFields tbl fields ms && leavesOkMembers tbl rest ms
  | _ :: rest, ms => leavesOkMembers tbl rest ms
end

theorem leavesOkFields_filter (tbl : LeafDec) (fs fields : List (String × Bool × Schema)) (ms : List (String × J))
    (h : ∀ k ∈ fs.map (·.1), k ∉ fields.map (·.1)) :
    leavesOkFields tbl fs (ms.filter (fun kv => !fields.any (·.1 == kv.1))) = leavesOkFields tbl fs ms := by
  induction fs with
  | nil => simp [leavesOkFields]
  | cons f rest ih =>
    obtain ⟨fname, req, s⟩ := f
    simp only [leavesOkFields]
    rw [lookupAssoc_filter_undeclared fields ms fname (h fname (by simp)), ih (fun k hk => h k (by simp [hk]))]

theorem leavesOkMembers_filter (tbl : LeafDec) (members : List (Bool × Schema)) (fields : List (String × Bool × Schema))
    (ms : List (String × J)) (h : ∀ k ∈ declaredNames members, k ∉ fields.map (·.1)) :
    leavesOkMembers tbl members (ms.filter (fun kv => !fields.any (·.1 == kv.1))) = leavesOkMembers tbl members ms := by
  induction members with
  | nil => simp [leavesOkMembers]
  | cons m rest ih =>
    obtain ⟨b, s⟩ := m
    cases s with
    | obj fs a nl =>
      simp only [declaredNames, List.mem_append] at h
      simp only [leavesOkMembers]
      rw [leavesOkFields_filter tbl fs fields ms (fun k hk => h k (Or.inl hk)), ih (fun k hk => h k (Or.inr hk))]
    | prim _ _ => simp only [leavesOkMembers]; exact ih (fun k hk => h k (by simpa [declaredNames] using hk))
    | any => simp only [leavesOkMembers]; exact ih (fun k hk => h k (by simpa [declaredNames] using hk))
    | arr _ _ => simp only [leavesOkMembers]; exact ih (fun k hk => h k (by simpa [declaredNames] using hk))
    | allOf _ => simp only [leavesOkMembers]; exact ih (fun k hk => h k (by simpa [declaredNames] using hk))
    | oneOf _ _ => simp only [leavesOkMembers]; exact ih (fun k hk => h k (by simpa [declaredNames] using hk))

theorem leavesOkFields_eraseKey (tbl : LeafDec) (fs : List (String × Bool × Schema)) (ms : List (String × J)) (name : String)
    (h : name ∉ fs.map (·.1)) : leavesOkFields tbl fs (eraseKey ms name) = leavesOkFields tbl fs ms := by
  induction fs with
  | nil => simp [leavesOkFields]
  | cons f rest ih =>
    obtain ⟨fname, req, s⟩ := f
    simp only [List.map_cons, List.mem_cons, not_or] at h
    simp only [leavesOkFields]
    rw [lookupAssoc_eraseKey_ne ms name fname (fun e => h.1 e.symm), ih h.2]

theorem list_decodes (tbl : LeafDec) (s : Schema)
    (hS : ∀ j, conforms s j = true → leavesOk tbl s j = true → ∃ v, decode tbl s j = .ok v) :
    ∀ (js : List J), conformsAll s js = true → leavesOkList tbl s js = true → ∃ vs, decodeList tbl s js = .ok vs := by
  intro js
  induction js with
  | nil => intro _ _; exact ⟨[], by simp [decodeList]⟩
  | cons j jt ih =>
    intro hc hl
    simp only [conformsAll, Bool.and_eq_true] at hc
    simp only [leavesOkList, Bool.and_eq_true] at hl
    obtain ⟨v, hv⟩ := hS j hc.1 hl.1
    obtain ⟨vs, hvs⟩ := ih hc.2 hl.2
    exact ⟨v :: vs, by simp [decodeList, hv, hvs]⟩

theorem addl_decodes (tbl : LeafDec) (a : Schema)
    (hS : ∀ j, conforms a j = true → leavesOk tbl a j = true → ∃ v, decode tbl a j = .ok v) :
    ∀ (rest : List (String × J)), conformsAll a (rest.map (·.2)) = true → leavesOkList tbl a (rest.map (·.2)) = true →
      ∃ xs, decodeAddl tbl a rest = .ok xs := by
  intro rest
  induction rest with
  | nil => intro _ _; exact ⟨[], by simp [decodeAddl]⟩
  | cons x xt ih =>
    obtain ⟨k, j⟩ := x
    intro hc hl
    simp only [List.map_cons, conformsAll, Bool.and_eq_true] at hc
    simp only [List.map_cons, leavesOkList, Bool.and_eq_true] at hl
    obtain ⟨v, hv⟩ := hS j hc.1 hl.1
    obtain ⟨xs, hxs⟩ := ih hc.2 hl.2
    exact ⟨(k, v) :: xs, by simp [decodeAddl, hv, hxs]⟩

theorem decodes_all (tbl : LeafDec) : ∀ n : Nat,
    (∀ (s : Schema) (j : J), sizeOf s ≤ n → frag s = true → conforms s j = true → leavesOk tbl s j = true →
      ∃ v, decode tbl s j = .ok v) ∧
    (∀ (fields : List (String × Bool × Schema)) (ms : List (String × J)),
      sizeOf fields ≤ n → fragFields fields = true → (fields.map (·.1)).Nodup → (ms.map (·.1)).Nodup →
      fieldsConform fields ms = true → leavesOkFields tbl fields ms = true →
      ∃ vs rest, decodeFields tbl fields ms = .ok (vs, rest)) ∧
    (∀ (members : List (Bool × Schema)) (ms : List (String × J)),
      sizeOf members ≤ n → fragMembers members = true → (declaredNames members).Nodup → (ms.map (·.1)).Nodup →
      allMembers members ms = true → leavesOkMembers tbl members ms = true →
      ∃ vs rest, decodeMembers tbl members ms = .ok (vs, rest)) := by
  intro n
  induction n with
  | zero =>
    refine ⟨?_, ?_, ?_⟩
    · intro s j hle
      cases s <;> simp at hle
    · intro fields ms hle
      cases fields <;> simp at hle
    · intro members ms hle
      cases members <;> simp at hle
  | succ n ih =>
    obtain ⟨ihS, ihF, ihM⟩ := ih
    refine ⟨?_, ?_, ?_⟩
    · intro s j hle hfr hc hl
      cases s with
      | prim k nl =>
        cases j with
        | null =>
          simp only [conforms] at hc
          exact ⟨.null, by simp [decode, hc]⟩
        | raw c =>
          simp only [leavesOk] at hl
          cases hf : tbl.find? (fun e => e.1 == (k.tag, c)) with
          | none => simp [hf] at hl
          | some e =>
            obtain ⟨key, val⟩ := e
            cases val with
            | none => simp [hf] at hl
            | some p =>
              obtain ⟨d, rc⟩ := p
              exact ⟨.leaf rc d, by simp [decode, hf]⟩
        | arr _ => simp [conforms] at hc
        | obj _ => simp [conforms] at hc
      | any => simp [frag] at hfr
      | arr items nl =>
        have hsz : sizeOf items ≤ n := by simp at hle; omega
        simp only [frag] at hfr
        cases j with
        | null =>
          simp only [conforms] at hc
          exact ⟨.null, by simp [decode, hc]⟩
        | arr js =>
          simp only [conforms] at hc
          simp only [leavesOk] at hl
          obtain ⟨vs, hvs⟩ := list_decodes tbl items (fun j => ihS items j hsz hfr) js hc hl
          exact ⟨.arr vs, by simp [decode, hvs, Except.map]⟩
        | raw _ => simp [conforms] at hc
        | obj _ => simp [conforms] at hc
      | obj fields addl nl =>
        have hsz : sizeOf fields ≤ n := by simp at hle; omega
        cases addl with
        | some a =>
          have ha : sizeOf a ≤ n := by simp at hle; omega
          simp only [frag, Bool.and_eq_true, decide_eq_true_eq] at hfr
          cases j with
          | null =>
            simp only [conforms] at hc
            exact ⟨.null, by simp [decode, hc]⟩
          | obj ms =>
            simp only [conforms, Bool.and_eq_true] at hc
            obtain ⟨⟨hkn, hfc⟩, hex⟩ := hc
            simp only [leavesOk, Bool.and_eq_true] at hl
            obtain ⟨vs, rest, hd⟩ := ihF fields ms hsz hfr.1.1 hfr.1.2 (nodup_of_keysNodup ms hkn) hfc hl.1
            have hrest := decodeFields_rest_eq tbl fields ms vs rest hd
            obtain ⟨xs, hxs⟩ := addl_decodes tbl a (fun j => ihS a j ha hfr.2) rest (by rw [hrest]; exact hex) (by rw [hrest]; exact hl.2)
            cases xs with
            | nil => exact ⟨.obj vs none, by simp [decode, hd, hxs]⟩
            | cons x xt => exact ⟨.obj vs (some (x :: xt)), by simp [decode, hd, hxs]⟩
          | raw _ => simp [conforms] at hc
          | arr _ => simp [conforms] at hc
        | none =>
          simp only [frag, Bool.and_eq_true, decide_eq_true_eq] at hfr
          cases j with
          | null =>
            simp only [conforms] at hc
            exact ⟨.null, by simp [decode, hc]⟩
          | obj ms =>
            simp only [conforms, Bool.and_eq_true] at hc
            obtain ⟨⟨hkn, hfc⟩, _⟩ := hc
            simp only [leavesOk] at hl
            obtain ⟨vs, rest, hd⟩ := ihF fields ms hsz hfr.1 hfr.2 (nodup_of_keysNodup ms hkn) hfc hl
            exact ⟨.obj vs none, by simp [decode, hd]⟩
          | raw _ => simp [conforms] at hc
          | arr _ => simp [conforms] at hc
      | allOf members =>
        have hsz : sizeOf members ≤ n := by simp at hle; omega
        simp only [frag, Bool.and_eq_true, decide_eq_true_eq] at hfr
        have hla := laterAddl_false_of_frag members hfr.1
        cases j with
        | obj ms =>
          simp only [conforms, Bool.and_eq_true] at hc
          obtain ⟨⟨hkn, hall⟩, _⟩ := hc
          simp only [leavesOk] at hl
          obtain ⟨vs, rest, hd⟩ := ihM members ms hsz hfr.1 hfr.2 (nodup_of_keysNodup ms hkn) hall hl
          exact ⟨.obj vs none, by simp [decode, hd, hla]⟩
        | null => simp [conforms] at hc
        | raw _ => simp [conforms] at hc
        | arr _ => simp [conforms] at hc
      | oneOf _ _ => simp [frag] at hfr
    · intro fields ms hle hfr hnd hkn hfc hl
      cases fields with
      | nil => exact ⟨[], ms, by simp [decodeFields]⟩
      | cons f fs =>
        obtain ⟨name, req, s⟩ := f
        have hs : sizeOf s ≤ n := by simp at hle; omega
        have hfs : sizeOf fs ≤ n := by simp at hle; omega
        simp only [fragFields, Bool.and_eq_true] at hfr
        simp only [List.map_cons, List.nodup_cons] at hnd
        obtain ⟨hname, hnd'⟩ := hnd
        simp only [fieldsConform, Bool.and_eq_true] at hfc
        obtain ⟨hhead, htail⟩ := hfc
        rw [lookupFirst_eq_lookupAssoc ms name hkn] at hhead
        simp only [leavesOkFields, Bool.and_eq_true] at hl
        obtain ⟨hlh, hlt⟩ := hl
        cases hla : lookupAssoc ms name with
        | none =>
          simp only [hla, Bool.not_eq_true'] at hhead
          obtain ⟨vs', rest', hrec⟩ := ihF fs ms hfs hfr.2 hnd' hkn htail hlt
          exact ⟨.unset :: vs', rest', by simp [decodeFields, hla, hhead, hrec]⟩
        | some j =>
          simp only [hla] at hhead hlh
          obtain ⟨v, hv⟩ := ihS s j hs hfr.1 hhead hlh
          have hkn' : ((eraseKey ms name).map (·.1)).Nodup := (eraseKey_keys_sublist ms name).nodup hkn
          have htail' : fieldsConform fs (eraseKey ms name) = true := by
            rw [fieldsConform_eraseKey fs ms name hname hkn]; exact htail
          have hlt' : leavesOkFields tbl fs (eraseKey ms name) = true := by
            rw [leavesOkFields_eraseKey tbl fs ms name hname]; exact hlt
          obtain ⟨vs', rest', hrec⟩ := ihF fs (eraseKey ms name) hfs hfr.2 hnd' hkn' htail' hlt'
          exact ⟨v :: vs', rest', by simp [decodeFields, hla, hv, hrec]⟩

    · intro members ms hle hfr hnd hkn hall hl
      cases members with
      | nil => exact ⟨[], ms, by simp [decodeMembers]⟩
      | cons m restM =>
        obtain ⟨b, s⟩ := m
        have hrestM : sizeOf restM ≤ n := by simp at hle; omega
        cases s with
        | obj fields a nl =>
          have hfs : sizeOf fields ≤ n := by simp at hle; omega
          cases a with
          | some _ => simp [fragMembers] at hfr
          | none =>
            simp only [fragMembers, Bool.and_eq_true] at hfr
            simp only [declaredNames] at hnd
            rw [List.nodup_append] at hnd
            obtain ⟨hndF, hndR, hdisj⟩ := hnd
            simp only [allMembers, Bool.and_eq_true] at hall
            simp only [leavesOkMembers, Bool.and_eq_true] at hl
            have hdisR : ∀ k ∈ declaredNames restM, k ∉ fields.map (·.1) := fun k hk hm => hdisj k hm k hk rfl
            obtain ⟨vs1, rest1, hdf⟩ := ihF fields ms hfs hfr.1 hndF hkn hall.1 hl.1
            have hrest1 := decodeFields_rest_eq tbl fields ms vs1 rest1 hdf
            have hkn1 : (rest1.map (·.1)).Nodup := by rw [hrest1]; exact filter_keys_nodup fields ms hkn
            have hall1 : allMembers restM rest1 = true := by
              rw [hrest1, allMembers_filter restM fields ms hdisR hkn]; exact hall.2
            have hl1 : leavesOkMembers tbl restM rest1 = true := by
              rw [hrest1, leavesOkMembers_filter tbl restM fields ms hdisR]; exact hl.2
            obtain ⟨more, left, hdm⟩ := ihM restM rest1 hrestM hfr.2 hndR hkn1 hall1 hl1
            cases b with
            | true => exact ⟨Val.obj vs1 none :: more, left, by simp [decodeMembers, hdf, hdm]⟩
            | false => exact ⟨vs1 ++ more, left, by simp [decodeMembers, hdf, hdm]⟩
        | prim _ _ => simp [fragMembers] at hfr
        | any => simp [fragMembers] at hfr
        | arr _ _ => simp [fragMembers] at hfr
        | allOf _ => simp [fragMembers] at hfr
        | oneOf _ _ => simp [fragMembers] at hfr

/-- **C08, valid documents decode without error** (leaf / array / object fragment, any depth) -/
theorem conforming_decodes (tbl : LeafDec) (s : Schema) (j : J)
    (hfr : frag s = true) (hc : conforms s j = true) (hl : leavesOk tbl s j = true) : ∃ v, decode tbl s j = .ok v :=
  (decodes_all tbl (sizeOf s)).1 s j (Nat.le_refl _) hfr hc hl

/-- the two together: a valid document goes through a decode/encode cycle and comes out as the
    reference says -/
theorem valid_document_cycle (tbl : LeafDec) (s : Schema) (j : J)
    (hfr : frag s = true) (hc : conforms s j = true) (hl : leavesOk tbl s j = true) :
    ∃ v, decode tbl s j = .ok v ∧ toJ s v = .ok (prune tbl s j) := by
  obtain ⟨v, hv⟩ := conforming_decodes tbl s j hfr hc hl
  exact ⟨v, hv, decode_encode_is_prune tbl s j v hfr hc hv⟩

/-- non-vacuity: a nested document with an absent optional property and keys out of declaration order -/
def exDoc : J := .obj [("owner", .obj [("name", .null)]), ("id", .raw "7")]
def exSchemaD : Schema :=
  .obj [("id", true, .prim .int false), ("tags", false, .arr (.prim .str false) false),
        ("owner", false, .obj [("name", true, .prim .str true)] none true)] none false
example : frag exSchemaD = true := by simp [frag, fragFields, exSchemaD]
example : conforms exSchemaD exDoc = true := by
  simp [conforms, fieldsConform, lookupFirst, keysNodup, List.eraseDups_cons, leafKindOk, isIntLit, exSchemaD, exDoc, List.find?]
  all_goals decide
example : leavesOk exTbl exSchemaD exDoc = true := by
  simp [leavesOk, leavesOkFields, lookupAssoc, exTbl, exSchemaD, exDoc, List.find?, Kind.tag]
  all_goals decide



/-- … and a composition whose members' keys arrive in another order -/
def exSchemaDA : Schema :=
  .allOf [(true, .obj [("id", true, .prim .int false)] none false), (false, .obj [("name", false, .prim .str false)] none false)]
def exDocA : J := .obj [("name", .raw "\"a\""), ("id", .raw "7")]
example : frag exSchemaDA = true := by simp [frag, fragMembers, fragFields, declaredNames, exSchemaDA]
example : conforms exSchemaDA exDocA = true := by
  simp [conforms, allMembers, fieldsConform, lookupFirst, keysNodup, List.eraseDups_cons, leafKindOk, isIntLit, laterAddl,
    declaredNames, exSchemaDA, exDocA, List.find?]
  all_goals decide
example : leavesOk exTbl exSchemaDA exDocA = true := by
  simp [leavesOk, leavesOkMembers, leavesOkFields, lookupAssoc, exTbl, exSchemaDA, exDocA, List.find?, Kind.tag]
  all_goals decide

/-! ### the other direction: what the decoder accepts has the declared shape, at every depth -/

mutual
/-- required properties present, objects where objects are declared, arrays where arrays are
    declared, `null` only where the schema is nullable (or an array is declared: the decoder reads
    `null` there as the nil slice), at every depth; leaves are the library's business -/
def shapeOk : Schema → J → Bool
  | .prim _ nl, .null => nl
  | .prim _ _, .raw _ => true
  | .prim _ _, _ => false
  | .arr _ _, .null => true
  | .arr items _, .arr js => shapeOkList items js
  | .arr _ _, _ => false
  | .obj _ _ nl, .null => nl
  | .obj fields none _, .obj ms => shapeOkFields fields ms
  | .obj fields (some a) _, .obj ms =>
    shapeOkFields fields ms && shapeOkList a ((ms.filter (fun kv => !fields.any (·.1 == kv.1))).map (·.2))
  | .obj _ _ _, _ => false
  | .allOf members, .obj ms => shapeOkMembers members ms
  | .allOf _, _ => false
  | _, _ => true
def shapeOkList : Schema → List J → Bool
  | _, [] => true
  | s, j :: js => shapeOk s j && shapeOkList s js
def shapeOkFields : List (String × Bool × Schema) → List (String × J) → Bool
  | [], _ => true
  | (name, req, s) :: fs, ms =>
    (match lookupAssoc ms name with
     | some j => shapeOk s j
     | none => !req) && shapeOkFields fs ms
def shapeOkMembers : List (Bool × Schema) → List (String × J) → Bool
  | [], _ => true
  | (_, .obj fields _ _) :: rest, ms => shapeOkFields fields ms && shapeOkMembers rest ms
  | _ :: rest, ms => shapeOkMembers rest ms
end

theorem shapeOkFields_filter (fs fields : List (String × Bool × Schema)) (ms : List (String × J))
    (h : ∀ k ∈ fs.map (·.1), k ∉ fields.map (·.1)) :
    shapeOkFields fs (ms.filter (fun kv => !fields.any (·.1 == kv.1))) = shapeOkFields fs ms := by
  induction fs with
  | nil => simp [shapeOkFields]
  | cons f rest ih =>
    obtain ⟨fname, req, s⟩ := f
    simp only [shapeOkFields]
    rw [lookupAssoc_filter_undeclared fields ms fname (h fname (by simp)), ih (fun k hk => h k (by simp [hk]))]

theorem shapeOkMembers_filter (members : List (Bool × Schema)) (fields : List (String × Bool × Schema))
    (ms : List (String × J)) (h : ∀ k ∈ declaredNames members, k ∉ fields.map (·.1)) :
    shapeOkMembers members (ms.filter (fun kv => !fields.any (·.1 == kv.1))) = shapeOkMembers members ms := by
  induction members with
  | nil => simp [shapeOkMembers]
  | cons m rest ih =>
    obtain ⟨b, s⟩ := m
    cases s with
    | obj fs a nl =>
      simp only [declaredNames, List.mem_append] at h
      simp only [shapeOkMembers]
      rw [shapeOkFields_filter fs fields ms (fun k hk => h k (Or.inl hk)), ih (fun k hk => h k (Or.inr hk))]
    | prim _ _ => simp only [shapeOkMembers]; exact ih (fun k hk => h k (by simpa [declaredNames] using hk))
    | any => simp only [shapeOkMembers]; exact ih (fun k hk => h k (by simpa [declaredNames] using hk))
    | arr _ _ => simp only [shapeOkMembers]; exact ih (fun k hk => h k (by simpa [declaredNames] using hk))
    | allOf _ => simp only [shapeOkMembers]; exact ih (fun k hk => h k (by simpa [declaredNames] using hk))
    | oneOf _ _ => simp only [shapeOkMembers]; exact ih (fun k hk => h k (by simpa [declaredNames] using hk))

theorem shapeOkFields_eraseKey (fs : List (String × Bool × Schema)) (ms : List (String × J)) (name : String)
    (h : name ∉ fs.map (·.1)) : shapeOkFields fs (eraseKey ms name) = shapeOkFields fs ms := by
  induction fs with
  | nil => simp [shapeOkFields]
  | cons f rest ih =>
    obtain ⟨fname, req, s⟩ := f
    simp only [List.map_cons, List.mem_cons, not_or] at h
    simp only [shapeOkFields]
    rw [lookupAssoc_eraseKey_ne ms name fname (fun e => h.1 e.symm), ih h.2]

theorem list_shape (tbl : LeafDec) (s : Schema)
    (hS : ∀ j v, decode tbl s j = .ok v → shapeOk s j = true) :
    ∀ (js : List J) (vs : List Val), decodeList tbl s js = .ok vs → shapeOkList s js = true := by
  intro js
  induction js with
  | nil => intro _ _; simp [shapeOkList]
  | cons j jt ih =>
    intro vs hd
    simp only [decodeList] at hd
    cases hj : decode tbl s j with
    | error e => simp [hj] at hd
    | ok v =>
      cases hl : decodeList tbl s jt with
      | error e => simp [hj, hl] at hd
      | ok vt => simp [shapeOkList, hS j v hj, ih vt hl]

theorem addl_shape (tbl : LeafDec) (a : Schema)
    (hS : ∀ j v, decode tbl a j = .ok v → shapeOk a j = true) :
    ∀ (rest : List (String × J)) (xs : List (String × Val)), decodeAddl tbl a rest = .ok xs →
      shapeOkList a (rest.map (·.2)) = true := by
  intro rest
  induction rest with
  | nil => intro _ _; simp [shapeOkList]
  | cons x xt ih =>
    obtain ⟨k, j⟩ := x
    intro xs hd
    simp only [decodeAddl] at hd
    cases hj : decode tbl a j with
    | error e => cases e <;> simp [hj] at hd
    | ok v =>
      cases hr : decodeAddl tbl a xt with
      | error e => simp [hj, hr] at hd
      | ok xs' => simp [shapeOkList, hS j v hj, ih xs' hr]

theorem shape_all (tbl : LeafDec) : ∀ n : Nat,
    (∀ (s : Schema) (j : J) (v : Val), sizeOf s ≤ n → frag s = true → decode tbl s j = .ok v → shapeOk s j = true) ∧
    (∀ (fields : List (String × Bool × Schema)) (ms : List (String × J)) (vs : List Val) (rest : List (String × J)),
      sizeOf fields ≤ n → fragFields fields = true → (fields.map (·.1)).Nodup →
      decodeFields tbl fields ms = .ok (vs, rest) → shapeOkFields fields ms = true) ∧
    (∀ (members : List (Bool × Schema)) (ms : List (String × J)) (vs : List Val) (rest : List (String × J)),
      sizeOf members ≤ n → fragMembers members = true → (declaredNames members).Nodup →
      decodeMembers tbl members ms = .ok (vs, rest) → shapeOkMembers members ms = true) := by
  intro n
  induction n with
  | zero =>
    refine ⟨?_, ?_, ?_⟩
    · intro s j v hle
      cases s <;> simp at hle
    · intro fields ms vs rest hle
      cases fields <;> simp at hle
    · intro members ms vs rest hle
      cases members <;> simp at hle
  | succ n ih =>
    obtain ⟨ihS, ihF, ihM⟩ := ih
    refine ⟨?_, ?_, ?_⟩
    · intro s j v hle hfr hd
      cases s with
      | prim k nl =>
        cases j with
        | null =>
          simp only [decode] at hd
          cases nl <;> simp_all [shapeOk]
        | raw c => simp [shapeOk]
        | arr _ => simp [decode] at hd
        | obj _ => simp [decode] at hd
      | any => simp [frag] at hfr
      | arr items nl =>
        have hsz : sizeOf items ≤ n := by simp at hle; omega
        simp only [frag] at hfr
        cases j with
        | null => simp [shapeOk]
        | arr js =>
          simp only [decode] at hd
          cases hl : decodeList tbl items js with
          | error e => simp [hl, Except.map] at hd
          | ok vs =>
            simp only [shapeOk]
            exact list_shape tbl items (fun j v => ihS items j v hsz hfr) js vs hl
        | raw _ => simp [decode] at hd
        | obj _ => simp [decode] at hd
      | obj fields addl nl =>
        have hsz : sizeOf fields ≤ n := by simp at hle; omega
        cases addl with
        | some a =>
          have ha : sizeOf a ≤ n := by simp at hle; omega
          simp only [frag, Bool.and_eq_true, decide_eq_true_eq] at hfr
          cases j with
          | null =>
            simp only [decode] at hd
            cases nl <;> simp_all [shapeOk]
          | obj ms =>
            simp only [decode] at hd
            cases hdf : decodeFields tbl fields ms with
            | error e => simp [hdf] at hd
            | ok p =>
              obtain ⟨vs, rest⟩ := p
              simp only [hdf] at hd
              have hrest := decodeFields_rest_eq tbl fields ms vs rest hdf
              cases hda : decodeAddl tbl a rest with
              | error e => simp [hda] at hd
              | ok xs =>
                have h1 := ihF fields ms vs rest hsz hfr.1.1 hfr.1.2 hdf
                have h2 := addl_shape tbl a (fun j v => ihS a j v ha hfr.2) rest xs hda
                rw [hrest] at h2
                simp [shapeOk, h1, h2]
          | raw _ => simp [decode] at hd
          | arr _ => simp [decode] at hd
        | none =>
          simp only [frag, Bool.and_eq_true, decide_eq_true_eq] at hfr
          cases j with
          | null =>
            simp only [decode] at hd
            cases nl <;> simp_all [shapeOk]
          | obj ms =>
            simp only [decode] at hd
            cases hdf : decodeFields tbl fields ms with
            | error e => simp [hdf] at hd
            | ok p =>
              obtain ⟨vs, rest⟩ := p
              simp only [shapeOk]
              exact ihF fields ms vs rest hsz hfr.1 hfr.2 hdf
          | raw _ => simp [decode] at hd
          | arr _ => simp [decode] at hd
      | allOf members =>
        have hsz : sizeOf members ≤ n := by simp at hle; omega
        simp only [frag, Bool.and_eq_true, decide_eq_true_eq] at hfr
        cases j with
        | obj ms =>
          simp only [decode] at hd
          cases hdm : decodeMembers tbl members ms with
          | error e => simp [hdm] at hd
          | ok p =>
            obtain ⟨vs, rest⟩ := p
            simp only [shapeOk]
            exact ihM members ms vs rest hsz hfr.1 hfr.2 hdm
        | null => simp [decode] at hd
        | raw _ => simp [decode] at hd
        | arr _ => simp [decode] at hd
      | oneOf _ _ => simp [frag] at hfr
    · intro fields ms vs rest hle hfr hnd hd
      cases fields with
      | nil => simp [shapeOkFields]
      | cons f fs =>
        obtain ⟨name, req, s⟩ := f
        have hs : sizeOf s ≤ n := by simp at hle; omega
        have hfs : sizeOf fs ≤ n := by simp at hle; omega
        simp only [fragFields, Bool.and_eq_true] at hfr
        simp only [List.map_cons, List.nodup_cons] at hnd
        obtain ⟨hname, hnd'⟩ := hnd
        rw [decodeFields] at hd
        simp only [shapeOkFields]
        cases hl : lookupAssoc ms name with
        | none =>
          simp only [hl] at hd
          by_cases hreq : req = true
          · simp [hreq] at hd
          · simp only [hreq, Bool.false_eq_true, if_false] at hd
            cases hrec : decodeFields tbl fs ms with
            | error e => simp [hrec] at hd
            | ok p =>
              obtain ⟨vs', rest'⟩ := p
              have hreqf : req = false := by cases req <;> simp_all
              simp [hreqf, ihF fs ms vs' rest' hfs hfr.2 hnd' hrec]
        | some j =>
          simp only [hl] at hd
          cases hj : decode tbl s j with
          | error e => simp [hj] at hd
          | ok v =>
            simp only [hj] at hd
            cases hrec : decodeFields tbl fs (eraseKey ms name) with
            | error e => simp [hrec] at hd
            | ok p =>
              obtain ⟨vs', rest'⟩ := p
              have h1 := ihS s j v hs hfr.1 hj
              have h2 := ihF fs (eraseKey ms name) vs' rest' hfs hfr.2 hnd' hrec
              rw [shapeOkFields_eraseKey fs ms name hname] at h2
              simp [h1, h2]

    · intro members ms vs rest hle hfr hnd hd
      cases members with
      | nil => simp [shapeOkMembers]
      | cons m restM =>
        obtain ⟨b, s⟩ := m
        have hrestM : sizeOf restM ≤ n := by simp at hle; omega
        cases s with
        | obj fields a nl =>
          have hfs : sizeOf fields ≤ n := by simp at hle; omega
          cases a with
          | some _ => simp [fragMembers] at hfr
          | none =>
            simp only [fragMembers, Bool.and_eq_true] at hfr
            simp only [declaredNames] at hnd
            rw [List.nodup_append] at hnd
            obtain ⟨hndF, hndR, hdisj⟩ := hnd
            have hdisR : ∀ k ∈ declaredNames restM, k ∉ fields.map (·.1) := fun k hk hm => hdisj k hm k hk rfl
            have hcore : ∀ vs1 rest1 more left, decodeFields tbl fields ms = .ok (vs1, rest1) →
                decodeMembers tbl restM rest1 = .ok (more, left) →
                shapeOkMembers ((b, .obj fields none nl) :: restM) ms = true := by
              intro vs1 rest1 more left hdf hdm
              have h1 := ihF fields ms vs1 rest1 hfs hfr.1 hndF hdf
              have hrest1 := decodeFields_rest_eq tbl fields ms vs1 rest1 hdf
              have h2 := ihM restM rest1 more left hrestM hfr.2 hndR hdm
              rw [hrest1, shapeOkMembers_filter restM fields ms hdisR] at h2
              simp [shapeOkMembers, h1, h2]
            cases b with
            | true =>
              simp only [decodeMembers] at hd
              cases hdf : decodeFields tbl fields ms with
              | error e => simp [hdf] at hd
              | ok p =>
                obtain ⟨vs1, rest1⟩ := p
                simp only [hdf] at hd
                cases hdm : decodeMembers tbl restM rest1 with
                | error e => simp [hdm] at hd
                | ok q => exact hcore vs1 rest1 q.1 q.2 hdf hdm
            | false =>
              simp only [decodeMembers] at hd
              cases hdf : decodeFields tbl fields ms with
              | error e => simp [hdf] at hd
              | ok p =>
                obtain ⟨vs1, rest1⟩ := p
                simp only [hdf] at hd
                cases hdm : decodeMembers tbl restM rest1 with
                | error e => simp [hdm] at hd
                | ok q => exact hcore vs1 rest1 q.1 q.2 hdf hdm
        | prim _ _ => simp [fragMembers] at hfr
        | any => simp [fragMembers] at hfr
        | arr _ _ => simp [fragMembers] at hfr
        | allOf _ => simp [fragMembers] at hfr
        | oneOf _ _ => simp [fragMembers] at hfr

/-- **C08, faults are rejected at every depth** (leaf / array / object fragment): a document in which,
    anywhere below a declared property, a required property is missing, a non-null non-object sits
    where an object is declared, a non-null non-array where an array is declared, or `null` where a
    non-nullable leaf or object is declared, is not decoded. -/
theorem bad_shape_rejected (tbl : LeafDec) (s : Schema) (j : J) (hfr : frag s = true) (hbad : shapeOk s j = false) :
    ∀ v, decode tbl s j ≠ .ok v := by
  intro v hd
  have := (shape_all tbl (sizeOf s)).1 s j v (Nat.le_refl _) hfr hd
  simp [this] at hbad

/-- a missing required property two levels down -/
def exDocBad : J := .obj [("owner", .obj []), ("id", .raw "7")]
example : shapeOk exSchemaD exDocBad = false := by
  simp [shapeOk, shapeOkFields, lookupAssoc, exSchemaD, exDocBad, List.find?]
  all_goals decide

end Goag.JsonM
