import GoagModel.AuthLemmas
/-
  C17 — CORS preflight advertises exactly what the path declares.

  `planItem doc cors pi` is the model of the per-path-item pass of `generator.NewRouter`;
  `refCorsMethods` / `refCorsHeaders` is the reference reading of the spec.
-/
namespace Goag.Serve
open Goag.Spec Goag.Router Goag.Ref

theorem mem_appendIfAbsent (xs : List String) (x y : String) : y ∈ appendIfAbsent xs x ↔ y ∈ xs ∨ y = x := by
  unfold appendIfAbsent
  split
  · rename_i h
    have hx : x ∈ xs := by simpa using h
    constructor
    · intro h; exact Or.inl h
    · rintro (h | rfl)
      · exact h
      · exact hx
  · simp

theorem nodup_appendIfAbsent (xs : List String) (x : String) (h : xs.Nodup) : (appendIfAbsent xs x).Nodup := by
  unfold appendIfAbsent
  split
  · exact h
  · rename_i hc
    have hx : x ∉ xs := by simpa using hc
    rw [List.nodup_append]
    exact ⟨h, by simp, by intro a ha b hb; simp at hb; subst hb; intro hab; subst hab; exact hx ha⟩

theorem dedup_fold (l : List String) : ∀ (acc : List String), acc.Nodup →
    (l.foldl appendIfAbsent acc).Nodup ∧ ∀ y, y ∈ l.foldl appendIfAbsent acc ↔ y ∈ acc ∨ y ∈ l := by
  induction l with
  | nil => intro acc h; simp [h]
  | cons x tl ih =>
    intro acc h
    simp only [List.foldl_cons]
    obtain ⟨h1, h2⟩ := ih (appendIfAbsent acc x) (nodup_appendIfAbsent acc x h)
    refine ⟨h1, ?_⟩
    intro y
    rw [h2 y, mem_appendIfAbsent]
    simp only [List.mem_cons]
    constructor
    · rintro ((h | h) | h)
      · exact Or.inl h
      · exact Or.inr (Or.inl h)
      · exact Or.inr (Or.inr h)
    · rintro (h | h | h)
      · exact Or.inl (Or.inl h)
      · exact Or.inl (Or.inr h)
      · exact Or.inr h

/-- the append-if-absent loop yields a duplicate-free list with the same members -/
theorem dedupKeep_spec (l : List String) : (dedupKeep l).Nodup ∧ ∀ y, y ∈ dedupKeep l ↔ y ∈ l := by
  have := dedup_fold l [] (by simp)
  unfold dedupKeep
  exact ⟨this.1, by intro y; rw [this.2 y]; simp⟩

theorem mapE_ok {α β ε : Type} (f : α → Except ε β) : ∀ (l : List α) (r : List β), mapE f l = .ok r →
    r.length = l.length ∧ ∀ y, y ∈ r ↔ ∃ x ∈ l, f x = .ok y
  | [], r, h => by simp only [mapE, Except.ok.injEq] at h; subst h; simp
  | x :: xs, r, h => by
    simp only [mapE] at h
    split at h
    · simp at h
    · rename_i y hy
      split at h
      · simp at h
      · rename_i ys hys
        simp only [Except.ok.injEq] at h; subst h
        obtain ⟨hl, hm⟩ := mapE_ok f xs ys hys
        refine ⟨by simp [hl], ?_⟩
        intro z
        simp only [List.mem_cons]
        rw [hm z]
        constructor
        · rintro (rfl | ⟨x', hx', hz⟩)
          · exact ⟨x, Or.inl rfl, hy⟩
          · exact ⟨x', Or.inr hx', hz⟩
        · rintro ⟨x', (rfl | hx'), hz⟩
          · rw [hy] at hz; simp only [Except.ok.injEq] at hz; exact Or.inl hz.symm
          · exact Or.inr ⟨x', hx', hz⟩

/-- ops produced by `planOp` are never CORS arms -/
theorem planOp_not_cors (doc : Doc) (pi : PathItem) (o : Operation) (m : OpM) (h : planOp doc pi o = .ok m) :
    m.isCors = false ∧ m.method = o.method ∧ m.tpl = pi.raw := by
  unfold planOp at h
  split at h
  · simp at h
  · simp only [Except.ok.injEq] at h; subst h; simp

/-- **C17 (methods, presence)**: with CORS enabled, a path item without an OPTIONS operation
    (and with at least one operation) gets exactly one synthetic preflight arm, constructed
    with exactly the path item's declared methods and the header list `hs` computed by
    `corsHeadersOf`; all other arms are the declared operations. -/
theorem cors_arm_exact (doc : Doc) (pi : PathItem) (it : ItemM)
    (hno : pi.ops.any (·.method == "OPTIONS") = false) (hne : pi.ops ≠ [])
    (h : planItem doc true pi = .ok it) :
    ∃ ops hs, mapE (planOp doc pi) pi.ops = .ok ops ∧ corsHeadersOf doc pi = .ok hs ∧
      it.ops = ops ++ [{ method := "OPTIONS", tpl := pi.raw, isCors := true,
                         corsMethods := refCorsMethods pi, corsHeaders := hs }] := by
  unfold planItem at h
  split at h
  · simp at h
  · rename_i ops hops
    have hlen := (mapE_ok _ _ _ hops).1
    have hops_ne : ops.isEmpty = false := by
      cases ops with
      | nil => simp at hlen; exact absurd (List.eq_nil_of_length_eq_zero hlen.symm) hne
      | cons _ _ => rfl
    simp only [hno, hops_ne, Bool.not_false, Bool.and_self, if_true] at h
    split at h
    · simp at h
    · rename_i hs hhs
      simp only [Except.ok.injEq] at h
      exact ⟨ops, hs, hops, hhs, by rw [← h]; rfl⟩

/-- **C17 (declared OPTIONS is never shadowed)**: a path item with its own OPTIONS operation
    gets no synthetic arm -/
theorem options_not_shadowed (doc : Doc) (cors : Bool) (pi : PathItem) (it : ItemM)
    (hopt : pi.ops.any (·.method == "OPTIONS") = true) (h : planItem doc cors pi = .ok it) :
    ∀ m ∈ it.ops, m.isCors = false := by
  unfold planItem at h
  split at h
  · simp at h
  · rename_i ops hops
    simp only [hopt, Bool.not_true, Bool.and_false, Bool.false_and, Bool.false_eq_true, if_false, Except.ok.injEq] at h
    subst h
    intro m hm
    obtain ⟨o, _, ho⟩ := ((mapE_ok _ _ _ hops).2 m).mp hm
    exact (planOp_not_cors doc pi o m ho).1

/-- **C17 (cors off)**: without `cors.enable` no path item has a preflight arm -/
theorem cors_off (doc : Doc) (pi : PathItem) (it : ItemM) (h : planItem doc false pi = .ok it) :
    ∀ m ∈ it.ops, m.isCors = false := by
  unfold planItem at h
  split at h
  · simp at h
  · rename_i ops hops
    simp only [Bool.false_and, Bool.false_eq_true, if_false, Except.ok.injEq] at h
    subst h
    intro m hm
    obtain ⟨o, _, ho⟩ := ((mapE_ok _ _ _ hops).2 m).mp hm
    exact (planOp_not_cors doc pi o m ho).1

/-- without a CORS handler installed the synthetic arm answers nothing (`pickOp` falls
    through), so the request is handled as if the arm did not exist -/
theorem cors_requires_handler (method : String) (it : ItemM) (r : Routed)
    (h : pickOp method false it = some r) : ∃ o, r = .op o ∧ o.isCors = false := by
  unfold pickOp at h
  split at h
  · simp at h
  · rename_i o _
    split at h
    · simp at h
    · rename_i hc
      simp only [Option.some.injEq] at h
      exact ⟨o, h.symm, by simpa using hc⟩

/-- security headers of a requirement list in the implemented fragment: what the reduced list
    contributes equals what the full requirement list names -/
theorem sec_headers_fragment (doc : Doc) (alts : List (List String)) (red : List (String × SchemeKind))
    (hf : InFragmentSingle alts) (hred : reduceReqs doc alts = .ok red) (x : String) :
    x ∈ red.filterMap (fun p => secHeaderOf p.2) ↔
    x ∈ alts.flatMap (fun alt => alt.filterMap (fun n => (schemeOf doc n).bind secHeaderOf)) := by
  simp only [List.mem_filterMap, List.mem_flatMap]
  constructor
  · rintro ⟨⟨n, k⟩, hm, hk⟩
    obtain ⟨alt, halt, hhead, hsk⟩ := (mem_reduceReqs doc alts red hred n k).mp hm
    obtain ⟨n', rfl⟩ := hf alt halt
    simp only [List.head?_cons, Option.some.injEq] at hhead; subst hhead
    exact ⟨[n'], halt, n', by simp, by simp [hsk]; exact hk⟩
  · rintro ⟨alt, halt, n, hn, hk⟩
    obtain ⟨n', rfl⟩ := hf alt halt
    simp only [List.mem_cons, List.not_mem_nil, or_false] at hn; subst hn
    cases hsk : schemeOf doc n with
    | none => simp [hsk] at hk
    | some k =>
      simp only [hsk, Option.bind_some] at hk
      exact ⟨(n, k), (mem_reduceReqs doc alts red hred n k).mpr ⟨[n], halt, by simp, hsk⟩, hk⟩

/-- non-vacuity: the dedup loop on a list with repeats -/
example : dedupKeep ["A", "B", "A", "C", "B"] = ["A", "B", "C"] := by decide

end Goag.Serve
