import GoagModel.JsonModel
/-
  C08 — decoding is strict on required / type errors (the struct decoder `decodeFields` is the
  model of the per-property blocks of the emitted `unmarshalJSONInnerBody`), for EVERY
  property list, document and leaf behaviour.  The lossless-on-valid-documents half is
  validated per program against the reference `prune` (see the check), not yet proved.
-/
namespace Goag.JsonM


/-- **C08 (required)**: if decoding the declared properties succeeds, every required property
    was present in the document -/
theorem decodeFields_ok_required_present (tbl : LeafDec) (fields : List (String × Bool × Schema))
    (ms : List (String × J)) (vs : List Val) (rest : List (String × J))
    (h : decodeFields tbl fields ms = .ok (vs, rest)) :
    ∀ name s, (name, true, s) ∈ fields → (ms.any (·.1 == name)) = true := by
  induction fields generalizing ms vs rest with
  | nil => intro name s hm; simp at hm
  | cons f fs ih =>
    obtain ⟨fname, freq, fsch⟩ := f
    intro name s hm
    rw [decodeFields] at h
    simp only [List.mem_cons, Prod.mk.injEq] at hm
    cases hl : lookupAssoc ms fname with
    | none =>
      simp only [hl] at h
      by_cases hreq : freq = true
      · simp [hreq] at h
      · simp only [hreq, Bool.false_eq_true, if_false] at h
        cases hrec : decodeFields tbl fs ms with
        | error e => simp [hrec] at h
        | ok p =>
          rcases hm with ⟨rfl, rfl, rfl⟩ | hm
          · exact absurd rfl hreq
          · exact ih ms p.1 p.2 (by rw [hrec]) name s hm
    | some j =>
      simp only [hl] at h
      rcases hm with ⟨rfl, rfl, rfl⟩ | hm
      · -- present: lookupAssoc found it
        unfold lookupAssoc at hl
        simp only [Option.map_eq_some_iff] at hl
        obtain ⟨kv, hf, _⟩ := hl
        have hmem := List.mem_of_find?_eq_some hf
        have hk := List.find?_some hf
        simp only [List.any_eq_true]
        exact ⟨kv, by simpa using hmem, hk⟩
      · cases hd : decode tbl fsch j with
        | error e => simp [hd] at h
        | ok v =>
          simp only [hd] at h
          cases hrec : decodeFields tbl fs (eraseKey ms fname) with
          | error e => simp [hrec] at h
          | ok p =>
            have := ih (eraseKey ms fname) p.1 p.2 (by rw [hrec]) name s hm
            simp only [List.any_eq_true] at this ⊢
            obtain ⟨kv, hkv, hk⟩ := this
            unfold eraseKey at hkv
            exact ⟨kv, (List.mem_filter.mp hkv).1, hk⟩

/-- **C08 (error names the property)**: a "missing key" error names a declared required
    property that the document (as far as it is still unconsumed) does not contain, or comes
    from a nested value -/
theorem decodeFields_never_unnamed_type (tbl : LeafDec) (fields : List (String × Bool × Schema))
    (ms : List (String × J)) :
    decodeFields tbl fields ms ≠ .error (.type none) ∧ decodeFields tbl fields ms ≠ .error .additional := by
  induction fields generalizing ms with
  | nil => rw [decodeFields]; simp
  | cons f fs ih =>
    obtain ⟨fname, freq, fsch⟩ := f
    rw [decodeFields]
    cases hl : lookupAssoc ms fname with
    | none =>
      simp only
      by_cases hreq : freq = true
      · simp [hreq]
      · simp only [hreq, Bool.false_eq_true, if_false]
        cases hrec : decodeFields tbl fs ms with
        | error e =>
          have := ih ms
          rw [hrec] at this
          simp only
          exact this
        | ok p => simp
    | some j =>
      simp only
      cases hd : decode tbl fsch j with
      | error e =>
        simp only
        cases e <;> simp [DErr.under]
        rename_i k; cases k <;> simp [DErr.under]
      | ok v =>
        simp only
        cases hrec : decodeFields tbl fs (eraseKey ms fname) with
        | error e =>
          have := ih (eraseKey ms fname)
          rw [hrec] at this
          simp only
          exact this
        | ok p => simp



/-- a "key is missing" error names a declared required property, or is the error of a nested
    value of a declared property -/
theorem decodeFields_missing_origin (tbl : LeafDec) (fields : List (String × Bool × Schema))
    (ms : List (String × J)) (k : String) (h : decodeFields tbl fields ms = .error (.missing k)) :
    ∃ name req s, (name, req, s) ∈ fields ∧
      ((name = k ∧ req = true) ∨ ∃ j, decode tbl s j = .error (.missing k)) := by
  induction fields generalizing ms with
  | nil => rw [decodeFields] at h; simp at h
  | cons f fs ih =>
    obtain ⟨fname, freq, fsch⟩ := f
    rw [decodeFields] at h
    cases hl : lookupAssoc ms fname with
    | none =>
      simp only [hl] at h
      by_cases hreq : freq = true
      · simp only [hreq, if_true, Except.error.injEq, DErr.missing.injEq] at h
        exact ⟨fname, freq, fsch, by simp, Or.inl ⟨h, hreq⟩⟩
      · simp only [hreq, Bool.false_eq_true, if_false] at h
        cases hrec : decodeFields tbl fs ms with
        | error e =>
          simp only [hrec, Except.error.injEq] at h
          subst h
          obtain ⟨n, r, s, hm, hor⟩ := ih ms hrec
          exact ⟨n, r, s, List.mem_cons_of_mem _ hm, hor⟩
        | ok p => simp [hrec] at h
    | some j =>
      simp only [hl] at h
      cases hd : decode tbl fsch j with
      | error e =>
        simp only [hd, Except.error.injEq] at h
        have : e = .missing k := by
          cases e <;> simp [DErr.under] at h
          · exact congrArg DErr.missing h
          · rename_i kk; cases kk <;> simp [DErr.under] at h
        subst this
        exact ⟨fname, freq, fsch, by simp, Or.inr ⟨j, hd⟩⟩
      | ok v =>
        simp only [hd] at h
        cases hrec : decodeFields tbl fs (eraseKey ms fname) with
        | error e =>
          simp only [hrec, Except.error.injEq] at h
          subst h
          obtain ⟨n, r, s, hm, hor⟩ := ih _ hrec
          exact ⟨n, r, s, List.mem_cons_of_mem _ hm, hor⟩
        | ok p => simp [hrec] at h


/-- non-vacuity: dropping the required key of a two-property object is an error naming it -/
example : decodeFields [] [("a", true, .prim .str false), ("b", false, .any)] [("b", .null)] = .error (.missing "a") := by
  simp [decodeFields, lookupAssoc]

end Goag.JsonM
