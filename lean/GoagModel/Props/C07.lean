import GoagModel.JsonModel
/-
  C07 — the object level of "encoded JSON conforms to the schema", for EVERY property list and
  value list.  `toJFields` is the model of the per-property `writeProperty` sequence of the
  emitted `marshalJSONInnerBody` (tied on every run: canonical JSON of the generated
  MarshalJSON vs `toJ`).  Whenever it succeeds with members `ms`:

  * `toJFields_names_declared`: the member names are a sublist of the declared property names,
    in declaration order — no invented name, no duplicate beyond the declaration's own;
  * `toJFields_required_present`: every required property has a member;
  * `toJFields_unset_omitted`: a property whose value is unset has no member (when the declared
    names are distinct);
  * `toJFields_required_unset_fails`: an unset required property is an encoding error, not a
    zero value on the wire.
  Conformance of nested values (kinds, formats, nullability, allOf merging, map entries) is
  judged per generated program by the reference `conforms`, not proved here.
-/
namespace Goag.JsonM

/-- what the writer does with a property whose value is set -/
theorem toJFields_cons_set (name : String) (req : Bool) (s : Schema) (fs : List (String × Bool × Schema))
    (v : Val) (vt : List Val) (hv : v ≠ .unset) :
    toJFields ((name, req, s) :: fs) (v :: vt) =
      (match toJ s v, toJFields fs vt with
       | .ok j, .ok (ms, rest) => .ok ((name, j) :: ms, rest)
       | .error e, _ => .error e
       | _, .error e => .error e) := by
  cases v <;> first | exact absurd rfl hv | (simp only [toJFields]; split <;> split <;> simp_all)

theorem toJFields_cons_unset (name : String) (req : Bool) (s : Schema) (fs : List (String × Bool × Schema)) (vt : List Val) :
    toJFields ((name, req, s) :: fs) (Val.unset :: vt) =
      (if req then .error "unset required field" else toJFields fs vt) := by
  simp only [toJFields]

theorem toJFields_names_declared (fields : List (String × Bool × Schema)) (vs : List Val)
    (ms : List (String × J)) (rest : List Val) (h : toJFields fields vs = .ok (ms, rest)) :
    (ms.map (·.1)).Sublist (fields.map (·.1)) := by
  induction fields generalizing vs ms rest with
  | nil =>
    rw [toJFields] at h
    simp only [Except.ok.injEq, Prod.mk.injEq] at h
    rw [← h.1]; simp
  | cons f fs ih =>
    obtain ⟨name, req, s⟩ := f
    cases vs with
    | nil => rw [toJFields] at h; simp at h
    | cons v vt =>
      by_cases hv : v = .unset
      · subst hv
        rw [toJFields_cons_unset] at h
        by_cases hreq : req = true
        · simp [hreq] at h
        · simp only [hreq, Bool.false_eq_true, if_false] at h
          exact (ih vt ms rest h).cons _
      · rw [toJFields_cons_set _ _ _ _ _ _ hv] at h
        cases hj : toJ s v with
        | error e => simp [hj] at h
        | ok j =>
          cases hr : toJFields fs vt with
          | error e => simp [hj, hr] at h
          | ok p =>
            obtain ⟨pm, pr⟩ := p
            simp only [hj, hr, Except.ok.injEq, Prod.mk.injEq] at h
            rw [← h.1]
            simp only [List.map_cons]
            exact (ih vt pm pr hr).cons₂ _

theorem toJFields_required_present (fields : List (String × Bool × Schema)) (vs : List Val)
    (ms : List (String × J)) (rest : List Val) (h : toJFields fields vs = .ok (ms, rest)) :
    ∀ name s, (name, true, s) ∈ fields → name ∈ ms.map (·.1) := by
  induction fields generalizing vs ms rest with
  | nil => intro name s hm; simp at hm
  | cons f fs ih =>
    obtain ⟨fname, req, fsch⟩ := f
    intro name s hm
    cases vs with
    | nil => rw [toJFields] at h; simp at h
    | cons v vt =>
      simp only [List.mem_cons, Prod.mk.injEq] at hm
      by_cases hv : v = .unset
      · subst hv
        rw [toJFields_cons_unset] at h
        by_cases hreq : req = true
        · simp [hreq] at h
        · simp only [hreq, Bool.false_eq_true, if_false] at h
          rcases hm with ⟨_, hr, _⟩ | hm
          · exact absurd hr.symm hreq
          · exact ih vt ms rest h name s hm
      · rw [toJFields_cons_set _ _ _ _ _ _ hv] at h
        cases hj : toJ fsch v with
        | error e => simp [hj] at h
        | ok j =>
          cases hr : toJFields fs vt with
          | error e => simp [hj, hr] at h
          | ok p =>
            obtain ⟨pm, pr⟩ := p
            simp only [hj, hr, Except.ok.injEq, Prod.mk.injEq] at h
            rw [← h.1]
            simp only [List.map_cons, List.mem_cons]
            rcases hm with ⟨hn, _, _⟩ | hm
            · exact Or.inl hn
            · exact Or.inr (ih vt pm pr hr name s hm)

theorem toJFields_required_unset_fails (name : String) (s : Schema) (fs : List (String × Bool × Schema)) (vt : List Val) :
    toJFields ((name, true, s) :: fs) (Val.unset :: vt) = .error "unset required field" := by
  rw [toJFields_cons_unset]; simp

/-- the head property: unset ⇒ no member of that name (declared names distinct) -/
theorem toJFields_unset_omitted (name : String) (s : Schema) (fs : List (String × Bool × Schema)) (vt : List Val)
    (ms : List (String × J)) (rest : List Val) (hnd : name ∉ fs.map (·.1))
    (h : toJFields ((name, false, s) :: fs) (Val.unset :: vt) = .ok (ms, rest)) : name ∉ ms.map (·.1) := by
  rw [toJFields_cons_unset] at h
  simp only [Bool.false_eq_true, if_false] at h
  have hsub := toJFields_names_declared fs vt ms rest h
  intro hmem
  exact hnd (hsub.subset hmem)

end Goag.JsonM
