import GoagModel.Props.C06b
/-
  C06 — "the chosen oneOf variant is preserved".  A value of a oneOf type is one alternative
  `alt i inner`; it is written as the encoding of `inner` under the `i`-th alternative's schema.

  * with a discriminator (`oneOf_disc_roundtrip`): if the written object carries, under the
    discriminator property, a JSON string that is one of the `i`-th alternative's mapping values and
    of no earlier alternative's, the decoder selects alternative `i` — and returns `alt i inner`
    whenever the alternative's own schema round-trips `inner` (for the schemas of `Props.C06b` that is
    the theorem `rt_roundtrip`);
  * by probing (`oneOf_probe_roundtrip`): if no earlier alternative accepts the written document
    (the domain restriction `OneOfUnambiguous` of DESIGN §11), the decoder returns `alt i inner`.

  The hypotheses on the written document are conditions on the SCHEMA's mapping / alternatives,
  judged per generated type by the run; what is proved is that nothing else can go wrong: no other
  variant is chosen, the index is not shifted, the inner value is not touched.
-/
namespace Goag.JsonM

theorem toJAlt_get (alts : List (List String × Schema)) (i : Nat) (vals : List String) (s : Schema) (v : Val)
    (h : alts[i]? = some (vals, s)) : toJAlt alts i v = toJ s v := by
  induction alts generalizing i with
  | nil => simp at h
  | cons a rest ih =>
    obtain ⟨va, sa⟩ := a
    cases i with
    | zero =>
      simp only [List.getElem?_cons_zero, Option.some.injEq, Prod.mk.injEq] at h
      simp [toJAlt, h.2]
    | succ k =>
      simp only [List.getElem?_cons_succ] at h
      simp only [toJAlt]
      exact ih k h

theorem decodeDisc_selects (tbl : LeafDec) (alts : List (List String × Schema)) (kc : String) (j : J) (inner : Val) :
    ∀ (i off : Nat) (vals : List String) (s : Schema), alts[i]? = some (vals, s) →
      vals.any (fun v => goJsonString v == kc) = true →
      (∀ k, k < i → ∀ vals' s', alts[k]? = some (vals', s') → vals'.any (fun v => goJsonString v == kc) = false) →
      decode tbl s j = .ok inner →
      decodeDisc tbl alts kc j off = .ok (.alt (off + i) inner) := by
  induction alts with
  | nil => intro i off vals s h; simp at h
  | cons a rest ih =>
    obtain ⟨va, sa⟩ := a
    intro i off vals s h hsel hfirst hd
    cases i with
    | zero =>
      simp only [List.getElem?_cons_zero, Option.some.injEq, Prod.mk.injEq] at h
      obtain ⟨hv, hs⟩ := h
      subst hv; subst hs
      simp [decodeDisc, hsel, hd, Except.map]
    | succ k =>
      simp only [List.getElem?_cons_succ] at h
      have h0 : va.any (fun v => goJsonString v == kc) = false := hfirst 0 (Nat.succ_pos k) va sa (by simp)
      simp only [decodeDisc, h0, Bool.false_eq_true, if_false]
      have := ih k (off + 1) vals s h hsel
        (fun k' hk' vals' s' hg => hfirst (k' + 1) (Nat.succ_lt_succ hk') vals' s' (by simpa using hg)) hd
      rw [this]
      congr 2
      omega

/-- **C06, discriminated oneOf**: the variant the value holds is the variant that comes back -/
theorem oneOf_disc_roundtrip (tbl : LeafDec) (alts : List (List String × Schema)) (d : String)
    (i : Nat) (vals : List String) (s : Schema) (inner : Val) (ms : List (String × J)) (c : String)
    (hi : alts[i]? = some (vals, s))
    (hj : toJ s inner = .ok (.obj ms))
    (hrt : decode tbl s (.obj ms) = .ok inner)
    (hk : lookupAssoc ms d = some (.raw c)) (hq : c.startsWith "\"" = true)
    (hsel : vals.any (fun v => goJsonString v == c) = true)
    (hfirst : ∀ k, k < i → ∀ vals' s', alts[k]? = some (vals', s') → vals'.any (fun v => goJsonString v == c) = false) :
    ∃ j, toJ (.oneOf alts (some d)) (.alt i inner) = .ok j ∧ decode tbl (.oneOf alts (some d)) j = .ok (.alt i inner) := by
  refine ⟨.obj ms, ?_, ?_⟩
  · simp only [toJ]
    rw [toJAlt_get alts i vals s inner hi, hj]
  · simp only [decode, hk, hq, if_true]
    have := decodeDisc_selects tbl alts c (.obj ms) inner i 0 vals s hi hsel hfirst hrt
    simpa using this

/-- what "no earlier alternative accepts the document" means for the probing decoder -/
def rejectedBy (tbl : LeafDec) (s : Schema) (j : J) : Prop :=
  ∃ e, decode tbl s j = .error e ∧ ∀ m, e ≠ .unmodelled m

theorem decodeProbe_selects (tbl : LeafDec) (alts : List (List String × Schema)) (j : J) (inner : Val) :
    ∀ (i off : Nat) (vals : List String) (s : Schema), alts[i]? = some (vals, s) →
      (∀ k, k < i → ∀ vals' s', alts[k]? = some (vals', s') → rejectedBy tbl s' j) →
      decode tbl s j = .ok inner →
      decodeProbe tbl alts j off = .ok (.alt (off + i) inner) := by
  induction alts with
  | nil => intro i off vals s h; simp at h
  | cons a rest ih =>
    obtain ⟨va, sa⟩ := a
    intro i off vals s h hfirst hd
    cases i with
    | zero =>
      simp only [List.getElem?_cons_zero, Option.some.injEq, Prod.mk.injEq] at h
      obtain ⟨_, hs⟩ := h
      subst hs
      simp [decodeProbe, hd]
    | succ k =>
      simp only [List.getElem?_cons_succ] at h
      obtain ⟨e, he, hne⟩ := hfirst 0 (Nat.succ_pos k) va sa (by simp)
      have := ih k (off + 1) vals s h
        (fun k' hk' vals' s' hg => hfirst (k' + 1) (Nat.succ_lt_succ hk') vals' s' (by simpa using hg)) hd
      simp only [decodeProbe, he]
      cases e with
      | unmodelled m => exact absurd rfl (hne m)
      | missing _ => rw [this]; congr 2; omega
      | type _ => rw [this]; congr 2; omega
      | additional => rw [this]; congr 2; omega
      | discriminator => rw [this]; congr 2; omega
      | oneof => rw [this]; congr 2; omega

/-- **C06, oneOf without discriminator** (unambiguous alternatives) -/
theorem oneOf_probe_roundtrip (tbl : LeafDec) (alts : List (List String × Schema))
    (i : Nat) (vals : List String) (s : Schema) (inner : Val) (j : J)
    (hi : alts[i]? = some (vals, s))
    (hj : toJ s inner = .ok j)
    (hrt : decode tbl s j = .ok inner)
    (hfirst : ∀ k, k < i → ∀ vals' s', alts[k]? = some (vals', s') → rejectedBy tbl s' j) :
    toJ (.oneOf alts none) (.alt i inner) = .ok j ∧ decode tbl (.oneOf alts none) j = .ok (.alt i inner) := by
  constructor
  · simp only [toJ]
    rw [toJAlt_get alts i vals s inner hi, hj]
  · simp only [decode]
    have := decodeProbe_selects tbl alts j inner i 0 vals s hi hfirst hrt
    simpa using this

/-- … instantiated with the tree theorem: an alternative in the fragment of `rt_roundtrip` needs no
    hypothesis about its own round trip -/
theorem oneOf_probe_roundtrip_rt (tbl : LeafDec) (alts : List (List String × Schema))
    (i : Nat) (vals : List String) (s : Schema) (inner : Val) (j : J)
    (hi : alts[i]? = some (vals, s)) (hrt : rt tbl s inner = true) (hj : toJ s inner = .ok j)
    (hfirst : ∀ k, k < i → ∀ vals' s', alts[k]? = some (vals', s') → rejectedBy tbl s' j) :
    decode tbl (.oneOf alts none) j = .ok (.alt i inner) :=
  (oneOf_probe_roundtrip tbl alts i vals s inner j hi hj (rt_roundtrip tbl s inner j hrt hj) hfirst).2

end Goag.JsonM

namespace Goag.JsonM

/-- non-vacuity of the selection hypotheses: mapping values that tell two alternatives apart -/
example : (["cat"].any (fun v => goJsonString v == "\"dog\"")) = false := by
  simp [goJsonString, goJsonChar, String.join]
example : (["dog", "hound"].any (fun v => goJsonString v == "\"dog\"")) = true := by
  simp [goJsonString, goJsonChar, String.join]

end Goag.JsonM
