import GoagModel.Props.C16
/-
  C14 — "exactly one response is written", on the model.

  `Serve.serve` is the model of the emitted `API.ServeHTTP` pipeline (spec-file shortcut, route
  lookup, not-found / CORS arms, middleware wrapping, security wrapper, operation handler that
  calls `Parse()`); it is total, so it has no panicking path, and it is tied to the generated
  code by the routing / security / parameter corpora (every request is served under `recover`
  with a counting ResponseWriter and compared with it).

  Theorem: for EVERY api plan, configuration (any number of middlewares, any authenticator
  table, with or without not-found / spec / CORS handlers) and request, the trace of `serve`
  contains exactly one response event — whichever arm answers, it answers once.

  What this does NOT cover (explored, not proved): a panic inside the generated Go code itself
  (slice expressions, nil maps, nil function values) — the model has no partial operations. The
  checked-slicing fault model sketched in §4.14 was not built.
-/
namespace Goag.Serve

def finals (evs : List Ev) : Nat := (evs.filter isFinal).length

theorem finals_append (a b : List Ev) : finals (a ++ b) = finals a + finals b := by
  simp [finals, List.filter_append]

theorem finals_map_enter (n : Nat) (t : String) : finals ((List.range n).map (fun i => Ev.mwEnter i t)) = 0 := by
  unfold finals
  have : ((List.range n).map (fun i => Ev.mwEnter i t)).filter isFinal = [] := by
    rw [List.filter_eq_nil_iff]
    intro e he
    obtain ⟨i, _, rfl⟩ := List.mem_map.mp he
    simp [isFinal]
  simp [this]

theorem finals_map_leave (l : List Nat) : finals (l.map Ev.mwLeave) = 0 := by
  unfold finals
  have : (l.map Ev.mwLeave).filter isFinal = [] := by
    rw [List.filter_eq_nil_iff]
    intro e he
    obtain ⟨i, _, rfl⟩ := List.mem_map.mp he
    simp [isFinal]
  simp [this]

theorem finals_nil : finals [] = 0 := rfl

theorem finals_cons (e : Ev) (l : List Ev) : finals (e :: l) = (if isFinal e then 1 else 0) + finals l := by
  unfold finals
  rw [List.filter_cons]
  split <;> simp <;> omega

theorem authOr_no_final (refs : List AuthRef) (cfg : Cfg) (req : Req) : finals (authOr refs cfg req).1 = 0 := by
  induction refs with
  | nil => simp [authOr, finals]
  | cons r rs ih =>
    unfold authOr
    split
    · exact ih
    · split
      · exact ih
      · split
        · simp [finals_cons, finals_nil, isFinal]
        · simp only [finals_cons, isFinal, ih]
          simp

theorem opHandler_one_final (leaf : LeafTable) (api : ApiM) (cfg : Cfg) (o : OpM) (r : RCtx) :
    finals (opHandler leaf api cfg o r) = 1 := by
  unfold opHandler
  cases r.tag <;> cases cfg.parse <;> simp [finals_append, finals_cons, finals_nil, isFinal]

theorem secured_one_final (leaf : LeafTable) (api : ApiM) (cfg : Cfg) (o : OpM) (r : RCtx) :
    finals (secured leaf api cfg o r) = 1 := by
  unfold secured
  split
  · exact opHandler_one_final ..
  · have hno := authOr_no_final o.auth cfg r.req
    cases hao : authOr o.auth cfg r.req with
    | mk evs res =>
      rw [hao] at hno
      simp only at hno
      cases res with
      | some st =>
        obtain ⟨scheme, tok⟩ := st
        simp only
        rw [finals_append, opHandler_one_final, hno]
      | none =>
        simp only
        rw [finals_append, hno]
        simp [finals_cons, finals_nil, isFinal]

/-- **C14 (model).** Every request gets exactly one response. -/
theorem serve_exactly_one_response (leaf : LeafTable) (api : ApiM) (cfg : Cfg) (req : Req) :
    finals (serve leaf api cfg req) = 1 := by
  unfold serve
  split
  · simp [finals_cons, finals_nil, isFinal]
  · split
    · unfold notFound
      split <;> simp [finals_cons, finals_nil, isFinal]
    · simp [finals_cons, finals_nil, isFinal]
    · rename_i o _
      rw [middleware_trace]
      simp only [finals_append, finals_map_enter, finals_map_leave, secured_one_final]

end Goag.Serve
