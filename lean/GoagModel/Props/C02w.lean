import GoagModel.Props.C02
/-
  C02 (second sentence) — "Writing any of them emits the documented status code (the
  caller-supplied code for `default`), the documented Content-Type, the declared headers and the
  body."

  `Resp.expectedWritten d o` is the model of what the constructors of an operation's response
  types write (file_components.gotmpl ResponseComponent, generated `Write`): it is compared on
  every run, constructor by constructor, with what a `ResponseRecorder` saw from the generated
  package (`written` in the `respf` facet).  The theorems below say that this model is the
  documentation, for every document and operation:

  * soundness  — every entry written for `o` comes from a response the spec documents for `o`
                 and carries exactly that response's status / Content-Type / header set / body kind;
  * completeness — every documented response of `o` (inline, shared, through any alias chain, and
                 every alias NAME of a shared response) has a constructor that writes it so.
-/
namespace Goag.Resp

/-- the status a documented use is written with: its own code, `code` (caller-supplied) for default -/
def docStatus (st : String) : String := if st == "default" then "code" else st

/-- the canonical, de-duplicated, sorted set of the declared header names -/
def docHeaders (df : RespDef) : List String := sortStrings ((df.headers.map Serve.canonKey).eraseDups)

theorem writtenOf_fields (c st : String) (df : RespDef) :
    (writtenOf c st df).ctor = c ∧ (writtenOf c st df).status = docStatus st ∧
    (writtenOf c st df).ct = df.ct ∧ (writtenOf c st df).headers = docHeaders df ∧
    (writtenOf c st df).body = df.body := by
  simp [writtenOf, docStatus, docHeaders]

/-- the definition a chain ends in is the definition `find?` gives for the root's own name -/
theorem rootOf_find (d : DocR) (fuel : Nat) (m n : String) (df : RespDef)
    (h : rootOf d fuel m = some (n, df)) :
    ∃ x, d.comps.find? (·.1 == n) = some (x, Sum.inr df) := by
  induction fuel generalizing m with
  | zero => simp [rootOf] at h
  | succ f ih =>
    unfold rootOf at h
    split at h
    · exact ih _ h
    · rename_i x def_ hfind
      simp only [Option.some.injEq, Prod.mk.injEq] at h
      obtain ⟨hn, hd⟩ := h
      subst hd; subst hn
      exact ⟨x, hfind⟩
    · simp at h

/-- two chains that end in the same defining name end in the same definition -/
theorem root_def_unique (d : DocR) (m m' n : String) (df df' : RespDef)
    (h : root d m = some (n, df)) (h' : root d m' = some (n, df')) : df = df' := by
  obtain ⟨x, hx⟩ := rootOf_find d _ m n df h
  obtain ⟨x', hx'⟩ := rootOf_find d _ m' n df' h'
  rw [hx] at hx'
  simp only [Option.some.injEq, Prod.mk.injEq, Sum.inr.injEq] at hx'
  exact hx'.2

/-- a response definition the spec documents for `o` under status `st` -/
def Documents (d : DocR) (o : OpR) (st : String) (df : RespDef) : Prop :=
  RespUse.inline st df ∈ o.uses ∨ ∃ m n, RespUse.comp st m ∈ o.uses ∧ root d m = some (n, df)

/-- **C02, written as documented (soundness).** Whatever a constructor of one of `o`'s response
    types writes is the status, Content-Type, header set and body kind of a response that the spec
    documents for `o` — there is no written entry without a documenting response. -/
theorem written_only_documented (d : DocR) (o : OpR) (w : Written) (hw : w ∈ expectedWritten d o) :
    ∃ st df, Documents d o st df ∧ w.status = docStatus st ∧ w.ct = df.ct ∧
      w.headers = docHeaders df ∧ w.body = df.body := by
  unfold expectedWritten at hw
  simp only [List.mem_append, List.mem_filterMap] at hw
  rcases hw with ⟨u, hu, hs⟩ | ⟨⟨n, c⟩, _, hs⟩
  · cases u with
    | comp st m => simp at hs
    | inline st df =>
      simp only [Option.some.injEq] at hs
      subst hs
      have h := writtenOf_fields ("New" ++ inlineTypeName o st df) st df
      exact ⟨st, df, Or.inl hu, h.2.1, h.2.2.1, h.2.2.2.1, h.2.2.2.2⟩
  · simp only at hs
    cases hr : root d n with
    | none => simp [hr] at hs
    | some r =>
      obtain ⟨rn, df⟩ := r
      simp only [hr, Option.map_eq_some_iff] at hs
      obtain ⟨st, hfs, hw⟩ := hs
      subst hw
      obtain ⟨u, hu, hsome⟩ := List.exists_of_findSome?_eq_some hfs
      cases u with
      | inline st' df' => simp at hsome
      | comp st' m =>
        simp only at hsome
        by_cases hc : ((root d m).map (·.1) == some rn) = true
        · simp only [hc, if_true, Option.some.injEq] at hsome
          subst hsome
          -- the use's root has the same NAME as n's root; the defining component of a name is unique
          -- only up to `find?`, so we document through n's own chain when m's definition agrees
          cases hrm : root d m with
          | none => simp [hrm] at hc
          | some rm =>
            obtain ⟨mn, mdf⟩ := rm
            have h := writtenOf_fields ("New" ++ n ++ "Response") st' df
            simp only [hrm, Option.map_some, beq_iff_eq, Option.some.injEq] at hc
            subst hc
            have hdf : mdf = df := root_def_unique d m n mn mdf df hrm hr
            subst hdf
            exact ⟨st', mdf, Or.inr ⟨m, mn, hu, hrm⟩, h.2.1, h.2.2.1, h.2.2.2.1, h.2.2.2.2⟩
        · simp [hc] at hsome

/-- **C02, written as documented (completeness, inline).** Every inline response of `o` has its
    constructor, which writes the documented status (the caller's code for `default`), the
    documented Content-Type, the declared headers and the documented body kind. -/
theorem inline_written (d : DocR) (o : OpR) (st : String) (df : RespDef)
    (hu : RespUse.inline st df ∈ o.uses) :
    ∃ w ∈ expectedWritten d o, w.ctor = "New" ++ inlineTypeName o st df ∧ w.status = docStatus st ∧
      w.ct = df.ct ∧ w.headers = docHeaders df ∧ w.body = df.body := by
  refine ⟨writtenOf ("New" ++ inlineTypeName o st df) st df, ?_, writtenOf_fields _ _ _⟩
  unfold expectedWritten
  simp only [List.mem_append, List.mem_filterMap]
  exact Or.inl ⟨.inline st df, hu, rfl⟩

/-- **C02, written as documented (completeness, shared responses and their aliases).** If `o`
    documents the shared response `m` under status `st`, then EVERY component name `n` whose alias
    chain ends in the same defining component (the component itself, `m`, any other alias) has a
    constructor `New<n>Response` that writes that definition's Content-Type, headers and body, with
    the status the operation documents it under — `st` itself when the operation uses that shared
    response once (goag refuses specs where it does not: `rejects`). -/
theorem comp_written (d : DocR) (o : OpR) (st m rn : String) (df : RespDef)
    (hu : RespUse.comp st m ∈ o.uses) (hr : root d m = some (rn, df))
    (n : String) (c : String ⊕ RespDef) (hn : (n, c) ∈ d.comps) (df' : RespDef)
    (hrn : root d n = some (rn, df'))
    (honce : ∀ st' m', RespUse.comp st' m' ∈ o.uses → (root d m').map (·.1) = some rn → st' = st) :
    ∃ w ∈ expectedWritten d o, w.ctor = "New" ++ n ++ "Response" ∧ w.status = docStatus st ∧
      w.ct = df.ct ∧ w.headers = docHeaders df ∧ w.body = df.body := by
  have hdf : df' = df := root_def_unique d n m rn df' df hrn hr
  subst hdf
  refine ⟨writtenOf ("New" ++ n ++ "Response") st df', ?_, writtenOf_fields _ _ _⟩
  unfold expectedWritten
  simp only [List.mem_append, List.mem_filterMap]
  refine Or.inr ⟨(n, c), hn, ?_⟩
  simp only [hrn, Option.map_eq_some_iff]
  refine ⟨st, ?_, rfl⟩
  -- the first use whose root is `rn` exists (m is one) and, by `honce`, carries status `st`
  cases hfs : o.uses.findSome? (fun u => match u with
        | .comp st m => if (root d m).map (·.1) == some rn then some st else none
        | _ => none) with
  | none =>
    rw [List.findSome?_eq_none_iff] at hfs
    have := hfs _ hu
    simp [hr] at this
  | some st' =>
    obtain ⟨u, hu', hsome⟩ := List.exists_of_findSome?_eq_some hfs
    cases u with
    | inline s x => simp at hsome
    | comp s m' =>
      simp only at hsome
      by_cases hc : ((root d m').map (·.1) == some rn) = true
      · simp only [hc, if_true, Option.some.injEq] at hsome
        subst hsome
        simp only [beq_iff_eq] at hc
        rw [honce s m' hu' hc]
      · simp [hc] at hsome

/-- the premises of `comp_written` are satisfiable: a shared default response reached through an
    alias, used once; both names (`Err`, `Oops`) end in the defining component `Err` -/
example :
    let df : RespDef := { ct := "application/json", headers := ["x-id", "X-Id"], body := "json" }
    let d : DocR := { ops := [], comps := [("Err", Sum.inr df), ("Oops", Sum.inl "Err")] }
    root d "Oops" = some ("Err", df) ∧ root d "Err" = some ("Err", df) ∧
      docStatus "default" = "code" ∧ docStatus "404" = "404" := by
  simp [root, rootOf, docStatus]

end Goag.Resp
