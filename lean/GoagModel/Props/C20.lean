import GoagModel.Sched
import GoagModel.C20Known
/-
  C20 — concurrent requests are isolated.

  `isolation`: in a system whose steps read a shared environment and write only their own
  request's local state, after ANY schedule (any interleaving, any number of requests and
  steps) the local state of request i is what i's own steps alone make of i's initial state.
  Hence every interleaving gives every request the result of its sequential run
  (`interleaving_eq_alone`), and two schedules that give request i the same number of steps
  agree on i (`schedule_independent`).

  `shared_write_breaks_isolation`: the statement is false as soon as steps may write a shared
  cell — the reason the regenerated site table must contain no mutating site
  (`no_mutation_of_allowed`).
-/
namespace Goag.Sched

variable {E L : Type}

theorem update_same (st : Nat → L) (i : Nat) (v : L) : update st i v i = v := by simp [update]
theorem update_other (st : Nat → L) (i j : Nat) (v : L) (h : j ≠ i) : update st i v j = st j := by simp [update, h]

theorem iter_step (f : L → L) (n : Nat) (x : L) : iter f (n + 1) x = iter f n (f x) := rfl

/-- **C20 (model).** After any schedule, request `i` holds exactly what its own steps make of
    its own initial state; nobody else's steps matter. -/
theorem isolation (sys : Sys E L) (env : E) (sched : List Nat) (st : Nat → L) (i : Nat) :
    run sys env sched st i = iter (sys.step env) (sched.count i) (st i) := by
  induction sched generalizing st with
  | nil => simp [run, iter]
  | cons j rest ih =>
    simp only [run]
    rw [ih]
    by_cases h : j = i
    · subst h
      simp [update_same, List.count_cons_self, iter_step]
    · have hne : i ≠ j := fun e => h e.symm
      have hc : (j :: rest).count i = rest.count i := by
        simp [List.count_cons, h]
      rw [hc, update_other _ _ _ _ hne]

/-- two schedules that give request `i` the same number of steps agree on `i` -/
theorem schedule_independent (sys : Sys E L) (env : E) (s1 s2 : List Nat) (st : Nat → L) (i : Nat)
    (h : s1.count i = s2.count i) : run sys env s1 st i = run sys env s2 st i := by
  rw [isolation, isolation, h]

/-- every interleaving gives request `i` the result of running its steps alone, with no other
    request in flight -/
theorem interleaving_eq_alone (sys : Sys E L) (env : E) (sched : List Nat) (st : Nat → L) (i : Nat) :
    run sys env sched st i = run sys env (List.replicate (sched.count i) i) st i := by
  apply schedule_independent
  simp [List.count_replicate_self]

/-- other requests' INITIAL states do not matter either -/
theorem independent_of_others (sys : Sys E L) (env : E) (sched : List Nat) (st st' : Nat → L) (i : Nat)
    (h : st i = st' i) : run sys env sched st i = run sys env sched st' i := by
  rw [isolation, isolation, h]

/-- The same statement is FALSE when a step may write a shared cell: request 0 copies its
    datum through a shared buffer in two steps (put, take); request 1 doing the same in between
    makes request 0 take request 1's datum. -/
def bufSys : SysW Nat (Nat × Nat × Nat) where
  -- local state: (phase, datum, received)
  step := fun buf (ph, d, r) => if ph = 0 then (d, (1, d, r)) else (buf, (2, d, buf))

def bufInit : Nat → Nat × Nat × Nat := fun j => (0, 100 + j, 0)

theorem shared_write_breaks_isolation :
    ((runW bufSys [0, 0] (0, bufInit)).2 0).2.2 = 100 ∧
    ((runW bufSys [0, 1, 0] (0, bufInit)).2 0).2.2 = 101 := by
  constructor <;> decide

/-- non-vacuity of `isolation`: three requests, an interleaving, a non-trivial step -/
example :
    let sys : Sys Nat Nat := ⟨fun env l => l * 2 + env⟩
    run sys 1 [0, 2, 1, 0, 2, 0] (fun j => j) 0 = 7 ∧ run sys 1 [0, 0, 0] (fun j => j) 0 = 7 := by
  constructor <;> decide

end Goag.Sched

namespace Goag.C20

/-- a site table accepted by the regenerated obligation contains no mutating site -/
theorem no_mutation_of_allowed (sites : List Site) (h : allAllowed sites = true) :
    ∀ s ∈ sites, mutating s = false := by
  intro s hs
  have ha : allowed s = true := by
    unfold allAllowed at h
    exact List.all_eq_true.mp h s hs
  unfold allowed at ha
  unfold mutating
  split at ha <;> simp_all

end Goag.C20
