import GoagModel.Ref
/-
  C05 — path parameters seen by the handler are the matched path segments.

  `Serve.progOf` is the model of how `NewOperation` / `NewHandler` compile a path template into
  the alternating program of constant prefixes and variable extractors that the emitted
  `new<Op>Params` runs (`Serve.runProg`); both are tied to the generated code on every run by
  the `route` facets (every dispatched request's `Parse()` is compared with them).

  The theorem: for EVERY template (any mix of literal and variable segments), every request
  path made of the same number of '/'-free segments whose literal positions agree with the
  template (which is what being dispatched means, C03), every constant still pending and every
  accumulator, running the compiled program over the path gives exactly `refRun`: each
  variable, in template order, receives the typed value of the segment AT ITS OWN POSITION; the
  first variable whose segment is empty, or outside its type's lexical space, is the one the
  error names; no other segment is ever consulted.
-/
namespace Goag.Serve
open Goag.Spec

/-- the request path below the base path made of the given segments -/
def pathOf : List (List Char) → List Char
  | [] => []
  | s :: ss => '/' :: (s ++ pathOf ss)

/-- the request was dispatched to this template: as many segments, literal ones equal -/
def Dispatched : List TSeg → List (List Char) → Prop
  | [], [] => True
  | .lit d :: ts, s :: ss => s = d ∧ Dispatched ts ss
  | .var _ _ :: ts, _ :: ss => Dispatched ts ss
  | _, _ => False

/-- the property's own words: position by position, each variable gets the typed value of its
    own segment; empty → "required", outside the lexical space → "lexical", naming it -/
def refRun (leaf : LeafTable) : List TSeg → List (List Char) → List (String × String) → Except PErr (List (String × String))
  | .var n t :: ts, s :: ss, acc =>
    if s.isEmpty then .error (.param "path" n "required") else
    match pvalue leaf t (String.ofList s) with
    | none => .error (.param "path" n "lexical")
    | some d => refRun leaf ts ss (acc ++ [(n, d)])
  | .lit _ :: ts, _ :: ss, acc => refRun leaf ts ss acc
  | _, _, acc => .ok acc

theorem pathOf_head (ss : List (List Char)) : pathOf ss = [] ∨ ∃ r, pathOf ss = '/' :: r := by
  cases ss with
  | nil => exact Or.inl rfl
  | cons s t => exact Or.inr ⟨_, rfl⟩

theorem takeWhile_seg (s rest : List Char) (hs : ∀ c ∈ s, c ≠ '/') (hr : rest = [] ∨ ∃ r, rest = '/' :: r) :
    (s ++ rest).takeWhile (· != '/') = s ∧ (s ++ rest).dropWhile (· != '/') = rest := by
  induction s with
  | nil =>
    rcases hr with h | ⟨r, h⟩ <;> subst h <;> simp
  | cons c t ih =>
    have hc : c ≠ '/' := hs c List.mem_cons_self
    have ht := ih (fun x hx => hs x (List.mem_cons_of_mem _ hx))
    simp [List.takeWhile_cons, List.dropWhile_cons, hc, ht.1, ht.2]

theorem isPrefixOf_append (a b : List Char) : a.isPrefixOf (a ++ b) = true := by
  induction a with
  | nil => simp
  | cons x t ih => simp [List.isPrefixOf, ih]

theorem drop_append_len (a b : List Char) : (a ++ b).drop a.length = b := by
  induction a with
  | nil => simp
  | cons x t ih => simp [ih]

/-- **C05.** -/
theorem runProg_progOf (leaf : LeafTable) (ts : List TSeg) (segs : List (List Char)) (pend : List Char)
    (acc : List (String × String)) (hd : Dispatched ts segs) (hns : ∀ s ∈ segs, ∀ c ∈ s, c ≠ '/') :
    runProg leaf (progOf ts pend) (pend ++ pathOf segs) acc = refRun leaf ts segs acc := by
  induction ts generalizing segs pend acc with
  | nil =>
    cases segs with
    | cons s ss => simp [Dispatched] at hd
    | nil =>
      simp only [progOf, pathOf, List.append_nil, refRun]
      cases hp : pend.isEmpty with
      | true => simp [runProg]
      | false =>
        have : pend.isPrefixOf pend = true := by simpa using isPrefixOf_append pend []
        simp [runProg, this]
  | cons t ts ih =>
    cases segs with
    | nil => cases t <;> simp [Dispatched] at hd
    | cons s ss =>
      have hss : ∀ s' ∈ ss, ∀ c ∈ s', c ≠ '/' := fun s' h => hns s' (List.mem_cons_of_mem _ h)
      have hs : ∀ c ∈ s, c ≠ '/' := hns s List.mem_cons_self
      cases t with
      | lit d =>
        simp only [Dispatched] at hd
        obtain ⟨hsd, hd'⟩ := hd
        subst hsd
        simp only [progOf, refRun]
        have := ih ss (pend ++ '/' :: s) acc hd' hss
        simpa [pathOf, List.append_assoc] using this
      | var n ty =>
        simp only [Dispatched] at hd
        simp only [progOf, refRun, pathOf]
        have hpre : (pend ++ ['/']).isPrefixOf (pend ++ '/' :: (s ++ pathOf ss)) = true := by
          have := isPrefixOf_append (pend ++ ['/']) (s ++ pathOf ss)
          simpa [List.append_assoc] using this
        have hdrop : (pend ++ '/' :: (s ++ pathOf ss)).drop (pend ++ ['/']).length = s ++ pathOf ss := by
          have := drop_append_len (pend ++ ['/']) (s ++ pathOf ss)
          simpa [List.append_assoc] using this
        obtain ⟨htk, hdr⟩ := takeWhile_seg s (pathOf ss) hs (pathOf_head ss)
        simp only [runProg, hpre, if_true, hdrop, htk, hdr]
        cases hse : s.isEmpty with
        | true => simp
        | false =>
          simp only [Bool.false_eq_true, if_false]
          cases hv : pvalue leaf ty (String.ofList s) with
          | none => simp
          | some dv =>
            simp only
            have := ih ss [] (acc ++ [(n, dv)]) hd hss
            simpa using this

/-- on success the values are, in template order, the typed values of the variables' own
    segments (and nothing else is added) -/
def ownValues (leaf : LeafTable) : List TSeg → List (List Char) → List (String × Option String)
  | .var n t :: ts, s :: ss => (n, pvalue leaf t (String.ofList s)) :: ownValues leaf ts ss
  | .lit _ :: ts, _ :: ss => ownValues leaf ts ss
  | _, _ => []

theorem refRun_ok_values (leaf : LeafTable) (ts : List TSeg) (segs : List (List Char))
    (acc out : List (String × String)) (h : refRun leaf ts segs acc = .ok out) :
    (out.map (fun (n, d) => (n, some d))) = acc.map (fun (n, d) => (n, some d)) ++ ownValues leaf ts segs := by
  induction ts generalizing segs acc with
  | nil => simp [refRun] at h; subst h; simp [ownValues]
  | cons t ts ih =>
    cases segs with
    | nil => cases t <;> (simp [refRun] at h; subst h; simp [ownValues])
    | cons s ss =>
      cases t with
      | lit d => simp only [refRun] at h; simpa [ownValues] using ih ss acc h
      | var n ty =>
        simp only [refRun] at h
        cases hse : s.isEmpty with
        | true => simp [hse] at h
        | false =>
          simp only [hse, Bool.false_eq_true, if_false] at h
          cases hv : pvalue leaf ty (String.ofList s) with
          | none => simp [hv] at h
          | some dv =>
            simp only [hv] at h
            have := ih ss (acc ++ [(n, dv)]) h
            simp [ownValues, hv, this]

/-- Non-vacuity: /shops/{shop}/pets/{id} on /shops/5/pets/7, /shops/5/pets/x and /shops//pets/7 -/
def exTs : List TSeg := [TSeg.lit "shops".toList, .var "shop" .int, .lit "pets".toList, .var "id" .int]

def outcomeOf (r : Except PErr (List (String × String))) : List String :=
  match r with
  | .ok vs => "ok" :: vs.map (fun (n, d) => n ++ "=" ++ d)
  | .error (.param loc n k) => ["err", loc, n, k]
  | .error .wrongPath => ["wrong-path"]

example : outcomeOf (runProg [] (progOf exTs []) "/shops/5/pets/7".toList []) = ["ok", "shop=i:5", "id=i:7"] := by decide
example : outcomeOf (runProg [] (progOf exTs []) "/shops/5/pets/x".toList []) = ["err", "path", "id", "lexical"] := by decide
example : outcomeOf (runProg [] (progOf exTs []) "/shops//pets/7".toList []) = ["err", "path", "shop", "required"] := by decide
example : Dispatched exTs ["shops".toList, "5".toList, "pets".toList, "7".toList] := by simp [Dispatched, exTs]

end Goag.Serve
