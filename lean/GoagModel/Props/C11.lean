import GoagModel.AuthLemmas
/-
  C11 — security requirements are enforced per operation, no more and no less.

  `secured … o` is the model of `middlewares(h, authMiddlewareOr(...))` emitted around the
  operation handler at dispatch; `o.auth = authRefs red` where `red` is what
  `NewSecurityRequirements` keeps of the operation's own effective requirement list.
  `refAuth` / `altAccepted` is the reference reading of the requirement list.

  The full statement (any requirement list) is FALSE of the code: a requirement naming two
  schemes keeps only one of them, an empty requirement `{}` is dropped, and schemes of kinds
  goag does not implement are dropped silently (known findings KF-C11-arity,
  KF-C11-unsupported; negative theorems below).  The theorems are proved for the fragment
  `InFragment`.
-/
namespace Goag.Serve
open Goag.Spec Goag.Router Goag.Ref

/-- the fragment of requirement lists goag implements: every alternative names exactly one
    scheme, of a supported kind, and all bearer alternatives name the same scheme (the generated
    API has a single `SecurityBearerAuth` slot) -/
structure InFragment (doc : Doc) (alts : List (List String)) : Prop where
  single : ∀ alt ∈ alts, ∃ n, alt = [n]
  supported : ∀ n, [n] ∈ alts → ∃ r, schemeRef doc n = some r
  oneBearer : ∀ n n', [n] ∈ alts → [n'] ∈ alts →
      schemeOf doc n = some .bearer → schemeOf doc n' = some .bearer → n = n'

/-- the full-strength statement (kept visible; not provable for the code, see negations) -/
def AuthExactFull : Prop :=
  ∀ (doc : Doc) (alts : List (List String)) (red : List (String × SchemeKind)) (cfg : Cfg) (req : Req),
    reduceReqs doc alts = .ok red →
    ((authOr (authRefs red) cfg req).2 = none ↔ alts.flatMap (altAccepted doc cfg req) = [])

theorem accepts_iff_acceptScheme (doc : Doc) (cfg : Cfg) (req : Req) (n : String) (r : AuthRef) (tok : String)
    (hr : schemeRef doc n = some r) :
    Accepts cfg req r tok ↔ acceptScheme doc cfg req n = some (n, tok) := by
  have hs : r.scheme = n := by
    rw [schemeRef_eq] at hr
    cases hk : schemeOf doc n with
    | none => simp [hk] at hr
    | some k => simp [hk] at hr; exact refOfKind_scheme hr
  unfold Accepts acceptScheme
  rw [hr, hs]
  constructor
  · rintro ⟨accept, hf, hc, ha⟩
    have ha' : tok ∈ accept := by simpa using ha
    simp [hf, hc, ha']
  · intro h
    cases hf : cfg.auth.find? (·.1 == n) with
    | none => simp [hf] at h
    | some e =>
      obtain ⟨k, accept⟩ := e
      have hk : k = n := find_fst hf
      subst hk
      cases hc : credential r req with
      | none => simp [hf, hc] at h
      | some tok' =>
        simp only [hf, hc] at h
        split at h
        · rename_i ha
          simp only [Option.some.injEq, Prod.mk.injEq, true_and] at h
          subst h
          exact ⟨accept, rfl, rfl, ha⟩
        · simp at h

/-- **C11 (no less)**: when the wrapper lets a request through with the request returned by
    scheme `s` for token `t`, then `[s]` is one of the operation's own alternatives and `s`'s
    authenticator accepted the request's own credential `t` — credentials for a scheme the
    operation does not list never grant access. -/
theorem auth_sound (doc : Doc) (alts : List (List String)) (red : List (String × SchemeKind))
    (cfg : Cfg) (req : Req) (hf : InFragment doc alts) (hred : reduceReqs doc alts = .ok red)
    (s t : String) (h : (authOr (authRefs red) cfg req).2 = some (s, t)) :
    [s] ∈ alts ∧ acceptScheme doc cfg req s = some (s, t) := by
  obtain ⟨r, hm, hs, hacc⟩ := authOr_sound _ cfg req s t h
  obtain ⟨n, k, hnk, hrk⟩ := mem_authRefs hm
  have hn : n = s := by rw [← hs]; exact (refOfKind_scheme hrk).symm
  subst hn
  obtain ⟨alt, halt, hhead, hk⟩ := (mem_reduceReqs doc alts red hred n k).mp hnk
  obtain ⟨n', rfl⟩ := hf.single alt halt
  simp only [List.head?_cons, Option.some.injEq] at hhead
  subst hhead
  refine ⟨halt, ?_⟩
  have hsr : schemeRef doc n' = some r := by rw [schemeRef_eq, hk]; exact hrk
  exact (accepts_iff_acceptScheme doc cfg req n' r t hsr).mp hacc

/-- **C11 (no more)**: the wrapper answers 401 only when no alternative of the operation's
    own requirement is satisfied -/
theorem auth_complete (doc : Doc) (alts : List (List String)) (red : List (String × SchemeKind))
    (cfg : Cfg) (req : Req) (hf : InFragment doc alts) (hred : reduceReqs doc alts = .ok red)
    (h : (authOr (authRefs red) cfg req).2 = none) :
    alts.flatMap (altAccepted doc cfg req) = [] := by
  have hc := authOr_complete _ cfg req h
  apply List.eq_nil_iff_forall_not_mem.mpr
  intro st hst
  simp only [List.mem_flatMap] at hst
  obtain ⟨alt, halt, hmem⟩ := hst
  obtain ⟨n, rfl⟩ := hf.single alt halt
  unfold altAccepted at hmem
  split at hmem
  · simp only [List.filterMap_cons, List.filterMap_nil] at hmem
    cases ha : acceptScheme doc cfg req n with
    | none => simp [ha] at hmem
    | some p =>
      obtain ⟨r, hr⟩ := hf.supported n halt
      -- the accepted pair is (n, tok)
      have hp : ∃ tok, p = (n, tok) := by
        unfold acceptScheme at ha
        rw [hr] at ha
        simp only at ha
        split at ha
        · split at ha
          · simp only [Option.some.injEq] at ha; exact ⟨_, ha.symm⟩
          · simp at ha
        · simp at ha
      obtain ⟨tok, rfl⟩ := hp
      have hacc : Accepts cfg req r tok := (accepts_iff_acceptScheme doc cfg req n r tok hr).mpr ha
      -- r (or the shared bearer slot) is in the wrapper
      rw [schemeRef_eq] at hr
      cases hk : schemeOf doc n with
      | none => simp [hk] at hr
      | some k =>
        simp only [hk, Option.bind_some] at hr
        have hnk : (n, k) ∈ red := (mem_reduceReqs doc alts red hred n k).mpr ⟨[n], halt, by simp, hk⟩
        rcases authRefs_mem hnk hr with hin | ⟨hkb, n', hn'red, hin⟩
        · exact hc r hin tok hacc
        · subst hkb
          obtain ⟨alt', halt', hhead', hk'⟩ := (mem_reduceReqs doc alts red hred n' .bearer).mp hn'red
          obtain ⟨m, rfl⟩ := hf.single alt' halt'
          simp only [List.head?_cons, Option.some.injEq] at hhead'
          subst hhead'
          have : n = m := hf.oneBearer n m halt halt' hk hk'
          subst this
          simp only [refOfKind, Option.some.injEq] at hr
          subst hr
          exact hc _ hin tok hacc
  · simp at hmem

/-- an operation whose effective requirement list is empty is public: no wrapper, the
    handler runs without any authenticator being consulted -/
theorem public_reachable (leaf : LeafTable) (api : ApiM) (cfg : Cfg) (o : OpM) (r : RCtx)
    (h : o.auth = []) : secured leaf api cfg o r = opHandler leaf api cfg o r := by
  unfold secured; simp [h]

theorem reduce_nil (doc : Doc) : reduceReqs doc [] = .ok [] := rfl
theorem authRefs_nil : authRefs [] = [] := rfl

/-- when access is denied the handler is not invoked and the response is 401 -/
theorem denied_is_401 (leaf : LeafTable) (api : ApiM) (cfg : Cfg) (o : OpM) (r : RCtx)
    (hne : o.auth ≠ []) (h : (authOr o.auth cfg r.req).2 = none) :
    secured leaf api cfg o r = (authOr o.auth cfg r.req).1 ++ [Ev.final 401 "" "len=0"] := by
  unfold secured
  have : o.auth.isEmpty = false := by cases ha : o.auth <;> simp_all
  simp only [this, Bool.false_eq_true, if_false]
  cases hq : authOr o.auth cfg r.req with
  | mk evs res =>
    rw [hq] at h; simp only at h; subst h; rfl

/-- the handler receives the request the accepting authenticator returned (its tag) -/
theorem handler_sees_returned_request (leaf : LeafTable) (api : ApiM) (cfg : Cfg) (o : OpM) (r : RCtx)
    (hne : o.auth ≠ []) (s t : String) (h : (authOr o.auth cfg r.req).2 = some (s, t)) :
    secured leaf api cfg o r =
      (authOr o.auth cfg r.req).1 ++ opHandler leaf api cfg o { r with tag := some (s ++ ":" ++ t) } := by
  unfold secured
  have : o.auth.isEmpty = false := by cases ha : o.auth <;> simp_all
  simp only [this, Bool.false_eq_true, if_false]
  cases hq : authOr o.auth cfg r.req with
  | mk evs res =>
    rw [hq] at h; simp only at h; subst h; rfl

/-! Negations of the full statement on concrete witnesses (replayed on the real code; known
    findings KF-C11-arity and KF-C11-unsupported). -/

def docAB : Doc := { serverUrl := none, serverVars := [], paths := [], security := [],
                     schemes := [("a", .apiKeyHeader "X-A"), ("b", .apiKeyHeader "X-B"), ("o", .unsupported)] }
def reqA : Req := { method := "GET", path := "/", query := [], headers := [("X-A", ["good"])] }
def cfgAB : Cfg := { mws := 0, nf := false, spec := false, cors := false, auth := [("a", ["good"]), ("b", ["good"])] }

/-- a requirement `{a, b}` (both needed) is enforced as `a` alone: with only `a`'s credential the
    wrapper accepts while the reference demands both -/
theorem and_becomes_single :
    reduceReqs docAB [["a", "b"]] = .ok [("a", .apiKeyHeader "X-A")] ∧
    (authOr (authRefs [("a", .apiKeyHeader "X-A")]) cfgAB reqA).2 = some ("a", "good") ∧
    [["a", "b"]].flatMap (altAccepted docAB cfgAB reqA) = [] := by
  refine ⟨rfl, ?_, ?_⟩ <;> decide

/-- a requirement naming only a scheme of an unsupported kind yields no wrapper at all: the
    operation is served as public -/
theorem unsupported_is_public :
    reduceReqs docAB [["o"]] = .ok [("o", .unsupported)] ∧ authRefs [("o", .unsupported)] = [] ∧
    [["o"]].flatMap (altAccepted docAB cfgAB reqA) = [] := by
  refine ⟨rfl, ?_, ?_⟩ <;> decide

theorem authExactFull_false : ¬ AuthExactFull := by
  intro h
  have := (h docAB [["a", "b"]] _ cfgAB reqA and_becomes_single.1).mpr and_becomes_single.2.2
  rw [and_becomes_single.2.1] at this
  simp at this

/-- non-vacuity of the fragment -/
example : InFragment docAB [["a"], ["b"]] := by
  refine ⟨?_, ?_, ?_⟩
  · intro alt h; simp at h; rcases h with rfl | rfl <;> simp
  · intro n h; simp at h; rcases h with rfl | rfl <;> simp [schemeRef, schemeOf, docAB]
  · intro n n' h h' hb; simp at h; rcases h with rfl | rfl <;> simp [schemeOf, docAB] at hb

end Goag.Serve
