import GoagModel.Prim
/-
  C09 — the leaf laws behind "client and server agree": what the generated client formats, the
  generated server parses back to the same value.  For the closed-form leaves (decimal integers
  of the three widths, booleans) this is proved for EVERY value in range; `Prim.parseIntGo` /
  `formatIntGo` / `parseBoolGo` / `formatBoolGo` are the models of strconv.ParseInt /
  FormatInt / ParseBool / FormatBool that the parameter parsers of C04/C05 use, tied to the Go
  library by the routing corpora (every lexeme of the request corpus, every leaf type).
  Floats, times, strings through URL escaping and header canonicalisation are library
  behaviour: validated by the client→server round trips of the check, not proved.
-/
namespace Goag.Prim

theorem digitVal_digitChar : ∀ d, d < 10 → digitVal (Nat.digitChar d) = some d := by decide

theorem digitsVal_append (a b : List Char) (acc : Nat) :
    digitsVal (a ++ b) acc = (digitsVal a acc).bind (digitsVal b) := by
  induction a generalizing acc with
  | nil => simp [digitsVal]
  | cons c cs ih =>
    simp only [List.cons_append, digitsVal]
    cases digitVal c with
    | none => simp
    | some d => simp [ih]

theorem digitsVal_toDigits (n : Nat) : digitsVal (Nat.toDigits 10 n) 0 = some n := by
  induction n using Nat.strongRecOn with
  | _ n ih =>
    by_cases h : n < 10
    · rw [Nat.toDigits_of_lt_base h]
      simp [digitsVal, digitVal_digitChar n h]
    · have h10 : 10 ≤ n := by omega
      rw [Nat.toDigits_of_base_le (by decide) h10, digitsVal_append, ih (n / 10) (by omega)]
      have hm : n % 10 < 10 := Nat.mod_lt _ (by decide)
      simp only [Option.bind_some, digitsVal, digitVal_digitChar _ hm]
      congr 1
      omega

theorem head_digit_not_sign (n : Nat) : ∃ c r, Nat.toDigits 10 n = c :: r ∧ c ≠ '+' ∧ c ≠ '-' := by
  cases hl : Nat.toDigits 10 n with
  | nil => exact absurd hl Nat.toDigits_ne_nil
  | cons c r =>
    refine ⟨c, r, rfl, ?_, ?_⟩
    · intro hc
      have : c.isDigit = true := Nat.isDigit_of_mem_toDigits (b := 10) (n := n) (by decide) (by decide) (by rw [hl]; exact List.mem_cons_self)
      rw [hc] at this
      exact absurd this (by decide)
    · intro hc
      have : c.isDigit = true := Nat.isDigit_of_mem_toDigits (b := 10) (n := n) (by decide) (by decide) (by rw [hl]; exact List.mem_cons_self)
      rw [hc] at this
      exact absurd this (by decide)

theorem splitSign_digit (c : Char) (r : List Char) (hp : c ≠ '+') (hm : c ≠ '-') : splitSign (c :: r) = (false, c :: r) := by
  unfold splitSign
  split
  · rename_i heq; simp only [List.cons.injEq] at heq; exact absurd heq.1 hp
  · rename_i heq; simp only [List.cons.injEq] at heq; exact absurd heq.1 hm
  · rfl

theorem splitSign_minus (r : List Char) : splitSign ('-' :: r) = (true, r) := by
  unfold splitSign; rfl

/-- **Integers.** Whatever in-range value the client formats, the server parses back. -/
theorem parseInt_formatInt (bits : Nat) (v : Int)
    (hlo : -(2 ^ ((if bits = 0 then 64 else bits) - 1) : Int) ≤ v)
    (hhi : v < (2 ^ ((if bits = 0 then 64 else bits) - 1) : Int)) :
    parseIntGo bits (formatIntGo v) = some v := by
  unfold parseIntGo formatIntGo natDigits
  obtain ⟨c, r, hcr, hplus, hminus⟩ := head_digit_not_sign v.natAbs
  have hval := digitsVal_toDigits v.natAbs
  have hne : (Nat.toDigits 10 v.natAbs).isEmpty = false := by rw [hcr]; rfl
  have h2 : ((2 ^ ((if bits = 0 then 64 else bits) - 1) : Nat) : Int) = (2 : Int) ^ ((if bits = 0 then 64 else bits) - 1) := by
    simp
  by_cases hneg : v < 0
  · simp only [hneg, if_true, splitSign_minus, hne, Bool.false_eq_true, if_false, hval]
    have hb : v.natAbs ≤ 2 ^ ((if bits = 0 then 64 else bits) - 1) := by
      have : ((v.natAbs : Nat) : Int) = -v := by omega
      omega
    simp only [hb, if_true, Option.some.injEq]
    omega
  · simp only [hneg, if_false]
    have hs : splitSign (Nat.toDigits 10 v.natAbs) = (false, Nat.toDigits 10 v.natAbs) := by
      rw [hcr]; exact splitSign_digit c r hplus hminus
    simp only [hs, hne, Bool.false_eq_true, if_false, hval]
    have hb : v.natAbs < 2 ^ ((if bits = 0 then 64 else bits) - 1) := by
      have : ((v.natAbs : Nat) : Int) = v := by omega
      omega
    simp only [hb, if_true, Option.some.injEq]
    omega

/-- **Booleans.** -/
theorem parseBool_formatBool (b : Bool) : parseBoolGo (formatBoolGo b) = some b := by
  cases b <;> decide

example : parseIntGo 32 (formatIntGo (-2147483648)) = some (-2147483648) := by decide
example : parseIntGo 32 "2147483648".toList = none := by decide

end Goag.Prim

namespace Goag.Prim

/-- in range for the declared width (`bits` 0 = plain `integer`, 64-bit) -/
def InRange (bits : Nat) (v : Int) : Prop :=
  -(2 ^ ((if bits = 0 then 64 else bits) - 1) : Int) ≤ v ∧ v < (2 ^ ((if bits = 0 then 64 else bits) - 1) : Int)

/-- **Arrays** (query / header parameters and response headers that are arrays of integers): the
    element-wise format of any list of in-range values parses back element-wise to that list —
    no element lost, reordered or merged. -/
theorem parseInts_formatInts (bits : Nat) (vs : List Int) (h : ∀ v ∈ vs, InRange bits v) :
    (vs.map formatIntGo).mapM (parseIntGo bits) = some vs := by
  induction vs with
  | nil => rfl
  | cons v t ih =>
    have hv := h v List.mem_cons_self
    have ht := ih (fun x hx => h x (List.mem_cons_of_mem _ hx))
    simp only [List.map_cons, List.mapM_cons, parseInt_formatInt bits v hv.1 hv.2, ht]
    rfl

theorem parseBools_formatBools (bs : List Bool) : (bs.map formatBoolGo).mapM parseBoolGo = some bs := by
  induction bs with
  | nil => rfl
  | cons b t ih => simp only [List.map_cons, List.mapM_cons, parseBool_formatBool, ih]; rfl

end Goag.Prim

namespace Goag.Prim

/-! ### the second sentence of C09 at the leaves: what the client writes for an integer / boolean
    parameter is in the lexical space a validator accepts for `type: integer` / `type: boolean`
    (optional minus sign and at least one decimal digit, no plus sign, no blanks; `true` / `false`).
    Whether the whole request is valid for the operation is judged per run by an OpenAPI request
    validator that is not goag's (kin-openapi's openapi3filter, see the check). -/

def isIntegerLexeme (s : Str) : Bool :=
  match s with
  | '-' :: ds => !ds.isEmpty && ds.all (fun c => decide ('0' ≤ c ∧ c ≤ '9'))
  | ds => !ds.isEmpty && ds.all (fun c => decide ('0' ≤ c ∧ c ≤ '9'))

theorem digitsVal_all_digits (cs : List Char) : ∀ (acc n : Nat), digitsVal cs acc = some n →
    cs.all (fun c => decide ('0' ≤ c ∧ c ≤ '9')) = true := by
  induction cs with
  | nil => intro _ _ _; rfl
  | cons c rest ih =>
    intro acc n h
    simp only [digitsVal] at h
    cases hd : digitVal c with
    | none => simp [hd] at h
    | some d =>
      simp only [hd] at h
      have hc : ('0' ≤ c ∧ c ≤ '9') := by
        unfold digitVal at hd
        by_cases hcc : '0' ≤ c ∧ c ≤ '9'
        · exact hcc
        · simp [hcc] at hd
      simp only [List.all_cons, Bool.and_eq_true, decide_eq_true_eq]
      exact ⟨hc, ih _ n h⟩

theorem formatInt_lexeme (v : Int) : isIntegerLexeme (formatIntGo v) = true := by
  unfold formatIntGo natDigits
  obtain ⟨c, r, hcr, hplus, hminus⟩ := head_digit_not_sign v.natAbs
  have hall := digitsVal_all_digits _ 0 _ (digitsVal_toDigits v.natAbs)
  have hne : (Nat.toDigits 10 v.natAbs).isEmpty = false := by rw [hcr]; rfl
  by_cases hneg : v < 0
  · simp only [hneg, if_true, isIntegerLexeme, hne, Bool.not_false, Bool.true_and]
    exact hall
  · simp only [hneg, if_false]
    rw [hcr] at hall hne ⊢
    unfold isIntegerLexeme
    split
    · rename_i ds heq
      simp only [List.cons.injEq] at heq
      exact absurd heq.1 hminus
    · simp only [List.isEmpty_cons, Bool.not_false, Bool.true_and]
      exact hall

theorem formatBool_lexeme (b : Bool) : formatBoolGo b = "true".toList ∨ formatBoolGo b = "false".toList := by
  cases b <;> simp [formatBoolGo]

/-- arrays: every element the client writes is an integer lexeme -/
theorem formatInts_lexemes (vs : List Int) : (vs.map formatIntGo).all isIntegerLexeme = true := by
  induction vs with
  | nil => rfl
  | cons v t ih => simp only [List.map_cons, List.all_cons, formatInt_lexeme, ih, Bool.and_self]

example : isIntegerLexeme (formatIntGo (-9223372036854775808)) = true := by decide
example : isIntegerLexeme " 42".toList = false := by decide
example : isIntegerLexeme "+5".toList = false := by decide

end Goag.Prim
