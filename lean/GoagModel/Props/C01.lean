import GoagModel.Naming
/-
  C01 — the part of "successful generation yields a compilable package" a Lean model can
  carry here: identifier derivation.  Full type-checking of emitted code is NOT modelled
  (no formal Go type system); it is decided per generated package by the Go compiler in the
  check (see DESIGN.md §4.1 for what that leaves unproved).
-/
namespace Goag.Naming


def AlnumStr (w : Str) : Prop := ∀ c ∈ w, c.isAlphanum = true

theorem isAlpha_alnum {c : Char} (h : c.isAlpha = true) : c.isAlphanum = true := by
  simp [Char.isAlphanum, h]

theorem isDigit_alnum {c : Char} (h : c.isDigit = true) : c.isAlphanum = true := by
  simp [Char.isAlphanum, h]

theorem words_alnum (s : Str) (cur : Option Str) (hc : ∀ w, cur = some w → AlnumStr w) :
    ∀ w ∈ words s cur, AlnumStr w := by
  induction s generalizing cur with
  | nil =>
    intro w hw
    cases cur with
    | none => simp [words] at hw
    | some cw =>
      simp only [words, List.mem_singleton] at hw
      subst hw
      intro c hcm
      exact hc cw rfl c (by simpa using hcm)
  | cons c cs ih =>
    intro w hw
    unfold words at hw
    simp only at hw
    split at hw
    · rename_i hsplit
      simp only [List.mem_append] at hw
      rcases hw with hw | hw
      · cases cur with
        | none => simp at hw
        | some cw =>
          simp only [List.mem_singleton] at hw
          subst hw
          intro c' hcm
          exact hc cw rfl c' (by simpa using hcm)
      · split at hw
        · rename_i hstart
          apply ih (some [c]) _ w hw
          intro w' hw'
          simp only [Option.some.injEq] at hw'
          subst hw'
          intro c' hc'
          simp only [List.mem_singleton] at hc'
          subst hc'
          simp only [Bool.or_eq_true, Bool.and_eq_true] at hstart
          rcases hstart with h | ⟨_, h⟩
          · exact isAlpha_alnum h
          · exact isDigit_alnum h
        · exact ih none (by intro w' hw'; simp at hw') w hw
    · rename_i hsplit
      have hl : isLetter c = true := by
        simp only [Bool.or_eq_true, Bool.not_eq_true', not_or, Bool.not_eq_false] at hsplit
        simpa using hsplit.1
      cases cur with
      | none =>
        simp only at hw
        apply ih (some [c]) _ w hw
        intro w' hw'
        simp only [Option.some.injEq] at hw'
        subst hw'
        intro c' hc'
        simp only [List.mem_singleton] at hc'
        subst hc'
        exact isAlpha_alnum hl
      | some cw =>
        simp only at hw
        apply ih (some (c :: cw)) _ w hw
        intro w' hw'
        simp only [Option.some.injEq] at hw'
        subst hw'
        intro c' hc'
        simp only [List.mem_cons] at hc'
        rcases hc' with rfl | hc'
        · exact isAlpha_alnum hl
        · exact hc cw rfl c' hc'



theorem ascii_upper_alnum : ∀ n : Fin 128, (Char.ofNat n.val).isAlpha = true → (Char.ofNat n.val).toUpper.isAlphanum = true := by
  decide

theorem toUpper_alnum (c : Char) (ha : c.toNat < 128) (hl : c.isAlpha = true) : c.toUpper.isAlphanum = true := by
  have := ascii_upper_alnum ⟨c.toNat, ha⟩
  simp only [Char.ofNat_toNat] at this
  exact this hl

theorem publicWord_alnum (w : Str) (ha : ∀ c ∈ w, c.toNat < 128) (h : AlnumStr w) : AlnumStr (publicWord w) := by
  unfold publicWord
  split
  · intro c hc; simp at hc; rcases hc with rfl | rfl <;> decide
  · split
    · intro c hc; simp at hc; rcases hc with rfl | rfl | rfl <;> decide
    · cases w with
      | nil => intro c hc; simp at hc
      | cons c cs =>
        intro c' hc'
        simp only [List.mem_cons] at hc'
        rcases hc' with rfl | hc'
        · split
          · rename_i hl; exact toUpper_alnum c (ha c (by simp)) hl
          · exact h c (by simp)
        · exact h c' (by simp [hc'])

theorem words_ascii (s : Str) (cur : Option Str) (hs : ∀ c ∈ s, c.toNat < 128) (hc : ∀ w, cur = some w → ∀ c ∈ w, c.toNat < 128) :
    ∀ w ∈ words s cur, ∀ c ∈ w, c.toNat < 128 := by
  induction s generalizing cur with
  | nil =>
    intro w hw
    cases cur with
    | none => simp [words] at hw
    | some cw =>
      simp only [words, List.mem_singleton] at hw
      subst hw
      intro c hcm
      exact hc cw rfl c (by simpa using hcm)
  | cons c cs ih =>
    have hcs : ∀ c' ∈ cs, c'.toNat < 128 := fun c' h => hs c' (by simp [h])
    have hc0 : c.toNat < 128 := hs c (by simp)
    intro w hw
    unfold words at hw
    simp only at hw
    split at hw
    · simp only [List.mem_append] at hw
      rcases hw with hw | hw
      · cases cur with
        | none => simp at hw
        | some cw =>
          simp only [List.mem_singleton] at hw
          subst hw
          intro c' hcm
          exact hc cw rfl c' (by simpa using hcm)
      · split at hw
        · apply ih (some [c]) hcs _ w hw
          intro w' hw'
          simp only [Option.some.injEq] at hw'
          subst hw'
          intro c' hc'
          simp only [List.mem_singleton] at hc'
          subst hc'; exact hc0
        · exact ih none hcs (by intro w' hw'; simp at hw') w hw
    · cases cur with
      | none =>
        simp only at hw
        apply ih (some [c]) hcs _ w hw
        intro w' hw'
        simp only [Option.some.injEq] at hw'
        subst hw'
        intro c' hc'
        simp only [List.mem_singleton] at hc'
        subst hc'; exact hc0
      | some cw =>
        simp only at hw
        apply ih (some (c :: cw)) hcs _ w hw
        intro w' hw'
        simp only [Option.some.injEq] at hw'
        subst hw'
        intro c' hc'
        simp only [List.mem_cons] at hc'
        rcases hc' with rfl | hc'
        · exact hc0
        · exact hc cw rfl c' hc'

/-- **C01 (identifier derivation)**: for every ASCII name, `PublicFieldName` yields only
    letters and digits — whatever punctuation, digits or case pattern the OpenAPI name has, the
    derived Go field / type name cannot break out of an identifier -/
theorem publicFieldName_alnum (s : Str) (hs : ∀ c ∈ s, c.toNat < 128) :
    ∀ c ∈ publicFieldName s, c.isAlphanum = true := by
  intro c hc
  unfold publicFieldName at hc
  simp only [List.mem_flatten, List.mem_map] at hc
  obtain ⟨l, ⟨w, hw, rfl⟩, hcl⟩ := hc
  have h1 := words_alnum s none (by intro w' h; simp at h) w hw
  have h2 := words_ascii s none hs (by intro w' h; simp at h) w hw
  exact publicWord_alnum w h2 h1 c hcl

/-- the two derivations used for one header parameter (handler: `Title`, client:
    `PublicFieldName`) disagree on `X-Request-Uuid`: the generated client does not compile
    (recorded finding KF-C01-headerFieldName) -/
theorem handler_client_field_disagree :
    title "X-Request-Uuid".toList ≠ publicFieldName "X-Request-Uuid".toList := by
  decide

example : publicFieldName "user_id".toList = "UserID".toList := by decide
example : title "x-request-id".toList = "XRequestID".toList := by decide


end Goag.Naming
