import GoagModel.Resp
/-
  C10 (second sentence) — what the generated client's status switch does with a status code.
  `Resp.clientArm` is the model of `switch resp.StatusCode` in the emitted `Client.<Op>`
  (one case per numbered status, then the default arm); it is tied to the generated client on
  every run by injecting 11 status codes per operation through a stub transport
  (`clientstatus` in the `respf` facet).  For every list of documented numbered statuses, every
  status code and both settings of "has a default response":
-/
namespace Goag.Resp

/-- a documented arm is only ever chosen for its own status code, and that code is documented -/
theorem documented_arm_exact (numbered : List Nat) (hasDef : Bool) (st s : Nat)
    (h : clientArm numbered hasDef st = .documented s) : s = st ∧ st ∈ numbered := by
  unfold clientArm at h
  by_cases hc : st ∈ numbered
  · simp [hc] at h
    exact ⟨h.symm, hc⟩
  · cases hasDef <;> simp [hc] at h

/-- every documented numbered status reaches its own arm -/
theorem documented_reaches_arm (numbered : List Nat) (hasDef : Bool) (st : Nat) (h : st ∈ numbered) :
    clientArm numbered hasDef st = .documented st := by
  simp [clientArm, h]

/-- an undocumented status is delivered through `default` when one is declared … -/
theorem undocumented_to_default (numbered : List Nat) (st : Nat) (h : st ∉ numbered) :
    clientArm numbered true st = .default := by
  simp [clientArm, h]

/-- … and as an error otherwise — never as a wrong documented response -/
theorem undocumented_is_error (numbered : List Nat) (st : Nat) (h : st ∉ numbered) :
    clientArm numbered false st = .notImplemented := by
  simp [clientArm, h]

example : clientArm [200, 404] true 418 = .default ∧ clientArm [200, 404] false 418 = .notImplemented ∧
    clientArm [200, 404] true 404 = .documented 404 := by decide

end Goag.Resp
