import GoagModel.Props.C07
/-
  C18 — the part of "a $ref behaves like the component it points to" that the JSON codec model
  can carry: inside an allOf, a member given by reference becomes an EMBEDDED struct in the
  generated Go type, while its inline copy is FLATTENED into the composite's own fields. The two
  generated types differ; what goes over the wire must not. For every member schema (an object
  without additionalProperties), every list of further members and every value:

  * `allOf_ref_encodes_like_inline`: the embedded form `obj fs :: vs` and the flattened form
    `fs ++ vs` encode to the same JSON members;
  * `allOf_ref_decodes_like_inline`: every document decodes under both forms or under neither,
    with the same error, the same left-over keys, and values that correspond by flattening.
  (An embedded member WITH additionalProperties is the recorded finding KF-C06-embeddedAddl.)
  The rest of C18 relates two outputs of the whole generator and is validated by the reference /
  inline corpus, not proved.
-/
namespace Goag.JsonM

/-- the property writer consumes exactly one value per declared property -/
theorem toJFields_append (fields : List (String × Bool × Schema)) (fs vs : List Val)
    (hlen : fs.length = fields.length) :
    toJFields fields (fs ++ vs) =
      (match toJFields fields fs with
       | .ok (ms, _) => .ok (ms, vs)
       | .error e => .error e) := by
  induction fields generalizing fs with
  | nil =>
    cases fs with
    | nil => simp [toJFields]
    | cons a t => simp at hlen
  | cons f rest ih =>
    obtain ⟨name, req, s⟩ := f
    cases fs with
    | nil => simp at hlen
    | cons v vt =>
      have hl : vt.length = rest.length := by simpa using hlen
      simp only [List.cons_append]
      by_cases hv : v = .unset
      · subst hv
        rw [toJFields_cons_unset, toJFields_cons_unset]
        by_cases hreq : req = true
        · simp [hreq]
        · simp only [hreq, Bool.false_eq_true, if_false]
          exact ih vt hl
      · rw [toJFields_cons_set _ _ _ _ _ _ hv, toJFields_cons_set _ _ _ _ _ _ hv, ih vt hl]
        cases toJ s v with
        | error e => cases toJFields rest vt <;> simp
        | ok j =>
          cases toJFields rest vt with
          | error e => simp
          | ok p => obtain ⟨pm, pr⟩ := p; simp

theorem toJFields_rest_nil (fields : List (String × Bool × Schema)) (fs : List Val) (ms : List (String × J))
    (rest : List Val) (hlen : fs.length = fields.length) (h : toJFields fields fs = .ok (ms, rest)) : rest = [] := by
  have := toJFields_append fields fs [] hlen
  simp only [List.append_nil, h] at this
  simpa using this

/-- **encode.** -/
theorem allOf_ref_encodes_like_inline (fields : List (String × Bool × Schema)) (nl : Bool)
    (ms : List (Bool × Schema)) (fs vs : List Val) (hlen : fs.length = fields.length) :
    toJMembers ((true, .obj fields none nl) :: ms) (Val.obj fs none :: vs) =
      toJMembers ((false, .obj fields none nl) :: ms) (fs ++ vs) := by
  simp only [toJMembers, toJ]
  rw [toJFields_append fields fs vs hlen]
  cases hf : toJFields fields fs with
  | error e => simp
  | ok p =>
    obtain ⟨pm, pr⟩ := p
    have hnil := toJFields_rest_nil fields fs pm pr hlen hf
    subst hnil
    simp only [List.isEmpty_nil, Bool.not_true, Bool.false_eq_true, if_false]
    cases toJMembers ms vs <;> simp

/-- **decode.** -/
theorem allOf_ref_decodes_like_inline (tbl : LeafDec) (fields : List (String × Bool × Schema)) (nl : Bool)
    (ms : List (Bool × Schema)) (doc : List (String × J)) :
    (decodeMembers tbl ((false, .obj fields none nl) :: ms) doc) =
      (match decodeFields tbl fields doc with
       | .error e => .error e
       | .ok (vs, rest) => match decodeMembers tbl ms rest with
         | .error e => .error e
         | .ok (more, left) => .ok (vs ++ more, left)) ∧
    (decodeMembers tbl ((true, .obj fields none nl) :: ms) doc) =
      (match decodeFields tbl fields doc with
       | .error e => .error e
       | .ok (vs, rest) => match decodeMembers tbl ms rest with
         | .error e => .error e
         | .ok (more, left) => .ok (Val.obj vs none :: more, left)) := by
  constructor
  · simp only [decodeMembers]
    cases decodeFields tbl fields doc with
    | error e => rfl
    | ok p =>
      obtain ⟨vs, rest⟩ := p
      simp only
      cases decodeMembers tbl ms rest with
      | error e => rfl
      | ok q => obtain ⟨more, left⟩ := q; rfl
  · simp only [decodeMembers]
    cases decodeFields tbl fields doc with
    | error e => rfl
    | ok p =>
      obtain ⟨vs, rest⟩ := p
      simp only
      cases decodeMembers tbl ms rest with
      | error e => rfl
      | ok q => obtain ⟨more, left⟩ := q; rfl

end Goag.JsonM
