import GoagModel.JsonModel
namespace Goag.JsonM
end Goag.JsonM
