import GoagModel.C12Known
/-
  C12 — generation is deterministic.

  A Go `range` over a map visits the entries in an order chosen by the runtime on every
  execution: it is modelled as an arbitrary permutation of the entry list.  The lemmas below
  say why each reviewed *shape* of site (see C12Known) yields the same result for every
  permutation; the regenerated obligation `allClassified sites = true` (checked against the
  table extracted from the current source on every run) says that every site of the current
  tree has one of these shapes.
-/
namespace Goag.C12

/-- **collectThenSort**: two iteration orders of the same map (permutations of one another)
    give the same list once sorted, for any total, transitive, antisymmetric order -/
theorem sorted_perm_eq {α : Type} (le : α → α → Bool)
    (total : ∀ a b, le a b = true ∨ le b a = true)
    (trans : ∀ a b c, le a b = true → le b c = true → le a c = true)
    (antisymm : ∀ a b, le a b = true → le b a = true → a = b)
    (l₁ l₂ : List α) (h : l₁.Perm l₂) : l₁.mergeSort le = l₂.mergeSort le := by
  have hp : (l₁.mergeSort le).Perm (l₂.mergeSort le) :=
    ((List.mergeSort_perm l₁ le).trans h).trans (List.mergeSort_perm l₂ le).symm
  have s₁ := List.pairwise_mergeSort (le := le) (fun a b c => trans a b c) (fun a b => by
    rcases total a b with h | h <;> simp [h]) l₁
  have s₂ := List.pairwise_mergeSort (le := le) (fun a b c => trans a b c) (fun a b => by
    rcases total a b with h | h <;> simp [h]) l₂
  exact List.Perm.eq_of_pairwise (fun a b _ _ hab hba => antisymm a b hab hba) s₁ s₂ hp

/-- association-list model of a Go map built by `m'[k] = v` statements -/
def insertAll {κ ν : Type} [DecidableEq κ] (l : List (κ × ν)) (m : κ → Option ν) : κ → Option ν :=
  l.foldl (fun acc kv => fun k => if k = kv.1 then some kv.2 else acc k) m

theorem insertAll_lookup {κ ν : Type} [DecidableEq κ] (l : List (κ × ν)) (hd : (l.map Prod.fst).Nodup)
    (m : κ → Option ν) (k : κ) :
    insertAll l m k = match l.find? (fun kv => kv.1 = k) with | some kv => some kv.2 | none => m k := by
  induction l generalizing m with
  | nil => rfl
  | cons kv tl ih =>
    simp only [List.map_cons, List.nodup_cons] at hd
    unfold insertAll
    simp only [List.foldl_cons]
    have := ih hd.2 (fun k => if k = kv.1 then some kv.2 else m k)
    unfold insertAll at this
    rw [this]
    by_cases hk : kv.1 = k
    · subst hk
      have hnone : tl.find? (fun kv' => kv'.1 = kv.1) = none := by
        apply List.find?_eq_none.mpr
        intro x hx hx1
        have : x.1 ∈ tl.map Prod.fst := List.mem_map_of_mem (f := Prod.fst) hx
        simp only [decide_eq_true_eq] at hx1
        rw [hx1] at this
        exact hd.1 this
      simp [hnone, List.find?_cons]
    · have hk' : ¬ k = kv.1 := fun h => hk h.symm
      simp [List.find?_cons, hk, hk']

/-- **insertDistinct**: storing the entries of a map (distinct keys) into another map gives
    the same map whatever the iteration order -/
theorem insertDistinct_perm {κ ν : Type} [DecidableEq κ] (l₁ l₂ : List (κ × ν)) (h : l₁.Perm l₂)
    (hd : (l₁.map Prod.fst).Nodup) (m : κ → Option ν) (k : κ) :
    insertAll l₁ m k = insertAll l₂ m k := by
  have hd₂ : (l₂.map Prod.fst).Nodup := (h.map Prod.fst).nodup_iff.mp hd
  rw [insertAll_lookup l₁ hd, insertAll_lookup l₂ hd₂]
  -- with distinct keys, `find?` by key does not depend on the order
  have key : ∀ (l : List (κ × ν)), (l.map Prod.fst).Nodup → ∀ kv ∈ l, kv.1 = k → l.find? (fun kv => kv.1 = k) = some kv := by
    intro l
    induction l with
    | nil => intro _ kv hkv; simp at hkv
    | cons x tl ih =>
      intro hdl kv hkv hk
      simp only [List.map_cons, List.nodup_cons] at hdl
      simp only [List.mem_cons] at hkv
      rcases hkv with rfl | hkv
      · simp [List.find?_cons, hk]
      · have hx : ¬ x.1 = k := by
          intro hxk
          have : kv.1 ∈ tl.map Prod.fst := List.mem_map_of_mem (f := Prod.fst) hkv
          rw [hk, ← hxk] at this
          exact hdl.1 this
        simp only [List.find?_cons, hx, decide_false]
        exact ih hdl.2 kv hkv hk
  cases h1 : l₁.find? (fun kv => kv.1 = k) with
  | none =>
    have : l₂.find? (fun kv => kv.1 = k) = none := by
      apply List.find?_eq_none.mpr
      intro x hx
      exact List.find?_eq_none.mp h1 x (h.symm.subset hx)
    simp [this]
  | some kv =>
    have hm := List.mem_of_find?_eq_some h1
    have hp := List.find?_some h1
    simp only [decide_eq_true_eq] at hp
    rw [key l₂ hd₂ kv (h.subset hm) hp]

/-- first-wins iteration (the pre-repair `NewSecurityRequirements`) is order-insensitive only
    for maps with at most one entry: the reason the three sites were repaired (3f5feec) -/
theorem firstWins_sensitive : ∃ (l₁ l₂ : List Nat), l₁.Perm l₂ ∧ l₁.head? ≠ l₂.head? :=
  ⟨[1, 2], [2, 1], by decide, by decide⟩

/-- the table of the pinned (repaired) tree is classified — the same obligation is re-checked
    against the table regenerated from the current source on every run -/
theorem pinned_sites_classified : allClassified [
    ⟨"goag/generator", "ExecuteTemplate", "env", "os.Getenv(\"TEMPLATE_DEBUG\")", "4d33dca4ce56"⟩,
    ⟨"goag/specification", "GetSecurity", "range-unreferenced", "sr", "149c78b2df6e"⟩,
    ⟨"goag/specification", "NewComponents", "range", "spec.Parameters", "1e65b1ef2112"⟩,
    ⟨"goag/specification", "NewMapPrefix", "mapsKeys-sorted", "maps.Keys(m)", "f9bd515d4599"⟩,
    ⟨"goag/specification", "NewSchema", "range", "required", "aa006bc2f221"⟩,
    ⟨"goag/specification", "NewSchema", "range", "schema.ExtensionProps.Extensions", "9690d7b88366"⟩,
    ⟨"goag/specification", "sortedKeys", "range-collect-sorted", "m", "56a2a16952c0"⟩,
    ⟨"goag", "Generator.Generate", "range-collect-sorted", "s.Variables", "20d05a1c78c5"⟩] = true := by decide

/-- a new, unreviewed `range` over a map is NOT accepted (the obligation fails closed) -/
example : allClassified [⟨"goag/generator", "NewRouter", "range", "headersMap", "000000000000"⟩] = false := by decide

end Goag.C12
