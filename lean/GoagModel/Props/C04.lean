import GoagModel.Ref
/-
  C04 — parameter parsing rejects exactly the malformed requests, never invents values.

  `Serve.parseBlock` is the model of the query / header block of the emitted `new<Op>Params`
  (tied to the generated code by the `route -params` facet, which compares it with the real
  `Parse()` on every generated request). `Ref.malformed` / `Ref.specValue` are the property's
  own words: required-and-absent, scalar-supplied-more-than-once, value outside the lexical
  space; the typed value of the supplied text; unset for an absent optional parameter.

  The theorems are for an arbitrary leaf table (the Go library's float / time parsers are a
  parameter), arbitrary parameter lists and arbitrary supplied values.
-/
namespace Goag.Serve
open Goag.Spec Goag.Ref

/-! ### element-wise parsing of an array parameter -/

theorem mapM_some_iff (f : String → Option String) (l : List String) :
    (∃ ds, l.mapM f = some ds) ↔ ∀ v ∈ l, (f v).isSome = true := by
  induction l with
  | nil => simp
  | cons a t ih =>
    simp only [List.mapM_cons, List.mem_cons, forall_eq_or_imp]
    cases h : f a with
    | none => simp
    | some b =>
      simp only [Option.isSome_some, true_and]
      rw [← ih]
      constructor
      · rintro ⟨ds, hds⟩
        cases ht : t.mapM f with
        | none => simp [ht] at hds
        | some bs => exact ⟨bs, rfl⟩
      · rintro ⟨bs, hbs⟩
        exact ⟨b :: bs, by simp [hbs]⟩

theorem mapM_some_values (f : String → Option String) (l : List String) (ds : List String)
    (h : l.mapM f = some ds) : ds = l.map (fun v => (f v).getD "?") := by
  induction l generalizing ds with
  | nil => simp at h; simp [h]
  | cons a t ih =>
    simp only [List.mapM_cons] at h
    cases ha : f a with
    | none => simp [ha] at h
    | some b =>
      cases ht : t.mapM f with
      | none => simp [ha, ht] at h
      | some bs =>
        simp [ha, ht] at h
        subst h
        simp [ha, ih bs ht]

/-! ### one parameter -/

/-- on a non-empty value list the composed parser succeeds iff the parameter is not malformed -/
theorem parseValues_ok_iff (leaf : LeafTable) (p : Param) (vs : List String) (hne : vs ≠ []) :
    (∃ d, parseValues leaf p vs = .ok d) ↔ malformed leaf p vs = [] := by
  unfold parseValues malformed
  have hreq : (if (p.required && vs.isEmpty) = true then ["required"] else []) = ([] : List String) := by
    cases vs with
    | nil => exact absurd rfl hne
    | cons a t => simp
  rw [hreq]
  by_cases harr : p.isArray = true
  · simp only [harr, if_true, Bool.not_true, Bool.false_and, List.nil_append]
    have hm := mapM_some_iff (fun v => pvalue leaf p.type v) vs
    cases hmm : vs.mapM (fun v => pvalue leaf p.type v) with
    | some ds =>
      have := hm.mp ⟨ds, hmm⟩
      simp only [Bool.false_eq_true, if_false, List.nil_append]
      constructor
      · intro _
        have hany : vs.any (fun v => (pvalue leaf p.type v).isNone) = false := by
          rw [List.any_eq_false]
          intro v hv
          have := this v hv
          cases hp : pvalue leaf p.type v <;> simp_all
        simp [hany]
      · intro _; exact ⟨_, rfl⟩
    | none =>
      simp only [Bool.false_eq_true, if_false, List.nil_append]
      constructor
      · rintro ⟨d, hd⟩; cases hd
      · intro hnil
        exfalso
        have hall : ∀ v ∈ vs, (pvalue leaf p.type v).isSome = true := by
          intro v hv
          by_cases hs : (pvalue leaf p.type v).isSome = true
          · exact hs
          · have : vs.any (fun v => (pvalue leaf p.type v).isNone) = true := by
              rw [List.any_eq_true]
              refine ⟨v, hv, ?_⟩
              cases hp : pvalue leaf p.type v <;> simp_all
            simp [this] at hnil
        obtain ⟨ds, hds⟩ := hm.mpr hall
        rw [hmm] at hds
        cases hds
  · have harr' : p.isArray = false := by cases h : p.isArray <;> simp_all
    simp only [harr', Bool.false_eq_true, if_false, Bool.not_false, Bool.true_and, List.nil_append]
    match vs, hne with
    | [v], _ =>
      cases hp : pvalue leaf p.type v with
      | some d => simp [hp]
      | none => simp [hp]
    | a :: b :: t, _ =>
      simp

/-- on success the value is the typed value of the supplied text(s) -/
theorem parseValues_value (leaf : LeafTable) (p : Param) (vs : List String) (d : String)
    (hne : vs ≠ []) (h : parseValues leaf p vs = .ok d) : d = specValue leaf p vs := by
  unfold parseValues at h
  unfold specValue
  have hemp : vs.isEmpty = false := by cases vs <;> simp_all
  simp only [hemp, Bool.false_eq_true, if_false]
  by_cases harr : p.isArray = true
  · simp only [harr, if_true] at h ⊢
    cases hmm : vs.mapM (fun v => pvalue leaf p.type v) with
    | none => simp [hmm] at h
    | some ds =>
      simp [hmm] at h
      rw [← h, mapM_some_values _ _ _ hmm]
  · have harr' : p.isArray = false := by cases h : p.isArray <;> simp_all
    simp only [harr', Bool.false_eq_true, if_false] at h ⊢
    match vs, hne with
    | [v], _ =>
      cases hp : pvalue leaf p.type v with
      | none => simp [hp] at h
      | some d' => simp [hp] at h; simp [hp, h]
    | a :: b :: t, _ => simp at h

/-- a failure names the parameter and a fault that really applies to it -/
theorem parseValues_error (leaf : LeafTable) (p : Param) (vs : List String) (e : PErr)
    (h : parseValues leaf p vs = .error e) :
    ∃ kind, e = .param p.loc p.name kind ∧ (vs ≠ [] → kind ∈ malformed leaf p vs) := by
  unfold parseValues at h
  by_cases harr : p.isArray = true
  · simp only [harr, if_true] at h
    cases hmm : vs.mapM (fun v => pvalue leaf p.type v) with
    | some ds => simp [hmm] at h
    | none =>
      simp [hmm] at h
      refine ⟨"lexical", h.symm, ?_⟩
      intro _
      unfold malformed
      have hany : vs.any (fun v => (pvalue leaf p.type v).isNone) = true := by
        by_cases hs : vs.any (fun v => (pvalue leaf p.type v).isNone) = true
        · exact hs
        · exfalso
          have hall : ∀ v ∈ vs, (pvalue leaf p.type v).isSome = true := by
            intro v hv
            cases hp : pvalue leaf p.type v with
            | some _ => rfl
            | none =>
              exfalso; apply hs
              rw [List.any_eq_true]
              exact ⟨v, hv, by simp [hp]⟩
          obtain ⟨ds, hds⟩ := (mapM_some_iff _ _).mpr hall
          rw [hmm] at hds; cases hds
      simp [hany]
  · have harr' : p.isArray = false := by cases h : p.isArray <;> simp_all
    simp only [harr', Bool.false_eq_true, if_false] at h
    match vs with
    | [] =>
      simp at h
      exact ⟨"multiple", h.symm, fun hn => absurd rfl hn⟩
    | [v] =>
      cases hp : pvalue leaf p.type v with
      | some d => simp [hp] at h
      | none =>
        simp [hp] at h
        refine ⟨"lexical", h.symm, fun _ => ?_⟩
        unfold malformed
        simp [hp]
    | a :: b :: t =>
      simp at h
      refine ⟨"multiple", h.symm, fun _ => ?_⟩
      unfold malformed
      simp [harr']

/-! ### the whole block -/

/-- **C04, "if and only if".** The block succeeds exactly when no declared parameter is
    malformed in the request. -/
theorem parseBlock_ok_iff (leaf : LeafTable) (values : Param → List String) (ps : List Param) :
    (∃ ds, parseBlock leaf values ps = .ok ds) ↔ ∀ p ∈ ps, malformed leaf p (values p) = [] := by
  induction ps with
  | nil => simp [parseBlock]
  | cons p ps ih =>
    simp only [List.mem_cons, forall_eq_or_imp]
    unfold parseBlock
    by_cases hemp : (values p).isEmpty = true
    · have hnil : values p = [] := by cases h : values p <;> simp_all
      simp only [hemp, if_true]
      by_cases hreq : p.required = true
      · simp only [hreq, if_true]
        constructor
        · rintro ⟨ds, hds⟩; cases hds
        · rintro ⟨hm, _⟩
          unfold malformed at hm
          simp [hreq, hnil] at hm
      · have hreq' : p.required = false := by cases h : p.required <;> simp_all
        have hmal : malformed leaf p (values p) = [] := by
          unfold malformed; simp [hreq', hnil]
        simp only [hreq', Bool.false_eq_true, if_false, hmal, true_and]
        rw [← ih]
        constructor
        · rintro ⟨ds, hds⟩
          cases hb : parseBlock leaf values ps with
          | error e => simp [hb] at hds
          | ok ds' => exact ⟨ds', rfl⟩
        · rintro ⟨ds', hb⟩
          exact ⟨"-" :: ds', by simp [hb]⟩
    · have hemp' : (values p).isEmpty = false := by cases h : (values p).isEmpty <;> simp_all
      have hne : values p ≠ [] := by intro h; simp [h] at hemp'
      simp only [hemp', Bool.false_eq_true, if_false]
      rw [← parseValues_ok_iff leaf p (values p) hne, ← ih]
      constructor
      · rintro ⟨ds, hds⟩
        cases hv : parseValues leaf p (values p) with
        | error e => simp [hv] at hds
        | ok d =>
          cases hb : parseBlock leaf values ps with
          | error e => simp [hv, hb] at hds
          | ok ds' => exact ⟨⟨d, rfl⟩, ⟨ds', rfl⟩⟩
      · rintro ⟨⟨d, hv⟩, ⟨ds', hb⟩⟩
        exact ⟨d :: ds', by simp [hv, hb]⟩

/-- **C04, "never invents values".** On success every field holds the typed value of the
    supplied text and every absent optional parameter is unset. -/
theorem parseBlock_values (leaf : LeafTable) (values : Param → List String) (ps : List Param)
    (ds : List String) (h : parseBlock leaf values ps = .ok ds) :
    ds = ps.map (fun p => specValue leaf p (values p)) := by
  induction ps generalizing ds with
  | nil => simp [parseBlock] at h; simp [h]
  | cons p ps ih =>
    unfold parseBlock at h
    by_cases hemp : (values p).isEmpty = true
    · have hnil : values p = [] := by cases h : values p <;> simp_all
      simp only [hemp, if_true] at h
      by_cases hreq : p.required = true
      · simp [hreq] at h
      · have hreq' : p.required = false := by cases h : p.required <;> simp_all
        simp only [hreq', Bool.false_eq_true, if_false] at h
        cases hb : parseBlock leaf values ps with
        | error e => simp [hb] at h
        | ok ds' =>
          simp [hb] at h
          subst h
          simp [ih ds' hb, specValue, hnil]
    · have hemp' : (values p).isEmpty = false := by cases h : (values p).isEmpty <;> simp_all
      have hne : values p ≠ [] := by intro h; simp [h] at hemp'
      simp only [hemp', Bool.false_eq_true, if_false] at h
      cases hv : parseValues leaf p (values p) with
      | error e => simp [hv] at h
      | ok d =>
        cases hb : parseBlock leaf values ps with
        | error e => simp [hv, hb] at h
        | ok ds' =>
          simp [hv, hb] at h
          subst h
          simp [ih ds' hb, parseValues_value leaf p (values p) d hne hv]

/-- **C04, "the error identifies the parameter".** A failure names a declared parameter, with a
    fault kind that really applies to it. -/
theorem parseBlock_error (leaf : LeafTable) (values : Param → List String) (ps : List Param)
    (e : PErr) (h : parseBlock leaf values ps = .error e) :
    ∃ p ∈ ps, ∃ kind, e = .param p.loc p.name kind ∧ kind ∈ malformed leaf p (values p) := by
  induction ps with
  | nil => simp [parseBlock] at h
  | cons p ps ih =>
    unfold parseBlock at h
    by_cases hemp : (values p).isEmpty = true
    · have hnil : values p = [] := by cases h : values p <;> simp_all
      simp only [hemp, if_true] at h
      by_cases hreq : p.required = true
      · simp [hreq] at h
        exact ⟨p, List.mem_cons_self, "required", h.symm, by unfold malformed; simp [hreq, hnil]⟩
      · have hreq' : p.required = false := by cases h : p.required <;> simp_all
        simp only [hreq', Bool.false_eq_true, if_false] at h
        cases hb : parseBlock leaf values ps with
        | ok ds' => simp [hb] at h
        | error e' =>
          simp [hb] at h
          subst h
          obtain ⟨q, hq, k, hk⟩ := ih hb
          exact ⟨q, List.mem_cons_of_mem _ hq, k, hk⟩
    · have hemp' : (values p).isEmpty = false := by cases h : (values p).isEmpty <;> simp_all
      have hne : values p ≠ [] := by intro h; simp [h] at hemp'
      simp only [hemp', Bool.false_eq_true, if_false] at h
      cases hv : parseValues leaf p (values p) with
      | error e' =>
        simp [hv] at h
        subst h
        obtain ⟨k, hk, hin⟩ := parseValues_error leaf p (values p) e' hv
        exact ⟨p, List.mem_cons_self, k, hk, hin hne⟩
      | ok d =>
        cases hb : parseBlock leaf values ps with
        | ok ds' => simp [hv, hb] at h
        | error e' =>
          simp [hv, hb] at h
          subst h
          obtain ⟨q, hq, k, hk⟩ := ih hb
          exact ⟨q, List.mem_cons_of_mem _ hq, k, hk⟩

/-- outcome of the block as plain strings (for the concrete examples below) -/
def blockOutcome (r : Except PErr (List String)) : List String :=
  match r with
  | .ok ds => "ok" :: ds
  | .error (.param loc name kind) => ["err", loc, name, kind]
  | .error .wrongPath => ["wrong-path"]

/-- Non-vacuity: a request with one good and one bad parameter. -/
example :
    let ps : List Param := [{ loc := "query", name := "n", required := true, type := .int },
                            { loc := "query", name := "b", required := false, type := .bool }]
    blockOutcome (parseBlock [] (fun p => if p.name == "n" then ["42"] else []) ps) = ["ok", "i:42", "-"] ∧
    blockOutcome (parseBlock [] (fun p => if p.name == "n" then ["42", "43"] else []) ps) = ["err", "query", "n", "multiple"] ∧
    blockOutcome (parseBlock [] (fun p => if p.name == "n" then ["4x"] else []) ps) = ["err", "query", "n", "lexical"] ∧
    blockOutcome (parseBlock [] (fun _ => []) ps) = ["err", "query", "n", "required"] := by
  refine ⟨?_, ?_, ?_, ?_⟩ <;> decide

end Goag.Serve
