import GoagModel.Ref
namespace Goag.Serve
end Goag.Serve
