import GoagModel.JsonWriter
import GoagModel.Props.C07
/-
  C06 (and the validity half of C07) — the object writer emitted by goag produces a
  well-formed JSON object body for EVERY value: whatever subset of optional properties is
  set, wherever embedded allOf members sit and whatever they write.
-/
namespace Goag.JsonM

theorem render_append_one (acc : List (String × J)) (k : String) (j : J) :
    render (acc ++ [(k, j)]) = render acc ++ sep (!acc.isEmpty) ++ [Tok.member k j] := by
  induction acc with
  | nil => simp [render, sep]
  | cons x tl ih =>
    obtain ⟨k', j'⟩ := x
    cases tl with
    | nil => simp [render, sep]
    | cons y tl' =>
      obtain ⟨k2, j2⟩ := y
      simp only [List.cons_append, render] at ih ⊢
      rw [ih]
      simp [sep]

theorem render_append (acc more : List (String × J)) (hne : more ≠ []) :
    render (acc ++ more) = render acc ++ sep (!acc.isEmpty) ++ render more := by
  induction acc with
  | nil => simp [render, sep]
  | cons x tl ih =>
    obtain ⟨k', j'⟩ := x
    cases tl with
    | nil =>
      cases more with
      | nil => exact absurd rfl hne
      | cons m ms => obtain ⟨k2, j2⟩ := m; simp [render, sep]
    | cons y tl' =>
      obtain ⟨k2, j2⟩ := y
      simp only [List.cons_append, render] at ih ⊢
      rw [ih]
      simp [sep]

theorem render_nil_iff (ms : List (String × J)) : (render ms).isEmpty = ms.isEmpty := by
  match ms with
  | [] => rfl
  | [(k, j)] => rfl
  | (k, j) :: x :: rest => rfl

/-- writer invariant: the output is the well-formed rendering of the members written so far,
    and `comma` is set exactly when something was written -/
def Inv (w : W) (acc : List (String × J)) : Prop := w.out = render acc ∧ w.comma = !acc.isEmpty

theorem writeItems_inv (items : List Item) (w : W) (acc : List (String × J)) (h : Inv w acc) :
    Inv (writeItems items w) (acc ++ flatten items) := by
  fun_induction writeItems items w generalizing acc with
  | case1 w => simpa [flatten] using h
  | case2 k j rest w ih =>
    have : Inv ⟨w.out ++ sep w.comma ++ [Tok.member k j], true⟩ (acc ++ [(k, j)]) := by
      obtain ⟨h1, h2⟩ := h
      refine ⟨?_, by simp⟩
      simp only
      rw [render_append_one, h1, h2]
    have := ih (acc ++ [(k, j)]) this
    simpa [flatten, List.append_assoc] using this
  | case3 rest w ih => simpa [flatten] using ih acc h
  | case4 inner rest w buf hbuf ih_inner ih_rest =>
    have hin := ih_inner [] ⟨rfl, rfl⟩
    simp only [List.nil_append] at hin
    have hflat : flatten inner = [] := by
      have : (render (flatten inner)).isEmpty = true := by rw [← hin.1]; exact hbuf
      rw [render_nil_iff] at this
      simpa using this
    have := ih_rest acc h
    simpa [flatten, hflat] using this
  | case5 inner rest w buf hbuf ih_inner ih_rest =>
    have hin := ih_inner [] ⟨rfl, rfl⟩
    simp only [List.nil_append] at hin
    have hne : flatten inner ≠ [] := by
      intro he
      apply hbuf
      show (writeItems inner W.start).out.isEmpty = true
      rw [hin.1, he]; rfl
    have : Inv ⟨w.out ++ sep w.comma ++ buf, true⟩ (acc ++ flatten inner) := by
      obtain ⟨h1, h2⟩ := h
      refine ⟨?_, by simp [hne]⟩
      show w.out ++ sep w.comma ++ (writeItems inner W.start).out = _
      rw [render_append acc _ hne, h1, h2, hin.1]
    have := ih_rest (acc ++ flatten inner) this
    simpa [flatten, List.append_assoc] using this

theorem parseMore_render (k : String) (j : J) (rest : List (String × J)) :
    parseMore (Tok.comma :: render ((k, j) :: rest)) = some ((k, j) :: rest) := by
  induction rest generalizing k j with
  | nil => simp [render, parseMore]
  | cons x tl ih =>
    obtain ⟨k2, j2⟩ := x
    simp only [render, parseMore]
    rw [ih k2 j2]
    rfl

theorem parseMembers_render (ms : List (String × J)) : parseMembers (render ms) = some ms := by
  match ms with
  | [] => rfl
  | [(k, j)] => simp [render, parseMembers, parseMore]
  | (k, j) :: (k2, j2) :: rest =>
    have := parseMore_render k2 j2 rest
    simp only [render, parseMembers, this]
    rfl


/-- **C06 (valid JSON)**: for every item list (any mix of written properties, unset optional
    properties and embedded allOf members at any nesting depth) the emitted comma discipline
    yields a token sequence that parses as a JSON object body, and its members are exactly
    the members the value denotes, in order -/
theorem encode_members_wellformed (items : List Item) :
    parseMembers (writeItems items W.start).out = some (flatten items) := by
  have h := writeItems_inv items W.start [] ⟨rfl, rfl⟩
  simp only [List.nil_append] at h
  rw [h.1, parseMembers_render]

/-! The writer of the pinned commit (before c37fd27) breaks this in both directions; the two
    witnesses were replayed on the real code (`{"x":5"a":"s"}` and `{,"x":1}`). -/

theorem old_writer_missing_comma :
    parseMembers (writeItemsOld [Item.prop "x" (.raw "5"), Item.embedded [Item.prop "a" (.raw "\"s\"")]] W.start).out = none := by
  simp [writeItemsOld, sep, parseMembers, parseMore, W.start]

theorem old_writer_leading_comma :
    parseMembers (writeItemsOld [Item.embedded [Item.skip], Item.prop "x" (.raw "1")] W.start).out = none := by
  simp [writeItemsOld, sep, parseMembers, parseMore, W.start]

/-- non-vacuity: an embedded member between two properties, one optional property unset -/
example : parseMembers (writeItems [Item.prop "x" (.raw "5"), Item.embedded [Item.skip, Item.prop "a" .null], Item.skip, Item.prop "z" (.arr [])] W.start).out
    = some [("x", .raw "5"), ("a", .null), ("z", .arr [])] := by
  rw [encode_members_wellformed]; simp [flatten]

end Goag.JsonM

namespace Goag.JsonM

/-! ### the object level of the round trip

  `toJFields` (model of the emitted property writer) followed by `decodeFields` (model of the
  emitted per-property decoder over the shared key map) is the identity on the property values,
  for EVERY property list with distinct names — given that each property's own value round-trips
  (the hypothesis `hval`, which is the same statement one level down). Unset optional properties
  stay unset; nothing is left over in the key map. -/

theorem lookupAssoc_absent (ms : List (String × J)) (k : String) (h : k ∉ ms.map (·.1)) : lookupAssoc ms k = none := by
  unfold lookupAssoc
  have : ms.reverse.find? (·.1 == k) = none := by
    rw [List.find?_eq_none]
    intro x hx
    have hx' : x ∈ ms := List.mem_reverse.mp hx
    intro hk
    simp only [beq_iff_eq] at hk
    exact h (List.mem_map.mpr ⟨x, hx', hk⟩)
  simp [this]

theorem lookupAssoc_head (ms : List (String × J)) (k : String) (j : J) (h : k ∉ ms.map (·.1)) :
    lookupAssoc ((k, j) :: ms) k = some j := by
  unfold lookupAssoc
  have hnone : ms.reverse.find? (·.1 == k) = none := by
    rw [List.find?_eq_none]
    intro x hx hk
    simp only [beq_iff_eq] at hk
    exact h (List.mem_map.mpr ⟨x, List.mem_reverse.mp hx, hk⟩)
  simp [List.reverse_cons, List.find?_append, hnone]

theorem eraseKey_head (ms : List (String × J)) (k : String) (j : J) (h : k ∉ ms.map (·.1)) :
    eraseKey ((k, j) :: ms) k = ms := by
  unfold eraseKey
  simp only [List.filter_cons, bne_self_eq_false, Bool.false_eq_true, if_false]
  rw [List.filter_eq_self]
  intro x hx
  simp only [bne_iff_ne, ne_eq]
  intro hk
  exact h (List.mem_map.mpr ⟨x, hx, hk⟩)

theorem fields_roundtrip (tbl : LeafDec) (fields : List (String × Bool × Schema)) (vs : List Val)
    (ms : List (String × J)) (hnd : (fields.map (·.1)).Nodup)
    (h : toJFields fields vs = .ok (ms, []))
    (hval : ∀ name req s, (name, req, s) ∈ fields → ∀ v j, v ≠ .unset → toJ s v = .ok j → decode tbl s j = .ok v) :
    decodeFields tbl fields ms = .ok (vs, []) := by
  induction fields generalizing vs ms with
  | nil =>
    cases vs with
    | nil => rw [toJFields] at h; simp at h; subst h; rw [decodeFields]
    | cons v vt => rw [toJFields] at h; simp at h
  | cons f fs ih =>
    obtain ⟨name, req, s⟩ := f
    simp only [List.map_cons, List.nodup_cons] at hnd
    obtain ⟨hname, hnd'⟩ := hnd
    have hval' : ∀ name' req' s', (name', req', s') ∈ fs → ∀ v j, v ≠ .unset → toJ s' v = .ok j → decode tbl s' j = .ok v :=
      fun n r s' hm => hval n r s' (List.mem_cons_of_mem _ hm)
    cases vs with
    | nil => rw [toJFields] at h; simp at h
    | cons v vt =>
      by_cases hv : v = .unset
      · subst hv
        rw [toJFields_cons_unset] at h
        by_cases hreq : req = true
        · simp [hreq] at h
        · simp only [hreq, Bool.false_eq_true, if_false] at h
          have hsub := toJFields_names_declared fs vt ms [] h
          have habs : name ∉ ms.map (·.1) := fun hm => hname (hsub.subset hm)
          rw [decodeFields, lookupAssoc_absent ms name habs]
          simp only [hreq, Bool.false_eq_true, if_false]
          rw [ih vt ms hnd' h hval']
      · rw [toJFields_cons_set _ _ _ _ _ _ hv] at h
        cases hj : toJ s v with
        | error e => simp [hj] at h
        | ok j =>
          cases hr : toJFields fs vt with
          | error e => simp [hj, hr] at h
          | ok p =>
            obtain ⟨pm, pr⟩ := p
            simp only [hj, hr, Except.ok.injEq, Prod.mk.injEq] at h
            obtain ⟨hms, hpr⟩ := h
            subst hpr
            subst hms
            have hsub := toJFields_names_declared fs vt pm [] hr
            have habs : name ∉ pm.map (·.1) := fun hm => hname (hsub.subset hm)
            have hdec := hval name req s List.mem_cons_self v j hv hj
            rw [decodeFields, lookupAssoc_head pm name j habs]
            simp only [hdec, eraseKey_head pm name j habs]
            rw [ih vt pm hnd' hr hval']

end Goag.JsonM
