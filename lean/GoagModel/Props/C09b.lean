import GoagModel.Serve
import GoagModel.Props.C09
/-
  C09 (first sentence, query / header parameters with closed-form leaves) — composed from the
  SERVER model that the routing corpora tie to the generated `new<Op>Params` (`Serve.parseValues`,
  `Serve.pvalue`) and the client's formatters (`Prim.formatIntGo`, `formatBoolGo`, strings verbatim):
  what the generated client writes for a parameter value, the generated server parses to exactly that
  value — scalar parameters from their single text, array parameters element-wise with nothing
  lost, reordered or merged — whatever the measured leaf table says about other types.
-/
namespace Goag.Serve
open Goag Goag.Prim Goag.Spec

inductive PVal where
  | int (v : Int)
  | bool (b : Bool)
  | str (s : String)
deriving Repr, Inhabited

/-- the text the generated client puts on the wire for one value (before URL escaping, which
    `net/url` undoes before the server's parser sees the text) -/
def clientText : PVal → String
  | .int v => String.ofList (formatIntGo v)
  | .bool b => String.ofList (formatBoolGo b)
  | .str s => s

/-- the canonical dump of the typed value, as `pvalue` renders a parsed parameter -/
def dumpOf : PVal → String
  | .int v => "i:" ++ toString v
  | .bool b => "b:" ++ toString b
  | .str s => "s:" ++ toHex s

/-- the value is one the parameter's Go type can hold -/
def PValOk : PType → PVal → Prop
  | .int, .int v => InRange 0 v
  | .int32, .int v => InRange 32 v
  | .int64, .int v => InRange 64 v
  | .bool, .bool _ => True
  | .str, .str _ => True
  | _, _ => False

theorem pvalue_clientText (leaf : LeafTable) (t : PType) (v : PVal) (h : PValOk t v) :
    pvalue leaf t (clientText v) = some (dumpOf v) := by
  cases t <;> cases v <;> simp only [PValOk] at h
  all_goals first
    | (simp [pvalue, clientText, dumpOf, parseInt_formatInt _ _ h.1 h.2])
    | (simp [pvalue, clientText, dumpOf, parseBool_formatBool])
    | (simp [pvalue, clientText, dumpOf])

/-- **C09, scalar query / header parameter.** -/
theorem server_parses_client_scalar (leaf : LeafTable) (p : Param) (v : PVal)
    (hs : p.isArray = false) (h : PValOk p.type v) :
    parseValues leaf p [clientText v] = .ok (dumpOf v) := by
  simp [parseValues, hs, pvalue_clientText leaf p.type v h]

theorem mapM_pvalue_clientText (leaf : LeafTable) (t : PType) (vs : List PVal) (h : ∀ v ∈ vs, PValOk t v) :
    (vs.map clientText).mapM (fun s => pvalue leaf t s) = some (vs.map dumpOf) := by
  induction vs with
  | nil => rfl
  | cons v r ih =>
    have hv := pvalue_clientText leaf t v (h v List.mem_cons_self)
    have hr := ih (fun x hx => h x (List.mem_cons_of_mem _ hx))
    simp only [List.map_cons, List.mapM_cons, hv, hr]
    rfl

/-- **C09, array query / header parameter**: one text per element, parsed element-wise. -/
theorem server_parses_client_array (leaf : LeafTable) (p : Param) (vs : List PVal)
    (hs : p.isArray = true) (h : ∀ v ∈ vs, PValOk p.type v) :
    parseValues leaf p (vs.map clientText) = .ok ("[" ++ ",".intercalate (vs.map dumpOf) ++ "]") := by
  simp [parseValues, hs, mapM_pvalue_clientText leaf p.type vs h]

example : PValOk .int32 (.int (-2147483648)) := by simp [PValOk, InRange]

end Goag.Serve
