import GoagModel.Props.C06b
/-
  C07 — "the encoded JSON conforms to the schema it was generated from", through the whole
  schema tree, for the fragment of schemas made of primitive leaves (nullable or not), arrays
  (nullable or not), objects with or without additionalProperties (nullable or not) and allOf
  compositions of objects without additionalProperties (members by reference = embedded structs,
  inline members = flattened fields; all declared names distinct), nested to ANY depth.

  `wf s v` says that `v` is a value of schema `s` in that fragment: its leaves carry a text of the
  lexical shape of their kind (what the library writes for an integer is an integer literal, …:
  measured per run, the reference `conforms` is applied to every document the generated code
  writes), property names are distinct, the keys of a map are distinct and none of them is a
  declared property name (a Go map cannot hold a key twice; the second condition is the domain
  restriction of DESIGN §11).  Then whatever the encoder writes conforms to the schema, as judged
  by `conforms`, the reference that is read from the spec alone: every required property present,
  unset optional ones omitted, `null` only where nullable, member names exactly the declared ones
  (plus the map's keys), every nested value of the declared shape.

  For allOf this is the "members are merged into one object" clause: one JSON object whose member
  names are exactly the members' declared names, each member's required properties present.

  `toJ_conforms_oneOf` lifts this to a oneOf whose chosen alternative lies in the fragment.

  Outside the fragment (allOf members with additionalProperties — see KF-C06-embeddedAddl —, untyped
  values, nesting below a oneOf) conformance is judged per generated type by the same reference.
-/
namespace Goag.JsonM

mutual
def wf : Schema → Val → Bool
  | .prim k _, .leaf c _ => leafKindOk k c
  | .prim _ nl, .null => nl
  | .arr items _, .arr vs => wfList items vs
  | .arr _ _, .nilarr => true
  | .arr _ nl, .null => nl
  | .obj fields none _, .obj fs none => wfFields fields fs && decide ((fields.map (·.1)).Nodup)
  | .obj fields (some _) _, .obj fs none => wfFields fields fs && decide ((fields.map (·.1)).Nodup)
  | .obj fields (some a) _, .obj fs (some xs) =>
    wfFields fields fs && decide ((fields.map (·.1)).Nodup) && wfAddl a xs &&
      decide ((xs.map (·.1)).Nodup) && decide (∀ k ∈ xs.map (·.1), k ∉ fields.map (·.1))
  | .obj _ _ nl, .null => nl
  | .allOf members, .obj fs none => wfMembers members fs && decide ((declaredNames members).Nodup)
  | _, _ => false
def wfList : Schema → List Val → Bool
  | _, [] => true
  | s, v :: vs => wf s v && wfList s vs
/-- one value per declared property (values beyond the declared ones belong to whoever comes next) -/
def wfFields : List (String × Bool × Schema) → List Val → Bool
  | [], _ => true
  | (_, _, s) :: fs, v :: vs => (isUnset v || wf s v) && wfFields fs vs
  | _ :: _, [] => false
/-- allOf of objects without additionalProperties: a member given by reference is one embedded
    struct value, an inline member's properties are fields of the outer struct -/
def wfMembers : List (Bool × Schema) → List Val → Bool
  | [], _ => true
  | (true, .obj fields none _) :: ms, (.obj fs none) :: vs => wfFields fields fs && wfMembers ms vs
  | (false, .obj fields none _) :: ms, vs => wfFields fields vs && wfMembers ms (vs.drop fields.length)
  | _, _ => false
def wfAddl : Schema → List (String × Val) → Bool
  | _, [] => true
  | s, (_, v) :: xs => wf s v && wfAddl s xs
end

/-! ### lists of keys -/

theorem filter_ne_of_not_mem (a : String) (l : List String) (h : a ∉ l) : l.filter (fun b => !b == a) = l := by
  induction l with
  | nil => rfl
  | cons x xs ih =>
    simp only [List.mem_cons, not_or] at h
    have hx : (x == a) = false := by
      cases hxa : x == a with
      | false => rfl
      | true => exact absurd (beq_iff_eq.mp hxa).symm h.1
    simp only [List.filter, hx, Bool.not_false, ih h.2]

theorem nodup_eraseDups (l : List String) (h : l.Nodup) : l.eraseDups = l := by
  induction l with
  | nil => rfl
  | cons a as ih =>
    simp only [List.nodup_cons] at h
    rw [List.eraseDups_cons, filter_ne_of_not_mem a as h.1, ih h.2]

theorem keysNodup_of_nodup (ms : List (String × J)) (h : (ms.map (·.1)).Nodup) : keysNodup ms = true := by
  unfold keysNodup
  rw [nodup_eraseDups _ h]
  simp

theorem lookupFirst_absent (ms : List (String × J)) (k : String) (h : k ∉ ms.map (·.1)) : lookupFirst ms k = none := by
  unfold lookupFirst
  induction ms with
  | nil => rfl
  | cons m rest ih =>
    obtain ⟨k', j'⟩ := m
    simp only [List.map_cons, List.mem_cons, not_or] at h
    have hne : (k' == k) = false := by
      cases hk : k' == k with
      | false => rfl
      | true => exact absurd (beq_iff_eq.mp hk).symm h.1
    simp only [List.find?, hne]
    exact ih h.2

theorem lookupFirst_head (ms : List (String × J)) (k : String) (j : J) : lookupFirst ((k, j) :: ms) k = some j := by
  simp [lookupFirst, List.find?]

theorem lookupFirst_cons_ne (ms : List (String × J)) (k k' : String) (j : J) (h : k' ≠ k) :
    lookupFirst ((k', j) :: ms) k = lookupFirst ms k := by
  have hne : (k' == k) = false := by
    cases hk : k' == k with
    | false => rfl
    | true => exact absurd (beq_iff_eq.mp hk) h
  simp [lookupFirst, List.find?, hne]

theorem lookupFirst_append_absent (ms xm : List (String × J)) (k : String) (h : k ∉ xm.map (·.1)) :
    lookupFirst (ms ++ xm) k = lookupFirst ms k := by
  induction ms with
  | nil => simp only [List.nil_append]; rw [lookupFirst_absent xm k h]; rfl
  | cons m rest ih =>
    obtain ⟨k', j'⟩ := m
    by_cases hk : k' = k
    · subst hk
      simp only [List.cons_append]
      rw [lookupFirst_head, lookupFirst_head]
    · simp only [List.cons_append]
      rw [lookupFirst_cons_ne _ _ _ _ hk, lookupFirst_cons_ne _ _ _ _ hk, ih]

/-- a member whose name is not declared does not change what the declared properties see -/
theorem fieldsConform_cons_irrelevant (fs : List (String × Bool × Schema)) (name : String) (j : J) (pm : List (String × J))
    (h : name ∉ fs.map (·.1)) : fieldsConform fs ((name, j) :: pm) = fieldsConform fs pm := by
  induction fs with
  | nil => simp [fieldsConform]
  | cons f rest ih =>
    obtain ⟨fname, req, s⟩ := f
    simp only [List.map_cons, List.mem_cons, not_or] at h
    simp only [fieldsConform]
    rw [lookupFirst_cons_ne pm fname name j h.1, ih h.2]

theorem fieldsConform_append_irrelevant (fs : List (String × Bool × Schema)) (ms xm : List (String × J))
    (h : ∀ k ∈ xm.map (·.1), k ∉ fs.map (·.1)) : fieldsConform fs (ms ++ xm) = fieldsConform fs ms := by
  induction fs with
  | nil => simp [fieldsConform]
  | cons f rest ih =>
    obtain ⟨fname, req, s⟩ := f
    have hf : fname ∉ xm.map (·.1) := fun hm => (h fname hm) (by simp)
    have hrest : ∀ k ∈ xm.map (·.1), k ∉ rest.map (·.1) := fun k hk hm => (h k hk) (by simp [hm])
    simp only [fieldsConform]
    rw [lookupFirst_append_absent ms xm fname hf, ih hrest]

/-! ### arrays and maps, given conformance of the element schema -/

theorem list_conforms (s : Schema)
    (hS : ∀ v j, wf s v = true → toJ s v = .ok j → conforms s j = true) :
    ∀ (vs : List Val) (js : List J), wfList s vs = true → toJList s vs = .ok js → conformsAll s js = true := by
  intro vs
  induction vs with
  | nil =>
    intro js _ hj
    simp only [toJList, Except.ok.injEq] at hj
    subst hj
    simp [conformsAll]
  | cons v vt ih =>
    intro js h hj
    simp only [wfList, Bool.and_eq_true] at h
    simp only [toJList] at hj
    cases hv : toJ s v with
    | error e => simp [hv] at hj
    | ok j =>
      cases hl : toJList s vt with
      | error e => simp [hv, hl] at hj
      | ok js' =>
        simp only [hv, hl, Except.ok.injEq] at hj
        subst hj
        simp only [conformsAll, hS v j h.1 hv, ih js' h.2 hl, Bool.and_self]

theorem addl_conforms (s : Schema)
    (hS : ∀ v j, wf s v = true → toJ s v = .ok j → conforms s j = true) :
    ∀ (xs : List (String × Val)) (xm : List (String × J)), wfAddl s xs = true → toJAddl s xs = .ok xm →
      conformsAll s (xm.map (·.2)) = true ∧ xm.map (·.1) = xs.map (·.1) := by
  intro xs
  induction xs with
  | nil =>
    intro xm _ hj
    simp only [toJAddl, Except.ok.injEq] at hj
    subst hj
    simp [conformsAll]
  | cons x xt ih =>
    obtain ⟨k, v⟩ := x
    intro xm h hj
    simp only [wfAddl, Bool.and_eq_true] at h
    simp only [toJAddl] at hj
    cases hv : toJ s v with
    | error e => simp [hv] at hj
    | ok j =>
      cases hl : toJAddl s xt with
      | error e => simp [hv, hl] at hj
      | ok xm' =>
        simp only [hv, hl, Except.ok.injEq] at hj
        subst hj
        obtain ⟨hc, hk⟩ := ih xm' h.2 hl
        simp only [List.map_cons, conformsAll, hS v j h.1 hv, hc, Bool.and_self, hk, and_self]

/-- no member of an object without extras is outside the declared names -/
theorem extras_nil (fields : List (String × Bool × Schema)) (ms : List (String × J))
    (hsub : ∀ k ∈ ms.map (·.1), k ∈ fields.map (·.1)) :
    ms.filter (fun kv => !fields.any (·.1 == kv.1)) = [] := by
  rw [List.filter_eq_nil_iff]
  intro kv hkv
  have hk : kv.1 ∈ fields.map (·.1) := hsub kv.1 (List.mem_map_of_mem hkv)
  obtain ⟨f, hf, hfe⟩ := List.mem_map.mp hk
  have : fields.any (·.1 == kv.1) = true := List.any_eq_true.mpr ⟨f, hf, by simp [hfe]⟩
  simp [this]

/-- the extras of `ms ++ xm` are exactly `xm` when `ms` holds declared names only and `xm` none -/
theorem extras_append (fields : List (String × Bool × Schema)) (ms xm : List (String × J))
    (hsub : ∀ k ∈ ms.map (·.1), k ∈ fields.map (·.1))
    (hdis : ∀ k ∈ xm.map (·.1), k ∉ fields.map (·.1)) :
    (ms ++ xm).filter (fun kv => !fields.any (·.1 == kv.1)) = xm := by
  rw [List.filter_append, extras_nil fields ms hsub, List.nil_append, List.filter_eq_self]
  intro kv hkv
  have hk : kv.1 ∉ fields.map (·.1) := hdis kv.1 (List.mem_map_of_mem hkv)
  have : fields.any (·.1 == kv.1) = false := by
    cases ha : fields.any (·.1 == kv.1) with
    | false => rfl
    | true =>
      obtain ⟨f, hf, hfe⟩ := List.any_eq_true.mp ha
      exact absurd (List.mem_map.mpr ⟨f, hf, beq_iff_eq.mp hfe⟩) hk
  simp [this]


/-! ### allOf: members merged into one object -/

theorem lookupFirst_prefix_absent (pre ms : List (String × J)) (k : String) (h : k ∉ pre.map (·.1)) :
    lookupFirst (pre ++ ms) k = lookupFirst ms k := by
  induction pre with
  | nil => rfl
  | cons m rest ih =>
    obtain ⟨k', j'⟩ := m
    simp only [List.map_cons, List.mem_cons, not_or] at h
    simp only [List.cons_append]
    rw [lookupFirst_cons_ne _ _ _ _ (fun e => h.1 e.symm), ih h.2]

theorem fieldsConform_prefix_irrelevant (fs : List (String × Bool × Schema)) (pre ms : List (String × J))
    (h : ∀ k ∈ pre.map (·.1), k ∉ fs.map (·.1)) : fieldsConform fs (pre ++ ms) = fieldsConform fs ms := by
  induction fs with
  | nil => simp [fieldsConform]
  | cons f rest ih =>
    obtain ⟨fname, req, s⟩ := f
    have hf : fname ∉ pre.map (·.1) := fun hm => (h fname hm) (by simp)
    have hrest : ∀ k ∈ pre.map (·.1), k ∉ rest.map (·.1) := fun k hk hm => (h k hk) (by simp [hm])
    simp only [fieldsConform]
    rw [lookupFirst_prefix_absent pre ms fname hf, ih hrest]

theorem allMembers_prefix_irrelevant (members : List (Bool × Schema)) (pre ms : List (String × J))
    (h : ∀ k ∈ pre.map (·.1), k ∉ declaredNames members) : allMembers members (pre ++ ms) = allMembers members ms := by
  induction members with
  | nil => simp [allMembers]
  | cons m rest ih =>
    obtain ⟨b, s⟩ := m
    cases s with
    | obj fields a nl =>
      simp only [declaredNames, List.mem_append, not_or] at h
      simp only [allMembers]
      rw [fieldsConform_prefix_irrelevant fields pre ms (fun k hk => (h k hk).1), ih (fun k hk => (h k hk).2)]
    | prim _ _ => simp [allMembers]
    | any => simp [allMembers]
    | arr _ _ => simp [allMembers]
    | allOf _ => simp [allMembers]
    | oneOf _ _ => simp [allMembers]

theorem laterAddl_false_of_wf (members : List (Bool × Schema)) : ∀ vs, wfMembers members vs = true → laterAddl members = false := by
  induction members with
  | nil => intro _ _; rfl
  | cons m rest ih =>
    obtain ⟨b, s⟩ := m
    intro vs h
    cases b with
    | true =>
      cases s with
      | obj fields a nl =>
        cases a with
        | some _ => cases vs <;> simp [wfMembers] at h
        | none =>
          cases vs with
          | nil => simp [wfMembers] at h
          | cons v vt =>
            cases v with
            | obj fs ax =>
              cases ax with
              | none =>
                simp only [wfMembers, Bool.and_eq_true] at h
                simp only [laterAddl]
                exact ih vt h.2
              | some _ => simp [wfMembers] at h
            | leaf _ _ => simp [wfMembers] at h
            | null => simp [wfMembers] at h
            | unset => simp [wfMembers] at h
            | arr _ => simp [wfMembers] at h
            | nilarr => simp [wfMembers] at h
            | alt _ _ => simp [wfMembers] at h
      | prim _ _ => cases vs <;> simp [wfMembers] at h
      | any => cases vs <;> simp [wfMembers] at h
      | arr _ _ => cases vs <;> simp [wfMembers] at h
      | allOf _ => cases vs <;> simp [wfMembers] at h
      | oneOf _ _ => cases vs <;> simp [wfMembers] at h
    | false =>
      cases s with
      | obj fields a nl =>
        cases a with
        | some _ => simp [wfMembers] at h
        | none =>
          simp only [wfMembers, Bool.and_eq_true] at h
          simp only [laterAddl]
          exact ih _ h.2
      | prim _ _ => simp [wfMembers] at h
      | any => simp [wfMembers] at h
      | arr _ _ => simp [wfMembers] at h
      | allOf _ => simp [wfMembers] at h
      | oneOf _ _ => simp [wfMembers] at h

theorem members_step (b nl : Bool) (fields : List (String × Bool × Schema)) (rest : List (Bool × Schema))
    (mm more : List (String × J))
    (hfc : fieldsConform fields mm = true) (hsubF : (mm.map (·.1)).Sublist (fields.map (·.1)))
    (hsubR : (more.map (·.1)).Sublist (declaredNames rest)) (hallR : allMembers rest more = true)
    (hdisj : ∀ a ∈ fields.map (·.1), ∀ c ∈ declaredNames rest, a ≠ c) :
    ((mm ++ more).map (·.1)).Sublist (fields.map (·.1) ++ declaredNames rest) ∧
      allMembers ((b, .obj fields none nl) :: rest) (mm ++ more) = true := by
  constructor
  · rw [List.map_append]
    exact hsubF.append hsubR
  · have h1 : ∀ k ∈ more.map (·.1), k ∉ fields.map (·.1) := fun k hk hm => hdisj k hm k (hsubR.subset hk) rfl
    have h2 : ∀ k ∈ mm.map (·.1), k ∉ declaredNames rest := fun k hk hm => hdisj k (hsubF.subset hk) k hm rfl
    simp only [allMembers]
    rw [fieldsConform_append_irrelevant fields mm more h1, allMembers_prefix_irrelevant rest mm more h2, hfc, hallR]
    rfl

/-- the three statements, for all schemas / property lists / member lists up to a size bound -/
theorem conf_all : ∀ n : Nat,
    (∀ (s : Schema) (v : Val) (j : J), sizeOf s ≤ n → wf s v = true → toJ s v = .ok j → conforms s j = true) ∧
    (∀ (fields : List (String × Bool × Schema)) (vs : List Val) (ms : List (String × J)) (rest : List Val), sizeOf fields ≤ n →
      wfFields fields vs = true → (fields.map (·.1)).Nodup →
      toJFields fields vs = .ok (ms, rest) → fieldsConform fields ms = true) ∧
    (∀ (members : List (Bool × Schema)) (vs : List Val) (ms : List (String × J)), sizeOf members ≤ n →
      wfMembers members vs = true → (declaredNames members).Nodup →
      toJMembers members vs = .ok ms →
      (ms.map (·.1)).Sublist (declaredNames members) ∧ allMembers members ms = true) := by
  intro n
  induction n with
  | zero =>
    refine ⟨?_, ?_, ?_⟩
    · intro s v j hle
      cases s <;> simp at hle
    · intro fields vs ms rest hle
      cases fields <;> simp at hle
    · intro members vs ms hle
      cases members <;> simp at hle
  | succ n ih =>
    obtain ⟨ihS, ihF, ihM⟩ := ih
    refine ⟨?_, ?_, ?_⟩
    · intro s v j hle h hj
      cases s with
      | prim k nl =>
        cases v with
        | leaf c d =>
          simp only [toJ, Except.ok.injEq] at hj
          subst hj
          simp only [wf] at h
          simp [conforms, h]
        | null =>
          simp only [wf] at h
          simp only [toJ, h, if_true, Except.ok.injEq] at hj
          subst hj
          simp [conforms, h]
        | unset => simp [wf] at h
        | arr _ => simp [wf] at h
        | nilarr => simp [wf] at h
        | obj _ _ => simp [wf] at h
        | alt _ _ => simp [wf] at h
      | any => cases v <;> simp [wf] at h
      | arr items nl =>
        have hsz : sizeOf items ≤ n := by simp at hle; omega
        cases v with
        | arr vs =>
          simp only [wf] at h
          simp only [toJ] at hj
          cases hl : toJList items vs with
          | error e => simp [hl, Except.map] at hj
          | ok js =>
            simp only [hl, Except.map, Except.ok.injEq] at hj
            subst hj
            have := list_conforms items (fun v j => ihS items v j hsz) vs js h hl
            simp [conforms, this]
        | nilarr =>
          simp only [toJ, Except.ok.injEq] at hj
          subst hj
          simp [conforms, conformsAll]
        | null =>
          simp only [wf] at h
          simp only [toJ, h, if_true, Except.ok.injEq] at hj
          subst hj
          simp [conforms, h]
        | leaf _ _ => simp [wf] at h
        | unset => simp [wf] at h
        | obj _ _ => simp [wf] at h
        | alt _ _ => simp [wf] at h
      | obj fields addl nl =>
        have hsz : sizeOf fields ≤ n := by simp at hle; omega
        cases v with
        | obj fs ax =>
          -- the declared part, common to all three shapes
          have hcommon : wfFields fields fs = true ∧ (fields.map (·.1)).Nodup := by
            cases addl with
            | none =>
              cases ax with
              | none => simpa [wf] using h
              | some _ => simp [wf] at h
            | some a =>
              cases ax with
              | none => simpa [wf] using h
              | some xs =>
                simp only [wf, Bool.and_eq_true, decide_eq_true_eq] at h
                exact ⟨h.1.1.1.1, h.1.1.1.2⟩
          simp only [toJ] at hj
          cases hf : toJFields fields fs with
          | error e => simp [hf] at hj
          | ok p =>
            obtain ⟨ms, rest⟩ := p
            simp only [hf] at hj
            cases hr : rest.isEmpty with
            | false => simp [hr] at hj
            | true =>
              simp only [hr, Bool.not_true, Bool.false_eq_true, if_false] at hj
              have hfc := ihF fields fs ms rest hsz hcommon.1 hcommon.2 hf
              have hsubl := toJFields_names_declared fields fs ms rest hf
              have hsub : ∀ k ∈ ms.map (·.1), k ∈ fields.map (·.1) := fun k hk => hsubl.subset hk
              have hnd : (ms.map (·.1)).Nodup := hsubl.nodup hcommon.2
              cases addl with
              | none =>
                cases ax with
                | some _ => simp [wf] at h
                | none =>
                  simp only [Except.ok.injEq] at hj
                  subst hj
                  simp [conforms, keysNodup_of_nodup ms hnd, hfc, extras_nil fields ms hsub]
              | some a =>
                have ha : sizeOf a ≤ n := by simp at hle; omega
                cases ax with
                | none =>
                  simp only [Except.ok.injEq] at hj
                  subst hj
                  simp [conforms, keysNodup_of_nodup ms hnd, hfc, extras_nil fields ms hsub, conformsAll]
                | some xs =>
                  simp only [wf, Bool.and_eq_true, decide_eq_true_eq] at h
                  obtain ⟨⟨⟨_, hwa⟩, hxnd⟩, hdis⟩ := h
                  cases hx : toJAddl a xs with
                  | error e => simp [hx, Except.map] at hj
                  | ok xm =>
                    simp only [hx, Except.map, Except.ok.injEq] at hj
                    subst hj
                    obtain ⟨hca, hkeys⟩ := addl_conforms a (fun v j => ihS a v j ha) xs xm hwa hx
                    have hdis' : ∀ k ∈ xm.map (·.1), k ∉ fields.map (·.1) := by rw [hkeys]; exact hdis
                    have hndall : ((ms ++ xm).map (·.1)).Nodup := by
                      rw [List.map_append, List.nodup_append]
                      refine ⟨hnd, by rw [hkeys]; exact hxnd, ?_⟩
                      intro k hk k' hk' hkk
                      subst hkk
                      exact hdis' k hk' (hsub k hk)
                    simp [conforms, keysNodup_of_nodup _ hndall, fieldsConform_append_irrelevant fields ms xm hdis', hfc,
                      extras_append fields ms xm hsub hdis', hca]
        | null =>
          have hnl : nl = true := by cases addl <;> simpa [wf] using h
          simp only [toJ, hnl, if_true, Except.ok.injEq] at hj
          subst hj
          simp [conforms, hnl]
        | leaf _ _ => cases addl <;> simp [wf] at h
        | unset => cases addl <;> simp [wf] at h
        | arr _ => cases addl <;> simp [wf] at h
        | nilarr => cases addl <;> simp [wf] at h
        | alt _ _ => cases addl <;> simp [wf] at h
      | allOf members =>
        have hsz : sizeOf members ≤ n := by simp at hle; omega
        cases v with
        | obj fs ax =>
          cases ax with
          | some _ => simp [wf] at h
          | none =>
            simp only [wf, Bool.and_eq_true, decide_eq_true_eq] at h
            simp only [toJ] at hj
            cases hm : toJMembers members fs with
            | error e => simp [hm] at hj
            | ok ms =>
              simp only [hm, Except.ok.injEq] at hj
              subst hj
              obtain ⟨hsubl, hall⟩ := ihM members fs ms hsz h.1 h.2 hm
              have hnd : (ms.map (·.1)).Nodup := hsubl.nodup h.2
              have hsub : ∀ k ∈ ms.map (·.1), k ∈ declaredNames members := fun k hk => hsubl.subset hk
              simp [conforms, keysNodup_of_nodup ms hnd, hall, laterAddl_false_of_wf members fs h.1]
              intro a b hab
              exact hsub a (List.mem_map.mpr ⟨(a, b), hab, rfl⟩)
        | null => simp [wf] at h
        | leaf _ _ => simp [wf] at h
        | unset => simp [wf] at h
        | arr _ => simp [wf] at h
        | nilarr => simp [wf] at h
        | alt _ _ => simp [wf] at h
      | oneOf alts d => cases v <;> simp [wf] at h
    · intro fields vs ms rest hle h hnd hj
      cases fields with
      | nil => simp [fieldsConform]
      | cons f fs =>
        obtain ⟨name, req, s⟩ := f
        have hs : sizeOf s ≤ n := by simp at hle; omega
        have hfs : sizeOf fs ≤ n := by simp at hle; omega
        cases vs with
        | nil => simp [wfFields] at h
        | cons v vt =>
          simp only [List.map_cons, List.nodup_cons] at hnd
          obtain ⟨hname, hnd'⟩ := hnd
          simp only [wfFields, Bool.and_eq_true] at h
          by_cases hv : v = .unset
          · subst hv
            rw [toJFields_cons_unset] at hj
            by_cases hreq : req = true
            · simp [hreq] at hj
            · simp only [hreq, Bool.false_eq_true, if_false] at hj
              have hsub := toJFields_names_declared fs vt ms rest hj
              have habs : name ∉ ms.map (·.1) := fun hm => hname (hsub.subset hm)
              have hreqf : req = false := by cases req <;> simp_all
              simp only [fieldsConform, lookupFirst_absent ms name habs, hreqf, Bool.not_false, Bool.true_and]
              exact ihF fs vt ms rest hfs h.2 hnd' hj
          · rw [toJFields_cons_set _ _ _ _ _ _ hv] at hj
            have hnu : isUnset v = false := by
              cases hu : isUnset v with
              | false => rfl
              | true => exact absurd ((isUnset_iff v).mp hu) hv
            have hwf : wf s v = true := by
              have h1 := h.1
              simpa [hnu] using h1
            cases hjv : toJ s v with
            | error e => simp [hjv] at hj
            | ok j =>
              cases hr : toJFields fs vt with
              | error e => simp [hjv, hr] at hj
              | ok p =>
                obtain ⟨pm, pr⟩ := p
                simp only [hjv, hr, Except.ok.injEq, Prod.mk.injEq] at hj
                obtain ⟨hms, _⟩ := hj
                subst hms
                have hc := ihS s v j hs hwf hjv
                simp only [fieldsConform, lookupFirst_head, hc, Bool.true_and]
                rw [fieldsConform_cons_irrelevant fs name j pm hname]
                exact ihF fs vt pm pr hfs h.2 hnd' hr
    · intro members vs ms hle h hnd hj
      cases members with
      | nil =>
        cases vs with
        | nil =>
          simp only [toJMembers, Except.ok.injEq] at hj
          subst hj
          simp [declaredNames, allMembers]
        | cons _ _ => simp [toJMembers] at hj
      | cons m rest =>
        obtain ⟨b, s⟩ := m
        have hrest : sizeOf rest ≤ n := by simp at hle; omega
        cases s with
        | obj fields a nl =>
          have hfs : sizeOf fields ≤ n := by simp at hle; omega
          simp only [declaredNames] at hnd ⊢
          rw [List.nodup_append] at hnd
          obtain ⟨hndF, hndR, hdisj⟩ := hnd
          cases a with
          | some _ => cases b <;> cases vs <;> simp [wfMembers] at h
          | none =>
            cases b with
            | true =>
              cases vs with
              | nil => simp [wfMembers] at h
              | cons v vt =>
                cases v with
                | obj fs ax =>
                  cases ax with
                  | some _ => simp [wfMembers] at h
                  | none =>
                    simp only [wfMembers, Bool.and_eq_true] at h
                    simp only [toJMembers] at hj
                    cases hjv : toJ (.obj fields none nl) (.obj fs none) with
                    | error e => simp [hjv] at hj
                    | ok j =>
                      obtain ⟨mm, hjm, hf⟩ := toJ_obj_none fields nl fs j hjv
                      subst hjm
                      cases hr : toJMembers rest vt with
                      | error e => simp [hjv, hr] at hj
                      | ok more =>
                        simp only [hjv, hr, Except.ok.injEq] at hj
                        subst hj
                        obtain ⟨hsubR, hallR⟩ := ihM rest vt more hrest h.2 hndR hr
                        exact members_step true nl fields rest mm more (ihF fields fs mm [] hfs h.1 hndF hf)
                          (toJFields_names_declared fields fs mm [] hf) hsubR hallR hdisj
                | leaf _ _ => simp [wfMembers] at h
                | null => simp [wfMembers] at h
                | unset => simp [wfMembers] at h
                | arr _ => simp [wfMembers] at h
                | nilarr => simp [wfMembers] at h
                | alt _ _ => simp [wfMembers] at h
            | false =>
              simp only [wfMembers, Bool.and_eq_true] at h
              simp only [toJMembers] at hj
              cases hf : toJFields fields vs with
              | error e => simp [hf] at hj
              | ok p =>
                obtain ⟨mm, restv⟩ := p
                simp only [hf] at hj
                have hrestv := toJFields_rest fields vs mm restv hf
                cases hr : toJMembers rest restv with
                | error e => simp [hr] at hj
                | ok more =>
                  simp only [hr, Except.ok.injEq] at hj
                  subst hj
                  rw [hrestv] at hr
                  obtain ⟨hsubR, hallR⟩ := ihM rest _ more hrest h.2 hndR hr
                  exact members_step false nl fields rest mm more (ihF fields vs mm restv hfs h.1 hndF hf)
                    (toJFields_names_declared fields vs mm restv hf) hsubR hallR hdisj
        | prim _ _ => cases b <;> cases vs <;> simp [wfMembers] at h
        | any => cases b <;> cases vs <;> simp [wfMembers] at h
        | arr _ _ => cases b <;> cases vs <;> simp [wfMembers] at h
        | allOf _ => cases b <;> cases vs <;> simp [wfMembers] at h
        | oneOf _ _ => cases b <;> cases vs <;> simp [wfMembers] at h

/-- **C07, conformance through the schema tree** (leaf / array / object / map fragment, any depth):
    what the encoder writes for a well-formed value validates against the schema. -/
theorem toJ_conforms (s : Schema) (v : Val) (j : J)
    (h : wf s v = true) (hj : toJ s v = .ok j) : conforms s j = true :=
  (conf_all (sizeOf s)).1 s v j (Nat.le_refl _) h hj

/-- … and it never writes `null` for a value of a non-nullable schema of the fragment -/
theorem toJ_null_only_if_nullable (s : Schema) (v : Val)
    (h : wf s v = true) (hj : toJ s v = .ok .null) :
    (match s with | .prim _ nl => nl | .arr _ nl => nl | .obj _ _ nl => nl | _ => false) = true := by
  have hc := toJ_conforms s v .null h hj
  cases s with
  | prim k nl => simpa [conforms] using hc
  | arr items nl => simpa [conforms] using hc
  | obj fields addl nl => simpa [conforms] using hc
  | any => cases v <;> simp [wf] at h
  | allOf ms =>
    cases v with
    | obj fs ax =>
      cases ax with
      | none =>
        simp only [toJ] at hj
        cases hm : toJMembers ms fs with
        | error e => simp [hm] at hj
        | ok mm => simp [hm] at hj
      | some _ => simp [wf] at h
    | null => simp [wf] at h
    | leaf _ _ => simp [wf] at h
    | unset => simp [wf] at h
    | arr _ => simp [wf] at h
    | nilarr => simp [wf] at h
    | alt _ _ => simp [wf] at h
  | oneOf alts d => cases v <;> simp [wf] at h


/-! ### oneOf: the written alternative conforms, hence the composition does -/

theorem anyAlt_of_get (alts : List (List String × Schema)) (i : Nat) (vals : List String) (s : Schema) (j : J)
    (h : alts[i]? = some (vals, s)) (hc : conforms s j = true) : anyAlt alts j = true := by
  induction alts generalizing i with
  | nil => simp at h
  | cons a rest ih =>
    obtain ⟨va, sa⟩ := a
    cases i with
    | zero =>
      simp only [List.getElem?_cons_zero, Option.some.injEq, Prod.mk.injEq] at h
      simp [anyAlt, h.2, hc]
    | succ k =>
      simp only [List.getElem?_cons_succ] at h
      simp [anyAlt, ih k h]

theorem toJAlt_at (alts : List (List String × Schema)) (i : Nat) (vals : List String) (s : Schema) (v : Val)
    (h : alts[i]? = some (vals, s)) : toJAlt alts i v = toJ s v := by
  induction alts generalizing i with
  | nil => simp at h
  | cons a rest ih =>
    obtain ⟨va, sa⟩ := a
    cases i with
    | zero =>
      simp only [List.getElem?_cons_zero, Option.some.injEq, Prod.mk.injEq] at h
      simp [toJAlt, h.2]
    | succ k =>
      simp only [List.getElem?_cons_succ] at h
      simp only [toJAlt]
      exact ih k h

/-- **C07, oneOf**: a value holding the `i`-th alternative is written as that alternative's encoding,
    which conforms to the alternative (tree theorem), so the document conforms to the oneOf -/
theorem toJ_conforms_oneOf (alts : List (List String × Schema)) (d : Option String) (i : Nat) (vals : List String)
    (s : Schema) (inner : Val) (j : J) (hi : alts[i]? = some (vals, s)) (hw : wf s inner = true)
    (hj : toJ (.oneOf alts d) (.alt i inner) = .ok j) : conforms (.oneOf alts d) j = true := by
  simp only [toJ] at hj
  rw [toJAlt_at alts i vals s inner hi] at hj
  simp only [conforms]
  exact anyAlt_of_get alts i vals s j hi (toJ_conforms s inner j hw hj)

/-- non-vacuity: nested object, unset optional array, set map with a null value -/
def exSchemaC : Schema :=
  .obj [("id", true, .prim .int false), ("tags", false, .arr (.prim .str false) false),
        ("owner", false, .obj [("name", true, .prim .str true)] none true)] (some (.prim .int true)) false
def exValC1 : Val := .obj [.leaf "7" "i:7", .unset, .obj [.null] none] (some [("hits", .leaf "3" "i:3"), ("miss", .null)])
def exValC2 : Val := .obj [.leaf "7" "i:7", .arr [.leaf "\"a\"" "s:61"], .null] none

example : wf exSchemaC exValC1 = true := by simp [wf, wfFields, wfAddl, isUnset, leafKindOk, isIntLit, exSchemaC, exValC1]
example : wf exSchemaC exValC2 = true := by simp [wf, wfFields, wfList, isUnset, leafKindOk, isIntLit, exSchemaC, exValC2]
def exSchemaA : Schema :=
  .allOf [(true, .obj [("id", true, .prim .int false)] none false), (false, .obj [("extra", false, .prim .str false), ("n", false, .prim .int true)] none false)]
def exValA : Val := .obj [.obj [.leaf "7" "i:7"] none, .leaf "\"a\"" "s:61", .unset] none
example : wf exSchemaA exValA = true := by
  simp [wf, wfMembers, wfFields, isUnset, leafKindOk, isIntLit, declaredNames, exSchemaA, exValA]
example : ∃ j, toJ exSchemaA exValA = .ok j := by
  simp [toJ, toJMembers, toJFields, exSchemaA, exValA]
example : ∃ j, toJ exSchemaC exValC1 = .ok j := by
  simp [toJ, toJFields, toJAddl, exSchemaC, exValC1, Except.map]

end Goag.JsonM
