import GoagModel.Dir
/-
  C19 — the output directory reflects only the last invocation, for histories of ANY length.
-/
namespace Goag.Dir

/-- the goag-owned part of a step's result depends only on the invocation, not on what was
    there before (stale files are removed or fully rewritten) -/
theorem step_owned_depends_only_on_invocation (d : Dir) (inv : Inv) (f : Name) (hf : f.owned = true) :
    stepDir d inv f = stepDir emptyDir inv f := by
  cases f <;> simp [stepDir, Name.owned] at hf ⊢

/-- files goag does not own are untouched -/
theorem step_foreign_untouched (d : Dir) (inv : Inv) (n : Nat) :
    stepDir d inv (.foreign n) = d (.foreign n) := rfl

theorem run_foreign_untouched (d : Dir) (h : List Inv) (n : Nat) : run d h (.foreign n) = d (.foreign n) := by
  induction h generalizing d with
  | nil => rfl
  | cons inv tl ih => simp only [run, List.foldl_cons] at ih ⊢; rw [ih]; rfl

/-- **C19**: after any non-empty sequence of runs into the same directory, the goag-owned
    files are exactly what a single run of the last invocation into an empty directory
    produces, and foreign files are untouched -/
theorem history_last_wins (d : Dir) (h : List Inv) (hne : h ≠ []) (f : Name) :
    run d h f = if f.owned then stepDir emptyDir (h.getLast hne) f else d f := by
  induction h generalizing d with
  | nil => exact absurd rfl hne
  | cons inv tl ih =>
    cases tl with
    | nil =>
      simp only [run, List.foldl_cons, List.foldl_nil, List.getLast_singleton]
      cases f <;> simp [stepDir, Name.owned]
    | cons inv2 tl2 =>
      have := ih (stepDir d inv) (by simp)
      simp only [run, List.foldl_cons] at this ⊢
      rw [this]
      simp only [List.getLast_cons_cons]
      cases f <;> simp [Name.owned, stepDir]

/-- re-running the same invocation changes nothing -/
theorem rerun_idempotent (d : Dir) (inv : Inv) : stepDir (stepDir d inv) inv = stepDir d inv := by
  funext f
  cases f <;> simp [stepDir]

/-- non-vacuity: a directory with a stale client and a user file, two invocations -/
example :
    let d : Dir := fun f => match f with | .client => some (.other 1) | .foreign 0 => some (.other 2) | _ => none
    let h := [⟨true, true, true, 1⟩, ⟨false, false, true, 2⟩]
    run d h .client = none ∧ run d h .components = none ∧ run d h .router = some (.gen 2 .router) ∧ run d h (.foreign 0) = some (.other 2) := by
  decide

end Goag.Dir
