import GoagModel.RespHdr
import GoagModel.Props.C09
/-
  C10 (first sentence, header values) — "the generated client returns a value … with equal …
  header values".  For every declared header (integer of the three widths, boolean, string; scalar
  or array; required or optional) and every value of its generated Go type inside the domain of
  §11 (integers in range of the declared width, a required or set array non-empty — HTTP has no
  field line for an empty list), what the client rebuilds from the field lines the server wrote
  is that value: unset stays unset, a present-and-empty string stays present, no array element is
  lost, reordered or merged.
-/
namespace Goag.RespHdr
open Goag.Prim

def LeafOk : HType → Leaf → Prop
  | .int bits, .int v => InRange bits v
  | .bool, .bool _ => True
  | .str, .str _ => True
  | _, _ => False

/-- a value of the Go type generated for the declaration, inside the domain -/
def ValOk (d : HDecl) : HVal → Prop
  | .unset => d.required = false
  | .one l => d.array = false ∧ LeafOk d.ty l
  | .many ls => d.array = true ∧ ls ≠ [] ∧ ∀ l ∈ ls, LeafOk d.ty l

theorem parseLeaf_fmtLeaf (t : HType) (l : Leaf) (h : LeafOk t l) : parseLeaf t (fmtLeaf l) = some l := by
  cases t <;> cases l <;> simp only [LeafOk] at h
  · rename_i bits v
    simp [parseLeaf, fmtLeaf, parseInt_formatInt bits v h.1 h.2]
  · simp [parseLeaf, fmtLeaf, parseBool_formatBool]
  · simp [parseLeaf, fmtLeaf]

theorem parseLeaves_fmtLeaves (t : HType) (ls : List Leaf) (h : ∀ l ∈ ls, LeafOk t l) :
    (ls.map fmtLeaf).mapM (parseLeaf t) = some ls := by
  induction ls with
  | nil => rfl
  | cons l r ih =>
    have hl := parseLeaf_fmtLeaf t l (h l List.mem_cons_self)
    have hr := ih (fun x hx => h x (List.mem_cons_of_mem _ hx))
    simp only [List.map_cons, List.mapM_cons, hl, hr]
    rfl

/-- **C10, header values.** -/
theorem read_write_header (d : HDecl) (v : HVal) (h : ValOk d v) :
    readLines d (writeLines v) = .ok v := by
  cases v with
  | unset =>
    simp only [ValOk] at h
    simp [writeLines, readLines, h]
  | one l =>
    obtain ⟨ha, hl⟩ := h
    simp [writeLines, readLines, ha, parseLeaf_fmtLeaf d.ty l hl]
  | many ls =>
    obtain ⟨ha, hne, hl⟩ := h
    cases ls with
    | nil => exact absurd rfl hne
    | cons l r =>
      have := parseLeaves_fmtLeaves d.ty (l :: r) hl
      simp only [List.map_cons] at this
      simp [writeLines, readLines, ha, this]

/-- the client never reports a header the server did not send as present, and never drops one it
    sent: the result is `unset` exactly when no field line was written -/
theorem unset_iff_no_lines (d : HDecl) (v w : HVal) (h : readLines d (writeLines v) = .ok w) :
    w = .unset ↔ writeLines v = [] := by
  cases hw : writeLines v with
  | nil =>
    rw [hw] at h
    simp only [readLines] at h
    split at h <;> simp_all
  | cons x r =>
    rw [hw] at h
    simp only [readLines] at h
    constructor
    · intro hu
      subst hu
      split at h
      · split at h <;> simp at h
      · split at h
        · split at h <;> simp at h
        · simp at h
    · intro hc; simp at hc

theorem valuesOf_append (key : String) (a b : List (String × Str)) :
    valuesOf key (a ++ b) = valuesOf key a ++ valuesOf key b := by
  simp [valuesOf, List.filter_append]

theorem valuesOf_own (key : String) (ls : List Str) :
    valuesOf key (ls.map (fun l => (key, l))) = ls := by
  induction ls with
  | nil => rfl
  | cons l r ih =>
    simp only [valuesOf, List.map_cons, List.filter_cons, beq_self_eq_true, if_true, List.cons.injEq, true_and] at *
    exact ih

theorem valuesOf_other (key k : String) (ls : List Str) (h : k ≠ key) :
    valuesOf key (ls.map (fun l => (k, l))) = [] := by
  induction ls with
  | nil => rfl
  | cons l r ih =>
    have hb : (k == key) = false := by simp [h]
    simp only [valuesOf, List.map_cons, List.filter_cons, hb] at *
    exact ih

/-- other headers' field lines are invisible under a key none of them has -/
theorem valuesOf_writeAll_absent (key : String) (hs : List (String × HVal)) (h : ∀ kv ∈ hs, kv.1 ≠ key) :
    valuesOf key (writeAll hs) = [] := by
  induction hs with
  | nil => rfl
  | cons kv rest ih =>
    obtain ⟨k, v⟩ := kv
    have hk : k ≠ key := h (k, v) List.mem_cons_self
    simp only [writeAll, valuesOf_append, valuesOf_other key k _ hk, List.nil_append]
    exact ih (fun x hx => h x (List.mem_cons_of_mem _ hx))

/-- **C10, the whole header block.** When the declared headers have pairwise distinct canonical keys,
    the client reads under each header's key exactly the field lines written for THAT header — no line
    of another header leaks in, none is lost — and so rebuilds every header value of the response. -/
theorem read_write_all (hs : List (String × HDecl × HVal))
    (hdist : (hs.map (·.1)).Pairwise (· ≠ ·)) (hok : ∀ h ∈ hs, ValOk h.2.1 h.2.2) :
    ∀ h ∈ hs, readLines h.2.1 (valuesOf h.1 (writeAll (hs.map (fun x => (x.1, x.2.2))))) = .ok h.2.2 := by
  induction hs with
  | nil => intro h hh; simp at hh
  | cons x rest ih =>
    obtain ⟨k, d, v⟩ := x
    simp only [List.map_cons, List.pairwise_cons] at hdist
    obtain ⟨hk, hrest⟩ := hdist
    intro h hh
    simp only [List.map_cons, writeAll, valuesOf_append]
    rcases List.mem_cons.mp hh with rfl | hin
    · -- this header: its own lines, nothing from the rest
      have habs : valuesOf k (writeAll (rest.map (fun x => (x.1, x.2.2)))) = [] := by
        apply valuesOf_writeAll_absent
        intro kv hkv
        simp only [List.mem_map] at hkv
        obtain ⟨y, hy, rfl⟩ := hkv
        exact fun heq => hk y.1 (List.mem_map.mpr ⟨y, hy, rfl⟩) heq.symm
      simp only [valuesOf_own, habs, List.append_nil]
      exact read_write_header d v (hok (k, d, v) List.mem_cons_self)
    · -- a later header: the first header's lines are invisible under its key
      have hne : k ≠ h.1 := hk h.1 (List.mem_map.mpr ⟨h, hin, rfl⟩)
      simp only [valuesOf_other h.1 k _ hne, List.nil_append]
      exact ih hrest (fun y hy => hok y (List.mem_cons_of_mem _ hy)) h hin

/-- a required header the server did not write is an error at the client, not a zero value -/
theorem required_absent_is_error (d : HDecl) (h : d.required = true) : readLines d [] = .error .required := by
  simp [readLines, h]

/-- the boundary value "present and empty" (C10-m10): an optional string header set to "" comes back set -/
example : readLines { ty := .str, array := false, required := false } (writeLines (.one (.str []))) = .ok (.one (.str [])) := by
  simp [writeLines, readLines, fmtLeaf, parseLeaf]
example : ValOk { ty := .int 32, array := true, required := true } (.many [.int (-5), .int 7]) := by
  refine ⟨rfl, by simp, ?_⟩
  intro l hl
  simp only [List.mem_cons, List.mem_nil_iff, or_false] at hl
  rcases hl with rfl | rfl <;> simp [LeafOk, InRange]

end Goag.RespHdr
