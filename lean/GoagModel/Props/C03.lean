import GoagModel.RouterLemmas
/-
  C03 — routing equals OpenAPI path matching under the server base path.

  `routeGo (build items) base p pick` is the model of the emitted router (route tree built by
  `NewRouter` + the `route<Node>` functions); `specRoute items base p pick` is the reference:
  strip the base path, split the rest at every '/', keep the path items whose template matches
  segment for segment and which answer the method (`pick`), take the literal-first maximum.
  `pick` is arbitrary (any method set, CORS arm or not), `p` is any string.
-/
namespace Goag.Router
open Node
variable {α β : Type}

/-- well-formed template set: pairwise non-equivalent templates (distinct key lists) -/
def WF (items : List (Str × α)) : Prop := (items.map (fun it => keysOf it.1)).Nodup

/-- **C03**: for every well-formed template set, every base path, every request path (any
    string) and every method selection, the generated router dispatches exactly as OpenAPI
    matching with literal preference prescribes — in particular not-found iff no template
    matches with the method. -/
theorem route_refines_spec (items : List (Str × α)) (hwf : WF items) (base p : Str) (pick : α → Option β) :
    routeGo (build items) base p pick = specRoute items base p pick := by
  unfold routeGo specRoute
  cases stripBase base p with
  | none => rfl
  | some rest =>
    simp only
    cases segmentsOf rest with
    | none => rfl
    | some segs => exact eval_eq_spec items hwf segs pick

/-- a request that is dispatched is dispatched to a stored path item whose template matches
    the request segment for segment (so the template reported to middlewares is that item's) -/
theorem route_reports_matching_item (items : List (Str × α)) (hwf : WF items) (base p : Str)
    (pick : α → Option β) (b : β) (h : routeGo (build items) base p pick = some b) :
    ∃ it ∈ items, ∃ rest segs, stripBase base p = some rest ∧ segmentsOf rest = some segs ∧
      tmatch (keysOf it.1) segs = true ∧ pick it.2 = some b := by
  unfold routeGo at h
  cases hs : stripBase base p with
  | none => simp [hs] at h
  | some rest =>
    cases hg : segmentsOf rest with
    | none => simp [hs, hg] at h
    | some segs =>
      simp only [hs, hg] at h
      obtain ⟨ks, a, hh, hm, hp, _⟩ := eval_sound pick (build items) segs b h
      obtain ⟨it, hit, hk, ha⟩ := (build_has items hwf _ _).mp hh
      exact ⟨it, hit, rest, segs, rfl, hg, by rw [hk]; exact hm, by rw [ha]; exact hp⟩

/-- not found iff nothing matches: if the router answers `none`, no stored template matches
    the request with a path item that answers the method -/
theorem not_found_iff_no_match (items : List (Str × α)) (hwf : WF items) (base p : Str)
    (pick : α → Option β) (rest : Str) (segs : List Str)
    (hs : stripBase base p = some rest) (hg : segmentsOf rest = some segs) :
    routeGo (build items) base p pick = none ↔
      ∀ it ∈ items, tmatch (keysOf it.1) segs = true → pick it.2 = none := by
  unfold routeGo
  simp only [hs, hg]
  constructor
  · intro h it hit hm
    exact eval_none pick (build items) segs h _ _ ((build_has items hwf _ _).mpr ⟨it, hit, rfl, rfl⟩) hm
  · intro h
    cases he : eval (build items) segs pick with
    | none => rfl
    | some b =>
      obtain ⟨ks, a, hh, hm, hp, _⟩ := eval_sound pick (build items) segs b he
      obtain ⟨it, hit, hk, ha⟩ := (build_has items hwf _ _).mp hh
      have := h it hit (by rw [hk]; exact hm)
      rw [ha, hp] at this
      exact absurd this (by simp)

/-- a trailing slash on the request path is significant: "/a" and "/a/" are different
    segment lists -/
theorem trailing_slash_significant :
    segmentsOf "/a".toList ≠ segmentsOf "/a/".toList := by decide

/-- a request path that does not start with '/' below the base path is never dispatched -/
theorem no_leading_slash_not_found (root : Node α) (base p rest : Str) (pick : α → Option β)
    (hs : stripBase base p = some rest) (hr : rest.head? ≠ some '/') :
    routeGo root base p pick = none := by
  unfold routeGo
  simp only [hs]
  have : segmentsOf rest = none := by
    unfold segmentsOf
    match rest, hr with
    | [], _ => rfl
    | c :: cs, hr =>
      have hc : c ≠ '/' := fun h => hr (by simp [h])
      simp [hc]
  simp [this]

/-- non-vacuity: a concrete well-formed set with literal/variable overlap, routed both ways -/
example : WF [("/a/b".toList, 1), ("/a/{x}".toList, 2), ("/{y}/b".toList, 3), ("/a/".toList, 4)] := by unfold WF; decide
example : routeGo (build [("/a/b".toList, 1), ("/a/{x}".toList, 2), ("/{y}/b".toList, 3)]) "/api".toList "/api/a/b".toList
    (fun n => if n = 1 then none else some n) = some 2 := by
  rw [route_refines_spec _ (by unfold WF; decide)]; decide

end Goag.Router
