import GoagModel.Basic
namespace Goag.C15
end Goag.C15
