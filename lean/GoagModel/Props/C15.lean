import GoagModel.Alias
/-
  C15 — the part of "the generator fails cleanly instead of crashing" that is a termination
  argument: component alias chains.  Before the repair c690caa a component that was only a
  `$ref` to itself overflowed the stack in `refObject.Value`.  The repaired code bounds the walk
  by the number of components and reports "reference cycle".  Theorems, for EVERY component map:

  * `exhausted_is_cycle`: if the bounded walk (any fuel above the number of components) has
    not ended, then the chain NEVER ends, whatever the fuel — "reference cycle" is never a
    false accusation, and a spec that is refused really has no finite resolution;
  * `accepted_resolves`: if `check` accepts, every component's chain ends at a definition
    within `len + 2` names, so the unbounded walks that follow terminate;
  * `walk_found_mono`: more fuel never changes an answer already found.
  The rest of C15 (no panic anywhere in the generator, for every document the loader accepts)
  quantifies over code that is not modelled; it is explored by fault enumeration.
-/
namespace Goag.Alias

theorem walk_found_mono (m : CMap) (f k : Nat) (n d : String) (h : walk m f n = .found d) :
    walk m (f + k) n = .found d := by
  induction f generalizing n with
  | zero => simp [walk] at h
  | succ f ih =>
    have : f + 1 + k = (f + k) + 1 := by omega
    rw [this]
    unfold walk at h ⊢
    split <;> simp_all

theorem exhausted_iff_after (m : CMap) (F : Nat) (n : String) :
    walk m F n = .exhausted ↔ (after m F n).isSome = true := by
  induction F generalizing n with
  | zero => simp [walk, after]
  | succ f ih =>
    unfold walk after
    split <;> simp_all

theorem after_add (m : CMap) (a b : Nat) (n : String) :
    after m (a + b) n = (after m a n).bind (after m b) := by
  induction a generalizing n with
  | zero => simp [after]
  | succ a ih =>
    have : a + 1 + b = (a + b) + 1 := by omega
    rw [this]
    unfold after
    split
    · rename_i t ht
      simp [ih]
    · simp

/-- a chain that is still running after `k+1` hops was on a key of the map at hop `k` -/
theorem after_key (m : CMap) (k : Nat) (n : String) (h : (after m (k + 1) n).isSome = true) :
    ∃ x, after m k n = some x ∧ x ∈ m.map (·.1) := by
  have hadd := after_add m k 1 n
  rw [hadd] at h
  cases hk : after m k n with
  | none => simp [hk] at h
  | some x =>
    refine ⟨x, rfl, ?_⟩
    simp only [hk, Option.bind_some] at h
    unfold after at h
    split at h
    · rename_i t ht
      unfold lookup at ht
      cases hf : m.find? (·.1 == x) with
      | none => simp [hf] at ht
      | some e =>
        have hm := List.mem_of_find?_eq_some hf
        have hp := List.find?_some hf
        simp only [beq_iff_eq] at hp
        exact List.mem_map.mpr ⟨e, hm, hp⟩
    · simp at h

theorem nodup_sub_length : ∀ (l keys : List String), l.Nodup → (∀ x ∈ l, x ∈ keys) → l.length ≤ keys.length
  | [], _, _, _ => by simp
  | a :: t, keys, hnd, hsub => by
    have ha : a ∈ keys := hsub a List.mem_cons_self
    have hnd' := List.nodup_cons.mp hnd
    have ht : ∀ x ∈ t, x ∈ keys.erase a := by
      intro x hx
      have hxa : x ≠ a := fun e => hnd'.1 (e ▸ hx)
      exact (List.mem_erase_of_ne hxa).mpr (hsub x (List.mem_cons_of_mem _ hx))
    have ih := nodup_sub_length t (keys.erase a) hnd'.2 ht
    have hlen : (keys.erase a).length = keys.length - 1 := List.length_erase_of_mem ha
    have hpos : 0 < keys.length := List.length_pos_of_mem ha
    simp only [List.length_cons]
    omega

/-- pigeonhole: more visited positions than keys ⇒ two positions carry the same name -/
theorem pigeon (keys : List String) (F : Nat) (g : Nat → String) (hk : ∀ k < F, g k ∈ keys)
    (hlen : keys.length < F) : ∃ i j, i < j ∧ j < F ∧ g i = g j := by
  by_cases h : ∃ i j, i < j ∧ j < F ∧ g i = g j
  · exact h
  · exfalso
    have hne : ∀ i j, i < j → j < F → g i ≠ g j := fun i j hij hj e => h ⟨i, j, hij, hj, e⟩
    have hnd : ((List.range F).map g).Nodup := by
      rw [List.Nodup, List.pairwise_map]
      refine List.Pairwise.imp_of_mem ?_ (List.pairwise_lt_range (n := F))
      intro a b ha hb hab
      exact hne a b hab (List.mem_range.mp hb)
    have hsub : ∀ x ∈ (List.range F).map g, x ∈ keys := by
      intro x hx
      obtain ⟨k, hkm, rfl⟩ := List.mem_map.mp hx
      exact hk k (List.mem_range.mp hkm)
    have := nodup_sub_length _ keys hnd hsub
    simp at this
    omega

theorem after_isSome_of_le (m : CMap) (a b : Nat) (n : String) (hab : a ≤ b)
    (h : (after m b n).isSome = true) : (after m a n).isSome = true := by
  have : b = a + (b - a) := by omega
  rw [this, after_add] at h
  cases ha : after m a n with
  | none => simp [ha] at h
  | some x => rfl

theorem periodic (m : CMap) (p : Nat) (x : String) (hp : after m p x = some x) (q : Nat) :
    after m (q * p) x = some x := by
  induction q with
  | zero => simp [after]
  | succ q ih =>
    have : (q + 1) * p = q * p + p := by rw [Nat.succ_mul]
    rw [this, after_add, ih]
    simpa using hp

/-- **No false "reference cycle".** If the walk bounded by any fuel above the number of
    components has not ended, the chain never ends: it is exhausted for every fuel. -/
theorem exhausted_is_cycle (m : CMap) (F : Nat) (n : String) (hF : m.length < F)
    (h : walk m F n = .exhausted) : ∀ G, walk m G n = .exhausted := by
  have hsome : (after m F n).isSome = true := (exhausted_iff_after m F n).mp h
  -- names at positions 0 .. F-1 are keys
  have hkeys : ∀ k < F, ∃ x, after m k n = some x ∧ x ∈ m.map (·.1) := by
    intro k hk
    exact after_key m k n (after_isSome_of_le m (k + 1) F n (by omega) hsome)
  let g : Nat → String := fun k => (after m k n).getD ""
  have hg : ∀ k < F, g k ∈ m.map (·.1) := by
    intro k hk
    obtain ⟨x, hx, hmem⟩ := hkeys k hk
    simp [g, hx, hmem]
  obtain ⟨i, j, hij, hj, hgij⟩ := pigeon (m.map (·.1)) F g hg (by simpa using hF)
  obtain ⟨x, hxi, _⟩ := hkeys i (by omega)
  obtain ⟨y, hyj, _⟩ := hkeys j hj
  have hxy : x = y := by simpa [g, hxi, hyj] using hgij
  subst hxy
  -- x returns to itself after p = j - i > 0 hops
  have hp : after m (j - i) x = some x := by
    have : j = i + (j - i) := by omega
    rw [this, after_add, hxi] at hyj
    simpa using hyj
  have hall : ∀ G, (after m G x).isSome = true := by
    intro G
    have hq := periodic m (j - i) x hp G
    apply after_isSome_of_le m G (G * (j - i)) x
    · have : 1 ≤ j - i := by omega
      calc G = G * 1 := by omega
        _ ≤ G * (j - i) := Nat.mul_le_mul_left G this
    · simp [hq]
  intro G
  rw [exhausted_iff_after]
  by_cases hG : G ≤ i
  · exact after_isSome_of_le m G i n hG (by simp [hxi])
  · have : G = i + (G - i) := by omega
    rw [this, after_add, hxi]
    simpa using hall (G - i)

theorem any_false_of_mem {α : Type} {l : List α} {p : α → Bool} (h : l.any p = false) {a : α} (ha : a ∈ l) : p a = false := by
  rw [List.any_eq_false] at h
  simpa using h a ha

/-- a chain that starts on a key and whose alias targets all exist never dangles -/
theorem walk_not_dangling (m : CMap) (hT : m.any (fun e => match e.2 with | some t => (lookup m t).isNone | none => false) = false)
    (f : Nat) (n : String) (hn : (lookup m n).isSome = true) (x : String) : walk m f n ≠ .dangling x := by
  induction f generalizing n with
  | zero => simp [walk]
  | succ f ih =>
    unfold walk
    cases hl : lookup m n with
    | none => simp [hl] at hn
    | some v =>
      cases v with
      | none => simp
      | some t =>
        simp only
        apply ih
        -- the entry found for n is (n', some t): its target exists
        unfold lookup at hl
        cases hf : m.find? (·.1 == n) with
        | none => simp [hf] at hl
        | some e =>
          simp only [hf, Option.map_some, Option.some.injEq] at hl
          have hm := List.mem_of_find?_eq_some hf
          have := any_false_of_mem hT hm
          simp only [hl] at this
          cases hlt : lookup m t with
          | none => simp [hlt] at this
          | some _ => rfl

/-- **Accepted maps resolve.** If `check` accepts, the chain of every component ends at a
    definition within `len + 2` names (and, by `walk_found_mono`, with any larger fuel). -/
theorem accepted_resolves (m : CMap) (h : check m = .ok ()) :
    ∀ e ∈ m, ∃ d, walk m (m.length + 2) e.1 = .found d := by
  unfold check at h
  split at h
  · simp at h
  · rename_i hT
    split at h
    · simp at h
    · rename_i hC
      intro e he
      have hT' : m.any (fun e => match e.2 with | some t => (lookup m t).isNone | none => false) = false :=
        Bool.eq_false_iff.mpr hT
      have hC' : m.any (fun e => walk m (m.length + 2) e.1 == .exhausted) = false :=
        Bool.eq_false_iff.mpr hC
      have hne : walk m (m.length + 2) e.1 ≠ .exhausted := by
        have := any_false_of_mem hC' he
        simpa using this
      have hkey : (lookup m e.1).isSome = true := by
        unfold lookup
        cases hf : m.find? (·.1 == e.1) with
        | none =>
          have := List.find?_eq_none.mp hf e he
          simp at this
        | some _ => rfl
      cases hw : walk m (m.length + 2) e.1 with
      | found d => exact ⟨d, rfl⟩
      | dangling x => exact absurd hw (walk_not_dangling m hT' _ _ hkey x)
      | exhausted => exact absurd hw hne

def verdict (m : CMap) : String := match check m with | .ok _ => "ok" | .error e => e

/-- non-vacuity: a self-alias and a two-cycle are refused, a chain of two aliases is accepted -/
example : verdict [("A", some "A")] = "reference cycle" := by decide
example : verdict [("A", some "B"), ("B", some "A"), ("C", none)] = "reference cycle" := by decide
example : verdict [("A", some "B"), ("B", some "C"), ("C", none)] = "ok" := by decide
example : verdict [("A", some "Z")] = "reference not found" := by decide

end Goag.Alias
