import GoagModel.Serve
import GoagModel.Router
/-
  C14 — no generated slice expression is out of range (the checked-slicing model of DESIGN §4.14).

  The generated request-path code slices strings at computed positions: the base path and every
  literal part are cut off with `p = p[N:]` behind a `strings.HasPrefix` guard, a variable takes
  `p[:idx]` / `p[idx:]` with `idx` from `strings.Index(p, "/")` (or `len(p)`), and the router's
  `splitPath` cuts `s[1:]`, `s[:idx+1]`, `s[idx+1:]`.  In Go an out-of-range bound panics.  Here every
  slice carries its bounds check (`sliceFrom` / `sliceTo` return `none` = panic) and the theorems say
  that for EVERY program, base path and request path the checked run never panics and computes what
  the unchecked model computes (`Serve.runProg`, the model the C03–C05 correspondence ties to the
  generated code on every run):

  * `runProgC_eq`     — the alternating constant / variable path program;
  * `stripBaseC_safe` — the base-path cut;
  * `splitPathC_safe`, `splitPathC_parts` — the router's `splitPath`: it never panics and its two
    parts concatenate to its argument (nothing of the path is lost or duplicated between tree levels).

  Not covered by this model: index expressions guarded by length checks (`hs[0]`, `vs[i]` in loops),
  nil maps and interfaces, the libraries; those stay explored under `recover` (see the check).
-/
namespace Goag.Serve

/-- `strings.Index(p, "/")`: position of the first slash, `none` for -1 -/
def goIndexSlash : List Char → Option Nat
  | [] => none
  | c :: cs => if c == '/' then some 0 else (goIndexSlash cs).map (· + 1)

/-- `p[n:]` and `p[:n]` with Go's bounds check (`none` = the run-time panic) -/
def sliceFrom (p : List Char) (n : Nat) : Option (List Char) := if n ≤ p.length then some (p.drop n) else none
def sliceTo (p : List Char) (n : Nat) : Option (List Char) := if n ≤ p.length then some (p.take n) else none

/-- the path program with every slice checked -/
def runProgC (leaf : LeafTable) : List Seg → List Char → List (String × String) →
    Option (Except PErr (List (String × String)))
  | [], _, acc => some (.ok acc)
  | Seg.const c :: rest, p, acc =>
    if c.isPrefixOf p then
      match sliceFrom p c.length with
      | none => none
      | some p' => runProgC leaf rest p' acc
    else some (.error .wrongPath)
  | Seg.var name t :: rest, p, acc =>
    let idx := (goIndexSlash p).getD p.length
    match sliceTo p idx, sliceFrom p idx with
    | some v, some p' =>
      if v.isEmpty then some (.error (.param "path" name "required")) else
      match pvalue leaf t (String.ofList v) with
      | none => some (.error (.param "path" name "lexical"))
      | some d => runProgC leaf rest p' (acc ++ [(name, d)])
    | _, _ => none

theorem isPrefixOf_length (c p : List Char) (h : c.isPrefixOf p = true) : c.length ≤ p.length := by
  induction c generalizing p with
  | nil => simp
  | cons x xs ih =>
    cases p with
    | nil => simp [List.isPrefixOf] at h
    | cons y ys =>
      simp only [List.isPrefixOf, Bool.and_eq_true] at h
      simp only [List.length_cons, Nat.add_le_add_iff_right]
      exact ih ys h.2

theorem goIndexSlash_spec (p : List Char) :
    (goIndexSlash p).getD p.length ≤ p.length ∧
    p.take ((goIndexSlash p).getD p.length) = p.takeWhile (· != '/') ∧
    p.drop ((goIndexSlash p).getD p.length) = p.dropWhile (· != '/') := by
  induction p with
  | nil => simp [goIndexSlash]
  | cons c cs ih =>
    by_cases hc : c = '/'
    · subst hc
      simp [goIndexSlash, List.takeWhile, List.dropWhile]
    · have hb : (c == '/') = false := by
        cases h : c == '/' with
        | false => rfl
        | true => exact absurd (beq_iff_eq.mp h) hc
      have hne : (c != '/') = true := by simp [bne, hb]
      simp only [goIndexSlash, hb, Bool.false_eq_true, if_false, List.length_cons, List.takeWhile, List.dropWhile, hne]
      cases hi : goIndexSlash cs with
      | none =>
        simp only [hi, Option.getD_none] at ih
        simp only [Option.map_none, Option.getD_none, Nat.le_refl, List.take_succ_cons, List.drop_succ_cons, true_and]
        exact ⟨by rw [ih.2.1], ih.2.2⟩
      | some i =>
        simp only [hi, Option.getD_some] at ih
        simp only [Option.map_some, Option.getD_some, Nat.add_le_add_iff_right, List.take_succ_cons, List.drop_succ_cons]
        exact ⟨ih.1, by rw [ih.2.1], ih.2.2⟩

/-- **C14, path program**: no slice of the generated path parser is out of range, for every
    program and every request path; the checked run is the modelled run -/
theorem runProgC_eq (leaf : LeafTable) (prog : List Seg) :
    ∀ (p : List Char) (acc : List (String × String)), runProgC leaf prog p acc = some (runProg leaf prog p acc) := by
  induction prog with
  | nil => intro p acc; rfl
  | cons s rest ih =>
    intro p acc
    cases s with
    | const c =>
      simp only [runProgC, runProg]
      by_cases hp : c.isPrefixOf p = true
      · have hl := isPrefixOf_length c p hp
        simp only [hp, if_true, sliceFrom, hl]
        exact ih _ acc
      · simp [hp]
    | var name t =>
      obtain ⟨hle, htake, hdrop⟩ := goIndexSlash_spec p
      simp only [runProgC, runProg, sliceTo, sliceFrom, hle, if_true, htake, hdrop]
      by_cases hv : (p.takeWhile (· != '/')).isEmpty = true
      · simp [hv]
      · simp only [hv, Bool.false_eq_true, if_false]
        cases pvalue leaf t (String.ofList (p.takeWhile (· != '/'))) with
        | none => rfl
        | some d => exact ih _ _

theorem runProgC_never_panics (leaf : LeafTable) (prog : List Seg) (p : List Char) (acc : List (String × String)) :
    runProgC leaf prog p acc ≠ none := by
  rw [runProgC_eq]; simp

/-- the base-path cut: `if !HasPrefix(p, base) { error }; p = p[len(base):]` -/
def stripBaseC (base p : List Char) : Option (Option (List Char)) :=
  if base.isPrefixOf p then (sliceFrom p base.length).map some else some none

theorem stripBaseC_safe (base p : List Char) : stripBaseC base p ≠ none := by
  unfold stripBaseC
  by_cases hp : base.isPrefixOf p = true
  · simp [hp, sliceFrom, isPrefixOf_length base p hp]
  · simp [hp]

/-- the router's `splitPath` with checked slices -/
def splitPathC (s : List Char) : Option (List Char × List Char) :=
  match s with
  | '/' :: _ =>
    match sliceFrom s 1 with
    | none => none
    | some t =>
      match goIndexSlash t with
      | none => some (s, [])
      | some idx =>
        match sliceTo s (idx + 1), sliceFrom s (idx + 1) with
        | some a, some b => some (a, b)
        | _, _ => none
  | _ => some (s, [])

theorem goIndexSlash_lt (p : List Char) (i : Nat) (h : goIndexSlash p = some i) : i < p.length := by
  induction p generalizing i with
  | nil => simp [goIndexSlash] at h
  | cons c cs ih =>
    simp only [goIndexSlash] at h
    by_cases hc : (c == '/') = true
    · simp only [hc, if_true, Option.some.injEq] at h
      subst h
      simp
    · simp only [hc, Bool.false_eq_true, if_false] at h
      cases hi : goIndexSlash cs with
      | none => simp [hi] at h
      | some k =>
        simp only [hi, Option.map_some, Option.some.injEq] at h
        subst h
        simp only [List.length_cons, Nat.add_lt_add_iff_right]
        exact ih k hi

/-- **C14, router**: `splitPath` never slices out of range … -/
theorem splitPathC_safe (s : List Char) : splitPathC s ≠ none := by
  unfold splitPathC
  split
  · rename_i rest
    simp only [sliceFrom, List.length_cons, Nat.le_add_left, if_true, List.drop_succ_cons, List.drop_zero]
    cases hi : goIndexSlash rest with
    | none => simp
    | some idx =>
      have := goIndexSlash_lt rest idx hi
      have hle : idx + 1 ≤ rest.length + 1 := by omega
      simp [sliceTo, hle]
  · simp

/-- … and loses nothing: the two parts concatenate to the argument -/
theorem splitPathC_parts (s a b : List Char) (h : splitPathC s = some (a, b)) : a ++ b = s := by
  unfold splitPathC at h
  split at h
  · rename_i rest
    simp only [sliceFrom, List.length_cons, Nat.le_add_left, if_true, List.drop_succ_cons, List.drop_zero] at h
    cases hi : goIndexSlash rest with
    | none =>
      simp only [hi, Option.some.injEq, Prod.mk.injEq] at h
      rw [← h.1, ← h.2]; simp
    | some idx =>
      have := goIndexSlash_lt rest idx hi
      have hle : idx + 1 ≤ rest.length + 1 := by omega
      simp only [hi, sliceTo, List.length_cons, hle, if_true, Option.some.injEq, Prod.mk.injEq] at h
      rw [← h.1, ← h.2]
      exact List.take_append_drop _ _
  · simp only [Option.some.injEq, Prod.mk.injEq] at h
    rw [← h.1, ← h.2]; simp

example : splitPathC "/pets/7".toList = some ("/pets".toList, "/7".toList) := by decide
example : splitPathC "/".toList = some ("/".toList, []) := by decide
example : goIndexSlash "ab/c".toList = some 2 := by decide

end Goag.Serve

namespace Goag.Serve

/-- what `splitPath` computes, in one line: the first `"/"+segment` and everything after it -/
theorem splitPathC_spec (rest : List Char) :
    splitPathC ('/' :: rest) = some ('/' :: rest.takeWhile (· != '/'), rest.dropWhile (· != '/')) := by
  unfold splitPathC
  simp only [sliceFrom, List.length_cons, Nat.le_add_left, if_true, List.drop_succ_cons, List.drop_zero]
  obtain ⟨hle, htake, hdrop⟩ := goIndexSlash_spec rest
  cases hi : goIndexSlash rest with
  | none =>
    simp only [hi, Option.getD_none] at htake hdrop
    simp only [List.take_length] at htake
    simp only [List.drop_length] at hdrop
    simp [← htake, ← hdrop]
  | some idx =>
    simp only [hi, Option.getD_some] at htake hdrop hle
    have hle' : idx + 1 ≤ rest.length + 1 := by omega
    simp [sliceTo, hle', htake, hdrop]

end Goag.Serve

namespace Goag.Serve
open Goag.Router

/-- `strings.Split(s, "/")` one segment at a time -/
theorem splitSlashAux_step (cur s : List Char) :
    splitSlashAux cur s =
      (cur.reverse ++ s.takeWhile (· != '/')) ::
        (match s.dropWhile (· != '/') with
         | [] => []
         | _ :: r => splitSlashAux [] r) := by
  induction s generalizing cur with
  | nil => simp [splitSlashAux]
  | cons c cs ih =>
    by_cases hc : c = '/'
    · subst hc
      simp [splitSlashAux, List.takeWhile, List.dropWhile]
    · have hne : (c != '/') = true := by simp [bne_iff_ne, hc]
      simp only [splitSlashAux, hc, if_false, List.takeWhile, List.dropWhile, hne]
      rw [ih (c :: cur)]
      simp

/-- the router peels one `"/"+segment` per tree level with `splitPath`; doing so until nothing is
    left visits exactly the segments `strings.Split` gives for the path: the level-by-level walk of
    the generated router and the one-shot segmentation of the routing model see the same path -/
def peel : Nat → List Char → List (List Char)
  | 0, _ => []
  | n + 1, p =>
    match splitPathC p with
    | some ('/' :: seg, rest) => seg :: (match rest with | [] => [] | _ => peel n rest)
    | _ => []

theorem peel_eq_split : ∀ (n : Nat) (cs : List Char), cs.length < n → peel n ('/' :: cs) = splitSlash cs := by
  intro n
  induction n with
  | zero => intro cs h; omega
  | succ n ih =>
    intro cs h
    simp only [peel, splitPathC_spec]
    unfold splitSlash
    rw [splitSlashAux_step [] cs]
    simp only [List.reverse_nil, List.nil_append]
    cases hd : cs.dropWhile (· != '/') with
    | nil => rfl
    | cons d r =>
      have hdslash : d = '/' := by
        have := List.head?_dropWhile_not (· != '/') cs
        simp only [hd, List.head?_cons] at this
        simpa using this
      subst hdslash
      have hlen : r.length < n := by
        have h1 : (cs.dropWhile (· != '/')).length ≤ cs.length := (List.dropWhile_sublist _).length_le
        rw [hd] at h1
        simp only [List.length_cons] at h1
        omega
      simp only [List.cons.injEq, true_and]
      have := ih r hlen
      unfold splitSlash at this
      exact this

example : peel 20 "/pets/7/".toList = ["pets".toList, "7".toList, []] := by decide

end Goag.Serve
