import GoagModel.Resp
/-
  C02 (first sentence) — the values a handler can return are exactly the documented responses.

  `Resp.emittedTypes` is the model of which response types goag emits and which unexported
  `write<Op>` methods each carries (an inline response: its own operation's; a shared
  component response: one per operation in its UsedIn list, aliases resolved).  In Go a type
  satisfies the operation's one-method response interface iff it has that method, so
  `Resp.implementers d o` is the set of types a handler of `o` can return.  The model is tied to
  the generated package on every run: `go/types` computes the implementer set of every
  `<Op>Response` interface over ALL named types of the package and it must equal this.

  Theorem: for every document, if operation names are distinct (else: KF-C01-nameCollision)
  the implementers of an operation's response interface are exactly its documented types.
-/
namespace Goag.Resp

theorem rootOf_mem (d : DocR) (fuel : Nat) (m n : String) (df : RespDef)
    (h : rootOf d fuel m = some (n, df)) : ∃ n', (n', (Sum.inr df : String ⊕ RespDef)) ∈ d.comps ∧ n' = n := by
  induction fuel generalizing m with
  | zero => simp [rootOf] at h
  | succ f ih =>
    unfold rootOf at h
    split at h
    · exact ih _ h
    · rename_i x def_ hfind
      simp only [Option.some.injEq, Prod.mk.injEq] at h
      obtain ⟨hn, hd⟩ := h
      subst hd
      have hm := List.mem_of_find?_eq_some hfind
      have hp := List.find?_some hfind
      refine ⟨x, hm, ?_⟩
      simp only [beq_iff_eq] at hp
      rw [hp, hn]
    · simp at h

theorem root_mem (d : DocR) (m n : String) (df : RespDef) (h : root d m = some (n, df)) :
    (n, (Sum.inr df : String ⊕ RespDef)) ∈ d.comps := by
  obtain ⟨n', hm, hn⟩ := rootOf_mem d _ m n df h
  subst hn
  exact hm

/-- **C02.** -/
theorem implementers_eq_documented (d : DocR) (o : OpR) (ho : o ∈ d.ops)
    (hnames : ∀ o' ∈ d.ops, operationName o' = operationName o → o' = o) (T : String) :
    T ∈ implementers d o ↔ T ∈ documentedTypes d o := by
  unfold implementers documentedTypes emittedTypes
  simp only [List.mem_map, List.mem_filter, List.mem_append, List.mem_filterMap]
  constructor
  · rintro ⟨t, ⟨ht | ht, hc⟩, rfl⟩
    · -- an inline response type: it belongs to the one operation with this name
      unfold inlineTypes at ht
      simp only [List.mem_flatMap, List.mem_filterMap] at ht
      obtain ⟨o', ho', u, hu, hsome⟩ := ht
      cases u with
      | comp st n => simp at hsome
      | inline st df =>
        simp only [Option.some.injEq] at hsome
        subst hsome
        simp only [List.contains_cons, List.contains_nil, Bool.or_false, beq_iff_eq] at hc
        have := hnames o' ho' hc.symm
        subst this
        exact ⟨.inline st df, hu, rfl⟩
    · -- a shared response: one of its users has this operation's name, hence is this operation
      unfold compTypes at ht
      simp only [List.mem_filterMap] at ht
      obtain ⟨⟨n, c⟩, hmem, hsome⟩ := ht
      cases c with
      | inl a => simp at hsome
      | inr df =>
        simp only [Option.some.injEq] at hsome
        subst hsome
        simp only [List.contains_iff_mem, List.mem_filterMap] at hc
        obtain ⟨o', ho', hif⟩ := hc
        by_cases hu : usesRoot d o' n = true
        · simp only [hu, if_true, Option.some.injEq] at hif
          have := hnames o' ho' hif
          subst this
          unfold usesRoot at hu
          simp only [List.any_eq_true] at hu
          obtain ⟨u, hu1, hu2⟩ := hu
          cases u with
          | inline st df' => simp at hu2
          | comp st m =>
            refine ⟨.comp st m, hu1, ?_⟩
            simp only [beq_iff_eq] at hu2
            cases hr : root d m with
            | none => simp [hr] at hu2
            | some r =>
              simp only [hr, Option.map_some, Option.some.injEq] at hu2
              obtain ⟨rn, rd⟩ := r
              simp only at hu2
              subst hu2
              simp [hr]
        · simp [hu] at hif
  · rintro ⟨u, hu, hsome⟩
    cases u with
    | inline st df =>
      simp only [Option.some.injEq] at hsome
      subst hsome
      refine ⟨{ name := inlineTypeName o st df, methods := [operationName o] }, ⟨Or.inl ?_, by simp⟩, rfl⟩
      unfold inlineTypes
      simp only [List.mem_flatMap, List.mem_filterMap]
      exact ⟨o, ho, .inline st df, hu, rfl⟩
    | comp st m =>
      cases hr : root d m with
      | none => simp [hr] at hsome
      | some r =>
        obtain ⟨n, df⟩ := r
        simp only [hr, Option.map_some, Option.some.injEq] at hsome
        subst hsome
        have hmem := root_mem d m n df hr
        have huses : usesRoot d o n = true := by
          unfold usesRoot
          simp only [List.any_eq_true]
          exact ⟨.comp st m, hu, by simp [hr]⟩
        refine ⟨{ name := n ++ "Response", methods := d.ops.filterMap (fun o' => if usesRoot d o' n then some (operationName o') else none) },
                ⟨Or.inr ?_, ?_⟩, rfl⟩
        · unfold compTypes
          simp only [List.mem_filterMap]
          exact ⟨(n, Sum.inr df), hmem, rfl⟩
        · simp only [List.contains_iff_mem, List.mem_filterMap]
          exact ⟨o, ho, by simp [huses]⟩

end Goag.Resp
