import GoagModel.Resp
namespace Goag.Resp
end Goag.Resp
