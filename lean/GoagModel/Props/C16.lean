import GoagModel.Serve
/-
  C16 — middlewares wrap exactly the routed operations, in declared order.

  `serve` is the model of the emitted `API.ServeHTTP`; middlewares are modelled as the
  logging middlewares the harness installs (`logMw i`), for stacks of ANY length `cfg.mws`.
-/
namespace Goag.Serve
open Goag.Spec Goag.Router

def isMw : Ev → Bool
  | .mwEnter .. => true
  | .mwLeave .. => true
  | _ => false

/-- the reverse index loop of `ServeHTTP` is a right fold: the first-declared middleware ends
    up outermost -/
theorem wrapLoop_eq_foldr (ms : List (Handler → Handler)) (h : Handler) :
    wrapLoop ms h = ms.foldr (fun m acc => m acc) h := by
  unfold wrapLoop
  rw [List.foldl_reverse]

theorem foldr_logMw (is : List Nat) (h : Handler) (r : RCtx) :
    (is.map logMw).foldr (fun m acc => m acc) h r =
      is.map (fun i => Ev.mwEnter i (r.tpl.getD "")) ++ h r ++ is.reverse.map Ev.mwLeave := by
  induction is with
  | nil => simp
  | cons i tl ih =>
    simp only [List.map_cons, List.foldr_cons, logMw, ih]
    simp [List.append_assoc]

/-- **C16 (shape)**: a stack of `n` logging middlewares around handler `h` produces
    enter 0 … enter (n-1), then exactly the events of `h`, then leave (n-1) … leave 0 -/
theorem middleware_trace (n : Nat) (h : Handler) (r : RCtx) :
    wrapLoop ((List.range n).map logMw) h r =
      (List.range n).map (fun i => Ev.mwEnter i (r.tpl.getD "")) ++ h r ++ (List.range n).reverse.map Ev.mwLeave := by
  rw [wrapLoop_eq_foldr, foldr_logMw]

theorem opHandler_no_mw (leaf : LeafTable) (api : ApiM) (cfg : Cfg) (o : OpM) (r : RCtx) :
    ∀ e ∈ opHandler leaf api cfg o r, isMw e = false := by
  intro e he
  unfold opHandler at he
  simp only [List.mem_append, List.mem_cons, List.not_mem_nil, or_false] at he
  rcases he with ((rfl | he) | he) | rfl
  · rfl
  · split at he <;> simp at he; subst he; rfl
  · split at he <;> simp at he; subst he; rfl
  · rfl

theorem authOr_no_mw (refs : List AuthRef) (cfg : Cfg) (req : Req) :
    ∀ e ∈ (authOr refs cfg req).1, isMw e = false := by
  induction refs with
  | nil => simp [authOr]
  | cons r rs ih =>
    intro e he
    unfold authOr at he
    split at he
    · exact ih e he
    · split at he
      · exact ih e he
      · split at he
        · simp at he; subst he; rfl
        · simp only [List.mem_cons] at he
          rcases he with rfl | he
          · rfl
          · exact ih e he

/-- the security wrapper and the operation handler emit no middleware events: everything
    they do (authenticator calls included) happens inside the innermost middleware -/
theorem secured_no_mw (leaf : LeafTable) (api : ApiM) (cfg : Cfg) (o : OpM) (r : RCtx) :
    ∀ e ∈ secured leaf api cfg o r, isMw e = false := by
  intro e he
  unfold secured at he
  split at he
  · exact opHandler_no_mw _ _ _ _ _ e he
  · split at he
    · rename_i evs s t heq
      simp only [List.mem_append] at he
      rcases he with he | he
      · have := authOr_no_mw o.auth cfg r.req e; rw [heq] at this; exact this he
      · exact opHandler_no_mw _ _ _ _ _ e he
    · rename_i evs heq
      simp only [List.mem_append, List.mem_cons, List.not_mem_nil, or_false] at he
      rcases he with he | rfl
      · have := authOr_no_mw o.auth cfg r.req e; rw [heq] at this; exact this he
      · rfl

/-- **C16 (routed)**: a request dispatched to operation `o` passes through all `cfg.mws`
    middlewares exactly once each, first-declared outermost, all of them outside the security
    check, with the matched template visible to each of them -/
theorem serve_routed (leaf : LeafTable) (api : ApiM) (cfg : Cfg) (req : Req) (o : OpM)
    (hs : (cfg.spec && req.path == api.base ++ "/" ++ api.specName) = false)
    (hr : route api cfg req = some (.op o)) :
    serve leaf api cfg req =
      (List.range cfg.mws).map (fun i => Ev.mwEnter i o.tpl) ++
        secured leaf api cfg o { req := req, tpl := some o.tpl } ++
        (List.range cfg.mws).reverse.map Ev.mwLeave := by
  unfold serve
  simp only [hs, hr, middleware_trace]
  simp

/-- **C16 (bypass)**: requests for the spec file, requests that match no operation and CORS
    preflights produce no middleware event at all -/
theorem serve_unrouted_bypass (leaf : LeafTable) (api : ApiM) (cfg : Cfg) (req : Req)
    (h : (cfg.spec && req.path == api.base ++ "/" ++ api.specName) = true ∨
         (∀ o, route api cfg req ≠ some (.op o))) :
    ∀ e ∈ serve leaf api cfg req, isMw e = false := by
  intro e he
  unfold serve at he
  split at he
  · simp at he; subst he; rfl
  · rename_i hspec
    have hno : ∀ o, route api cfg req ≠ some (.op o) := by
      rcases h with h | h
      · exact absurd h hspec
      · exact h
    split at he
    · unfold notFound at he
      split at he <;> simp at he
      · rcases he with rfl | rfl <;> rfl
      · subst he; rfl
    · simp at he
      rcases he with rfl | rfl | rfl <;> rfl
    · rename_i o heq
      exact absurd heq (hno o)

/-- every middleware index below the stack length is entered exactly once on a routed request -/
theorem each_middleware_once (leaf : LeafTable) (api : ApiM) (cfg : Cfg) (req : Req) (o : OpM)
    (hs : (cfg.spec && req.path == api.base ++ "/" ++ api.specName) = false)
    (hr : route api cfg req = some (.op o)) (i : Nat) (hi : i < cfg.mws) :
    (serve leaf api cfg req).count (Ev.mwEnter i o.tpl) = 1 := by
  rw [serve_routed leaf api cfg req o hs hr]
  have h2 : (secured leaf api cfg o { req := req, tpl := some o.tpl }).count (Ev.mwEnter i o.tpl) = 0 := by
    apply List.count_eq_zero.mpr
    intro hm
    have := secured_no_mw leaf api cfg o _ _ hm
    simp [isMw] at this
  have h3 : ((List.range cfg.mws).reverse.map Ev.mwLeave).count (Ev.mwEnter i o.tpl) = 0 := by
    apply List.count_eq_zero.mpr
    simp
  have h1 : ((List.range cfg.mws).map (fun i => Ev.mwEnter i o.tpl)).count (Ev.mwEnter i o.tpl) = 1 := by
    have hinj : ∀ a b : Nat, Ev.mwEnter a o.tpl = Ev.mwEnter b o.tpl → a = b := by
      intro a b h; injection h
    rw [List.count_eq_countP, List.countP_map]
    have : (List.countP ((fun x => x == Ev.mwEnter i o.tpl) ∘ fun i => Ev.mwEnter i o.tpl) (List.range cfg.mws))
        = List.countP (fun x => x == i) (List.range cfg.mws) := by
      apply List.countP_congr
      intro a _
      simp only [Function.comp, beq_iff_eq]
      constructor
      · intro h; exact hinj _ _ h
      · intro h; rw [h]
    rw [this, ← List.count_eq_countP]
    rw [List.count_range]; simp [hi]
  have h3' : ((List.range cfg.mws).map Ev.mwLeave).count (Ev.mwEnter i o.tpl) = 0 := by
    apply List.count_eq_zero.mpr
    simp
  simp [List.count_append, h1, h2, h3']

/-- non-vacuity: a stack of three -/
example : wrapLoop ((List.range 3).map logMw) (fun _ => [Ev.nf]) { req := default, tpl := some "/a" } =
    [Ev.mwEnter 0 "/a", Ev.mwEnter 1 "/a", Ev.mwEnter 2 "/a", Ev.nf, Ev.mwLeave 2, Ev.mwLeave 1, Ev.mwLeave 0] := by
  rw [middleware_trace]; rfl

end Goag.Serve
