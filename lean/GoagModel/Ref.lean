import GoagModel.Serve
/-
  Reference reading of the properties, written from the OpenAPI document (not from the
  generator's plan): which operation a request belongs to (C03), what its security
  requirement demands (C11), what a CORS preflight advertises (C17).
-/
namespace Goag.Ref
open Goag.Spec Goag.Router Goag.Serve

inductive Target where
  | op (method tpl : String)
  | cors (tpl : String)
deriving Repr, DecidableEq, Inhabited

/-- operations of a path item that answer the method; with CORS enabled and a CORS handler
    installed a path item without OPTIONS has a synthetic preflight operation -/
def pickRef (method : String) (cors : Bool) (pi : PathItem) : Option Target :=
  if pi.ops.any (·.method == method) then some (.op method pi.raw)
  else if cors && method == "OPTIONS" && !pi.ops.isEmpty then some (.cors pi.raw)
  else none

/-- C03: the operation whose template matches the request path segment for segment below the
    base path, literal segments preferred, with the request's method -/
def refRoute (doc : Doc) (base : String) (cors : Bool) (method path : String) : Option Target :=
  specRoute (doc.paths.map (fun pi => (pi.raw.toList, pi))) base.toList path.toList (pickRef method cors)

/-- C11: one alternative of the operation's own effective requirement must be accepted.
    An alternative is a set of schemes; every scheme of it must be a supported kind, present
    in the request and accepted by its installed authenticator. Result: the accepted
    (scheme, token) of the first satisfied alternative's first scheme, `none` = 401;
    `public` when the effective list is empty. -/
inductive AuthVerdict where
  | pub
  /-- the handler must run, with the request returned by one of these accepted (scheme, token)s -/
  | ranOneOf (accepted : List (String × String))
  | denied
deriving Repr, DecidableEq, Inhabited

def schemeRef (doc : Doc) (n : String) : Option AuthRef :=
  match schemeOf doc n with
  | some .bearer => some (.bearer n)
  | some (.apiKeyHeader h) => some (.headerKey n h)
  | some (.apiKeyQuery q) => some (.queryKey n q)
  | _ => none

/-- scheme `n` is supported, its authenticator is installed, the request carries its
    credential and the authenticator accepts it -/
def acceptScheme (doc : Doc) (cfg : Cfg) (req : Req) (n : String) : Option (String × String) :=
  match schemeRef doc n with
  | none => none
  | some r =>
    match cfg.auth.find? (·.1 == n), credential r req with
    | some (_, accept), some tok => if accept.contains tok then some (n, tok) else none
    | _, _ => none

/-- an alternative is satisfied when every scheme of it is accepted; it yields the accepted
    (scheme, token) pairs of its schemes -/
def altAccepted (doc : Doc) (cfg : Cfg) (req : Req) (alt : List String) : List (String × String) :=
  if !alt.isEmpty && alt.all (fun n => (acceptScheme doc cfg req n).isSome) then alt.filterMap (acceptScheme doc cfg req) else []

def refAuth (doc : Doc) (o : Operation) (cfg : Cfg) (req : Req) : AuthVerdict :=
  let alts := effectiveReqs doc o
  if alts.isEmpty then .pub else
  match alts.flatMap (altAccepted doc cfg req) with
  | [] => .denied
  | acc => .ranOneOf acc

/-- C17: what the preflight of a path item advertises -/
def refCorsMethods (pi : PathItem) : List String := pi.ops.map (·.method)

def refCorsHeaders (doc : Doc) (pi : PathItem) : List String :=
  let hdrParams := pi.ops.flatMap (fun o => (o.parameters.filter (·.loc == "header")).map (fun p => canonKey p.name))
  let secHdrs := pi.ops.flatMap (fun o => (effectiveReqs doc o).flatMap (fun alt =>
    alt.filterMap (fun n => (schemeOf doc n).bind secHeaderOf)))
  (hdrParams ++ secHdrs).eraseDups

/-- C05: every path parameter is the typed value of the request segment at its own template
    position below the base path; an empty or ill-typed segment is an error naming it.
    Result: the dumped values in declaration order, or the set of (name, kind) faults. -/
def refPathParams (leaf : LeafTable) (base : String) (tpl : String) (o : Operation) (path : String) :
    Except (List (String × String)) (List String) :=
  let declared := o.parameters.filter (·.loc == "path")
  match (stripBase base.toList path.toList).bind segmentsOf with
  | none => .error [("", "not-below-base")]
  | some segs =>
    let tsegs := match tpl.splitOn "/" with | _ :: ds => ds | [] => []
    let segAt (name : String) : Option String :=
      ((tsegs.zip segs).find? (fun (t, _) => t == "{" ++ name ++ "}")).map (fun (_, s) => String.ofList s)
    let results := declared.map (fun p =>
      match segAt p.name with
      | none => (p.name, Except.error "no-segment")
      | some seg =>
        if seg.isEmpty then (p.name, Except.error "required")
        else match pvalue leaf p.type seg with
          | none => (p.name, Except.error "lexical")
          | some d => (p.name, Except.ok d))
    let faults := results.filterMap (fun (n, r) => match r with | .error k => some (n, k) | .ok _ => none)
    if faults.isEmpty then .ok (results.filterMap (fun (_, r) => match r with | .ok d => some d | _ => none))
    else .error faults

/-- C04: a declared query / header parameter is malformed in a request iff it is required and
    absent, scalar and supplied more than once, or some supplied value lies outside the lexical
    space of its type. Returns the faults (all applicable kinds). -/
def malformed (leaf : LeafTable) (p : Param) (vs : List String) : List String :=
  (if p.required && vs.isEmpty then ["required"] else []) ++
  (if !p.isArray && vs.length > 1 then ["multiple"] else []) ++
  (if vs.any (fun v => (pvalue leaf p.type v).isNone) then ["lexical"] else [])

/-- the typed value(s) of the supplied text(s); unset for an absent optional parameter -/
def specValue (leaf : LeafTable) (p : Param) (vs : List String) : String :=
  if vs.isEmpty then "-"
  else if p.isArray then "[" ++ ",".intercalate (vs.map (fun v => (pvalue leaf p.type v).getD "?")) ++ "]"
  else (pvalue leaf p.type (vs.headD "")).getD "?"

def refParams (leaf : LeafTable) (o : Operation) (req : Req) : Except (List String) (List String × List String) :=
  let qs := o.parameters.filter (·.loc == "query")
  let hs := o.parameters.filter (·.loc == "header")
  let faults := (qs.flatMap (fun p => (malformed leaf p (queryValues req p)).map (fun k => "query:" ++ toHex p.name ++ ":" ++ k))) ++
                (hs.flatMap (fun p => (malformed leaf p (headerValues req p)).map (fun k => "header:" ++ toHex p.name ++ ":" ++ k)))
  if faults.isEmpty then
    .ok (qs.map (fun p => specValue leaf p (queryValues req p)), hs.map (fun p => specValue leaf p (headerValues req p)))
  else .error faults

end Goag.Ref
