import GoagModel.Basic
/-
  Closed-form models of the Go standard-library leaf parsers/formatters that goag binds
  primitive types to, on ASCII: `strconv.ParseInt(s, 10, bits)`, `strconv.FormatInt(v, 10)`,
  `strconv.ParseBool`, `strconv.FormatBool`.  Tied against the real functions by the
  `prim` facet of the harness.
-/
namespace Goag.Prim

def digitVal (c : Char) : Option Nat :=
  if '0' ≤ c ∧ c ≤ '9' then some (c.toNat - '0'.toNat) else none

/-- value of a non-empty all-digit string -/
def digitsVal : List Char → Nat → Option Nat
  | [], acc => some acc
  | c :: cs, acc => match digitVal c with
    | some d => digitsVal cs (acc * 10 + d)
    | none => none

/-- `strconv.ParseInt(s, 10, bits)` with bits ∈ {0 (=64), 32, 64}: optional sign, at least one
    digit, no underscores, value in `[-2^(bits-1), 2^(bits-1) - 1]` -/
def splitSign : Str → Bool × Str
  | '+' :: r => (false, r)
  | '-' :: r => (true, r)
  | r => (false, r)

def parseIntGo (bits : Nat) (s : Str) : Option Int :=
  let b := if bits = 0 then 64 else bits
  let sd := splitSign s
  if sd.2.isEmpty then none else
  match digitsVal sd.2 0 with
  | none => none
  | some n =>
    if sd.1 then (if n ≤ 2 ^ (b - 1) then some (-(n : Int)) else none)
    else (if n < 2 ^ (b - 1) then some (n : Int) else none)

/-- decimal digits of a natural number, most significant first -/
def natDigits (n : Nat) : List Char := (Nat.toDigits 10 n)

/-- `strconv.FormatInt(v, 10)` -/
def formatIntGo (v : Int) : Str :=
  if v < 0 then '-' :: natDigits v.natAbs else natDigits v.natAbs

/-- `strconv.ParseBool` -/
def parseBoolGo (s : Str) : Option Bool :=
  if s ∈ ["1".toList, "t".toList, "T".toList, "TRUE".toList, "true".toList, "True".toList] then some true
  else if s ∈ ["0".toList, "f".toList, "F".toList, "FALSE".toList, "false".toList, "False".toList] then some false
  else none

def formatBoolGo (b : Bool) : Str := if b then "true".toList else "false".toList

end Goag.Prim
