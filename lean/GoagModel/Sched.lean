/-
  C20: requests in flight on one generated API value (or one generated client).

  The generated code keeps every piece of per-request state in locals of ServeHTTP /
  new<Op>Params / Client.<Op> (and in values reachable only from them); what the requests share
  — the API value's fields, the package-level variables — is only read.  That shape is what the
  regenerated site table (`Goag.C20.sites`, extracted from the generated packages by
  `vh conc`) establishes on every run.  The model below is a system of that shape: a shared
  environment that no step changes, and one local state per request that only that request's
  steps change.  A schedule is the list of request indices in the order their steps happen.
-/
namespace Goag.Sched

/-- one step of a request: a function of the shared (read-only) environment and of the
    request's own local state -/
structure Sys (E L : Type) where
  step : E → L → L

variable {E L : Type}

def update (st : Nat → L) (i : Nat) (v : L) : Nat → L := fun j => if j = i then v else st j

/-- run a schedule: at each point the named request performs one step -/
def run (sys : Sys E L) (env : E) : List Nat → (Nat → L) → (Nat → L)
  | [], st => st
  | i :: rest, st => run sys env rest (update st i (sys.step env (st i)))

def iter (f : L → L) : Nat → L → L
  | 0, x => x
  | n + 1, x => iter f n (f x)

/-- a system whose steps may also write a shared cell (what a package-level buffer or a lazily
    initialised field of the API value amounts to) -/
structure SysW (S L : Type) where
  step : S → L → S × L

def runW {S : Type} (sys : SysW S L) : List Nat → S × (Nat → L) → S × (Nat → L)
  | [], st => st
  | i :: rest, (s, st) =>
    let (s', l') := sys.step s (st i)
    runW sys rest (s', update st i l')

end Goag.Sched
