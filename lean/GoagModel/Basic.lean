/-
  Shared basics for the goag model: strings as lists of characters, hex transport encoding
  used by the line protocol between the Go harness and the Lean driver.
-/
abbrev Str := List Char

namespace Goag

def hexDigit (n : Nat) : Char :=
  if n < 10 then Char.ofNat (48 + n) else Char.ofNat (87 + n)

def hexVal (c : Char) : Option Nat :=
  if '0' ≤ c ∧ c ≤ '9' then some (c.toNat - '0'.toNat)
  else if 'a' ≤ c ∧ c ≤ 'f' then some (c.toNat - 'a'.toNat + 10)
  else if 'A' ≤ c ∧ c ≤ 'F' then some (c.toNat - 'A'.toNat + 10)
  else none

/-- hex of the UTF-8 bytes of a string -/
def toHex (s : String) : String :=
  String.ofList (s.toUTF8.toList.flatMap (fun b => [hexDigit (b.toNat / 16), hexDigit (b.toNat % 16)]))

def hexToBytes : List Char → Option (List UInt8)
  | [] => some []
  | [_] => none
  | a :: b :: rest => do
      let x ← hexVal a
      let y ← hexVal b
      let r ← hexToBytes rest
      pure (UInt8.ofNat (x * 16 + y) :: r)

/-- decode hex into a string; `none` if not hex or not valid UTF-8 -/
def fromHex (h : String) : Option String := do
  let bs ← hexToBytes h.toList
  String.fromUTF8? (ByteArray.mk bs.toArray)

end Goag
