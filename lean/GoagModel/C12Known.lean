import GoagModel.Basic
/-
  C12: the reviewed table of order- or environment-sensitive sites of the generator.  The
  harness regenerates the list of sites from /repo's source on every run
  (`vh mapranges`: every `range` over a map, every maps.Keys/Values, every environment read,
  every go/select statement in goag, goag/generator, goag/specification, goag/cmd/goag);
  the regenerated obligation is that every site of the current tree is in this table.
  A site is identified by (package, function, kind, operand, hash of the normalised statement).
  The `kind` is computed by the translator from the syntax:
    range-collect-sorted : `for k := range m { x = append(x, k) }` with `x` sorted later in the function
    mapsKeys-sorted      : `x := maps.Keys(m)` with `x` sorted later in the function
    range-unreferenced   : a range in a function nothing in the loaded packages refers to
    range / mapsKeys     : anything else (needs a reviewed entry with its hash)
    env / go / select    : environment read / goroutine / select
-/
namespace Goag.C12

structure Site where
  pkg : String
  fn : String
  kind : String
  operand : String
  hash : String
deriving DecidableEq, Repr

/-- why a site cannot make the output bytes depend on iteration order or environment -/
inductive Shape where
  | collectThenSort    -- keys collected, sorted before any other use: lemma `sorted_perm_eq`
  | insertDistinct     -- only writes `m'[k] = f v` for the distinct keys k (or returns an error): lemma `insertDistinct_perm`
  | errorTextOnly      -- only composes the text of an error that aborts generation (no file is written)
  | unreferenced       -- enclosing function is not referenced by the generator
  | recordedInput      -- an input the property statement does not list, recorded in DESIGN.md §11 (TEMPLATE_DEBUG unset)
deriving DecidableEq, Repr

/-- sites accepted by syntactic kind alone (the translator established the shape) -/
def shapeOfKind : String → Option Shape
  | "range-collect-sorted" => some .collectThenSort
  | "mapsKeys-sorted" => some .collectThenSort
  | "range-unreferenced" => some .unreferenced
  | _ => none

/-- sites reviewed by hand, pinned to the hash of their statement text -/
def reviewed : List (Site × Shape) := [
  (⟨"goag/generator", "ExecuteTemplate", "env", "os.Getenv(\"TEMPLATE_DEBUG\")", "4d33dca4ce56"⟩, .recordedInput),
  (⟨"goag/specification", "NewComponents", "range", "spec.Parameters", "1e65b1ef2112"⟩, .insertDistinct),
  (⟨"goag/specification", "NewSchema", "range", "required", "aa006bc2f221"⟩, .errorTextOnly),
  (⟨"goag/specification", "NewSchema", "range", "schema.ExtensionProps.Extensions", "9690d7b88366"⟩, .insertDistinct)
]

def classify (s : Site) : Option Shape :=
  match shapeOfKind s.kind with
  | some sh => some sh
  | none => (reviewed.find? (fun e => e.1 == s)).map (·.2)

def allClassified (sites : List Site) : Bool := sites.all (fun s => (classify s).isSome)

end Goag.C12
