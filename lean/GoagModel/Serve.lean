import GoagModel.Spec
import GoagModel.Router
import GoagModel.Prim
/-
  Plan: the generator decisions that shape routing, security, CORS and path parsing
  (`goag.Generate` base path, `generator.NewRouter`, `generator.NewOperation` PathBuilder).
  Sem : what the emitted `API.ServeHTTP` does with a request, as an event trace.
-/
namespace Goag.Serve
open Goag.Spec Goag.Router

/-! ## Plan -/

def replaceAll (s pat rep : String) : String := s.replace pat rep

/-- Go `url.Parse(raw).Path` for the URL forms of the dialect: `scheme://authority/path`,
    `/path`; anything else is returned as is (up to `?`/`#`). No percent-decoding (the
    dialect has no `%` in server URLs). -/
def urlPath (raw : String) : String :=
  let cut (s : String) : String := ((s.splitOn "#").headD "" |>.splitOn "?").headD ""
  let s := cut raw
  match s.splitOn "://" with
  | [_] => s
  | _ :: rest =>
    let after := "://".intercalate rest
    match after.splitOn "/" with
    | [] | [_] => ""
    | _ :: segs => "/" ++ "/".intercalate segs
  | [] => s

def trimRightSlash (s : String) : String := String.ofList (s.toList.reverse.dropWhile (· == '/')).reverse

/-- `goag.Generate`: flag wins; else servers[0].url with variable defaults substituted in
    sorted-name order; a trailing slash is insignificant -/
def basePath (doc : Doc) (flag : String) : String :=
  let b := if flag != "" then flag else
    match doc.serverUrl with
    | none => ""
    | some u => urlPath (doc.serverVars.foldl (fun acc (k, d) => replaceAll acc ("{" ++ k ++ "}") d) u)
  trimRightSlash b

/-- ASCII `http.CanonicalHeaderKey`: valid token characters => upper-case the first letter
    and every letter after '-', lower-case the rest; otherwise unchanged -/
def isTokenChar (c : Char) : Bool :=
  c.isAlphanum || "!#$%&'*+-.^_`|~".toList.contains c

def canonKey (s : String) : String :=
  if s.toList.all isTokenChar then
    let rec go (up : Bool) : List Char → List Char
      | [] => []
      | c :: cs => (if up then c.toUpper else c.toLower) :: go (c == '-') cs
    String.ofList (go true s.toList)
  else s

inductive AuthRef where
  | bearer (scheme : String)
  | headerKey (scheme : String) (name : String)
  | queryKey (scheme : String) (name : String)
deriving Repr, DecidableEq, Inhabited

def AuthRef.scheme : AuthRef → String
  | .bearer s => s | .headerKey s _ => s | .queryKey s _ => s

inductive Seg where
  | const (s : List Char)
  | var (name : String) (t : PType)
deriving Repr, Inhabited

/-- one segment of a path template: a literal directory or a `{name}` of a declared type -/
inductive TSeg where
  | lit (d : List Char)
  | var (name : String) (t : PType)
deriving Repr, Inhabited

structure OpM where
  method : String
  tpl : String
  isCors : Bool := false
  corsMethods : List String := []
  corsHeaders : List String := []
  auth : List AuthRef := []
  hasPathParams : Bool := false
  pathProg : List Seg := []
  /-- declared path parameter names in struct field order -/
  pathFields : List String := []
  /-- query parameters in struct field order -/
  queryParams : List Param := []
  /-- header parameters in struct field order: declared ones, then those `NewOperation` adds
      for bearer / apiKey-in-header requirements -/
  headerParams : List Param := []
deriving Repr, Inhabited

structure ItemM where
  raw : String
  ops : List OpM
deriving Repr, Inhabited

structure ApiM where
  base : String
  specName : String
  cors : Bool
  items : List ItemM
deriving Repr, Inhabited

def schemeOf (doc : Doc) (n : String) : Option SchemeKind := (doc.schemes.find? (·.1 == n)).map (·.2)

/-- `NewSecurityRequirements`: each requirement keeps its first scheme in sorted-name order;
    an empty requirement is dropped; an unknown name is a generator error -/
def reduceReqs (doc : Doc) : List (List String) → Except String (List (String × SchemeKind))
  | [] => .ok []
  | [] :: rest => reduceReqs doc rest
  | (n :: _) :: rest =>
    match schemeOf doc n with
    | none => .error s!"cannot find {n} security scheme"
    | some k =>
      match reduceReqs doc rest with
      | .error e => .error e
      | .ok red => .ok ((n, k) :: red)

def effectiveReqs (doc : Doc) (o : Operation) : List (List String) := o.security.getD doc.security

/-- `NewRouter`: bearer first (if any requirement is bearer), then the apiKey schemes in order -/
def authRefs (reduced : List (String × SchemeKind)) : List AuthRef :=
  let jwt := reduced.filterMap (fun (n, k) => match k with | .bearer => some (AuthRef.bearer n) | _ => none)
  let keysH := reduced.filterMap (fun (n, k) => match k with
    | .apiKeyHeader h => some (AuthRef.headerKey n h) | .apiKeyQuery q => some (AuthRef.queryKey n q) | _ => none)
  (jwt.take 1) ++ keysH

/-- `NewOperation` PathBuilder + `NewHandler` PathParsers: literal directories accumulate into
    one constant prefix; a variable flushes the pending constant (with its trailing slash) and
    adds an extractor; what is pending at the end becomes a last constant -/
def progOf : List TSeg → List Char → List Seg
  | [], pend => if pend.isEmpty then [] else [Seg.const pend]
  | .lit d :: ts, pend => progOf ts (pend ++ '/' :: d)
  | .var n t :: ts, pend => Seg.const (pend ++ ['/']) :: Seg.var n t :: progOf ts []

def tsegsOf (raw : String) (params : List Param) : List TSeg :=
  let dirs := match (raw.splitOn "/") with | _ :: ds => ds | [] => []
  dirs.map (fun d =>
    if d.startsWith "{" && d.endsWith "}" then
      let name := ((d.drop 1).dropEnd 1).toString
      let t := ((params.find? (fun p => p.loc == "path" && p.name == name)).map (·.type)).getD (.other "undeclared")
      TSeg.var name t
    else TSeg.lit d.toList)

def pathProgOf (raw : String) (params : List Param) : List Seg := progOf (tsegsOf raw params) []

def appendIfAbsent (xs : List String) (x : String) : List String := if xs.contains x then xs else xs ++ [x]

/-- the append-if-absent loop over a `headersMap` -/
def dedupKeep (l : List String) : List String := l.foldl appendIfAbsent []

/-- `mapM` in `Except`, written out -/
def mapE {α β ε : Type} (f : α → Except ε β) : List α → Except ε (List β)
  | [] => .ok []
  | x :: xs =>
    match f x with
    | .error e => .error e
    | .ok y =>
      match mapE f xs with
      | .error e => .error e
      | .ok ys => .ok (y :: ys)

def secHeaderOf : SchemeKind → Option String
  | .bearer => some "Authorization"
  | .apiKeyHeader n => some (canonKey n)
  | _ => none

/-- header names one operation contributes to the preflight: its header parameters, then
    the headers its (reduced) security schemes read -/
def opCorsKeys (o : Operation) (red : List (String × SchemeKind)) : List String :=
  (o.parameters.filter (·.loc == "header")).map (fun p => canonKey p.name) ++ red.filterMap (fun x => secHeaderOf x.2)

def corsHeadersOf (doc : Doc) (pi : PathItem) : Except String (List String) :=
  match mapE (fun o => match reduceReqs doc (effectiveReqs doc o) with
                       | .error e => .error e
                       | .ok red => .ok (opCorsKeys o red)) pi.ops with
  | .error e => .error e
  | .ok keys => .ok (dedupKeep keys.flatten)

/-- `generator.NewOperation`: a bearer requirement adds a string header parameter
    `Authorization`, an apiKey-in-header requirement one named after its header; required iff
    it is the operation's only requirement -/
def secHeaderParams (red : List (String × SchemeKind)) : List Param :=
  red.filterMap (fun x => match x.2 with
    | .bearer => some { loc := "header", name := "Authorization", required := red.length == 1, type := .str }
    | .apiKeyHeader h => some { loc := "header", name := h, required := red.length == 1, type := .str }
    | _ => none)

def planOp (doc : Doc) (pi : PathItem) (o : Operation) : Except String OpM :=
  match reduceReqs doc (effectiveReqs doc o) with
  | .error e => .error e
  | .ok red =>
    let pathPs := o.parameters.filter (·.loc == "path")
    .ok { method := o.method, tpl := pi.raw, auth := authRefs red,
          hasPathParams := !pathPs.isEmpty,
          pathProg := pathProgOf pi.raw o.parameters,
          pathFields := pathPs.map (·.name),
          queryParams := o.parameters.filter (·.loc == "query"),
          headerParams := o.parameters.filter (·.loc == "header") ++ secHeaderParams red }

def planItem (doc : Doc) (cors : Bool) (pi : PathItem) : Except String ItemM :=
  match mapE (planOp doc pi) pi.ops with
  | .error e => .error e
  | .ok ops =>
    if cors && !(pi.ops.any (·.method == "OPTIONS")) && !ops.isEmpty then
      match corsHeadersOf doc pi with
      | .error e => .error e
      | .ok hs =>
        .ok { raw := pi.raw, ops := ops ++ [{ method := "OPTIONS", tpl := pi.raw, isCors := true,
                                              corsMethods := pi.ops.map (·.method), corsHeaders := hs }] }
    else .ok { raw := pi.raw, ops := ops }

def plan (doc : Doc) (flagBase specName : String) (cors : Bool) : Except String ApiM :=
  match mapE (planItem doc cors) doc.paths with
  | .error e => .error e
  | .ok items => .ok { base := basePath doc flagBase, specName := specName, cors := cors, items := items }

/-! ## Sem -/

structure Req where
  method : String
  path : String
  /-- decoded query multimap, per key in order of appearance -/
  query : List (String × List String)
  /-- header multimap under canonical keys -/
  headers : List (String × List String)
deriving Repr, Inhabited

structure Cfg where
  mws : Nat
  nf : Bool
  spec : Bool
  cors : Bool
  /-- installed authenticators: scheme name ↦ accepted tokens; absent = nil hook -/
  auth : List (String × List String)
  parse : Bool := true
deriving Repr, Inhabited

inductive Ev where
  | mwEnter (i : Nat) (tpl : String)
  | mwLeave (i : Nat)
  | auth (scheme tok : String) (ok : Bool)
  | handler (method tpl : String)
  | ctx (tag : String)
  | parsed (s : String)
  | nf
  | corsCtor (ms hs : List String)
  | corsServe
  | final (status : Nat) (ct body : String)
deriving Repr, DecidableEq, Inhabited

inductive Routed where
  | op (o : OpM)
  | cors (ms hs : List String)
deriving Repr, Inhabited

/-- the `switch method` of a leaf path item; the CORS arm answers only when a CORS handler
    is installed (otherwise control leaves the switch) -/
def pickOp (method : String) (corsInstalled : Bool) (it : ItemM) : Option Routed :=
  match it.ops.find? (·.method == method) with
  | none => none
  | some o =>
    if o.isCors then (if corsInstalled then some (.cors o.corsMethods o.corsHeaders) else none)
    else some (.op o)

def rootOf (api : ApiM) : Node ItemM := build (api.items.map (fun it => (it.raw.toList, it)))

def route (api : ApiM) (cfg : Cfg) (req : Req) : Option Routed :=
  routeGo (rootOf api) api.base.toList req.path.toList (pickOp req.method cfg.cors)

def lookup (m : List (String × List String)) (k : String) : List String :=
  ((m.find? (·.1 == k)).map (·.2)).getD []

def trimPrefix (s pre : String) : String := if s.startsWith pre then (s.drop pre.length).toString else s

/-- the emitted `Security*Middleware.Auth`: nil hook rejects; no credential rejects;
    otherwise the user hook decides on the first value -/
def credential (r : AuthRef) (req : Req) : Option String :=
  match r with
  | .bearer _ => (lookup req.headers "Authorization").head?.map (trimPrefix · "Bearer ")
  | .headerKey _ n => (lookup req.headers (canonKey n)).head?
  | .queryKey _ n => (lookup req.query n).head?

/-- `authMiddlewareOr`: first acceptance wins; returns the events and the accepted (scheme, token) -/
def authOr (refs : List AuthRef) (cfg : Cfg) (req : Req) : List Ev × Option (String × String) :=
  match refs with
  | [] => ([], none)
  | r :: rs =>
    match cfg.auth.find? (·.1 == r.scheme) with
    | none => authOr rs cfg req
    | some (_, accept) =>
      match credential r req with
      | none => authOr rs cfg req
      | some tok =>
        if accept.contains tok then ([Ev.auth r.scheme tok true], some (r.scheme, tok))
        else
          let (evs, res) := authOr rs cfg req
          (Ev.auth r.scheme tok false :: evs, res)

/-! ### path parameters (emitted `new<Op>Params`, path block) -/

/-- leaf values the model has no closed form for (floats, times): supplied by the harness as
    a table `(type tag, lexeme) ↦ canonical dump or none` observed from the Go library -/
abbrev LeafTable := List ((String × String) × Option String)

def ptag : PType → String
  | .str => "str" | .int => "int" | .int32 => "int32" | .int64 => "int64" | .bool => "bool"
  | .f32 => "f32" | .f64 => "f64" | .time => "time" | .other s => "other:" ++ s

/-- typed value of a lexeme as the canonical dump text; `none` = outside the lexical space -/
def pvalue (leaf : LeafTable) (t : PType) (s : String) : Option String :=
  match t with
  | .str => some ("s:" ++ toHex s)
  | .int => (Prim.parseIntGo 0 s.toList).map (fun v => "i:" ++ toString v)
  | .int32 => (Prim.parseIntGo 32 s.toList).map (fun v => "i:" ++ toString v)
  | .int64 => (Prim.parseIntGo 64 s.toList).map (fun v => "i:" ++ toString v)
  | .bool => (Prim.parseBoolGo s.toList).map (fun v => "b:" ++ toString v)
  | t => match leaf.find? (fun e => e.1 == (ptag t, s)) with
    | some (_, r) => r
    | none => none

inductive PErr where
  | wrongPath
  | param (loc name kind : String)
deriving Repr, DecidableEq, Inhabited

def PErr.render : PErr → String
  | .wrongPath => "err(wrong-path)"
  | .param loc name kind => s!"err({loc},{toHex name},{kind})"

/-- run the alternating constant / variable program over the rest of the path -/
def runProg (leaf : LeafTable) : List Seg → List Char → List (String × String) → Except PErr (List (String × String))
  | [], _, acc => .ok acc
  | Seg.const c :: rest, p, acc =>
    if c.isPrefixOf p then runProg leaf rest (p.drop c.length) acc else .error .wrongPath
  | Seg.var name t :: rest, p, acc =>
    let v := p.takeWhile (· != '/')
    let p' := p.dropWhile (· != '/')
    if v.isEmpty then .error (.param "path" name "required") else
    match pvalue leaf t (String.ofList v) with
    | none => .error (.param "path" name "lexical")
    | some d => runProg leaf rest p' (acc ++ [(name, d)])

def pathParse (leaf : LeafTable) (base : String) (o : OpM) (path : String) : Except PErr (List String) := do
  let p ← if base != "" then
      (if path.startsWith base then
         let r := (path.drop base.length).toString
         if r.startsWith "/" then pure r else throw PErr.wrongPath
       else throw PErr.wrongPath)
    else pure path
  let vals ← runProg leaf o.pathProg p.toList []
  pure (o.pathFields.map (fun f => ((vals.reverse.find? (·.1 == f)).map (·.2)).getD "?"))

/-- the composed `ParseStrings` snippet of one declared query / header parameter on its
    non-empty value list: scalars need exactly one value, arrays parse element-wise -/
def parseValues (leaf : LeafTable) (p : Param) (vs : List String) : Except PErr String :=
  if p.isArray then
    match vs.mapM (fun v => pvalue leaf p.type v) with
    | some ds => .ok ("[" ++ ",".intercalate ds ++ "]")
    | none => .error (.param p.loc p.name "lexical")
  else
    match vs with
    | [v] => match pvalue leaf p.type v with
      | some d => .ok d
      | none => .error (.param p.loc p.name "lexical")
    | _ => .error (.param p.loc p.name "multiple")

/-- the query / header block of `new<Op>Params`: required-ness check, then the parser when at
    least one value is present; an absent optional parameter stays unset ("-") -/
def parseBlock (leaf : LeafTable) (values : Param → List String) : List Param → Except PErr (List String)
  | [] => .ok []
  | p :: ps =>
    let vs := values p
    if vs.isEmpty then
      (if p.required then .error (.param p.loc p.name "required")
       else match parseBlock leaf values ps with
         | .error e => .error e
         | .ok ds => .ok ("-" :: ds))
    else
      match parseValues leaf p vs with
      | .error e => .error e
      | .ok d => match parseBlock leaf values ps with
        | .error e => .error e
        | .ok ds => .ok (d :: ds)

def queryValues (req : Req) (p : Param) : List String := lookup req.query p.name
def headerValues (req : Req) (p : Param) : List String := lookup req.headers (canonKey p.name)

/-- `Parse()`: query block, header block, path block (in this order; the first failure is
    returned); dump in struct order Query, Path, Headers -/
def parseDump (leaf : LeafTable) (api : ApiM) (o : OpM) (req : Req) : String :=
  match parseBlock leaf (queryValues req) o.queryParams with
  | .error e => e.render
  | .ok qs =>
    match parseBlock leaf (headerValues req) o.headerParams with
    | .error e => e.render
    | .ok hs =>
      match (if o.hasPathParams then pathParse leaf api.base o req.path else .ok []) with
      | .error e => e.render
      | .ok ps =>
        "ok" ++ (if o.queryParams.isEmpty then "" else " Query[" ++ ",".intercalate qs ++ "]")
             ++ (if o.hasPathParams then " Path[" ++ ",".intercalate ps ++ "]" else "")
             ++ (if o.headerParams.isEmpty then "" else " Headers[" ++ ",".intercalate hs ++ "]")

/-! ### ServeHTTP -/

structure RCtx where
  req : Req
  tpl : Option String := none
  tag : Option String := none
deriving Repr, Inhabited

abbrev Handler := RCtx → List Ev

/-- the user-visible middleware used by the harness: logs entry (with what `SchemaPath`
    reports) and exit around the next handler -/
def logMw (i : Nat) (next : Handler) : Handler :=
  fun r => [Ev.mwEnter i (r.tpl.getD "")] ++ next r ++ [Ev.mwLeave i]

/-- `for i := len(ms)-1; i >= 0; i-- { h = ms[i](h) }` -/
def wrapLoop (ms : List (Handler → Handler)) (h : Handler) : Handler :=
  ms.reverse.foldl (fun acc m => m acc) h

def specExt (name : String) : String :=
  match (name.splitOn "/").getLast? with
  | none => ""
  | some b => match b.splitOn "." with
    | [] | [_] => ""
    | parts => parts.getLast!

def opHandler (leaf : LeafTable) (api : ApiM) (cfg : Cfg) (o : OpM) : Handler := fun r =>
  [Ev.handler o.method o.tpl] ++ (match r.tag with | some t => [Ev.ctx t] | none => []) ++
  (if cfg.parse then [Ev.parsed (parseDump leaf api o r.req)] else []) ++ [Ev.final 299 "" "len=0"]

/-- `middlewares(h, authMiddlewareOr(...))` around the operation handler -/
def secured (leaf : LeafTable) (api : ApiM) (cfg : Cfg) (o : OpM) : Handler := fun r =>
  if o.auth.isEmpty then opHandler leaf api cfg o r else
  match authOr o.auth cfg r.req with
  | (evs, some (scheme, tok)) => evs ++ opHandler leaf api cfg o { r with tag := some (scheme ++ ":" ++ tok) }
  | (evs, none) => evs ++ [Ev.final 401 "" "len=0"]

def notFound (cfg : Cfg) : Handler := fun _ =>
  if cfg.nf then [Ev.nf, Ev.final 404 "" "len=0"] else [Ev.final 404 "text/plain; charset=utf-8" "len=19"]

def serve (leaf : LeafTable) (api : ApiM) (cfg : Cfg) (req : Req) : List Ev :=
  if cfg.spec && req.path == api.base ++ "/" ++ api.specName then
    [Ev.final 200 ("application/" ++ specExt api.specName) "SPECFILE"]
  else
    match route api cfg req with
    | none => notFound cfg { req := req }
    | some (.cors ms hs) => [Ev.corsCtor ms hs, Ev.corsServe, Ev.final 204 "" "len=0"]
    | some (.op o) =>
      wrapLoop ((List.range cfg.mws).map logMw) (secured leaf api cfg o) { req := req, tpl := some o.tpl }

def Ev.render : Ev → String
  | .mwEnter i tpl => s!"M{i}>({tpl},true)"
  | .mwLeave i => s!"M{i}<"
  | .auth s t ok => s!"A:{s}({toHex t})={ok}"
  | .handler m t => s!"H:{m} {t}"
  | .ctx t => s!"C:{toHex t}"
  | .parsed s => s!"P:{s}"
  | .nf => "NF(false)"
  | .corsCtor ms hs => s!"CORS({",".intercalate ms};{",".intercalate hs})"
  | .corsServe => "CORSH(false)"
  | .final st ct b => s!"S:{st} W:1 CT:{ct} B:{b}"

def isFinal : Ev → Bool | .final .. => true | _ => false

/-- canonical line: events in order, the response summary last (the harness reads the
    recorder after ServeHTTP returns) -/
def renderTrace (evs : List Ev) : String :=
  " | ".intercalate ((evs.filter (! isFinal ·)).map Ev.render ++ (evs.filter isFinal).map Ev.render)

end Goag.Serve
