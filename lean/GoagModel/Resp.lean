import Lean.Data.Json
import GoagModel.Naming
import GoagModel.JsonModel
import GoagModel.Serve
/-
  C02 / C10: which response types goag emits, which of them implement an operation's response
  interface, what writing them emits, and what the generated client's status switch does
  (generator/handler.go NewHandlerResponse, generator/components.go NewComponents,
  generator/operation.go NewOperationName, file_components.gotmpl ResponseComponent,
  file_client.gotmpl ClientOperation).
-/
namespace Goag.Resp
open Lean Goag.JsonM

structure RespDef where
  ct : String              -- "" | application/json | other media type
  headers : List String    -- declared header names
  body : String            -- none | json | raw
deriving Repr, DecidableEq, Inhabited

inductive RespUse where
  | inline (status : String) (d : RespDef)
  | comp (status : String) (name : String)     -- $ref to components.responses.<name>
deriving Repr, Inhabited

structure OpR where
  method : String      -- "GET"
  path : String
  opId : String
  uses : List RespUse  -- sorted by status key ("200" < "default")
deriving Repr, Inhabited

structure DocR where
  ops : List OpR
  /-- components.responses: name ↦ alias target or definition -/
  comps : List (String × (String ⊕ RespDef))
deriving Inhabited

/-! ### reader -/

def readRespDef (r : Json) : RespDef :=
  let content := ((jfield? r "content").map jobj).getD []
  let hdrs := (((jfield? r "headers").map jobj).getD []).map (·.1)
  -- NewResponse: application/json wins the body kind; any other media type sets the content type
  let hasJson := content.any (·.1 == "application/json")
  let other := (content.filter (·.1 != "application/json")).map (·.1)
  if hasJson then { ct := "application/json", headers := hdrs, body := "json" }
  else match other.getLast? with
    | some mt => { ct := mt, headers := hdrs, body := "raw" }
    | none => { ct := "", headers := hdrs, body := "none" }

def respRef? (r : Json) : Option String :=
  (jstr? r "$ref").bind (fun s =>
    let pre := "#/components/responses/"
    if s.startsWith pre then some (s.drop pre.length).toString else none)

def readDocR (root : Json) : DocR :=
  let comps := (((jfield? root "components").bind (jfield? · "responses")).map jobj).getD []
  let paths := ((jfield? root "paths").map jobj).getD []
  let ops := paths.flatMap (fun (p, pi) =>
    Spec.httpMethods.filterMap (fun m =>
      (jfield? pi m).map (fun o =>
        let rs := ((jfield? o "responses").map jobj).getD []
        { method := m.toUpper, path := p, opId := (jstr? o "operationId").getD "",
          uses := rs.map (fun (st, r) => match respRef? r with
            | some n => RespUse.comp st n
            | none => RespUse.inline st (readRespDef r)) : OpR })))
  { ops := ops,
    comps := comps.map (fun (n, r) => match respRef? r with
      | some t => (n, Sum.inl t)
      | none => (n, Sum.inr (readRespDef r))) }

/-- follow aliases to the defining component (fuel = number of components) -/
def rootOf (d : DocR) : Nat → String → Option (String × RespDef)
  | 0, _ => none
  | fuel + 1, n =>
    match d.comps.find? (·.1 == n) with
    | some (_, Sum.inl t) => rootOf d fuel t
    | some (_, Sum.inr def_) => some (n, def_)
    | none => none

def root (d : DocR) (n : String) : Option (String × RespDef) := rootOf d (d.comps.length + 1) n

/-! ### names -/

def methodTitle (m : String) : String :=
  match m.toList with
  | [] => ""
  | c :: cs => String.ofList (c :: cs.map Char.toLower)

/-- `NewOperationName` -/
def operationName (o : OpR) : String :=
  if o.opId != "" then String.ofList (Naming.publicFieldName o.opId.toList) else
  let dirs := match o.path.splitOn "/" with | _ :: ds => ds | [] => []
  let parts := dirs.map (fun d =>
    let d' := if d.startsWith "{" && d.endsWith "}" then ((d.drop 1).dropEnd 1).toString else d
    String.ofList (Naming.title d'.toList))
  let rt := if dirs.length > 1 && dirs.getLast? == some "" then "RT" else ""
  methodTitle o.method ++ String.join parts ++ rt

/-- `strings.Title(status)`: "default" ↦ "Default", numeric statuses unchanged -/
def statusTitle (s : String) : String := if s == "default" then "Default" else s

def inlineTypeName (o : OpR) (status : String) (d : RespDef) : String :=
  operationName o ++ "Response" ++ statusTitle status ++ (if d.body == "json" then "JSON" else "")

/-! ### C02: the documented response types of an operation -/

/-- names of the non-alias Go types that the spec documents as responses of `o` -/
def documentedTypes (d : DocR) (o : OpR) : List String :=
  o.uses.filterMap (fun u => match u with
    | .inline st def_ => some (inlineTypeName o st def_)
    | .comp _ n => (root d n).map (fun r => r.1 ++ "Response"))

/-- model of the emitted types: every response type with the operations (by name) whose
    `write<Op>` method it carries (inline: its own operation; component: its UsedIn list) -/
structure RespType where
  name : String
  methods : List String     -- operation names; the Go method is write<OperationName>
deriving Repr, Inhabited

/-- does operation `o` use (through any alias) the defining component `n`? -/
def usesRoot (d : DocR) (o : OpR) (n : String) : Bool :=
  o.uses.any (fun u => match u with
    | .comp _ m => (root d m).map (·.1) == some n
    | _ => false)

def inlineTypes (d : DocR) : List RespType :=
  d.ops.flatMap (fun o => o.uses.filterMap (fun u => match u with
    | .inline st def_ => some { name := inlineTypeName o st def_, methods := [operationName o] }
    | .comp _ _ => none))

def compTypes (d : DocR) : List RespType :=
  d.comps.filterMap (fun (n, c) => match c with
    | Sum.inr _ =>
      some { name := n ++ "Response",
             methods := d.ops.filterMap (fun o => if usesRoot d o n then some (operationName o) else none) }
    | Sum.inl _ => none)

def emittedTypes (d : DocR) : List RespType := inlineTypes d ++ compTypes d

/-- Go: `T` satisfies the one-method interface `<Op>Response` iff it has that method -/
def implementers (d : DocR) (o : OpR) : List String :=
  ((emittedTypes d).filter (fun t => t.methods.contains (operationName o))).map (·.name)

/-! ### C02: what writing a documented response emits -/

structure Written where
  ctor : String
  status : String       -- a number, or "code" for the caller-supplied code of a default response
  ct : String
  headers : List String -- canonical header keys, sorted
  body : String
deriving Repr, DecidableEq, Inhabited

def sortStrings (l : List String) : List String := (l.toArray.qsort (· < ·)).toList

def writtenOf (ctor status : String) (def_ : RespDef) : Written :=
  { ctor := ctor, status := if status == "default" then "code" else status, ct := def_.ct,
    headers := sortStrings ((def_.headers.map Serve.canonKey).eraseDups), body := def_.body }

/-- every constructor whose result implements the operation's interface, with what it writes:
    inline responses, and every component name (alias or not) whose root the operation uses -/
def expectedWritten (d : DocR) (o : OpR) : List Written :=
  let inl := o.uses.filterMap (fun u => match u with
    | .inline st def_ => some (writtenOf ("New" ++ inlineTypeName o st def_) st def_)
    | .comp _ _ => none)
  let viaComp := d.comps.filterMap (fun (n, _) =>
    match root d n with
    | none => none
    | some (rn, def_) =>
      (o.uses.findSome? (fun u => match u with
        | .comp st m => if (root d m).map (·.1) == some rn then some st else none
        | _ => none)).map (fun st => writtenOf ("New" ++ n ++ "Response") st def_))
  inl ++ viaComp

/-! ### rejections of `specification.ParseSwagger` / `NewOperation` -/

def rootName (d : DocR) (n : String) : String := ((root d n).map (·.1)).getD n

/-- goag refuses a spec in which one shared response (through any alias) is used as `default`
    somewhere and under a numbered status somewhere else, or twice by one operation -/
def rejects (d : DocR) : Option String :=
  let usesOf (o : OpR) : List (String × String) := o.uses.filterMap (fun u => match u with
    | .comp st n => some (st, rootName d n)
    | _ => none)
  let all := d.ops.flatMap usesOf
  let mixed := all.any (fun (st, r) => st == "default" && all.any (fun (st2, r2) => r2 == r && st2 != "default"))
  let twice := d.ops.any (fun o =>
    let rs := (usesOf o).map (·.2)
    rs.eraseDups.length != rs.length)
  if twice then some "same response used several times by one operation"
  else if mixed then some "shared response used as default and as a numbered status"
  else none

/-! ### C10: the client's status switch -/

inductive Arm where
  | documented (status : Nat)
  | default
  | notImplemented
deriving Repr, DecidableEq, Inhabited

/-- `switch resp.StatusCode`: one case per numbered status, then the default arm -/
def clientArm (numbered : List Nat) (hasDefault : Bool) (st : Nat) : Arm :=
  if numbered.contains st then .documented st else if hasDefault then .default else .notImplemented

def numberedOf (o : OpR) : List Nat :=
  o.uses.filterMap (fun u => match u with
    | .inline st _ => st.toNat?
    | .comp st _ => st.toNat?)

def hasDefault (o : OpR) : Bool :=
  o.uses.any (fun u => match u with | .inline st _ => st == "default" | .comp st _ => st == "default")

end Goag.Resp
