import GoagModel.Basic
/-
  Route tree of `generator/file_router.go` (`Route.add`, `GetRoutes`) and the meaning of the
  emitted `route<Node>` functions of `generator/file_router.gotmpl` ("Route" template), on
  segment lists.

  A request path `/a/b` below the base path is the segment list ["a","b"]; the emitted
  code peels one `"/"+segment` prefix per tree level with `splitPath` (`segmentsOf` is the
  closed form of that iteration, tied to the real code by the correspondence run).
-/
namespace Goag.Router

inductive Key where
  | lit (s : Str)
  | var
deriving DecidableEq, Repr

/-- `Route`: leaf path items (`PrefixPathItems`, `Variable`), children (`Routes`/`mRoutes`,
    `VariableRoute`). -/
inductive Node (α : Type) where
  | mk (leafLits : List (Str × α)) (leafVar : Option α) (kids : List (Str × Node α)) (varKid : Option (Node α))

namespace Node
variable {α : Type}

def empty : Node α := .mk [] none [] none

def leafLits : Node α → List (Str × α) | .mk ll _ _ _ => ll
def leafVar : Node α → Option α | .mk _ lv _ _ => lv
def kids : Node α → List (Str × Node α) | .mk _ _ k _ => k
def varKid : Node α → Option (Node α) | .mk _ _ _ v => v

def lookupKid (kids : List (Str × Node α)) (d : Str) : Option (Node α) :=
  match kids with
  | [] => none
  | (d', n) :: tl => if d' = d then some n else lookupKid tl d

mutual
/-- `Route.add` on the already split template -/
def add (n : Node α) (ks : List Key) (a : α) : Node α :=
  match ks, n with
  | [], n => n
  | [Key.lit d], .mk ll lv kids vk => .mk (ll ++ [(d, a)]) lv kids vk
  | [Key.var], .mk ll _ kids vk => .mk ll (some a) kids vk
  | Key.var :: k2 :: rest, .mk ll lv kids vk =>
      .mk ll lv kids (some ((vk.getD empty).add (k2 :: rest) a))
  | Key.lit d :: k2 :: rest, .mk ll lv kids vk =>
      .mk ll lv (addKid kids d (k2 :: rest) a) vk
def addKid (kids : List (Str × Node α)) (d : Str) (ks : List Key) (a : α) : List (Str × Node α) :=
  match kids with
  | [] => [(d, (empty : Node α).add ks a)]
  | (d', n') :: tl => if d' = d then (d', n'.add ks a) :: tl else (d', n') :: addKid tl d ks a
end

def firstLit (ll : List (Str × α)) (s : Str) : Option α :=
  match ll with
  | [] => none
  | (d, a) :: tl => if d = s then some a else firstLit tl s

end Node

open Node

variable {α β : Type}

/-- leaf stage of a `route<Node>` function (`if path == ""` block): the literal
    `switch prefix` / `switch method` first, then the variable leaf's `switch method`,
    then `return nil`. `pick a` is what the `switch method` of path item `a` returns. -/
def leafStage (n : Node α) (s : Str) (pick : α → Option β) : Option β :=
  ((firstLit n.leafLits s).bind pick) <|> (n.leafVar.bind pick)

/-- the emitted routing functions on segment lists -/
def eval (n : Node α) (segs : List Str) (pick : α → Option β) : Option β :=
  match segs with
  | [] => none
  | [s] => leafStage n s pick
  | s :: s2 :: rest =>
     match lookupKid n.kids s with
     | some kid =>
        match n.varKid with
        | some vk => (eval kid (s2::rest) pick) <|> eval vk (s2::rest) pick
        | none => eval kid (s2::rest) pick
     | none => match n.varKid with | some vk => eval vk (s2::rest) pick | none => none

/-! ### strings -/

/-- `strings.Split(s, "/")` -/
def splitSlashAux : Str → Str → List Str
  | cur, [] => [cur.reverse]
  | cur, c :: cs => if c = '/' then cur.reverse :: splitSlashAux [] cs else splitSlashAux (c :: cur) cs

def splitSlash (s : Str) : List Str := splitSlashAux [] s

/-- `strings.HasPrefix(d, "{") && strings.HasSuffix(d, "}")` -/
def isVarSeg (d : Str) : Bool := d.head? == some '{' && d.getLast? == some '}'

/-- `strings.Split(strings.TrimPrefix(raw, "/"), "/")` classified as in `Route.add` -/
def keysOf (raw : Str) : List Key :=
  let body := match raw with | '/' :: cs => cs | _ => raw
  (splitSlash body).map (fun d => if isVarSeg d then Key.var else Key.lit d)

/-- segments of a request path below the base path; `none` when it does not start with '/' -/
def segmentsOf (p : Str) : Option (List Str) :=
  match p with
  | '/' :: cs => some (splitSlash cs)
  | _ => none

/-- `NewRouter`: `root.Add(pi)` for every path item in order -/
def build (items : List (Str × α)) : Node α :=
  items.foldl (fun n it => n.add (keysOf it.1) it.2) Node.empty

/-- strip the base path as the root `route` function does: `HasPrefix(path, base)`, slice,
    then the rest must start with "/" -/
def stripBase (base p : Str) : Option Str :=
  if base.isPrefixOf p then some (p.drop base.length) else none

def routeGo (root : Node α) (base p : Str) (pick : α → Option β) : Option β :=
  match stripBase base p with
  | none => none
  | some rest =>
    match segmentsOf rest with
    | none => none
    | some segs => eval root segs pick

/-! ### reference: OpenAPI path matching with literal preference -/

def tmatch : List Key → List Str → Bool
  | [], [] => true
  | Key.lit d :: ks, s :: ss => d == s && tmatch ks ss
  | Key.var :: ks, _ :: ss => tmatch ks ss
  | _, _ => false

/-- `better ks ks'`: at the first position where they differ in kind, `ks` has the literal -/
def better : List Key → List Key → Bool
  | Key.lit _ :: _, Key.var :: _ => true
  | Key.var :: _, Key.lit _ :: _ => false
  | _ :: ks, _ :: ks' => better ks ks'
  | _, _ => false

/-- the templates that match the segments and answer the method, reduced to the one that is
    literal-first maximal -/
def specRoute (items : List (Str × α)) (base p : Str) (pick : α → Option β) : Option β :=
  match stripBase base p with
  | none => none
  | some rest =>
    match segmentsOf rest with
    | none => none
    | some segs =>
      let cands := items.filterMap (fun it =>
        let ks := keysOf it.1
        if tmatch ks segs then (pick it.2).map (fun b => (ks, b)) else none)
      (cands.find? (fun c => cands.all (fun c' => c'.1 == c.1 || better c.1 c'.1))).map (·.2)

end Goag.Router
