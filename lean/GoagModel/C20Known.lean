import GoagModel.Basic
/-
  C20: the table of accesses in GENERATED code that could share state between concurrently
  served requests.  `vh conc` regenerates the list from the generated packages of every run
  (go/packages + go/types over each package): writes to / address-of package-level variables,
  package-level variables of reference type handed to a call, assignments through the receiver
  of a long-lived service type (API, Client, anything with ServeHTTP), goroutine starts and
  select statements.  The regenerated obligation is that every site is of a kind that cannot
  change shared state.
-/
namespace Goag.C20

structure Site where
  kind : String     -- pkgvar-write | pkgvar-addr | pkgvar-refarg | pkgvar-refread | pkgvar-read | service-write | go | select
  var : String
  wher : String
  expr : String
deriving DecidableEq, Repr

/-- package-level variables of reference type may be handed only to these callees, whose
    contract is not to modify (or retain) the argument -/
def readOnlyCallees : List (String × String) := [
  ("nullValueBs", "bytes.Equal"),     -- bytes.Equal compares
  ("specFileBs", "rw.Write")          -- io.Writer: "Write must not modify the slice data, even temporarily"
]

def allowed (s : Site) : Bool :=
  match s.kind with
  | "pkgvar-read" => true                                   -- e.g. calling the hook variable LogError
  | "pkgvar-refarg" => readOnlyCallees.contains (s.var, s.expr)
  | _ => false                                              -- writes, address-of, service-write, go, select, unreviewed reference reads

def allAllowed (sites : List Site) : Bool := sites.all allowed

/-- the kinds that change (or expose for change) state shared between requests -/
def mutating (s : Site) : Bool :=
  s.kind == "pkgvar-write" || s.kind == "pkgvar-addr" || s.kind == "service-write" || s.kind == "go" || s.kind == "select"

end Goag.C20
