import Lean.Data.Json
import GoagModel.Basic
/-
  The part of an OpenAPI document the routing / security / CORS / path-parameter models
  need, and a reader from the very JSON file goag was given.  A document outside this
  dialect makes the reader answer `.error reason` ("unmodelled").
-/
namespace Goag.Spec
open Lean

/-- primitive parameter types (Go type bound by goag) -/
inductive PType where
  | str | int | int32 | int64 | bool | f32 | f64 | time | other (s : String)
deriving Repr, DecidableEq, Inhabited

inductive SchemeKind where
  | bearer
  | apiKeyHeader (name : String)
  | apiKeyQuery (name : String)
  | unsupported
deriving Repr, DecidableEq, Inhabited

structure Param where
  loc : String          -- query | header | path | cookie
  name : String
  required : Bool
  type : PType
  isArray : Bool := false
deriving Repr, Inhabited

structure Operation where
  method : String       -- upper case
  parameters : List Param   -- merged path-item + operation parameters per location, goag order
  /-- effective requirement list: `none` = inherit global -/
  security : Option (List (List String))
deriving Repr, Inhabited

structure PathItem where
  raw : String
  ops : List Operation  -- in httpMethods() order
deriving Repr, Inhabited

structure Doc where
  serverUrl : Option String
  serverVars : List (String × String)     -- sorted by name, string defaults only
  paths : List PathItem                    -- sorted by raw path
  security : List (List String)            -- global requirements (each: sorted scheme names)
  schemes : List (String × SchemeKind)
deriving Repr, Inhabited

def httpMethods : List String := ["get", "post", "patch", "put", "delete", "connect", "head", "options", "trace"]

def objList (j : Json) : List (String × Json) :=
  match j with
  | .obj kvs => kvs.toList
  | _ => []

def field? (j : Json) (k : String) : Option Json :=
  match j.getObjVal? k with
  | .ok v => some v
  | .error _ => none

def strField? (j : Json) (k : String) : Option String :=
  match field? j k with
  | some (.str s) => some s
  | _ => none

def boolField (j : Json) (k : String) : Bool :=
  match field? j k with
  | some (.bool b) => b
  | _ => false

def arrField (j : Json) (k : String) : List Json :=
  match field? j k with
  | some (.arr a) => a.toList
  | _ => []

/-- resolve `#/components/<section>/<name>` one level -/
def resolve (root : Json) (j : Json) (sect : String) : Except String Json :=
  match strField? j "$ref" with
  | none => pure j
  | some r =>
    let pre := "#/components/" ++ sect ++ "/"
    if r.startsWith pre then
      match field? root "components" >>= (field? · sect) >>= (field? · ((r.drop pre.length).toString)) with
      | some t => pure t
      | none => throw s!"unresolved {r}"
    else throw s!"foreign ref {r}"

def ptypeOf (root : Json) (schema : Json) : Except String (PType × Bool) := do
  let s ← resolve root schema "schemas"
  let prim (s : Json) : PType :=
    match strField? s "type", strField? s "format" with
    | some "string", some "date-time" =>
      -- a declared Go layout (x-goag-go-time-format) has its own lexical space: a measured leaf of its own
      match strField? s "x-goag-go-time-format" with
      | some l => .other ("time:" ++ l)
      | none => .time
    | some "string", _ => .str
    | some "integer", some "int32" => .int32
    | some "integer", some "int64" => .int64
    | some "integer", _ => .int
    | some "boolean", _ => .bool
    | some "number", some "float" => .f32
    | some "number", _ => .f64
    | t, _ => .other (t.getD "")
  match strField? s "type" with
  | some "array" =>
    match field? s "items" with
    | some it => do
      let it ← resolve root it "schemas"
      pure (prim it, true)
    | none => throw "array without items"
  | _ => pure (prim s, false)

def readParam (root : Json) (p : Json) : Except String Param := do
  let p ← resolve root p "parameters"
  let loc := (strField? p "in").getD ""
  let name := (strField? p "name").getD ""
  match field? p "schema" with
  | none => throw s!"parameter {name} without schema"
  | some sch =>
    let (t, arr) ← ptypeOf root sch
    pure { loc := loc, name := name, required := boolField p "required", type := t, isArray := arr }

/-- `Map.Add`: a later entry with the same name replaces the value and keeps the position -/
def addParam (ps : List Param) (p : Param) : List Param :=
  if ps.any (fun q => q.loc == p.loc && q.name == p.name) then
    ps.map (fun q => if q.loc == p.loc && q.name == p.name then p else q)
  else ps ++ [p]

def readRequirements (j : Json) : List (List String) :=
  match j with
  | .arr a => a.toList.map (fun r => (objList r).map (·.1))
  | _ => []

def readScheme (s : Json) : SchemeKind :=
  match strField? s "type", strField? s "scheme", strField? s "in", strField? s "name" with
  | some "http", some "bearer", _, _ => .bearer
  | some "apiKey", _, some "header", some n => .apiKeyHeader n
  | some "apiKey", _, some "query", some n => .apiKeyQuery n
  | _, _, _, _ => .unsupported

def readDoc (root : Json) : Except String Doc := do
  let servers := arrField root "servers"
  let (url, vars) := match servers with
    | s :: _ => (strField? s "url",
                 (((field? s "variables").map objList).getD []).filterMap (fun (kv : String × Json) =>
                    (strField? kv.2 "default").map (fun d => (kv.1, d))))
    | [] => (none, [])
  let pathsJ := ((field? root "paths").map objList).getD []
  let paths ← pathsJ.mapM (fun (raw, pi) => do
    let piParams := arrField pi "parameters"
    let ops ← httpMethods.filterMapM (fun m => do
      match field? pi m with
      | none => pure none
      | some o =>
        let all := piParams ++ arrField o "parameters"
        let ps ← all.mapM (readParam root)
        let merged := ps.foldl addParam []
        let sec := (field? o "security").map readRequirements
        pure (some { method := m.toUpper, parameters := merged, security := sec : Operation }))
    pure ({ raw := raw, ops := ops } : PathItem))
  let schemesJ := ((field? root "components" >>= (field? · "securitySchemes")).map objList).getD []
  let schemes ← schemesJ.mapM (fun (k, v) => do
    let v ← resolve root v "securitySchemes"
    pure (k, readScheme v))
  pure { serverUrl := url, serverVars := vars, paths := paths,
         security := ((field? root "security").map readRequirements).getD [], schemes := schemes }

end Goag.Spec
