import GoagModel.Prim
/-
  C10 (first sentence, header values): what the generated `Write` of a response puts on the wire
  for one declared header (file_components.gotmpl ResponseComponent: `hs := …formatted values…;
  for _, h := range hs { w.Header().Add(key, h) }`, inside `if v, ok := ….Get(); ok` for an optional
  header) and what the generated client reads back from `resp.Header.Values(key)`
  (file_client.gotmpl ClientResponse: `if len(hs) > 0 { … } else { required ⇒ error }`, a scalar
  insists on exactly one field line, an array parses every field line).

  Leaves are the closed-form ones (`Prim.formatIntGo` / `parseIntGo`, `formatBoolGo` / `parseBoolGo`,
  strings verbatim); floats and times are library behaviour (validated per response value).
-/
namespace Goag.RespHdr
open Goag.Prim

inductive HType where
  | int (bits : Nat)    -- 0 = plain integer, 32, 64
  | bool
  | str
deriving Repr, DecidableEq, Inhabited

structure HDecl where
  ty : HType
  array : Bool
  required : Bool
deriving Repr, DecidableEq, Inhabited

inductive Leaf where
  | int (v : Int)
  | bool (b : Bool)
  | str (s : Str)
deriving Repr, DecidableEq, Inhabited

/-- the header field of the generated response struct: `T` / `[]T` (required) or `Maybe[T]` / `Maybe[[]T]` -/
inductive HVal where
  | unset                      -- Maybe{IsSet: false}
  | one (l : Leaf)
  | many (ls : List Leaf)
deriving Repr, DecidableEq, Inhabited

def fmtLeaf : Leaf → Str
  | .int v => formatIntGo v
  | .bool b => formatBoolGo b
  | .str s => s

def parseLeaf : HType → Str → Option Leaf
  | .int bits, s => (parseIntGo bits s).map Leaf.int
  | .bool, s => (parseBoolGo s).map Leaf.bool
  | .str, s => some (.str s)

/-- server: the field lines added under the header's key -/
def writeLines : HVal → List Str
  | .unset => []
  | .one l => [fmtLeaf l]
  | .many ls => ls.map fmtLeaf

inductive RErr where
  | required | multiple | parse
deriving Repr, DecidableEq, Inhabited

/-- client: the header field rebuilt from the field lines found under the key -/
def readLines (d : HDecl) (hs : List Str) : Except RErr HVal :=
  match hs with
  | [] => if d.required then .error .required else .ok .unset
  | h :: rest =>
    if d.array then
      match (h :: rest).mapM (parseLeaf d.ty) with
      | some ls => .ok (.many ls)
      | none => .error .parse
    else
      match rest with
      | [] => match parseLeaf d.ty h with
        | some l => .ok (.one l)
        | none => .error .parse
      | _ :: _ => .error .multiple

/-! ### the whole header block: `w.Header().Add(key, line)` for every declared header in turn,
    `resp.Header.Values(key)` per declared header at the client (keys canonical) -/

/-- the field lines of a response, in the order written: (canonical key, text) -/
def writeAll : List (String × HVal) → List (String × Str)
  | [] => []
  | (k, v) :: rest => (writeLines v).map (fun l => (k, l)) ++ writeAll rest

/-- `http.Header.Values(key)` -/
def valuesOf (key : String) (lines : List (String × Str)) : List Str :=
  (lines.filter (fun kl => kl.1 == key)).map (·.2)

end Goag.RespHdr
