import Lean.Data.Json
import GoagModel.Basic
/-
  C06 / C07 / C08: structural model of the JSON codec goag emits per schema
  (generator/file_components.gotmpl SchemaComponent: MarshalJSON / marshalJSONInnerBody,
  UnmarshalJSON / unmarshalJSONInnerBody; types.gotmpl / schema.gotmpl wrappers).

  Leaves (strings, numbers, booleans, times, untyped values) are opaque: a leaf value carries
  its canonical JSON text and its canonical dump text as produced by the Go library
  (`encoding/json`, `time`) — library behaviour is a parameter, supplied by the harness.
-/
namespace Goag.JsonM

inductive Kind where
  | str | int | int32 | int64 | num | f32 | bool | time
deriving DecidableEq, Repr, Inhabited

def Kind.tag : Kind → String
  | .str => "str" | .int => "int" | .int32 => "int32" | .int64 => "int64"
  | .num => "num" | .f32 => "f32" | .bool => "bool" | .time => "time"

/-- schema trees after `$ref` resolution (non-recursive). `allOf` members remember whether they
    were given by reference (embedded struct) or inline (flattened fields). `oneOf` alternatives
    carry, when a discriminator is declared, the discriminator values that select them. -/
inductive Schema where
  | prim (k : Kind) (nullable : Bool)
  | any
  | arr (items : Schema) (nullable : Bool)
  | obj (fields : List (String × Bool × Schema)) (addl : Option Schema) (nullable : Bool)
  | allOf (members : List (Bool × Schema))
  | oneOf (alts : List (List String × Schema)) (disc : Option String)
deriving Repr, Inhabited

/-- values of the generated Go types, structurally -/
inductive Val where
  | leaf (canon : String) (dump : String)
  | null
  | unset
  | arr (vs : List Val)
  | nilarr
  | obj (fs : List Val) (addl : Option (List (String × Val)))
  | alt (i : Nat) (v : Val)
deriving Repr, Inhabited

/-- JSON values with opaque leaves (canonical text) -/
inductive J where
  | raw (canon : String)
  | null
  | arr (js : List J)
  | obj (ms : List (String × J))
deriving Repr, Inhabited

/-! ### Go's JSON string encoding (encoding/json with HTML escaping), for object keys -/

def hex4 (n : Nat) : String :=
  String.ofList [hexDigit (n / 4096 % 16), hexDigit (n / 256 % 16), hexDigit (n / 16 % 16), hexDigit (n % 16)]

def goJsonChar (c : Char) : String :=
  if c = '"' then "\\\"" else if c = '\\' then "\\\\"
  else if c = '\n' then "\\n" else if c = '\r' then "\\r" else if c = '\t' then "\\t"
  else if c = '\x08' then "\\b" else if c = '\x0c' then "\\f"
  else if c.toNat < 32 || c = '<' || c = '>' || c = '&' || c.toNat = 0x2028 || c.toNat = 0x2029 then "\\u" ++ hex4 c.toNat
  else String.singleton c

def goJsonString (s : String) : String := "\"" ++ String.join (s.toList.map goJsonChar) ++ "\""

/-! ### canonical text of a J (sorted keys) -/

def insertSorted (kv : String × String) : List (String × String) → List (String × String)
  | [] => [kv]
  | x :: xs => if kv.1 < x.1 then kv :: x :: xs else x :: insertSorted kv xs

mutual
def J.canon : J → String
  | .raw c => c
  | .null => "null"
  | .arr js => "[" ++ ",".intercalate (canonList js) ++ "]"
  | .obj ms => "{" ++ ",".intercalate (((canonMembers ms).foldr insertSorted []).map (fun kv => goJsonString kv.1 ++ ":" ++ kv.2)) ++ "}"
def canonList : List J → List String
  | [] => []
  | j :: js => j.canon :: canonList js
def canonMembers : List (String × J) → List (String × String)
  | [] => []
  | (k, j) :: ms => (k, j.canon) :: canonMembers ms
end

/-! ### value → JSON value (what the generated MarshalJSON denotes) -/

/-- does a member list declare composite-level additionalProperties? (`newSchemaType`, allOf: an
    inline member's additionalProperties become the composite's; the last such member wins) -/
def laterAddl : List (Bool × Schema) → Bool
  | [] => false
  | (false, .obj _ (some _) _) :: _ => true
  | _ :: ms => laterAddl ms

mutual
def toJ : Schema → Val → Except String J
  | .prim _ nullable, v =>
    match v with
    | .leaf c _ => .ok (.raw c)
    | .null => if nullable then .ok .null else .error "null for non-nullable"
    | _ => .error "prim: bad value"
  | .any, v =>
    match v with
    | .leaf c _ => .ok (.raw c)
    | _ => .error "any: bad value"
  | .arr items nullable, v =>
    match v with
    | .arr vs => (toJList items vs).map J.arr
    | .nilarr => .ok (.arr [])     -- Slice_RenderToBaseType: nil becomes an empty array
    | .null => if nullable then .ok .null else .error "null for non-nullable"
    | _ => .error "arr: bad value"
  | .obj fields addl nullable, v =>
    match v with
    | .obj fs ax =>
      match toJFields fields fs with
      | .error e => .error e
      | .ok (ms, rest) =>
        if !rest.isEmpty then .error "obj: too many field values" else
        match addl, ax with
        | some a, some xs => (toJAddl a xs).map (fun xm => J.obj (ms ++ xm))
        | _, none => .ok (.obj ms)
        | none, some _ => .error "obj: additional values without additionalProperties"
    | .null => if nullable then .ok .null else .error "null for non-nullable"
    | _ => .error "obj: bad value"
  | .allOf members, v =>
    match v with
    | .obj fs ax =>
      match toJMembers members fs with
      | .error e => .error e
      | .ok ms =>
        match ax with
        | none => .ok (.obj ms)
        | some xs => (toJCompAddl members xs).map (fun xm => J.obj (ms ++ xm))
    | _ => .error "allOf: bad value"
  | .oneOf alts _, v =>
    match v with
    | .alt i inner => toJAlt alts i inner
    | _ => .error "oneOf: bad value"
def toJAlt : List (List String × Schema) → Nat → Val → Except String J
  | [], _, _ => .error "oneOf: bad index"
  | (_, s) :: _, 0, v => toJ s v
  | _ :: rest, n + 1, v => toJAlt rest n v
def toJList : Schema → List Val → Except String (List J)
  | _, [] => .ok []
  | s, v :: vs =>
    match toJ s v, toJList s vs with
    | .ok j, .ok js => .ok (j :: js)
    | .error e, _ => .error e
    | _, .error e => .error e
/-- consume one value per declared field; returns the members written and the unused values -/
def toJFields : List (String × Bool × Schema) → List Val → Except String (List (String × J) × List Val)
  | [], vs => .ok ([], vs)
  | _ :: _, [] => .error "obj: too few field values"
  | (name, req, s) :: fs, v :: vs =>
    match v with
    | .unset =>
      if req then .error "unset required field" else toJFields fs vs
    | _ =>
      match toJ s v, toJFields fs vs with
      | .ok j, .ok (ms, rest) => .ok ((name, j) :: ms, rest)
      | .error e, _ => .error e
      | _, .error e => .error e
def toJAddl : Schema → List (String × Val) → Except String (List (String × J))
  | _, [] => .ok []
  | s, (k, v) :: xs =>
    match toJ s v, toJAddl s xs with
    | .ok j, .ok ms => .ok ((k, j) :: ms)
    | .error e, _ => .error e
    | _, .error e => .error e
/-- allOf: a member given by reference is one embedded struct value; an inline member's
    fields are flattened into the outer struct -/
def toJMembers : List (Bool × Schema) → List Val → Except String (List (String × J))
  | [], [] => .ok []
  | [], _ :: _ => .error "allOf: too many values"
  | (true, s) :: ms, v :: vs =>
    match toJ s v, toJMembers ms vs with
    | .ok (.obj mm), .ok rest => .ok (mm ++ rest)
    | .ok _, .ok _ => .error "allOf: member is not an object"
    | .error e, _ => .error e
    | _, .error e => .error e
  | (true, _) :: _, [] => .error "allOf: too few values"
  | (false, .obj fields _ _) :: ms, vs =>
    match toJFields fields vs with
    | .error e => .error e
    | .ok (mm, rest) =>
      match toJMembers ms rest with
      | .ok more => .ok (mm ++ more)
      | .error e => .error e
  | (false, _) :: _, _ => .error "allOf: inline member is not an object"
/-- the composite's additional values, encoded with the schema of the last inline member that
    declares additionalProperties -/
def toJCompAddl : List (Bool × Schema) → List (String × Val) → Except String (List (String × J))
  | [], _ => .error "allOf: additional values without additionalProperties"
  | (false, .obj _ (some a) _) :: ms, xs => if laterAddl ms then toJCompAddl ms xs else toJAddl a xs
  | _ :: ms, xs => toJCompAddl ms xs
end

/-! ### canonical dump of a value (what the harness prints for the Go value) -/

mutual
def dumpVal : Schema → Val → String
  | .prim _ _, .leaf _ d => d
  | .any, .leaf _ d => d
  | _, .null => "null"
  | _, .unset => "-"
  | .arr items _, .arr vs => "[" ++ ",".intercalate (dumpList items vs) ++ "]"
  | .arr _ _, .nilarr => "[]"
  | .obj fields addl _, .obj fs ax =>
    "{" ++ ",".intercalate (dumpFields fields fs ++ (match addl with
      | none => []
      | some a => ["map{" ++ ",".intercalate (((dumpAddl a (ax.getD [])).foldr insertSorted []).map (fun kv => toHex kv.1 ++ "=" ++ kv.2)) ++ "}"])) ++ "}"
  | .allOf members, .obj fs ax =>
    "{" ++ ",".intercalate (dumpMembers members fs ++ (if laterAddl members then
      ["map{" ++ ",".intercalate (((dumpCompAddl members (ax.getD [])).foldr insertSorted []).map (fun kv => toHex kv.1 ++ "=" ++ kv.2)) ++ "}"]
      else [])) ++ "}"
  | .oneOf alts _, .alt i v => "{" ++ ",".intercalate (dumpAlts alts i v) ++ "}"
  | _, _ => "?"
def dumpAlts : List (List String × Schema) → Nat → Val → List String
  | [], _, _ => []
  | (_, s) :: rest, 0, v => dumpVal s v :: rest.map (fun _ => "-")
  | _ :: rest, n + 1, v => "-" :: dumpAlts rest n v
def dumpList : Schema → List Val → List String
  | _, [] => []
  | s, v :: vs => dumpVal s v :: dumpList s vs
def dumpFields : List (String × Bool × Schema) → List Val → List String
  | [], _ => []
  | _ :: _, [] => []
  | (_, _, s) :: fs, v :: vs => dumpVal s v :: dumpFields fs vs
def dumpAddl : Schema → List (String × Val) → List (String × String)
  | _, [] => []
  | s, (k, v) :: xs => (k, dumpVal s v) :: dumpAddl s xs
def dumpMembers : List (Bool × Schema) → List Val → List String
  | [], _ => []
  | (true, s) :: ms, v :: vs => dumpVal s v :: dumpMembers ms vs
  | (true, _) :: _, [] => []
  | (false, .obj fields _ _) :: ms, vs => dumpFields fields vs ++ dumpMembers ms (vs.drop fields.length)
  | (false, _) :: ms, vs => dumpMembers ms vs
def dumpCompAddl : List (Bool × Schema) → List (String × Val) → List (String × String)
  | [], _ => []
  | (false, .obj _ (some a) _) :: ms, xs => if laterAddl ms then dumpCompAddl ms xs else dumpAddl a xs
  | _ :: ms, xs => dumpCompAddl ms xs
end

end Goag.JsonM

namespace Goag.JsonM
open Lean

/-! ### readers: schema from the OpenAPI JSON, value from the harness description -/

def jfield? (j : Json) (k : String) : Option Json :=
  match j.getObjVal? k with | .ok v => some v | .error _ => none

def jstr? (j : Json) (k : String) : Option String :=
  match jfield? j k with | some (.str s) => some s | _ => none

def jbool (j : Json) (k : String) : Bool :=
  match jfield? j k with | some (.bool b) => b | _ => false

def jarr (j : Json) (k : String) : List Json :=
  match jfield? j k with | some (.arr a) => a.toList | _ => []

def jobj (j : Json) : List (String × Json) :=
  match j with | .obj kvs => kvs.toList | _ => []

def refName? (j : Json) : Option String :=
  (jstr? j "$ref").bind (fun r =>
    let pre := "#/components/schemas/"
    if r.startsWith pre then some (r.drop pre.length).toString else none)

/-- read a schema, inlining references (fuel bounds the reference depth; the dialect is
    non-recursive) -/
def readSchema (schemas : Json) : Nat → Json → Except String Schema
  | 0, _ => .error "schema too deep (recursive?)"
  | fuel + 1, j =>
    match refName? j with
    | some n =>
      match jfield? schemas n with
      | some t => readSchema schemas fuel t
      | none => .error s!"unresolved ref {n}"
    | none =>
      let nullable := jbool j "nullable"
      let allOf := jarr j "allOf"
      let oneOf := jarr j "oneOf"
      if !allOf.isEmpty then do
        let ms ← allOf.mapM (fun m => do
          let s ← readSchema schemas fuel m
          pure ((refName? m).isSome, s))
        pure (.allOf ms)
      else if !oneOf.isEmpty then do
        let disc := (jfield? j "discriminator").bind (fun d => jstr? d "propertyName")
        let mapping := ((jfield? j "discriminator").bind (fun d => jfield? d "mapping")).map jobj |>.getD []
        let alts ← oneOf.mapM (fun m => do
          let s ← readSchema schemas fuel m
          let vals := match refName? m with
            | some n => n :: (mapping.filterMap (fun (k, t) => match t with
                | .str r => if r == "#/components/schemas/" ++ n || r == n then some k else none
                | _ => none))
            | none => []
          pure (vals, s))
        pure (.oneOf alts disc)
      else
        match jstr? j "type", jstr? j "format" with
        | some "string", some "date-time" => pure (.prim .time nullable)
        | some "string", _ => pure (.prim .str nullable)
        | some "integer", some "int32" => pure (.prim .int32 nullable)
        | some "integer", some "int64" => pure (.prim .int64 nullable)
        | some "integer", _ => pure (.prim .int nullable)
        | some "number", some "float" => pure (.prim .f32 nullable)
        | some "number", _ => pure (.prim .num nullable)
        | some "boolean", _ => pure (.prim .bool nullable)
        | some "array", _ =>
          match jfield? j "items" with
          | some it => do
            let s ← readSchema schemas fuel it
            pure (.arr s nullable)
          | none => .error "array without items"
        | some "object", _ => do
          let req := (jarr j "required").filterMap (fun r => match r with | .str s => some s | _ => none)
          let props := ((jfield? j "properties").map jobj).getD []
          let fields ← props.mapM (fun (name, pj) => do
            let s ← readSchema schemas fuel pj
            pure (name, req.contains name, s))
          let addl ← match jfield? j "additionalProperties" with
            | some (.bool true) => pure (some Schema.any)
            | some (.bool false) => pure none
            | some a => do
              let s ← readSchema schemas fuel a
              pure (some s)
            | none => pure none
          pure (.obj fields addl nullable)
        | none, _ => pure .any
        | some t, _ => .error s!"unsupported type {t}"

partial def readVal (j : Json) : Except String Val :=
  match jstr? j "k" with
  | some "null" => pure .null
  | some "unset" => pure .unset
  | some "nilarr" => pure .nilarr
  | some "arr" => do
    let vs ← (jarr j "v").mapM readVal
    pure (.arr vs)
  | some "obj" => do
    let fs ← (jarr j "f").mapM readVal
    let ax ← match jfield? j "x" with
      | some (.arr xs) => do
        let ps ← xs.toList.mapM (fun kv => match kv with
          | .arr a => match a.toList with
            | [Json.str k, v] => do
              let vv ← readVal v
              pure (k, vv)
            | _ => throw "bad additional entry"
          | _ => throw "bad additional entry")
        pure (some ps)
      | _ => pure none
    pure (.obj fs ax)
  | some "alt" =>
    match jfield? j "v", jfield? j "i" with
    | some v, i => do
      let vv ← readVal v
      let idx := match i with | some (.num n) => n.mantissa.toNat | _ => 0
      pure (.alt idx vv)
    | none, _ => throw "alt without value"
  | some _ =>
    match jstr? j "c", jstr? j "d" with
    | some c, some d => pure (.leaf c d)
    | _, _ => throw "leaf without canonical text"
  | none => throw "value without kind"

end Goag.JsonM

namespace Goag.JsonM

/-! ### JSON value → Go value (the generated UnmarshalJSON) -/

inductive DErr where
  | missing (key : String)
  | type (key : Option String)
  | additional
  | discriminator
  | oneof
  | unmodelled (msg : String)
deriving Repr, DecidableEq, Inhabited

def DErr.render : DErr → String
  | .missing k => s!"err(missing,{toHex k})"
  | .type (some k) => s!"err(type,{toHex k})"
  | .type none => "err(type,?)"
  | .additional => "err(type,additional)"
  | .discriminator => "err(discriminator)"
  | .oneof => "err(oneof)"
  | .unmodelled m => s!"unmodelled({m})"

/-- name an as yet unnamed type error after the property being decoded (the innermost
    property name is what the emitted error text ends with) -/
def DErr.under (k : String) : DErr → DErr
  | .type none => .type (some k)
  | .additional => .type (some k)
  | e => e

/-- library verdict on leaves: (kind tag, canonical leaf text) ↦ (dump, canonical re-encoding) or rejection -/
abbrev LeafDec := List ((String × String) × Option (String × String))

def lookupAssoc (ms : List (String × J)) (k : String) : Option J :=
  -- encoding/json keeps the LAST duplicate
  ((ms.reverse.find? (·.1 == k)).map (·.2))

def eraseKey (ms : List (String × J)) (k : String) : List (String × J) := ms.filter (·.1 != k)

mutual
def decode (tbl : LeafDec) : Schema → J → Except DErr Val
  | .prim k nullable, j =>
    match j with
    | .null => if nullable then .ok .null else .error (.unmodelled "null for non-nullable leaf")
    | .raw c =>
      match tbl.find? (fun e => e.1 == (k.tag, c)) with
      | some (_, some (d, rc)) => .ok (.leaf rc d)
      | some (_, none) => .error (.type none)
      | none => .error (.unmodelled s!"leaf not in table: {k.tag} {c}")
    | _ => .error (.type none)
  | .any, j => .ok (.leaf j.canon ("j:" ++ j.canon))
  | .arr items nullable, j =>
    match j with
    | .null => if nullable then .ok .null else .ok .nilarr
    | .arr js => (decodeList tbl items js).map Val.arr
    | _ => .error (.type none)
  | .obj fields addl nullable, j =>
    match j with
    | .null => if nullable then .ok .null else .error (.unmodelled "null for non-nullable object")
    | .obj ms =>
      match decodeFields tbl fields ms with
      | .error e => .error e
      | .ok (vs, rest) =>
        match addl with
        | none => .ok (.obj vs none)
        | some a =>
          match decodeAddl tbl a rest with
          | .error e => .error e
          | .ok [] => .ok (.obj vs none)      -- the map is allocated only when keys are left over
          | .ok xs => .ok (.obj vs (some xs))
    | _ => .error (.type none)
  | .allOf members, j =>
    match j with
    | .obj ms =>
      match decodeMembers tbl members ms with
      | .error e => .error e
      | .ok (vs, rest) =>
        if laterAddl members then
          match decodeCompAddl tbl members rest with
          | .error e => .error e
          | .ok [] => .ok (.obj vs none)
          | .ok xs => .ok (.obj vs (some xs))
        else .ok (.obj vs none)
    | _ => .error (.type none)
  | .oneOf alts disc, j =>
    match disc with
    | some d =>
      match j with
      | .obj ms =>
        let key := match lookupAssoc ms d with
          | some (.raw c) => if c.startsWith "\"" then some c else none   -- only a JSON string selects a variant
          | none => some "\"\""
          | _ => none
        match key with
        | none => .error (.unmodelled "discriminator of wrong JSON type")
        | some kc => decodeDisc tbl alts kc j 0
      | _ => .error (.unmodelled "discriminated oneOf on a non-object")
    | none => decodeProbe tbl alts j 0
def decodeList (tbl : LeafDec) : Schema → List J → Except DErr (List Val)
  | _, [] => .ok []
  | s, j :: js =>
    match decode tbl s j with
    | .error e => .error e
    | .ok v => match decodeList tbl s js with
      | .error e => .error e
      | .ok vs => .ok (v :: vs)
/-- declared properties in struct order over the shared key map: a present key is decoded and
    deleted, an absent required key is an error, an absent optional key stays unset -/
def decodeFields (tbl : LeafDec) : List (String × Bool × Schema) → List (String × J) → Except DErr (List Val × List (String × J))
  | [], ms => .ok ([], ms)
  | (name, req, s) :: fs, ms =>
    match lookupAssoc ms name with
    | none =>
      if req then .error (.missing name) else
      match decodeFields tbl fs ms with
      | .error e => .error e
      | .ok (vs, rest) => .ok (.unset :: vs, rest)
    | some j =>
      match decode tbl s j with
      | .error e => .error (e.under name)
      | .ok v =>
        match decodeFields tbl fs (eraseKey ms name) with
        | .error e => .error e
        | .ok (vs, rest) => .ok (v :: vs, rest)
def decodeAddl (tbl : LeafDec) : Schema → List (String × J) → Except DErr (List (String × Val))
  | _, [] => .ok []
  | s, (k, j) :: rest =>
    match decode tbl s j with
    | .error (.unmodelled m) => .error (.unmodelled m)
    | .error _ => .error .additional
    | .ok v => match decodeAddl tbl s rest with
      | .error e => .error e
      | .ok xs => .ok ((k, v) :: xs)
def decodeMembers (tbl : LeafDec) : List (Bool × Schema) → List (String × J) → Except DErr (List Val × List (String × J))
  | [], m => .ok ([], m)
  | (true, .obj fields addl _) :: ms, m =>
    match decodeFields tbl fields m with
    | .error e => .error e
    | .ok (vs, rest) =>
      match addl with
      | some _ => .error (.unmodelled "embedded member with additionalProperties")
      | none => match decodeMembers tbl ms rest with
        | .error e => .error e
        | .ok (more, left) => .ok (Val.obj vs none :: more, left)
  | (false, .obj fields _ _) :: ms, m =>
    match decodeFields tbl fields m with
    | .error e => .error e
    | .ok (vs, rest) => match decodeMembers tbl ms rest with
      | .error e => .error e
      | .ok (more, left) => .ok (vs ++ more, left)
  | _ :: _, _ => .error (.unmodelled "allOf member is not an object")
/-- keys left over by every member go to the composite's additional properties -/
def decodeCompAddl (tbl : LeafDec) : List (Bool × Schema) → List (String × J) → Except DErr (List (String × Val))
  | [], _ => .ok []
  | (false, .obj _ (some a) _) :: ms, rest => if laterAddl ms then decodeCompAddl tbl ms rest else decodeAddl tbl a rest
  | _ :: ms, rest => decodeCompAddl tbl ms rest
def decodeDisc (tbl : LeafDec) : List (List String × Schema) → String → J → Nat → Except DErr Val
  | [], _, _, _ => .error .discriminator
  | (vals, s) :: rest, kc, j, i =>
    if vals.any (fun v => goJsonString v == kc) then (decode tbl s j).map (Val.alt i)
    else decodeDisc tbl rest kc j (i + 1)
def decodeProbe (tbl : LeafDec) : List (List String × Schema) → J → Nat → Except DErr Val
  | [], _, _ => .error .oneof
  | (_, s) :: rest, j, i =>
    match decode tbl s j with
    | .ok v => .ok (.alt i v)
    | .error (.unmodelled m) => .error (.unmodelled m)
    | .error _ => decodeProbe tbl rest j (i + 1)
end

end Goag.JsonM

namespace Goag.JsonM

/-! ### reference: does a JSON value conform to the schema (C07), read from the spec alone -/

def isIntLit (c : String) : Bool :=
  let cs := c.toList
  let ds := match cs with | '-' :: r => r | r => r
  !ds.isEmpty && ds.all Char.isDigit

def isNumLit (c : String) : Bool :=
  match c.toList with
  | '-' :: d :: _ => d.isDigit
  | d :: _ => d.isDigit
  | [] => false

def leafKindOk : Kind → String → Bool
  | .str, c => c.startsWith "\""
  | .time, c => c.startsWith "\""
  | .bool, c => c == "true" || c == "false"
  | .int, c => isIntLit c
  | .int32, c => isIntLit c
  | .int64, c => isIntLit c
  | .num, c => isNumLit c
  | .f32, c => isNumLit c

def keysNodup (ms : List (String × J)) : Bool := (ms.map (·.1)).eraseDups.length == ms.length

def lookupFirst (ms : List (String × J)) (k : String) : Option J := (ms.find? (·.1 == k)).map (·.2)

def declaredNames : List (Bool × Schema) → List String
  | [] => []
  | (_, .obj fields _ _) :: rest => fields.map (·.1) ++ declaredNames rest
  | _ :: rest => declaredNames rest

mutual
def conforms : Schema → J → Bool
  | .prim k nullable, j =>
    match j with
    | .null => nullable
    | .raw c => leafKindOk k c
    | _ => false
  | .any, _ => true
  | .arr items nullable, j =>
    match j with
    | .null => nullable
    | .arr js => conformsAll items js
    | _ => false
  | .obj fields addl nullable, j =>
    match j with
    | .null => nullable
    | .obj ms =>
      let extras := ms.filter (fun kv => !fields.any (·.1 == kv.1))
      keysNodup ms && fieldsConform fields ms &&
        (match addl with
         | some a => conformsAll a (extras.map (·.2))
         | none => extras.isEmpty)
    | _ => false
  | .allOf members, j =>
    match j with
    | .obj ms =>
      let extras := ms.filter (fun kv => !(declaredNames members).contains kv.1)
      keysNodup ms && allMembers members ms &&
        (if laterAddl members then compExtrasConform members (extras.map (·.2)) else extras.isEmpty)
    | _ => false
  | .oneOf alts _, j => anyAlt alts j
def conformsAll : Schema → List J → Bool
  | _, [] => true
  | s, j :: js => conforms s j && conformsAll s js
/-- every declared property: present with the declared shape, or absent and optional -/
def fieldsConform : List (String × Bool × Schema) → List (String × J) → Bool
  | [], _ => true
  | (name, req, s) :: fs, ms =>
    (match lookupFirst ms name with
     | some j => conforms s j
     | none => !req) && fieldsConform fs ms
def allMembers : List (Bool × Schema) → List (String × J) → Bool
  | [], _ => true
  | (_, .obj fields _ _) :: rest, ms => fieldsConform fields ms && allMembers rest ms
  | _ :: _, _ => false
def anyAlt : List (List String × Schema) → J → Bool
  | [], _ => false
  | (_, s) :: rest, j => conforms s j || anyAlt rest j
def compExtrasConform : List (Bool × Schema) → List J → Bool
  | [], _ => true
  | (false, .obj _ (some a) _) :: ms, js => if laterAddl ms then compExtrasConform ms js else conformsAll a js
  | _ :: ms, js => compExtrasConform ms js
end

/-- harness encoding of a document: {"r": canonical leaf text} | null | {"a":[..]} | {"o":[[k, J]..]} -/
partial def readJ (j : Lean.Json) : Except String J :=
  match j with
  | .null => pure .null
  | _ =>
    match jstr? j "r" with
    | some c => pure (.raw c)
    | none =>
      match jfield? j "a", jfield? j "o" with
      | some (.arr a), _ => do
        let js ← a.toList.mapM readJ
        pure (.arr js)
      | _, some (.arr o) => do
        let ms ← o.toList.mapM (fun kv => match kv with
          | .arr p => match p.toList with
            | [Lean.Json.str k, v] => do
              let vv ← readJ v
              pure (k, vv)
            | _ => throw "bad member"
          | _ => throw "bad member")
        pure (.obj ms)
      | _, _ => throw "bad J"

end Goag.JsonM

namespace Goag.JsonM

/-! ### reference for C08: what re-encoding a valid document must give back -/

mutual
/-- the document with leaves in library-canonical form and with the keys the schema neither
    declares nor allows removed ("keeping additional properties where the schema allows them") -/
def prune (tbl : LeafDec) : Schema → J → J
  | .prim k _, j =>
    match j with
    | .raw c => match tbl.find? (fun e => e.1 == (k.tag, c)) with
      | some (_, some (_, rc)) => .raw rc
      | _ => .raw c
    | j => j
  | .any, j => j
  | .arr items _, j =>
    match j with
    | .arr js => .arr (pruneList tbl items js)
    | j => j
  | .obj fields addl _, j =>
    match j with
    | .obj ms =>
      let declared := pruneFields tbl fields ms
      let extras := ms.filter (fun kv => !fields.any (·.1 == kv.1))
      match addl with
      | some a => .obj (declared ++ pruneExtras tbl a extras)
      | none => .obj declared
    | j => j
  | .allOf members, j =>
    match j with
    | .obj ms =>
      let extras := ms.filter (fun kv => !(declaredNames members).contains kv.1)
      .obj (pruneMembers tbl members ms ++ (if laterAddl members then pruneCompExtras tbl members extras else []))
    | j => j
  | .oneOf alts _, j => pruneAlt tbl alts j
def pruneList (tbl : LeafDec) : Schema → List J → List J
  | _, [] => []
  | s, j :: js => prune tbl s j :: pruneList tbl s js
def pruneFields (tbl : LeafDec) : List (String × Bool × Schema) → List (String × J) → List (String × J)
  | [], _ => []
  | (name, _, s) :: fs, ms =>
    match lookupAssoc ms name with
    | some j => (name, prune tbl s j) :: pruneFields tbl fs ms
    | none => pruneFields tbl fs ms
def pruneExtras (tbl : LeafDec) : Schema → List (String × J) → List (String × J)
  | _, [] => []
  | s, (k, j) :: rest => (k, prune tbl s j) :: pruneExtras tbl s rest
def pruneMembers (tbl : LeafDec) : List (Bool × Schema) → List (String × J) → List (String × J)
  | [], _ => []
  | (_, .obj fields _ _) :: rest, ms => pruneFields tbl fields ms ++ pruneMembers tbl rest ms
  | _ :: rest, ms => pruneMembers tbl rest ms
def pruneCompExtras (tbl : LeafDec) : List (Bool × Schema) → List (String × J) → List (String × J)
  | [], _ => []
  | (false, .obj _ (some a) _) :: ms, xs => if laterAddl ms then pruneCompExtras tbl ms xs else pruneExtras tbl a xs
  | _ :: ms, xs => pruneCompExtras tbl ms xs
/-- the first alternative the document conforms to -/
def pruneAlt (tbl : LeafDec) : List (List String × Schema) → J → J
  | [], j => j
  | (_, s) :: rest, j => if conforms s j then prune tbl s j else pruneAlt tbl rest j
end

end Goag.JsonM

namespace Goag.JsonM

/-! ### known-finding class KF-C06-embeddedAddl -/

mutual
/-- some allOf (at any depth) has a member given by reference whose schema declares additionalProperties -/
def hasEmbeddedAddl : Schema → Bool
  | .prim _ _ => false
  | .any => false
  | .arr items _ => hasEmbeddedAddl items
  | .obj fields addl _ => fieldsEmbeddedAddl fields || (match addl with | some a => hasEmbeddedAddl a | none => false)
  | .allOf members => membersEmbeddedAddl members
  | .oneOf alts _ => altsEmbeddedAddl alts
def fieldsEmbeddedAddl : List (String × Bool × Schema) → Bool
  | [] => false
  | (_, _, s) :: fs => hasEmbeddedAddl s || fieldsEmbeddedAddl fs
def membersEmbeddedAddl : List (Bool × Schema) → Bool
  | [] => false
  | (isRef, s) :: ms =>
    (isRef && (match s with | .obj _ (some _) _ => true | _ => false)) || hasEmbeddedAddl s || membersEmbeddedAddl ms
def altsEmbeddedAddl : List (List String × Schema) → Bool
  | [] => false
  | (_, s) :: rest => hasEmbeddedAddl s || altsEmbeddedAddl rest
end

end Goag.JsonM
