import GoagModel.Router
/-
  Helper lemmas for C03: what the route tree stores (`Has`), and the two directions of the
  refinement between the emitted routing functions (`eval`) and literal-first matching.
-/
namespace Goag.Router
open Node
variable {α β : Type}

/-- `Has n ks a`: the tree stores payload `a` under the key list `ks` (first-match lookups,
    as the emitted `switch` statements resolve them) -/
def Has (n : Node α) (ks : List Key) (a : α) : Prop :=
  match ks with
  | [] => False
  | [Key.lit d] => firstLit n.leafLits d = some a
  | [Key.var] => n.leafVar = some a
  | Key.lit d :: k2 :: r => ∃ kid, lookupKid n.kids d = some kid ∧ Has kid (k2 :: r) a
  | Key.var :: k2 :: r => ∃ vk, n.varKid = some vk ∧ Has vk (k2 :: r) a

/-- what eval returns, characterised through `Has` -/
def Best (n : Node α) (segs : List Str) (pick : α → Option β) (b : β) : Prop :=
  ∃ ks a, Has n ks a ∧ tmatch ks segs = true ∧ pick a = some b ∧
    ∀ ks' a', Has n ks' a' → tmatch ks' segs = true → (pick a').isSome → ks' = ks ∨ better ks ks' = true

theorem has_nil_empty (ks : List Key) (a : α) : ¬ Has (Node.empty : Node α) ks a := by
  match ks with
  | [] => simp [Has]
  | [Key.lit d] => simp [Has, Node.empty, Node.leafLits, firstLit]
  | [Key.var] => simp [Has, Node.empty, Node.leafVar]
  | Key.lit d :: k2 :: r => simp [Has, Node.empty, Node.kids, lookupKid]
  | Key.var :: k2 :: r => simp [Has, Node.empty, Node.varKid]

@[simp] theorem has_lit1 (n : Node α) (d : Str) (a : α) : Has n [Key.lit d] a ↔ firstLit n.leafLits d = some a := by simp [Has]
@[simp] theorem has_var1 (n : Node α) (a : α) : Has n [Key.var] a ↔ n.leafVar = some a := by simp [Has]
@[simp] theorem has_lit2 (n : Node α) (d : Str) (k2 : Key) (r : List Key) (a : α) :
    Has n (Key.lit d :: k2 :: r) a ↔ ∃ kid, lookupKid n.kids d = some kid ∧ Has kid (k2 :: r) a := by simp [Has]
@[simp] theorem has_var2 (n : Node α) (k2 : Key) (r : List Key) (a : α) :
    Has n (Key.var :: k2 :: r) a ↔ ∃ vk, n.varKid = some vk ∧ Has vk (k2 :: r) a := by simp [Has]
@[simp] theorem has_nil (n : Node α) (a : α) : ¬ Has n [] a := by simp [Has]

theorem tmatch_len {ks : List Key} {segs : List Str} (h : tmatch ks segs = true) : ks.length = segs.length := by
  induction ks generalizing segs with
  | nil => cases segs <;> simp_all [tmatch]
  | cons k ks ih =>
    cases segs with
    | nil => cases k <;> simp [tmatch] at h
    | cons s ss =>
      cases k <;> simp [tmatch] at h
      · simp [ih h.2]
      · simp [ih h]

/-- completeness: if eval finds nothing, nothing stored matches -/
theorem eval_none (pick : α → Option β) (n : Node α) (segs : List Str)
    (h : eval n segs pick = none) :
    ∀ ks a, Has n ks a → tmatch ks segs = true → pick a = none := by
  fun_induction eval n segs pick with
  | case1 n => 
    intro ks a hh hm
    have := tmatch_len hm
    cases ks <;> simp_all
  | case2 n s =>
    unfold leafStage at h
    intro ks a hh hm
    have hl := tmatch_len hm
    match ks, hl with
    | [Key.lit d], _ =>
      simp [tmatch] at hm; subst hm
      simp at hh
      simp [hh] at h
      cases hp : pick a <;> simp_all
    | [Key.var], _ =>
      simp at hh
      simp [hh] at h
      cases hf : (firstLit n.leafLits s).bind pick <;> simp_all
  | case3 n s s2 rest kid hk vk hv ih1 ih2 =>
    intro ks a hh hm
    have hl := tmatch_len hm
    have h1 : eval kid (s2 :: rest) pick = none := by
      cases hf : eval kid (s2 :: rest) pick <;> simp_all
    have h2 : eval vk (s2 :: rest) pick = none := by
      simp [h1] at h; exact h
    match ks, hl with
    | Key.lit d :: k2 :: r, _ =>
      simp [tmatch] at hm
      obtain ⟨hd, hm⟩ := hm; subst hd
      simp [hk] at hh
      exact ih1 h1 _ _ hh (by simpa [tmatch] using hm)
    | Key.var :: k2 :: r, _ =>
      simp [tmatch] at hm
      simp [hv] at hh
      exact ih2 h2 _ _ hh (by simpa [tmatch] using hm)
  | case4 n s s2 rest kid hk hv ih1 =>
    intro ks a hh hm
    have hl := tmatch_len hm
    match ks, hl with
    | Key.lit d :: k2 :: r, _ =>
      simp [tmatch] at hm
      obtain ⟨hd, hm⟩ := hm; subst hd
      simp [hk] at hh
      exact ih1 h _ _ hh (by simpa [tmatch] using hm)
    | Key.var :: k2 :: r, _ =>
      simp [hv] at hh
  | case5 n s s2 rest hk vk hv ih2 =>
    intro ks a hh hm
    have hl := tmatch_len hm
    match ks, hl with
    | Key.lit d :: k2 :: r, _ =>
      simp [tmatch] at hm
      obtain ⟨hd, hm⟩ := hm; subst hd
      simp [hk] at hh
    | Key.var :: k2 :: r, _ =>
      simp [tmatch] at hm
      simp [hv] at hh
      exact ih2 h _ _ hh (by simpa [tmatch] using hm)
  | case6 n s s2 rest hk hv =>
    intro ks a hh hm
    have hl := tmatch_len hm
    match ks, hl with
    | Key.lit d :: k2 :: r, _ =>
      simp [tmatch] at hm
      obtain ⟨hd, hm⟩ := hm; subst hd
      simp [hk] at hh
    | Key.var :: k2 :: r, _ =>
      simp [hv] at hh

theorem has_ne_nil {n : Node α} {ks : List Key} {a : α} (h : Has n ks a) : ks ≠ [] := by
  intro hk; subst hk; simp at h

theorem eval_sound (pick : α → Option β) (n : Node α) (segs : List Str) (b : β)
    (h : eval n segs pick = some b) : Best n segs pick b := by
  fun_induction eval n segs pick with
  | case1 n => simp at h
  | case2 n s =>
    unfold leafStage at h
    cases hf : (firstLit n.leafLits s).bind pick with
    | some b' =>
      simp [hf] at h; subst h
      cases hl : firstLit n.leafLits s with
      | none => simp [hl] at hf
      | some a =>
        simp [hl] at hf
        refine ⟨[Key.lit s], a, by simpa using hl, by simp [tmatch], hf, ?_⟩
        intro ks' a' hh hm hp
        have hlen := tmatch_len hm
        match ks', hlen with
        | [Key.lit d], _ =>
          simp [tmatch] at hm; subst hm; left; rfl
        | [Key.var], _ => right; simp [better]
    | none =>
      simp [hf] at h
      cases hv : n.leafVar with
      | none => simp [hv] at h
      | some a =>
        simp [hv] at h
        refine ⟨[Key.var], a, by simpa using hv, by simp [tmatch], h, ?_⟩
        intro ks' a' hh hm hp
        have hlen := tmatch_len hm
        match ks', hlen with
        | [Key.lit d], _ =>
          simp [tmatch] at hm; subst hm
          simp at hh
          simp [hh] at hf
          simp [hf] at hp
        | [Key.var], _ => left; rfl
  | case3 n s s2 rest kid hk vk hv ih1 ih2 =>
    cases h1 : eval kid (s2 :: rest) pick with
    | some b' =>
      simp [h1] at h; subst h
      obtain ⟨ks, a, hh, hm, hp, hbest⟩ := ih1 h1
      have hne := has_ne_nil hh
      match ks, hne with
      | k2 :: r, _ =>
        refine ⟨Key.lit s :: k2 :: r, a, by simpa [hk] using hh, by simpa [tmatch] using hm, hp, ?_⟩
        intro ks' a' hh' hm' hp'
        have hlen := tmatch_len hm'
        match ks', hlen with
        | Key.lit d :: k2' :: r', _ =>
          simp [tmatch] at hm'
          obtain ⟨hd, hm'⟩ := hm'; subst hd
          simp [hk] at hh'
          rcases hbest _ _ hh' (by simpa [tmatch] using hm') hp' with heq | hb
          · left; simp [heq]
          · right; simpa [better] using hb
        | Key.var :: k2' :: r', _ => right; simp [better]
    | none =>
      simp [h1] at h
      obtain ⟨ks, a, hh, hm, hp, hbest⟩ := ih2 h
      have hne := has_ne_nil hh
      match ks, hne with
      | k2 :: r, _ =>
        refine ⟨Key.var :: k2 :: r, a, by simpa [hv] using hh, by simpa [tmatch] using hm, hp, ?_⟩
        intro ks' a' hh' hm' hp'
        have hlen := tmatch_len hm'
        match ks', hlen with
        | Key.lit d :: k2' :: r', _ =>
          simp [tmatch] at hm'
          obtain ⟨hd, hm'⟩ := hm'; subst hd
          simp [hk] at hh'
          have := eval_none pick kid (s2 :: rest) h1 _ _ hh' (by simpa [tmatch] using hm')
          simp [this] at hp'
        | Key.var :: k2' :: r', _ =>
          simp [tmatch] at hm'
          simp [hv] at hh'
          rcases hbest _ _ hh' (by simpa [tmatch] using hm') hp' with heq | hb
          · left; simp [heq]
          · right; simpa [better] using hb
  | case4 n s s2 rest kid hk hv ih1 =>
    obtain ⟨ks, a, hh, hm, hp, hbest⟩ := ih1 h
    have hne := has_ne_nil hh
    match ks, hne with
    | k2 :: r, _ =>
      refine ⟨Key.lit s :: k2 :: r, a, by simpa [hk] using hh, by simpa [tmatch] using hm, hp, ?_⟩
      intro ks' a' hh' hm' hp'
      have hlen := tmatch_len hm'
      match ks', hlen with
      | Key.lit d :: k2' :: r', _ =>
        simp [tmatch] at hm'
        obtain ⟨hd, hm'⟩ := hm'; subst hd
        simp [hk] at hh'
        rcases hbest _ _ hh' (by simpa [tmatch] using hm') hp' with heq | hb
        · left; simp [heq]
        · right; simpa [better] using hb
      | Key.var :: k2' :: r', _ => simp [hv] at hh'
  | case5 n s s2 rest hk vk hv ih2 =>
    obtain ⟨ks, a, hh, hm, hp, hbest⟩ := ih2 h
    have hne := has_ne_nil hh
    match ks, hne with
    | k2 :: r, _ =>
      refine ⟨Key.var :: k2 :: r, a, by simpa [hv] using hh, by simpa [tmatch] using hm, hp, ?_⟩
      intro ks' a' hh' hm' hp'
      have hlen := tmatch_len hm'
      match ks', hlen with
      | Key.lit d :: k2' :: r', _ =>
        simp [tmatch] at hm'
        obtain ⟨hd, hm'⟩ := hm'; subst hd
        simp [hk] at hh'
      | Key.var :: k2' :: r', _ =>
        simp [tmatch] at hm'
        simp [hv] at hh'
        rcases hbest _ _ hh' (by simpa [tmatch] using hm') hp' with heq | hb
        · left; simp [heq]
        · right; simpa [better] using hb
  | case6 n s s2 rest hk hv => simp at h

/-! ### what `Route.add` stores -/

theorem firstLit_append (ll : List (Str × α)) (d : Str) (a : α) (s : Str) :
    firstLit (ll ++ [(d, a)]) s = ((firstLit ll s) <|> (if d = s then some a else none)) := by
  induction ll with
  | nil => simp [firstLit]
  | cons x tl ih =>
    obtain ⟨d', a'⟩ := x
    by_cases h : d' = s <;> simp [firstLit, h, ih]

/-- shapes of key lists -/
theorem keys_cases (ks : List Key) :
    ks = [] ∨ (∃ d, ks = [Key.lit d]) ∨ ks = [Key.var] ∨ (∃ d k2 r, ks = Key.lit d :: k2 :: r) ∨ (∃ k2 r, ks = Key.var :: k2 :: r) := by
  match ks with
  | [] => simp
  | [Key.lit d] => simp
  | [Key.var] => simp
  | Key.lit d :: k2 :: r => simp
  | Key.var :: k2 :: r => simp

def AddSpec (n n' : Node α) (ks : List Key) (a : α) : Prop :=
  ∀ ks' a', Has n' ks' a' ↔ (ks' = ks ∧ a' = a) ∨ (ks' ≠ ks ∧ Has n ks' a')

theorem add_spec_all :
    (∀ (n : Node α) (ks : List Key), ks ≠ [] → ∀ a, (∀ a0, ¬ Has n ks a0) → AddSpec n (n.add ks a) ks a) ∧
    (∀ (kids : List (Str × Node α)) (d : Str) (ks : List Key), ks ≠ [] → ∀ a,
        (∀ kid a0, lookupKid kids d = some kid → ¬ Has kid ks a0) →
        (∀ d'', d'' ≠ d → lookupKid (addKid kids d ks a) d'' = lookupKid kids d'') ∧
        ∃ kid', lookupKid (addKid kids d ks a) d = some kid' ∧
          ∀ ks' a', Has kid' ks' a' ↔ (ks' = ks ∧ a' = a) ∨ (ks' ≠ ks ∧ ∃ kid, lookupKid kids d = some kid ∧ Has kid ks' a')) := by
  apply Node.add.mutual_induct
  · intro n hne; exact absurd rfl hne
  · -- [lit d]
    intro d ll lv kids vk _ a hfresh ks' a'
    have hnone : firstLit ll d = none := by
      cases h : firstLit ll d with
      | none => rfl
      | some a0 => exact absurd (by simpa [Has, Node.leafLits] using h) (hfresh a0)
    rcases keys_cases ks' with h | ⟨d', h⟩ | h | ⟨d', k2, r, h⟩ | ⟨k2, r, h⟩ <;> subst h
    · simp [Has]
    · by_cases hd : d = d'
      · subst hd
        simp [add, Node.leafLits, firstLit_append, hnone]
        exact eq_comm
      · have hd' : d' ≠ d := fun h => hd h.symm
        simp [add, Node.leafLits, firstLit_append, hd, hd']
    · simp [add, Node.leafVar]
    · simp [add, Node.kids]
    · simp [add, Node.varKid]
  · -- [var]
    intro ll lv kids vk _ a hfresh ks' a'
    rcases keys_cases ks' with h | ⟨d', h⟩ | h | ⟨d', k2, r, h⟩ | ⟨k2, r, h⟩ <;> subst h
    · simp [Has]
    · simp [add, Node.leafLits]
    · have : lv = none := by
        cases h : lv with
        | none => rfl
        | some a0 => exact absurd (by simpa [Has, Node.leafVar] using h) (hfresh a0)
      subst this
      simp [add, Node.leafVar]
      constructor <;> (intro h; exact h.symm)
    · simp [add, Node.kids]
    · simp [add, Node.varKid]
  · -- var :: k2 :: rest
    intro k2 rest ll lv kids vk ih _ a hfresh ks' a'
    have hfresh' : ∀ a0, ¬ Has (vk.getD empty) (k2 :: rest) a0 := by
      intro a0 h
      cases hv : vk with
      | none => subst hv; exact has_nil_empty _ _ h
      | some v => subst hv; exact hfresh a0 (by simpa [Node.varKid] using h)
    have spec := ih (by simp) a hfresh'
    rcases keys_cases ks' with h | ⟨d', h⟩ | h | ⟨d', k2', r, h⟩ | ⟨k2', r, h⟩ <;> subst h
    · simp [Has]
    · simp [add, Node.leafLits]
    · simp [add, Node.leafVar]
    · simp [add, Node.kids]
    · simp only [add, has_var2, Node.varKid, Option.some.injEq, exists_eq_left']
      rw [spec (k2' :: r) a']
      cases hv : vk with
      | none =>
        simp
        intro _ h; exact absurd h (has_nil_empty _ _)
      | some v => simp
  · -- lit d :: k2 :: rest
    intro d k2 rest ll lv kids vk ih _ a hfresh ks' a'
    have hfresh' : ∀ kid a0, lookupKid kids d = some kid → ¬ Has kid (k2 :: rest) a0 := by
      intro kid a0 hk h
      exact hfresh a0 (by simp only [has_lit2, Node.kids]; exact ⟨kid, hk, h⟩)
    obtain ⟨hother, kid', hk', spec⟩ := ih (by simp) a hfresh'
    rcases keys_cases ks' with h | ⟨d', h⟩ | h | ⟨d', k2', r, h⟩ | ⟨k2', r, h⟩ <;> subst h
    · simp [Has]
    · simp [add, Node.leafLits]
    · simp [add, Node.leafVar]
    · by_cases hd : d' = d
      · subst hd
        simp only [add, has_lit2, Node.kids, hk', Option.some.injEq, exists_eq_left']
        rw [spec (k2' :: r) a']
        simp
      · simp only [add, has_lit2, Node.kids, hother d' hd]
        simp [hd]
    · simp [add, Node.varKid]
  · -- addKid []
    intro d ks ih hne a _
    have spec := ih hne a (fun a0 => has_nil_empty _ _)
    refine ⟨?_, ?_⟩
    · intro d'' hd
      have : d ≠ d'' := fun h => hd h.symm
      simp [addKid, lookupKid, this]
    · refine ⟨(empty : Node α).add ks a, by simp [addKid, lookupKid], ?_⟩
      intro ks' a'
      rw [spec ks' a']
      simp [lookupKid]
      intro _ h; exact absurd h (has_nil_empty _ _)
  · -- addKid hit
    intro ks d' n tl ih hne a hfresh
    have spec := ih hne a (fun a0 => hfresh n a0 (by simp [lookupKid]))
    refine ⟨?_, ?_⟩
    · intro d'' hd
      have : d' ≠ d'' := fun h => hd h.symm
      simp [addKid, lookupKid, this]
    · refine ⟨n.add ks a, by simp [addKid, lookupKid], ?_⟩
      intro ks' a'
      rw [spec ks' a']
      simp [lookupKid]
  · -- addKid miss
    intro d ks d' n tl hne' ih hne a hfresh
    have hfresh' : ∀ kid a0, lookupKid tl d = some kid → ¬ Has kid ks a0 := by
      intro kid a0 hk
      exact hfresh kid a0 (by simp [lookupKid, hne', hk])
    obtain ⟨hother, kid', hk', spec⟩ := ih hne a hfresh'
    refine ⟨?_, ?_⟩
    · intro d'' hd
      by_cases h : d' = d''
      · subst h
        simp [addKid, lookupKid, hne']
      · simp [addKid, lookupKid, hne', h, hother d'' hd]
    · refine ⟨kid', by simp [addKid, lookupKid, hne', hk'], ?_⟩
      intro ks' a'
      rw [spec ks' a']
      simp [lookupKid, hne']


theorem splitSlashAux_ne_nil (cur s : Str) : splitSlashAux cur s ≠ [] := by
  induction s generalizing cur with
  | nil => simp [splitSlashAux]
  | cons c cs ih =>
    unfold splitSlashAux
    split
    · simp
    · exact ih _

theorem keysOf_ne_nil (raw : Str) : keysOf raw ≠ [] := by
  unfold keysOf splitSlash
  simp only [ne_eq, List.map_eq_nil_iff]
  exact splitSlashAux_ne_nil _ _

theorem foldl_has (items : List (Str × α)) (n : Node α)
    (hd : (items.map (fun it => keysOf it.1)).Nodup)
    (hfresh : ∀ it ∈ items, ∀ a0, ¬ Has n (keysOf it.1) a0) :
    ∀ ks a, Has (items.foldl (fun n it => n.add (keysOf it.1) it.2) n) ks a ↔
      (Has n ks a ∨ ∃ it ∈ items, keysOf it.1 = ks ∧ it.2 = a) := by
  induction items generalizing n with
  | nil => intro ks a; simp
  | cons it tl ih =>
    intro ks a
    simp only [List.foldl_cons]
    have hd' : (tl.map (fun it => keysOf it.1)).Nodup := by
      simp only [List.map_cons, List.nodup_cons] at hd; exact hd.2
    have hnot : ∀ it' ∈ tl, keysOf it'.1 ≠ keysOf it.1 := by
      intro it' hm heq
      simp only [List.map_cons, List.nodup_cons, List.mem_map] at hd
      exact hd.1 ⟨it', hm, heq⟩
    have spec := add_spec_all.1 n (keysOf it.1) (keysOf_ne_nil _) it.2 (hfresh it (by simp))
    have hfresh' : ∀ it' ∈ tl, ∀ a0, ¬ Has (n.add (keysOf it.1) it.2) (keysOf it'.1) a0 := by
      intro it' hm a0 h
      rw [spec] at h
      rcases h with ⟨h1, _⟩ | ⟨_, h2⟩
      · exact hnot it' hm h1
      · exact hfresh it' (by simp [hm]) a0 h2
    rw [ih _ hd' hfresh' ks a, spec ks a]
    constructor
    · rintro ((⟨h1, h2⟩ | ⟨_, h2⟩) | ⟨it', hm, h1, h2⟩)
      · exact Or.inr ⟨it, by simp, h1.symm, h2.symm⟩
      · exact Or.inl h2
      · exact Or.inr ⟨it', by simp [hm], h1, h2⟩
    · rintro (h | ⟨it', hm, h1, h2⟩)
      · by_cases hk : ks = keysOf it.1
        · subst hk; exact absurd h (hfresh it (by simp) a)
        · exact Or.inl (Or.inr ⟨hk, h⟩)
      · simp only [List.mem_cons] at hm
        rcases hm with rfl | hm
        · exact Or.inl (Or.inl ⟨h1.symm, h2.symm⟩)
        · exact Or.inr ⟨it', hm, h1, h2⟩

/-- what the route tree built by `NewRouter` stores: exactly the path items, under their keys -/
theorem build_has (items : List (Str × α)) (hd : (items.map (fun it => keysOf it.1)).Nodup) (ks : List Key) (a : α) :
    Has (build items) ks a ↔ ∃ it ∈ items, keysOf it.1 = ks ∧ it.2 = a := by
  unfold build
  rw [foldl_has items Node.empty hd (fun _ _ a0 => has_nil_empty _ a0)]
  constructor
  · rintro (h | h)
    · exact absurd h (has_nil_empty _ _)
    · exact h
  · exact Or.inr


/-! ### the emitted routing functions compute the literal-first maximum -/

theorem better_asymm : ∀ (a b : List Key), better a b = true → better b a = false
  | [], _, h => by simp [better] at h
  | _ :: _, [], h => by simp [better] at h
  | Key.lit _ :: _, Key.var :: _, _ => by simp [better]
  | Key.var :: _, Key.lit _ :: _, h => by simp [better] at h
  | Key.lit _ :: ks, Key.lit _ :: ks', h => by
      simp only [better] at h ⊢; exact better_asymm ks ks' h
  | Key.var :: ks, Key.var :: ks', h => by
      simp only [better] at h ⊢; exact better_asymm ks ks' h

theorem nodup_map_inj {γ δ : Type} (f : γ → δ) : ∀ (l : List γ), (l.map f).Nodup → ∀ a ∈ l, ∀ b ∈ l, f a = f b → a = b
  | [], _, a, ha, _, _, _ => by simp at ha
  | x :: tl, hd, a, ha, b, hb, hf => by
    simp only [List.map_cons, List.nodup_cons, List.mem_map, not_exists, not_and] at hd
    simp only [List.mem_cons] at ha hb
    rcases ha with rfl | ha <;> rcases hb with rfl | hb
    · rfl
    · exact absurd hf.symm (hd.1 b hb)
    · exact absurd hf (hd.1 a ha)
    · exact nodup_map_inj f tl hd.2 a ha b hb hf

def candsOf (items : List (Str × α)) (segs : List Str) (pick : α → Option β) : List (List Key × β) :=
  items.filterMap (fun it =>
    let ks := keysOf it.1
    if tmatch ks segs then (pick it.2).map (fun b => (ks, b)) else none)

theorem mem_candsOf {items : List (Str × α)} {segs : List Str} {pick : α → Option β} {c : List Key × β} :
    c ∈ candsOf items segs pick ↔ ∃ it ∈ items, keysOf it.1 = c.1 ∧ tmatch c.1 segs = true ∧ pick it.2 = some c.2 := by
  unfold candsOf
  simp only [List.mem_filterMap]
  constructor
  · rintro ⟨it, hm, h⟩
    by_cases ht : tmatch (keysOf it.1) segs = true
    · simp only [ht, if_true, Option.map_eq_some_iff] at h
      obtain ⟨b, hb, rfl⟩ := h
      exact ⟨it, hm, rfl, ht, hb⟩
    · simp [ht] at h
  · rintro ⟨it, hm, hk, ht, hp⟩
    refine ⟨it, hm, ?_⟩
    obtain ⟨ks, b⟩ := c
    simp only at hk ht hp
    subst hk
    simp [ht, hp]

theorem eval_eq_spec (items : List (Str × α)) (hd : (items.map (fun it => keysOf it.1)).Nodup)
    (segs : List Str) (pick : α → Option β) :
    eval (build items) segs pick =
      ((candsOf items segs pick).find? (fun c => (candsOf items segs pick).all (fun c' => c'.1 == c.1 || better c.1 c'.1))).map (·.2) := by
  cases he : eval (build items) segs pick with
  | none =>
    have hn := eval_none pick (build items) segs he
    have : candsOf items segs pick = [] := by
      apply List.eq_nil_iff_forall_not_mem.mpr
      intro c hc
      obtain ⟨it, hm, hk, ht, hp⟩ := mem_candsOf.mp hc
      have := hn c.1 it.2 ((build_has items hd _ _).mpr ⟨it, hm, hk, rfl⟩) ht
      simp [this] at hp
    simp [this]
  | some b =>
    obtain ⟨ks, a, hh, hm, hp, hbest⟩ := eval_sound pick (build items) segs b he
    obtain ⟨it, hit, hk, ha⟩ := (build_has items hd _ _).mp hh
    have hmem : (ks, b) ∈ candsOf items segs pick := mem_candsOf.mpr ⟨it, hit, hk, hm, by rw [ha]; exact hp⟩
    have hP : (candsOf items segs pick).all (fun c' => c'.1 == ks || better ks c'.1) = true := by
      simp only [List.all_eq_true, Bool.or_eq_true, beq_iff_eq]
      intro c' hc'
      obtain ⟨it', hit', hk', ht', hp'⟩ := mem_candsOf.mp hc'
      exact hbest c'.1 it'.2 ((build_has items hd _ _).mpr ⟨it', hit', hk', rfl⟩) ht' (by simp [hp'])
    cases hf : (candsOf items segs pick).find? (fun c => (candsOf items segs pick).all (fun c' => c'.1 == c.1 || better c.1 c'.1)) with
    | none =>
      have := List.find?_eq_none.mp hf (ks, b) hmem
      simp only [hP] at this
      exact absurd trivial this
    | some c =>
      have hcm := List.mem_of_find?_eq_some hf
      have hcP := List.find?_some hf
      simp only [List.all_eq_true, Bool.or_eq_true, beq_iff_eq] at hcP hP
      have h1 := hcP (ks, b) hmem
      have h2 := hP c hcm
      have hks : c.1 = ks := by
        rcases h2 with h2 | h2
        · exact h2
        · rcases h1 with h1 | h1
          · exact h1.symm
          · have := better_asymm _ _ h2
            simp only at h1
            rw [h1] at this; exact absurd this (by simp)
      obtain ⟨it', hit', hk', _, hp'⟩ := mem_candsOf.mp hcm
      have hitit : it' = it := by
        exact nodup_map_inj _ items hd it' hit' it hit (by show keysOf it'.1 = keysOf it.1; rw [hk', hk, hks])
      subst hitit
      rw [ha, hp] at hp'
      simp only [Option.map_some]
      exact congrArg some (Option.some.inj hp')


end Goag.Router
