import GoagModel.Ref
/-
  Helper lemmas for C11: `authMiddlewareOr` (soundness / completeness over its argument
  list) and what `NewRouter` puts into that argument list.
-/
namespace Goag.Serve

open Goag.Spec Goag.Router Goag.Ref

/-- the authenticator of the scheme is installed, the request carries its credential and the
    authenticator accepts it -/
def Accepts (cfg : Cfg) (req : Req) (r : AuthRef) (tok : String) : Prop :=
  ∃ accept, cfg.auth.find? (·.1 == r.scheme) = some (r.scheme, accept) ∧ credential r req = some tok ∧ accept.contains tok = true

theorem find_fst {l : List (String × List String)} {k : String} {e : String × List String}
    (h : l.find? (·.1 == k) = some e) : e.1 = k := by
  have := List.find?_some h
  simpa using this

/-- `authMiddlewareOr` soundness: the handler only runs with a request returned by an
    authenticator of one of the wrapper's schemes that accepted the request's own credential -/
theorem authOr_sound (refs : List AuthRef) (cfg : Cfg) (req : Req) (s t : String)
    (h : (authOr refs cfg req).2 = some (s, t)) : ∃ r ∈ refs, r.scheme = s ∧ Accepts cfg req r t := by
  induction refs with
  | nil => simp [authOr] at h
  | cons r rs ih =>
    unfold authOr at h
    split at h
    · obtain ⟨r', hm, h'⟩ := ih h; exact ⟨r', List.mem_cons_of_mem _ hm, h'⟩
    · rename_i k accept hf
      split at h
      · obtain ⟨r', hm, h'⟩ := ih h; exact ⟨r', List.mem_cons_of_mem _ hm, h'⟩
      · rename_i tok hc
        split at h
        · rename_i hacc
          simp only [Option.some.injEq, Prod.mk.injEq] at h
          obtain ⟨rfl, rfl⟩ := h
          have hk : k = r.scheme := find_fst hf
          subst hk
          exact ⟨r, by simp, rfl, accept, hf, hc, hacc⟩
        · simp only at h
          obtain ⟨r', hm, h'⟩ := ih h; exact ⟨r', List.mem_cons_of_mem _ hm, h'⟩

/-- `authMiddlewareOr` completeness: 401 only when no scheme of the wrapper accepts -/
theorem authOr_complete (refs : List AuthRef) (cfg : Cfg) (req : Req)
    (h : (authOr refs cfg req).2 = none) : ∀ r ∈ refs, ∀ tok, ¬ Accepts cfg req r tok := by
  induction refs with
  | nil => simp
  | cons r rs ih =>
    intro r' hm tok hacc
    unfold authOr at h
    simp only [List.mem_cons] at hm
    split at h
    · rename_i hf
      rcases hm with rfl | hm
      · obtain ⟨accept, hf', _, _⟩ := hacc; rw [hf] at hf'; simp at hf'
      · exact ih h r' hm tok hacc
    · rename_i k accept hf
      split at h
      · rename_i hc
        rcases hm with rfl | hm
        · obtain ⟨_, _, hc', _⟩ := hacc; rw [hc] at hc'; simp at hc'
        · exact ih h r' hm tok hacc
      · rename_i tok' hc
        split at h
        · simp at h
        · rename_i hnot
          simp only at h
          rcases hm with rfl | hm
          · obtain ⟨accept', hf', hc', hacc'⟩ := hacc
            rw [hf] at hf'; rw [hc] at hc'
            simp only [Option.some.injEq, Prod.mk.injEq] at hf' hc'
            obtain ⟨_, rfl⟩ := hf'
            subst hc'
            exact hnot hacc'
          · exact ih h r' hm tok hacc



def refOfKind (n : String) : SchemeKind → Option AuthRef
  | .bearer => some (.bearer n)
  | .apiKeyHeader h => some (.headerKey n h)
  | .apiKeyQuery q => some (.queryKey n q)
  | .unsupported => none

theorem schemeRef_eq (doc : Doc) (n : String) : schemeRef doc n = (schemeOf doc n).bind (refOfKind n) := by
  unfold schemeRef
  cases h : schemeOf doc n with
  | none => rfl
  | some k => cases k <;> rfl

theorem refOfKind_scheme {n : String} {k : SchemeKind} {r : AuthRef} (h : refOfKind n k = some r) : r.scheme = n := by
  cases k <;> simp [refOfKind] at h <;> subst h <;> rfl

/-- membership in the wrapper built by `NewRouter` -/
theorem mem_authRefs {red : List (String × SchemeKind)} {r : AuthRef} (h : r ∈ authRefs red) :
    ∃ n k, (n, k) ∈ red ∧ refOfKind n k = some r := by
  unfold authRefs at h
  simp only [List.mem_append] at h
  rcases h with h | h
  · have := List.mem_of_mem_take h
    simp only [List.mem_filterMap] at this
    obtain ⟨⟨n, k⟩, hm, hk⟩ := this
    cases k <;> simp at hk
    subst hk
    exact ⟨n, .bearer, hm, rfl⟩
  · simp only [List.mem_filterMap] at h
    obtain ⟨⟨n, k⟩, hm, hk⟩ := h
    cases k <;> simp at hk
    · subst hk; exact ⟨n, _, hm, rfl⟩
    · subst hk; exact ⟨n, _, hm, rfl⟩

/-- every reduced requirement of a supported kind is represented in the wrapper, except that
    several bearer schemes share the single `SecurityBearerAuth` slot (first one wins) -/
theorem authRefs_mem {red : List (String × SchemeKind)} {n : String} {k : SchemeKind} {r : AuthRef}
    (hm : (n, k) ∈ red) (hr : refOfKind n k = some r) :
    r ∈ authRefs red ∨ (k = .bearer ∧ ∃ n', (n', SchemeKind.bearer) ∈ red ∧ AuthRef.bearer n' ∈ authRefs red) := by
  unfold authRefs
  cases k with
  | unsupported => simp [refOfKind] at hr
  | apiKeyHeader h =>
    simp only [refOfKind, Option.some.injEq] at hr; subst hr
    left; simp only [List.mem_append, List.mem_filterMap]; right
    exact ⟨(n, .apiKeyHeader h), hm, rfl⟩
  | apiKeyQuery q =>
    simp only [refOfKind, Option.some.injEq] at hr; subst hr
    left; simp only [List.mem_append, List.mem_filterMap]; right
    exact ⟨(n, .apiKeyQuery q), hm, rfl⟩
  | bearer =>
    right
    refine ⟨rfl, ?_⟩
    -- the filterMap of bearer entries is non-empty, its head is in `take 1`
    have hne : AuthRef.bearer n ∈ red.filterMap (fun (x : String × SchemeKind) => match x.2 with | .bearer => some (AuthRef.bearer x.1) | _ => none) := by
      simp only [List.mem_filterMap]; exact ⟨(n, .bearer), hm, rfl⟩
    cases hl : red.filterMap (fun (x : String × SchemeKind) => match x.2 with | .bearer => some (AuthRef.bearer x.1) | _ => none) with
    | nil => rw [hl] at hne; simp at hne
    | cons b tl =>
      have hb : b ∈ red.filterMap (fun (x : String × SchemeKind) => match x.2 with | .bearer => some (AuthRef.bearer x.1) | _ => none) := by
        rw [hl]; simp
      simp only [List.mem_filterMap] at hb
      obtain ⟨⟨n', k'⟩, hm', hk'⟩ := hb
      cases k' <;> simp at hk'
      subst hk'
      refine ⟨n', hm', ?_⟩
      simp only [List.mem_append]
      left
      simp


/-- every alternative names exactly one scheme -/
def InFragmentSingle (alts : List (List String)) : Prop := ∀ alt ∈ alts, ∃ n, alt = [n]

/-- what `NewSecurityRequirements` keeps of a requirement list -/
theorem mem_reduceReqs (doc : Doc) : ∀ (alts : List (List String)) (red : List (String × SchemeKind)),
    reduceReqs doc alts = .ok red →
    ∀ n k, (n, k) ∈ red ↔ ∃ alt ∈ alts, alt.head? = some n ∧ schemeOf doc n = some k
  | [], red, h => by
    simp only [reduceReqs, Except.ok.injEq] at h; subst h; simp
  | [] :: rest, red, h => by
    simp only [reduceReqs] at h
    intro n k
    rw [mem_reduceReqs doc rest red h n k]
    simp
  | (m :: ms) :: rest, red, h => by
    simp only [reduceReqs] at h
    split at h
    · simp at h
    · rename_i k0 hk0
      split at h
      · simp at h
      · rename_i red' hr
        simp only [Except.ok.injEq] at h; subst h
        intro n k
        simp only [List.mem_cons, Prod.mk.injEq]
        rw [mem_reduceReqs doc rest red' hr n k]
        constructor
        · rintro (⟨hn, hk⟩ | ⟨alt, hm, h1, h2⟩)
          · subst hn; subst hk
            exact ⟨n :: ms, Or.inl rfl, by simp, hk0⟩
          · exact ⟨alt, Or.inr hm, h1, h2⟩
        · rintro ⟨alt, (rfl | hm), h1, h2⟩
          · simp only [List.head?_cons, Option.some.injEq] at h1; subst h1
            rw [hk0] at h2; simp only [Option.some.injEq] at h2
            exact Or.inl ⟨rfl, h2.symm⟩
          · exact Or.inr ⟨alt, hm, h1, h2⟩

end Goag.Serve
