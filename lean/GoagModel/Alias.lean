/-
  C15: resolution of component aliases (`specification/map.go` NewMapRefSelfSource, and the
  `Ref.Value()` / `Schema.Base()` walks that follow).  A component map sends a name to either a
  definition or an alias of another name.  goag first requires every alias target to exist,
  then walks every chain for at most `len + 2` names and reports "reference cycle" if the chain
  has not ended; later code follows the chains without any bound.
-/
namespace Goag.Alias

/-- `some t`: the component is only a `$ref` to component `t`; `none`: a definition -/
abbrev CMap := List (String × Option String)

def lookup (m : CMap) (n : String) : Option (Option String) := (m.find? (·.1 == n)).map (·.2)

inductive Res where
  | found (d : String)      -- the chain ends at definition `d`
  | dangling (n : String)   -- the chain reaches a name that is not in the map
  | exhausted               -- still on an alias when the fuel ran out
deriving DecidableEq, Repr

/-- follow the chain, looking at no more than `fuel` names -/
def walk (m : CMap) : Nat → String → Res
  | 0, _ => .exhausted
  | f + 1, n =>
    match lookup m n with
    | none => .dangling n
    | some none => .found n
    | some (some t) => walk m f t

/-- the name reached after `k` alias hops (`none`: the chain ended earlier) -/
def after (m : CMap) : Nat → String → Option String
  | 0, n => some n
  | k + 1, n =>
    match lookup m n with
    | some (some t) => after m k t
    | _ => none

/-- the two checks of `NewMapRefSelfSource` -/
def check (m : CMap) : Except String Unit :=
  if m.any (fun e => match e.2 with | some t => (lookup m t).isNone | none => false) then .error "reference not found"
  else if m.any (fun e => walk m (m.length + 2) e.1 == .exhausted) then .error "reference cycle"
  else .ok ()

end Goag.Alias
