import GoagModel.Basic
/-
  C01: identifier derivation of the generator on ASCII names
  (generator/naming.go PublicFieldName, generator/title.go Title / PrivateFieldName).
  Outside ASCII the functions depend on unicode tables and x/text/cases: `unmodelled`.
-/
namespace Goag.Naming

def isLetter (c : Char) : Bool := c.isAlpha
def isUpperL (c : Char) : Bool := c.isUpper
def isDigitC (c : Char) : Bool := c.isDigit

/-- `strings.Title` / `cases.Title(NoLower)` on a run of ASCII letters and digits: upper-case
    the first letter -/
def titleWord : Str → Str
  | [] => []
  | c :: cs => if isLetter c then c.toUpper :: cs else c :: titleWord cs

/-- the word list of `PublicFieldName`: split before every non-letter and before every upper
    case letter; a digit continues a word only after a word has begun; other characters are
    dropped -/
def words : Str → Option Str → List Str
  | [], cur => match cur with | some w => [w.reverse] | none => []
  | c :: cs, cur =>
    let isSplit := !isLetter c || isUpperL c
    if isSplit then
      let emitted := match cur with | some w => [w.reverse] | none => []
      let startsWord := isLetter c || (cur.isSome && isDigitC c)
      emitted ++ words cs (if startsWord then some [c] else none)
    else
      match cur with
      | some w => words cs (some (c :: w))
      | none => words cs (some [c])

def publicWord (w : Str) : Str :=
  if w = "id".toList || w = "Id".toList then "ID".toList
  else if w = "ids".toList then "IDs".toList
  else
    -- strings.Title on a word of letters/digits: first character upper-cased if it is a letter
    match w with
    | [] => []
    | c :: cs => (if isLetter c then c.toUpper else c) :: cs

def publicFieldName (s : Str) : Str := ((words s none).map publicWord).flatten

def splitOnChars (seps : List Char) : Str → Str → List Str
  | cur, [] => [cur.reverse]
  | cur, c :: cs => if seps.contains c then cur.reverse :: splitOnChars seps [] cs else splitOnChars seps (c :: cur) cs

def hasSuffix (s suf : Str) : Bool := suf.reverse.isPrefixOf s.reverse

/-- `Title` on one part (no '-', '.', '_') -/
def titlePart (s : Str) : Str :=
  if s = "id".toList || s = "Id".toList then "ID".toList
  else if s = "ids".toList then "IDs".toList
  else if hasSuffix s "id".toList then titleWord (s.take (s.length - 2)) ++ "ID".toList
  else if hasSuffix s "ids".toList then titleWord (s.take (s.length - 3)) ++ "IDs".toList
  else titleWord s

def title (s : Str) : Str :=
  if s = "id".toList || s = "Id".toList then "ID".toList
  else if s = "ids".toList then "IDs".toList
  else
    match splitOnChars ['-', '.', '_'] [] s with
    | [one] => titlePart one
    | parts => (parts.map titlePart).flatten

def privateFieldName : Str → Str
  | [] => []
  | c :: cs => c.toLower :: cs

def asciiName (s : Str) : Bool := s.all (fun c => c.isAlphanum || c = '-' || c = '_' || c = '.')

end Goag.Naming
