import GoagModel.Basic
/-
  C13 (embedding half).

  `encodeRaw`  : transcription of `generator/files.go: encodeRawFileAsString`
                 (the repaired version: see known_findings.json "fixed" entries).
  `encodeOld`  : the encoder of the pinned commit (kept for the negative theorems).
  `goEval`     : the part of the Go lexer + constant evaluator that a string expression
                 `lit (+ lit)*` can reach: raw string literals (carriage returns are
                 discarded), interpreted string literals (escapes \a \b \f \n \r \t \v \\ \"
                 \uXXXX; no raw newline), NUL illegal anywhere, U+FEFF illegal anywhere
                 but at file offset 0 (the literal never starts the file).
                 \x, octal and \U escapes are *not* modelled (answer `none`); neither
                 encoder emits them and the lexer tie does not generate them.
-/
namespace Goag.Embed

def bom : Char := Char.ofNat 0xFEFF

inductive St where
  | start            -- expecting a literal
  | raw              -- inside `...`
  | str              -- inside "..."
  | esc              -- after a backslash inside "..."
  | uni (k : Nat) (v : Nat)   -- reading k more hex digits of \uXXXX
  | after            -- after a closed literal: '+' or end
deriving DecidableEq, Repr

def simpleEsc (c : Char) : Option Char :=
  if c = 'a' then some (Char.ofNat 7) else if c = 'b' then some (Char.ofNat 8)
  else if c = 'f' then some (Char.ofNat 12) else if c = 'n' then some '\n'
  else if c = 'r' then some '\r' else if c = 't' then some '\t'
  else if c = 'v' then some (Char.ofNat 11) else if c = '\\' then some '\\'
  else if c = '"' then some '"' else none

/-- illegal anywhere in a Go source file -/
def illegal (c : Char) : Bool := c = Char.ofNat 0 || c = bom

def go (st : St) (acc : Str) (inp : Str) : Option Str :=
  match inp with
  | [] => if st = .after then some acc.reverse else none
  | c :: cs =>
    if illegal c then none else
    match st with
    | .start => if c = '`' then go .raw acc cs else if c = '"' then go .str acc cs
                else if c = ' ' then go .start acc cs else none
    | .raw => if c = '`' then go .after acc cs
              else if c = '\r' then go .raw acc cs        -- Go discards CR in raw strings
              else go .raw (c :: acc) cs
    | .str => if c = '"' then go .after acc cs
              else if c = '\n' then none
              else if c = '\\' then go .esc acc cs
              else go .str (c :: acc) cs
    | .esc => match simpleEsc c with
              | some v => go .str (v :: acc) cs
              | none => if c = 'u' then go (.uni 4 0) acc cs else none
    | .uni k v => match hexVal c with
              | none => none
              | some h => if k = 1 then
                            (if Nat.isValidChar (v * 16 + h) then go .str (Char.ofNat (v * 16 + h) :: acc) cs else none)
                          else go (.uni (k - 1) (v * 16 + h)) acc cs
    | .after => if c = '+' then go .start acc cs else if c = ' ' then go .after acc cs else none

/-- value of a Go constant string expression `lit (+ lit)*`, `none` if it does not lex -/
def goEval (e : Str) : Option Str := go .start [] e

/-- strings.NewReplacer / ReplaceAll with single-character patterns -/
def rep (f : Char → Option Str) (s : Str) : Str := s.flatMap (fun c => (f c).getD [c])

def fRaw (c : Char) : Option Str :=
  if c = '`' then some "`+\"`\"+`".toList
  else if c = '\r' then some "`+\"\\r\"+`".toList
  else if c = bom then some "`+\"\\ufeff\"+`".toList else none

def fStr (c : Char) : Option Str :=
  if c = '\\' then some "\\\\".toList
  else if c = '"' then some "\\\"".toList
  else if c = bom then some "\\ufeff".toList else none

/-- `encodeRawFileAsString` of the current tree -/
def encodeRaw (s : Str) : Str :=
  if '\n' ∈ s then ['`'] ++ rep fRaw s ++ ['`'] else ['"'] ++ rep fStr s ++ ['"']

/-- `encodeRawFileAsString` of the pinned commit (before the `fix:`) -/
def encodeOld (s : Str) : Str :=
  if '\n' ∈ s then ['`'] ++ rep (fun c => if c = '`' then some "`+\"`\"+`".toList else none) s ++ ['`']
  else ['"'] ++ rep (fun c => if c = '"' then some "\\\"".toList else none) s ++ ['"']

end Goag.Embed
