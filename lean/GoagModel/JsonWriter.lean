import GoagModel.JsonModel
/-
  The comma discipline of the emitted `marshalJSONInnerBody` (object writer):
  `writeProperty` writes `comma + "key":value` and sets `comma = ","`; an embedded allOf member
  is written into a buffer by its own inner body (fresh comma state) and spliced in with a
  leading comma only when it wrote something.  Values are opaque units here (their validity is
  the induction hypothesis / the leaf hypothesis on encoding/json).
-/
namespace Goag.JsonM

inductive Tok where
  | comma
  | member (k : String) (j : J)
deriving Repr

/-- what an object value asks the writer to do, in struct-field order -/
inductive Item where
  | prop (k : String) (j : J)          -- writeProperty (required, or optional and set, or additional property)
  | skip                               -- optional property that is unset: nothing is written
  | embedded (items : List Item)       -- embedded allOf member: its own inner body
deriving Repr

structure W where
  out : List Tok
  comma : Bool

def W.start : W := ⟨[], false⟩

def sep (c : Bool) : List Tok := if c then [Tok.comma] else []

mutual
/-- the repaired writer -/
def writeItems : List Item → W → W
  | [], w => w
  | Item.prop k j :: rest, w => writeItems rest ⟨w.out ++ sep w.comma ++ [Tok.member k j], true⟩
  | Item.skip :: rest, w => writeItems rest w
  | Item.embedded inner :: rest, w =>
    let buf := (writeItems inner W.start).out
    if buf.isEmpty then writeItems rest w
    else writeItems rest ⟨w.out ++ sep w.comma ++ buf, true⟩
end

mutual
/-- the writer of the pinned commit: the embedded body writes straight into `out` with a fresh
    comma state, and `comma` is forced to "," afterwards -/
def writeItemsOld : List Item → W → W
  | [], w => w
  | Item.prop k j :: rest, w => writeItemsOld rest ⟨w.out ++ sep w.comma ++ [Tok.member k j], true⟩
  | Item.skip :: rest, w => writeItemsOld rest w
  | Item.embedded inner :: rest, w =>
    writeItemsOld rest ⟨(writeItemsOld inner ⟨w.out, false⟩).out, true⟩
end

/-- members denoted by an item list -/
def flatten : List Item → List (String × J)
  | [] => []
  | Item.prop k j :: rest => (k, j) :: flatten rest
  | Item.skip :: rest => flatten rest
  | Item.embedded inner :: rest => flatten inner ++ flatten rest

/-- JSON object body grammar: ε | member (, member)* -/
def parseMore : List Tok → Option (List (String × J))
  | [] => some []
  | Tok.comma :: Tok.member k j :: rest => (parseMore rest).map ((k, j) :: ·)
  | _ => none

def parseMembers : List Tok → Option (List (String × J))
  | [] => some []
  | Tok.member k j :: rest => (parseMore rest).map ((k, j) :: ·)
  | _ => none

/-- well-formed token lists: members separated by single commas -/
def render : List (String × J) → List Tok
  | [] => []
  | [(k, j)] => [Tok.member k j]
  | (k, j) :: rest => Tok.member k j :: Tok.comma :: render rest

end Goag.JsonM
