import GoagModel.Basic
import GoagModel.Embed
import GoagModel.Spec
import GoagModel.Serve
import GoagModel.Ref
import GoagModel.Dir
import GoagModel.JsonModel
import GoagModel.Naming
import GoagModel.Resp
import GoagModel.RespHdr
import GoagModel.Alias
import GoagModel.Props.C08b
/-
  Line-protocol driver: one tab-separated request per line on stdin, one answer line on
  stdout.  The first field selects the model function.  Imports only executable model
  modules and, for the hypotheses of the JSON tree theorems (`wf`, `rt`, `frag`, `leavesOk`, `shapeOk`:
  the driver reports which inputs of a run lie inside the proved fragments), the core-only proof
  modules that define them; no Mathlib, so that it links as a `lean_exe`.
-/
open Goag

def hexOfStr (s : Str) : String := toHex (String.ofList s)

def optHex : Option Str → String
  | none => "none"
  | some s => "v:" ++ hexOfStr s

structure State where
  doc : Option Spec.Doc := none
  api : Option Serve.ApiM := none
  cors : Bool := false
  leaf : Serve.LeafTable := []
  schemas : Option Lean.Json := none
  jleaf : JsonM.LeafDec := []
  docR : Option Resp.DocR := none

def unhexD (h : String) : String := (fromHex h).getD "?bad-hex?"

/-- `k=v1,v2;k2=...` with hex keys and values -/
def parseMulti (s : String) (hexKeys : Bool) : List (String × List String) :=
  if s.isEmpty then [] else
  (s.splitOn ";").filterMap (fun kv =>
    match kv.splitOn "=" with
    | [k, vs] => some (if hexKeys then unhexD k else k, if vs.isEmpty then [] else (vs.splitOn ",").map (fun v => unhexD (v.drop 1).toString))
    | _ => none)

/-! ### C10: response header values (`Goag.RespHdr`) -/

def hdrType? : String → Option RespHdr.HType
  | "int0" => some (.int 0)
  | "int32" => some (.int 32)
  | "int64" => some (.int 64)
  | "bool" => some .bool
  | "str" => some .str
  | _ => none

/-- a field line token `x<hex>`; string payloads stay hex (the model copies them verbatim) -/
def hdrLine (t : RespHdr.HType) (tok : String) : Str :=
  let h := (tok.drop 1).toString
  match t with
  | .str => h.toList
  | _ => (unhexD h).toList

def hdrLines (t : RespHdr.HType) (s : String) : List Str :=
  if s == "-" then [] else (s.splitOn ",").map (hdrLine t)

def hdrLeaf? (t : RespHdr.HType) (s : String) : Option RespHdr.Leaf :=
  match t with
  | .int _ => s.toInt?.map RespHdr.Leaf.int
  | .bool => if s == "true" then some (.bool true) else if s == "false" then some (.bool false) else none
  | .str => if s.startsWith "x" then some (.str (s.drop 1).toString.toList) else none

def hdrVal? (t : RespHdr.HType) (s : String) : Option RespHdr.HVal :=
  if s == "u" then some .unset
  else if s.startsWith "o:" then (hdrLeaf? t (s.drop 2).toString).map RespHdr.HVal.one
  else if s.startsWith "m:" then
    let r := (s.drop 2).toString
    if r.isEmpty then some (.many []) else ((r.splitOn ",").mapM (hdrLeaf? t)).map RespHdr.HVal.many
  else none

def renderLeaf : RespHdr.Leaf → String
  | .int v => toString v
  | .bool b => if b then "true" else "false"
  | .str s => "x" ++ String.ofList s

def renderHVal : Except RespHdr.RErr RespHdr.HVal → String
  | .ok .unset => "u"
  | .ok (.one l) => "o:" ++ renderLeaf l
  | .ok (.many ls) => "m:" ++ ",".intercalate (ls.map renderLeaf)
  | .error .required => "err:required"
  | .error .multiple => "err:multiple"
  | .error .parse => "err:parse"

def renderLines (t : RespHdr.HType) (ls : List Str) : String :=
  if ls.isEmpty then "-" else ",".intercalate (ls.map (fun l => match t with
    | .str => "x" ++ String.ofList l
    | _ => "x" ++ hexOfStr l))

def flag (s : String) : Bool := s == "1"

def refVerdict (st : State) (doc : Spec.Doc) (api : Serve.ApiM) (cors : Bool) (cfg : Serve.Cfg) (req : Serve.Req) : String :=
  if cfg.spec && req.path == api.base ++ "/" ++ api.specName then "spec|-|-|-" else
  match Ref.refRoute doc api.base (cors && cfg.cors) req.method req.path with
  | none => "nf|-|-|-"
  | some (.cors tpl) =>
      match doc.paths.find? (·.raw == tpl) with
      | some pi => s!"cors({",".intercalate (Ref.refCorsMethods pi)};{",".intercalate ((Ref.refCorsHeaders doc pi).toArray.qsort (· < ·)).toList})|-|-|-"
      | none => "cors(?)|-|-|-"
  | some (.op m tpl) =>
    match (doc.paths.find? (·.raw == tpl)).bind (fun pi => pi.ops.find? (·.method == m)) with
    | none => "op(?)|-|-|-"
    | some o =>
      let pp := if (o.parameters.any (·.loc == "path")) then
          match Ref.refPathParams st.leaf api.base tpl o req.path with
          | .ok vs => "ok Path[" ++ ",".intercalate vs ++ "]"
          | .error fs => "err{" ++ ",".intercalate (fs.map (fun (n, k) => toHex n ++ ":" ++ k)) ++ "}"
        else "ok"
      let a := match Ref.refAuth doc o cfg req with
        | .pub => "pub"
        | .ranOneOf acc => "ran{" ++ ",".intercalate (acc.map (fun (s, t) => toHex (s ++ ":" ++ t))) ++ "}"
        | .denied => "401"
      let qh := match Ref.refParams st.leaf o req with
        | .ok (qs, hs) => "ok Query[" ++ ",".intercalate qs ++ "] Headers[" ++ ",".intercalate hs ++ "]"
        | .error fs => "err{" ++ ",".intercalate fs ++ "}"
      -- headers read by the security schemes of the operation's own requirement (goag adds them
      -- to the parsed header parameters; a fault on them is not a fault of a declared parameter)
      let secNames := (Serve.effectiveReqs doc o).flatMap (fun alt => alt.filterMap (fun n =>
        match Serve.schemeOf doc n with
        | some .bearer => some (toHex "Authorization")
        | some (.apiKeyHeader h) => some (toHex h)
        | _ => none))
      s!"op({m} {tpl})|{a}|{pp}|{qh}|sec[{",".intercalate secNames}]"

/-- known-finding classes the input belongs to (decidable predicates over spec, config, request) -/
def kfClasses (doc : Spec.Doc) (api : Serve.ApiM) (cors : Bool) (cfg : Serve.Cfg) (req : Serve.Req) : List String :=
  if cfg.spec && req.path == api.base ++ "/" ++ api.specName then [] else
  match Ref.refRoute doc api.base (cors && cfg.cors) req.method req.path with
  | some (.cors tpl) =>
    match doc.paths.find? (·.raw == tpl) with
    | none => []
    | some pi => if pi.ops.any (fun o => (Serve.effectiveReqs doc o).any (fun a => a.length != 1)) then ["KF-C11-arity"] else []
  | some (.op m tpl) =>
    match (doc.paths.find? (·.raw == tpl)).bind (fun pi => pi.ops.find? (·.method == m)) with
    | none => []
    | some o =>
      let alts := Serve.effectiveReqs doc o
      (if alts.any (fun a => a.length != 1) then ["KF-C11-arity"] else []) ++
      (if alts.any (fun a => a.any (fun n => (Ref.schemeRef doc n).isNone)) then ["KF-C11-unsupported"] else [])
  | none => []

/-- C19 driver: initial pattern (5 owned files: '-' absent, 'S' stale; then 'F'/'-' for one
    foreign file), history "hca:tag,..." (h = hasComponents, c = client, a = api as 0/1) -/
def dirRun (init : String) (hist : String) : String :=
  let names : List Dir.Name := [.components, .handler, .router, .specFile, .client]
  let cs := init.toList
  let d0 : Dir.Dir := fun f =>
    match names.zip cs |>.find? (fun p => p.1 == f) with
    | some (_, 'S') => some (.other 0)
    | some _ => none
    | none => if f == Dir.Name.foreign 0 && cs.getD 5 '-' == 'F' then some (.other 1) else none
  let invs : List Dir.Inv := (hist.splitOn ",").filterMap (fun s =>
    match s.splitOn ":" with
    | [bits, tag] => match bits.toList with
      | [h, c, a] => some { hasComponents := h == '1', client := c == '1', api := a == '1', tag := tag.toNat! }
      | _ => none
    | _ => none)
  let d := Dir.run d0 invs
  let show1 (f : Dir.Name) : String := match d f with
    | none => "-"
    | some (.gen t _) => s!"G{t}"
    | some (.other 0) => "S"
    | some (.other _) => "F"
  " ".intercalate ((names ++ [Dir.Name.foreign 0]).map show1)

def handle (st : State) (fields : List String) : IO (State × String) := do
  match fields with
  | ["embed", id, h] =>
    match fromHex h with
    | none => pure (st, s!"{id}\tbad-input")
    | some s =>
      let e := Embed.encodeRaw s.toList
      pure (st, s!"{id}\t{hexOfStr e}\t{optHex (Embed.goEval e)}")
  | ["embedold", id, h] =>
    match fromHex h with
    | none => pure (st, s!"{id}\tbad-input")
    | some s =>
      let e := Embed.encodeOld s.toList
      pure (st, s!"{id}\t{hexOfStr e}\t{optHex (Embed.goEval e)}")
  | ["goeval", id, h] =>
    match fromHex h with
    | none => pure (st, s!"{id}\tbad-input")
    | some s => pure (st, s!"{id}\t{optHex (Embed.goEval s.toList)}")
  | ["api", pkg, path, baseHex, nameHex, corsF] =>
    let txt ← IO.FS.readFile path
    match Lean.Json.parse txt with
    | .error e => pure ({ st with doc := none, api := none }, s!"{pkg}\tunmodelled:json {e}")
    | .ok j =>
      match Spec.readDoc j with
      | .error e => pure ({ st with doc := none, api := none }, s!"{pkg}\tunmodelled:{e}")
      | .ok doc =>
        match Serve.plan doc (unhexD baseHex) (unhexD nameHex) (flag corsF) with
        | .error e => pure ({ st with doc := some doc, api := none }, s!"{pkg}\tplan-error:{e}")
        | .ok api => pure ({ st with doc := some doc, api := some api, cors := flag corsF, leaf := [] }, s!"{pkg}\tplan-ok base={api.base}")
  | ["jsonspec", pkg, path] =>
    let txt ← IO.FS.readFile path
    match Lean.Json.parse txt with
    | .error e => pure ({ st with schemas := none }, s!"{pkg}\tunmodelled:json {e}")
    | .ok j =>
      match (JsonM.jfield? j "components").bind (JsonM.jfield? · "schemas") with
      | some sc => pure ({ st with schemas := some sc, jleaf := [] }, s!"{pkg}\tschemas-ok")
      | none => pure ({ st with schemas := none }, s!"{pkg}\tunmodelled:no schemas")
  | ["jleaf", kind, canonHex, res] =>
    let r := match res.splitOn "|" with
      | [d, rc] => some (unhexD d, unhexD rc)
      | _ => none
    pure ({ st with jleaf := ((kind, unhexD canonHex), r) :: st.jleaf }, "jleaf-ok")
  | ["jsonenc", id, tname, valHex] =>
    match st.schemas with
    | none => pure (st, s!"{id}\tno-model")
    | some sc =>
      let res : Except String String := do
        let tj ← match JsonM.jfield? sc tname with | some t => pure t | none => throw "no such type"
        let s ← JsonM.readSchema sc 24 tj
        let vj ← Lean.Json.parse (unhexD valHex)
        let v ← JsonM.readVal vj
        let j ← JsonM.toJ s v
        let kf := if JsonM.hasEmbeddedAddl s then "KF-C06-embeddedAddl" else ""
        pure s!"canon={toHex j.canon}\tdump={JsonM.dumpVal s v}\tR:conforms={JsonM.conforms s j}\tK:{kf}\tT:wf={JsonM.wf s v},rt={JsonM.rt st.jleaf s v}"
      match res with
      | .ok r => pure (st, s!"{id}\t{r}")
      | .error e => pure (st, s!"{id}\tunmodelled:{e}")
  | ["jsondec", id, tname, _fault, docHex] =>
    match st.schemas with
    | none => pure (st, s!"{id}\tno-model")
    | some sc =>
      let res : Except String String := do
        let tj ← match JsonM.jfield? sc tname with | some t => pure t | none => throw "no such type"
        let s ← JsonM.readSchema sc 24 tj
        let dj ← Lean.Json.parse (unhexD docHex)
        let j ← JsonM.readJ dj
        let ok := JsonM.conforms s j
        if JsonM.hasEmbeddedAddl s then throw "K:KF-C06-embeddedAddl" else
        match JsonM.decode st.jleaf s j with
        | .error (.unmodelled m) => throw m
        | .error e => pure s!"dec={e.render}\tR:conforms={ok} expect={toHex (JsonM.prune st.jleaf s j).canon}\tT:frag={JsonM.frag s},leaves={JsonM.leavesOk st.jleaf s j},shape={JsonM.shapeOk s j}"
        | .ok v =>
          match JsonM.toJ s v with
          | .ok j2 => pure s!"dec=ok dump={JsonM.dumpVal s v} reenc={toHex j2.canon}\tR:conforms={ok} expect={toHex (JsonM.prune st.jleaf s j).canon} reencConforms={JsonM.conforms s j2}\tT:frag={JsonM.frag s},leaves={JsonM.leavesOk st.jleaf s j},shape={JsonM.shapeOk s j}"
          | .error e => throw s!"re-encode: {e}"
      match res with
      | .ok r => pure (st, s!"{id}\t{r}")
      | .error e => pure (st, s!"{id}\tunmodelled:{e}")
  | ["jsonconf", id, tname, docHex] =>
    match st.schemas with
    | none => pure (st, s!"{id}\tno-model")
    | some sc =>
      let res : Except String String := do
        let tj ← match JsonM.jfield? sc tname with | some t => pure t | none => throw "no such type"
        let s ← JsonM.readSchema sc 24 tj
        let dj ← Lean.Json.parse (unhexD docHex)
        let j ← JsonM.readJ dj
        pure s!"conforms={JsonM.conforms s j}"
      match res with
      | .ok r => pure (st, s!"{id}\t{r}")
      | .error e => pure (st, s!"{id}\tunmodelled:{e}")
  | ["aliascheck", id, h] =>
    -- h: hex of "name>target;name=;..." (alias / definition entries in goag's sorted key order)
    match fromHex h with
    | none => pure (st, s!"{id}\tbad-input")
    | some txt =>
      let m : Alias.CMap := (txt.splitOn ";").filterMap (fun e =>
        if e == "" then none else
        match e.splitOn ">" with
        | [n, t] => some (n, some t)
        | _ => match e.splitOn "=" with
          | [n, _] => some (n, none)
          | _ => none)
      let v := match Alias.check m with | .ok _ => "ok" | .error e => e
      pure (st, s!"{id}\t{v}")
  | ["names", id, h] =>
    match fromHex h with
    | none => pure (st, s!"{id}\tbad-input")
    | some s =>
      if !Naming.asciiName s.toList then pure (st, s!"{id}\tunmodelled") else
      let pub := Naming.publicFieldName s.toList
      pure (st, s!"{id}\t{hexOfStr pub}\t{hexOfStr (Naming.title s.toList)}\t{hexOfStr (Naming.privateFieldName pub)}")
  | ["respspec", pkg, path] =>
    let txt ← IO.FS.readFile path
    match Lean.Json.parse txt with
    | .error e => pure ({ st with docR := none }, s!"{pkg}\tunmodelled:json {e}")
    | .ok j =>
      let d := Resp.readDocR j
      match Resp.rejects d with
      | some why => pure ({ st with docR := some d }, s!"{pkg}\tresp-reject:{why}")
      | none => pure ({ st with docR := some d }, s!"{pkg}\tresp-ok")
  | ["respinfo", id, method, pathHex] =>
    match st.docR with
    | none => pure (st, s!"{id}\tno-model")
    | some d =>
      match d.ops.find? (fun o => o.method == method && o.path == unhexD pathHex) with
      | none => pure (st, s!"{id}\tno-such-op")
      | some o =>
        let impl := Resp.sortStrings (Resp.implementers d o)
        let docu := Resp.sortStrings (Resp.documentedTypes d o)
        let wr := Resp.sortStrings ((Resp.expectedWritten d o).map (fun w =>
          s!"{w.ctor}:{w.status},{w.ct},{"+".intercalate w.headers},{w.body}"))
        pure (st, s!"{id}\tiface={Resp.operationName o}Response\timpl={"+".intercalate impl}\tR:documented={"+".intercalate docu}\twritten={";".intercalate wr}")
  | ["clientstatus", id, method, pathHex, status] =>
    match st.docR with
    | none => pure (st, s!"{id}\tno-model")
    | some d =>
      match d.ops.find? (fun o => o.method == method && o.path == unhexD pathHex) with
      | none => pure (st, s!"{id}\tno-such-op")
      | some o =>
        let arm := match Resp.clientArm (Resp.numberedOf o) (Resp.hasDefault o) status.toNat! with
          | .documented n => s!"documented({n})"
          | .default => "default"
          | .notImplemented => "not-implemented"
        pure (st, s!"{id}\t{arm}")
  | ["hdrrt", id, ty, arr, req, lines, sent] =>
    match hdrType? ty with
    | none => pure (st, s!"{id}\tunmodelled")
    | some t =>
      let d : RespHdr.HDecl := { ty := t, array := flag arr, required := flag req }
      let rd := renderHVal (RespHdr.readLines d (hdrLines t lines))
      match hdrVal? t sent with
      | none => pure (st, s!"{id}\tbad-value\t{rd}")
      | some v => pure (st, s!"{id}\t{renderLines t (RespHdr.writeLines v)}\t{rd}")
  | ["dirrun", id, init, hist] => pure (st, s!"{id}\t{dirRun init hist}")
  | ["leaf", tag, lexHex, res] =>
    pure ({ st with leaf := ((tag, unhexD lexHex), if res == "none" then none else some res) :: st.leaf }, "leaf-ok")
  | ["serve", id, method, pathHex, mws, nf, spec, cors, parse, auth, query, headers] =>
    match st.doc, st.api with
    | some doc, some api =>
      let req : Serve.Req := { method := method, path := unhexD pathHex, query := parseMulti query true, headers := parseMulti headers true }
      let cfg : Serve.Cfg := { mws := mws.toNat!, nf := flag nf, spec := flag spec, cors := flag cors, parse := flag parse, auth := parseMulti auth false }
      let tr := Serve.renderTrace (Serve.serve st.leaf api cfg req)
      pure (st, s!"{id}\t{tr}\tR:{refVerdict st doc api st.cors cfg req}\tK:{",".intercalate (kfClasses doc api st.cors cfg req)}")
    | _, _ => pure (st, s!"{id}\tno-model")
  | _ => pure (st, "bad-op")

partial def loop (h : IO.FS.Stream) (out : IO.FS.Stream) (st : State) : IO Unit := do
  let line ← h.getLine
  if line.isEmpty then return ()
  let l := (line.dropEndWhile (fun c => c == '\n' || c == '\r')).toString
  let (st', ans) ← handle st (l.splitOn "\t")
  out.putStrLn ans
  loop h out st'

def main : IO Unit := do
  let out ← IO.getStdout
  loop (← IO.getStdin) out {}
  out.flush
