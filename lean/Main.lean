import GoagModel.Basic
import GoagModel.Embed
/-
  Line-protocol driver: one tab-separated request per line on stdin, one answer line on
  stdout.  The first field selects the model function.  Imports only executable model
  modules (no Props, no Mathlib) so that it links as a `lean_exe`.
-/
open Goag

def hexOfStr (s : Str) : String := toHex (String.ofList s)

def optHex : Option Str → String
  | none => "none"
  | some s => "v:" ++ hexOfStr s

def handle (fields : List String) : String :=
  match fields with
  | ["embed", id, h] =>
    match fromHex h with
    | none => s!"{id}\tbad-input"
    | some s =>
      let e := Embed.encodeRaw s.toList
      s!"{id}\t{hexOfStr e}\t{optHex (Embed.goEval e)}"
  | ["embedold", id, h] =>
    match fromHex h with
    | none => s!"{id}\tbad-input"
    | some s =>
      let e := Embed.encodeOld s.toList
      s!"{id}\t{hexOfStr e}\t{optHex (Embed.goEval e)}"
  | ["goeval", id, h] =>
    match fromHex h with
    | none => s!"{id}\tbad-input"
    | some s => s!"{id}\t{optHex (Embed.goEval s.toList)}"
  | _ => "bad-op"

partial def loop (h : IO.FS.Stream) (out : IO.FS.Stream) : IO Unit := do
  let line ← h.getLine
  if line.isEmpty then return ()
  let l := (line.dropEndWhile (fun c => c == '\n' || c == '\r')).toString
  out.putStrLn (handle (l.splitOn "\t"))
  loop h out

def main : IO Unit := do
  let out ← IO.getStdout
  loop (← IO.getStdin) out
  out.flush
