import GoagModel.Basic
import GoagModel.Embed
import GoagModel.Props.C13
